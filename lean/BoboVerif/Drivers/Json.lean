import BoboVerif.Model.Json
import BoboVerif.Drivers.Util
/-
driver for M-Json (`bobodrv json`).

The model's encoders are run over a *concrete* `dumps` that reproduces Python's
`json.dumps` defaults (`", "` / `": "` separators, `ensure_ascii`), so the line printed
for a record is the exact text the real `to_json_str()` / `_outgoing_to_json()` must
produce: nesting, key order, and which values are strings-containing-JSON (with their
escaping doubled at every BoboJSONable boundary) are all compared at once.

ops (one per line, tokens separated by single spaces):
  reset                         forget the stored records                      -> ok
  def <Run>                     store a run record                             -> its to_json_str() text
  ev <Ev>                       an event on its own                            -> its to_json_str() text
  hist <Hist>                   a history on its own                           -> its to_json_str() text
  msg <ixs> <ixs> <ixs>         completed / halted / updated as index lists
                                (`0,2,1` or `-`) over the stored records       -> the _outgoing_to_json text
  dicts <ixs> <ixs> <ixs>       number of dicts in the outer parse of that msg -> a number (object-hook calls)
  split <s>                     _split_plaintext                                -> `ok <s> <s> <s> <s> <s>` | `err`

record syntax (prefix form):
  Run  := R <s:run_id> <s:phenomenon> <s:pattern> <int:block_index> <Hist>
  Hist := H <k> ( <s:group> <m> <Ev>^m )^k
  Ev   := S <s:id> <int:ts> <J>
        | C <s:id> <int:ts> <J> <s:phen> <s:pat> <Hist>
        | A <s:id> <int:ts> <J> <s:phen> <s:pat> <s:act> <0|1>
  J    := n | t | f | i<int> | d<float repr> | <s> | a <k> <J>^k | o <k> ( <s> <J> )^k
  s    := x followed by 6 lowercase hex digits per code point (`x` alone = "")
-/
namespace Bobo.Drv.Json
open Bobo.Json

/-! ### Python's `json.dumps` defaults -/

def hexDigit (n : Nat) : Char :=
  if n < 10 then Char.ofNat (48 + n) else Char.ofNat (87 + n)

def hex4 (n : Nat) : String :=
  String.ofList [hexDigit (n / 4096 % 16), hexDigit (n / 256 % 16), hexDigit (n / 16 % 16), hexDigit (n % 16)]

/-- `ESCAPE_ASCII` of json.encoder. -/
def escChar (c : Char) : String :=
  if c = '"' then "\\\""
  else if c = '\\' then "\\\\"
  else if c = '\n' then "\\n"
  else if c = '\r' then "\\r"
  else if c = '\t' then "\\t"
  else if c.toNat = 8 then "\\b"
  else if c.toNat = 12 then "\\f"
  else if 32 ≤ c.toNat ∧ c.toNat ≤ 126 then String.singleton c
  else if c.toNat < 65536 then "\\u" ++ hex4 c.toNat
  else
    let n := c.toNat - 65536
    "\\u" ++ hex4 (55296 + n / 1024) ++ "\\u" ++ hex4 (56320 + n % 1024)

def pyStr (s : String) : String :=
  "\"" ++ s.toList.foldl (fun acc c => acc ++ escChar c) "" ++ "\""

mutual
def pyDumps : JVal → String
  | .null => "null"
  | .bool true => "true"
  | .bool false => "false"
  | .int i => toString i
  | .float r => r
  | .str s => pyStr s
  | .arr xs => "[" ++ dumpsL xs ++ "]"
  | .obj kvs => "{" ++ dumpsKV kvs ++ "}"
def dumpsL : List JVal → String
  | [] => ""
  | x :: rest =>
    match rest with
    | [] => pyDumps x
    | _ :: _ => pyDumps x ++ ", " ++ dumpsL rest
def dumpsKV : List (String × JVal) → String
  | [] => ""
  | (k, x) :: rest =>
    match rest with
    | [] => pyStr k ++ ": " ++ pyDumps x
    | _ :: _ => pyStr k ++ ": " ++ pyDumps x ++ ", " ++ dumpsKV rest
end

/-! ### line syntax -/

def hexVal? (c : Char) : Option Nat :=
  if '0' ≤ c ∧ c ≤ '9' then some (c.toNat - 48)
  else if 'a' ≤ c ∧ c ≤ 'f' then some (c.toNat - 87)
  else none

def decodeCps : List Char → Option (List Char)
  | [] => some []
  | a :: b :: c :: d :: e :: f :: rest =>
    match hexVal? a, hexVal? b, hexVal? c, hexVal? d, hexVal? e, hexVal? f with
    | some a, some b, some c, some d, some e, some f =>
      let n := ((((a * 16 + b) * 16 + c) * 16 + d) * 16 + e) * 16 + f
      if n < 55296 ∨ (57343 < n ∧ n < 1114112) then
        match decodeCps rest with
        | some cs => some (Char.ofNat n :: cs)
        | none => none
      else none
    | _, _, _, _, _, _ => none
  | _ => none

def str? (tok : String) : Option String :=
  match tok.toList with
  | 'x' :: hs => (decodeCps hs).map String.ofList
  | _ => none

def hex6 (n : Nat) : List Char :=
  [hexDigit (n / 1048576 % 16), hexDigit (n / 65536 % 16), hexDigit (n / 4096 % 16),
   hexDigit (n / 256 % 16), hexDigit (n / 16 % 16), hexDigit (n % 16)]

def encStr (cs : List Char) : String :=
  String.ofList ('x' :: cs.flatMap (fun c => hex6 c.toNat))

abbrev Toks := List String

def repeatP {α : Type} (p : Toks → Option (α × Toks)) : Nat → Toks → Option (List α × Toks)
  | 0, ts => some ([], ts)
  | k + 1, ts =>
    match p ts with
    | none => none
    | some (x, ts') =>
      match repeatP p k ts' with
      | none => none
      | some (xs, ts'') => some (x :: xs, ts'')

def parseJ : Nat → Toks → Option (JVal × Toks)
  | 0, _ => none
  | _, [] => none
  | n + 1, tok :: rest =>
    if tok = "n" then some (.null, rest)
    else if tok = "t" then some (.bool true, rest)
    else if tok = "f" then some (.bool false, rest)
    else if tok = "a" then
      match rest with
      | k :: rest' =>
        match k.toNat? with
        | some k => (repeatP (parseJ n) k rest').map (fun (xs, r) => (.arr xs, r))
        | none => none
      | [] => none
    else if tok = "o" then
      match rest with
      | k :: rest' =>
        match k.toNat? with
        | some k =>
          (repeatP (fun ts => match ts with
              | key :: r =>
                match str? key with
                | some ks => (parseJ n r).map (fun (v, r') => ((ks, v), r'))
                | none => none
              | [] => none) k rest').map (fun (kvs, r) => (.obj kvs, r))
        | none => none
      | [] => none
    else
      match tok.toList with
      | 'i' :: ds => (String.ofList ds).toInt?.map (fun i => (.int i, rest))
      | 'd' :: ds => if ds.isEmpty then none else some (.float (String.ofList ds), rest)
      | 'x' :: hs => (decodeCps hs).map (fun cs => (.str (String.ofList cs), rest))
      | _ => none

mutual
def parseEv : Nat → Toks → Option (Ev × Toks)
  | 0, _ => none
  | _ + 1, "S" :: id :: ts :: rest =>
    match str? id, ts.toInt?, parseJ (rest.length + 1) rest with
    | some id, some ts, some (d, r) => some (.simple id ts d, r)
    | _, _, _ => none
  | _ + 1, "A" :: id :: ts :: rest =>
    match str? id, ts.toInt?, parseJ (rest.length + 1) rest with
    | some id, some ts, some (d, ph :: pat :: act :: ok :: r) =>
      match str? ph, str? pat, str? act with
      | some ph, some pat, some act =>
        if ok = "1" then some (.action id ts d ph pat act true, r)
        else if ok = "0" then some (.action id ts d ph pat act false, r)
        else none
      | _, _, _ => none
    | _, _, _ => none
  | n + 1, "C" :: id :: ts :: rest =>
    match str? id, ts.toInt?, parseJ (rest.length + 1) rest with
    | some id, some ts, some (d, ph :: pat :: r) =>
      match str? ph, str? pat, parseHist n r with
      | some ph, some pat, some (h, r') => some (.complex id ts d ph pat h, r')
      | _, _, _ => none
    | _, _, _ => none
  | _ + 1, _ => none
def parseHist : Nat → Toks → Option (Groups × Toks)
  | 0, _ => none
  | n + 1, "H" :: k :: rest =>
    match k.toNat? with
    | some k =>
      (repeatP (fun ts => match ts with
          | g :: m :: r =>
            match str? g, m.toNat? with
            | some g, some m => (repeatP (parseEv n) m r).map (fun (es, r') => ((g, es), r'))
            | _, _ => none
          | _ => none) k rest).map (fun (gs, r) => (Groups.ofList gs, r))
    | none => none
  | _ + 1, _ => none
end

def parseRun (ts : Toks) : Option Run :=
  match ts with
  | "R" :: rid :: ph :: pat :: idx :: rest =>
    match str? rid, str? ph, str? pat, idx.toInt?, parseHist (rest.length + 1) rest with
    | some rid, some ph, some pat, some idx, some (h, []) => some ⟨rid, ph, pat, idx, h⟩
    | _, _, _, _, _ => none
  | _ => none

def parseIxs (runs : Array Run) (tok : String) : Option (List Run) :=
  if tok = "-" then some []
  else mapMO (fun s => match s.toNat? with
      | some i => runs[i]?
      | none => none) (tok.splitOn ",")

structure DS where
  runs : Array Run := #[]

def toks (line : String) : Toks := line.splitOn " "

def step (d : DS) (line : String) : DS × String :=
  match toks line with
  | ["reset"] => ({ runs := #[] }, "ok")
  | "def" :: rest =>
    match parseRun rest with
    | some r => ({ d with runs := d.runs.push r }, runText pyDumps r)
    | none => (d, "bad-op")
  | "ev" :: rest =>
    match parseEv (rest.length + 1) rest with
    | some (e, []) => (d, evText pyDumps e)
    | _ => (d, "bad-op")
  | "hist" :: rest =>
    match parseHist (rest.length + 1) rest with
    | some (h, []) => (d, histText pyDumps h)
    | _ => (d, "bad-op")
  | ["msg", c, h, u] =>
    match parseIxs d.runs c, parseIxs d.runs h, parseIxs d.runs u with
    | some c, some h, some u => (d, msgText pyDumps c h u)
    | _, _, _ => (d, "bad-op")
  | ["dicts", c, h, u] =>
    match parseIxs d.runs c, parseIxs d.runs h, parseIxs d.runs u with
    | some c, some h, some u => (d, toString (encodeMsg pyDumps c h u).dicts)
    | _, _, _ => (d, "bad-op")
  | ["split", s] =>
    match str? s with
    | some p =>
      match splitPlain p.toList with
      | some (urn, key, ty, fl, json) =>
        match parseDec ty, parseDec fl with
        | some ty, some fl =>
          (d, "ok " ++ encStr urn ++ " " ++ encStr key ++ " " ++ toString ty ++ " " ++ toString fl ++ " " ++ encStr json)
        | _, _ => (d, "err")
      | none => (d, "err")
    | none => (d, "bad-op")
  | _ => (d, "bad-op")

end Bobo.Drv.Json
