import BoboVerif.Drivers.Util
/- driver stub for the Json model (to be replaced by the real line protocol). -/
namespace Bobo.Drv.Json

structure DS where
  dummy : Unit := ()

def step (d : DS) (_line : String) : DS × String := (d, "unimplemented")

end Bobo.Drv.Json
