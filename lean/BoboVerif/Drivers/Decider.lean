import BoboVerif.Model.Decider
import BoboVerif.Drivers.Util
/-
Line-protocol driver for M-Run / M-Decider (`bobodrv decider`).

configuration (each answers `ok`):
  reset
  cache <n>                         max_cache
  idprefix <p>                      run ids are <p>0, <p>1, … (default r)
  phen <name>                       start a phenomenon
  pat <name> <0|1>                  start a pattern (singleton flag) in the current phenomenon
  pre <pred>      | halt <pred>     add a precondition or haltcondition to the current pattern
  blk <group|~> <slno> <pred,pred>  add a block; flags = 4 chars 0/1 (strict loop negated optional); `~` = ""
operations:
  ev <id> <ts> <s|c|a> <data>       update() with this event queued  → `<changed> C[..] H[..] U[..] | T[..]` or `X`
  rem C <rec>* H <rec>* U <rec>*    on_distributed_update            → `C[..] H[..] U[..] | T[..]` or `X`
  snap                              snapshot()                       → `C[..] H[..] U[..]`
record  = id|phen|pat|idx|hist      hist = g=e.e;g=e    event = id:ts:kind:data     (`~` = empty group name)
predicates: any | eq:k | ne:k | lt:k | gt:k | kind:<s|c|a> | sizelt:n | gtmax | grplt:<g>:<n> | raiseif:k:<pred> | simple:<pred>
-/
namespace Bobo.Drv.Decider
open Bobo.Run Bobo.Decider

inductive Kind | s | c | a deriving DecidableEq, Repr

structure Ev where
  id   : String
  ts   : Int
  kind : Kind
  data : Int

def kindStr : Kind → String | .s => "s" | .c => "c" | .a => "a"
def parseKind : String → Option Kind | "s" => some .s | "c" => some .c | "a" => some .a | _ => none

def histAll (h : Hist Ev) : List Ev := h.flatMap (·.2)

/-- the shared predicate language (mirrored by harness/predlang.py). -/
def parsePred : List String → Option (Pred Ev)
  | ["any"] => some (fun _ _ => some true)
  | ["eq", k] => k.toInt?.map (fun k => fun e _ => some (decide (e.data = k)))
  | ["ne", k] => k.toInt?.map (fun k => fun e _ => some (decide (e.data ≠ k)))
  | ["lt", k] => k.toInt?.map (fun k => fun e _ => some (decide (e.data < k)))
  | ["gt", k] => k.toInt?.map (fun k => fun e _ => some (decide (e.data > k)))
  | ["kind", k] => (parseKind k).map (fun k => fun e _ => some (decide (e.kind = k)))
  | ["sizelt", n] => n.toNat?.map (fun n => fun _ h => some (decide (Hist.size h < n)))
  | ["gtmax"] => some (fun e h => some ((histAll h).all (fun x => decide (e.data > x.data))))
  | ["grplt", g, n] => n.toNat?.map (fun n => fun _ h =>
      let g' := if g == "~" then "" else g
      some (decide (((lookup g' h).getD []).length < n)))
  | "simple" :: rest =>
    match parsePred rest with
    | some p => some (fun e h => if e.kind = .s then p e h else some false)
    | none => none
  | "raiseif" :: k :: rest =>
    match k.toInt?, parsePred rest with
    | some k, some p => some (fun e h => if e.data = k then none else p e h)
    | _, _ => none
  | _ => none

def parsePredS (s : String) : Option (Pred Ev) := parsePred (s.splitOn ":")

def parsePreds (s : String) : Option (List (Pred Ev)) := (s.splitOn ",").mapM parsePredS

def grp (s : String) : String := if s == "~" then "" else s
def ungrp (s : String) : String := if s == "" then "~" else s

def parseEv (s : String) : Option Ev :=
  match s.splitOn ":" with
  | [id, ts, k, d] =>
    match ts.toInt?, parseKind k, d.toInt? with
    | some ts, some k, some d => some ⟨id, ts, k, d⟩
    | _, _, _ => none
  | _ => none

def parseHist (s : String) : Option (Hist Ev) :=
  if s == "" then some [] else
  (s.splitOn ";").mapM (fun g =>
    match g.splitOn "=" with
    | [name, evs] => ((evs.splitOn ".").mapM parseEv).map (fun es => (grp name, es))
    | _ => none)

def parseRec (s : String) : Option (Rec Ev) :=
  match s.splitOn "|" with
  | [id, ph, pa, idx, h] =>
    match idx.toNat?, parseHist h with
    | some i, some h => some ⟨id, ph, pa, i, h⟩
    | _, _ => none
  | _ => none

def showEv (e : Ev) : String := s!"{e.id}:{e.ts}:{kindStr e.kind}:{e.data}"
def showHist (h : Hist Ev) : String :=
  ";".intercalate (h.map (fun (g, es) => ungrp g ++ "=" ++ ".".intercalate (es.map showEv)))
def showRec (r : Rec Ev) : String := s!"{r.id}|{r.phen}|{r.pat}|{r.idx}|{showHist r.hist}"
def showRecs (rs : List (Rec Ev)) : String := "[" ++ " ".intercalate (rs.map showRec) ++ "]"
def showTable (t : Table Ev) : String :=
  "T[" ++ " ".intercalate (t.all.map (fun (ph, r) =>
    showRec (r.ser ph) ++ (if r.run.halted then "!" else ""))) ++ "]"
def showNotif (n : Notif Ev) : String :=
  s!"C{showRecs n.completed} H{showRecs n.halted} U{showRecs n.updated}"

structure DS where
  phens  : List (Phen Ev) := []       -- being built, reversed order NOT used: appended
  cache  : Nat := 0
  pfx    : String := "r"
  st     : DState Ev := {}

def DS.cfg (d : DS) : Cfg Ev := { phenomena := d.phens, maxCache := d.cache, idOf := fun n => s!"{d.pfx}{n}" }

def modLastPhen (d : DS) (f : Phen Ev → Phen Ev) : Option DS :=
  match d.phens.reverse with
  | [] => none
  | p :: rest => some { d with phens := (f p :: rest).reverse }

def modLastPat (d : DS) (f : Pattern Ev → Pattern Ev) : Option DS :=
  match d.phens.reverse with
  | [] => none
  | p :: rest =>
    match p.patterns.reverse with
    | [] => none
    | q :: qs => some { d with phens := ({ p with patterns := (f q :: qs).reverse } :: rest).reverse }

def parseFlags (s : String) : Option (Bool × Bool × Bool × Bool) :=
  match s.toList with
  | [a, b, c, e] =>
    let ok (x : Char) := x == '0' || x == '1'
    if ok a && ok b && ok c && ok e then some (a == '1', b == '1', c == '1', e == '1') else none
  | _ => none

/-- split `rem C r r H r U r` into the three lists. -/
def splitRem (ws : List String) : Option (List (Rec Ev) × List (Rec Ev) × List (Rec Ev)) :=
  let rec go (ws : List String) (cur : Nat) (c h u : List (Rec Ev)) : Option (List (Rec Ev) × List (Rec Ev) × List (Rec Ev)) :=
    match ws with
    | [] => some (c, h, u)
    | "C" :: rest => go rest 0 c h u
    | "H" :: rest => go rest 1 c h u
    | "U" :: rest => go rest 2 c h u
    | w :: rest =>
      match parseRec w with
      | none => none
      | some r =>
        if cur == 0 then go rest cur (c ++ [r]) h u
        else if cur == 1 then go rest cur c (h ++ [r]) u
        else go rest cur c h (u ++ [r])
  go ws 0 [] [] []

def orBad (d : DS) (o : Option DS) : DS × String :=
  match o with
  | some d' => (d', "ok")
  | none => (d, "bad-op")

def step (d : DS) (line : String) : DS × String :=
  match words line with
  | ["reset"] => ({}, "ok")
  | ["cache", n] => orBad d (n.toNat?.map (fun n => { d with cache := n }))
  | ["idprefix", p] => ({ d with pfx := p }, "ok")
  | ["phen", name] => ({ d with phens := d.phens ++ [{ name := name, patterns := [] }] }, "ok")
  | ["pat", name, sg] =>
    if sg == "0" || sg == "1" then
      orBad d (modLastPhen d (fun p => { p with patterns := p.patterns ++
        [{ name := name, blocks := [], pre := [], halt := [], singleton := sg == "1" }] }))
    else (d, "bad-op")
  | ["pre", p] => orBad d ((parsePredS p).bind (fun p => modLastPat d (fun q => { q with pre := q.pre ++ [p] })))
  | ["halt", p] => orBad d ((parsePredS p).bind (fun p => modLastPat d (fun q => { q with halt := q.halt ++ [p] })))
  | ["blk", g, fl, ps] =>
    match parseFlags fl, parsePreds ps with
    | some (s, l, n, o), some ps =>
      orBad d (modLastPat d (fun q => { q with blocks := q.blocks ++
        [{ preds := ps, group := grp g, strict := s, loop := l, negated := n, optional := o }] }))
    | _, _ => (d, "bad-op")
  | ["ev", id, ts, k, dat] =>
    match ts.toInt?, parseKind k, dat.toInt? with
    | some ts, some k, some dat =>
      match localStep d.cfg d.st ⟨id, ts, k, dat⟩ with
      | none => (d, "X")
      | some (s', n, ch) => ({ d with st := s' }, s!"{boolStr ch} {showNotif n} | {showTable s'.table}")
    | _, _, _ => (d, "bad-op")
  | "rem" :: rest =>
    match splitRem rest with
    | none => (d, "bad-op")
    | some (c, h, u) =>
      match remoteStep d.cfg d.st c h u with
      | none => (d, "X")
      | some (s', n) => ({ d with st := s' }, s!"{showNotif n} | {showTable s'.table}")
  | ["snap"] =>
    let (c, h, u) := snapshot d.cfg d.st
    (d, s!"C{showRecs c} H{showRecs h} U{showRecs u}")
  | _ => (d, "bad-op")

end Bobo.Drv.Decider
