import BoboVerif.Model.Builder
import BoboVerif.Drivers.Util
/-
driver for M-Builder (`bobodrv builder`).  Predicates are named by natural numbers; the model is
parametric in the predicates, so the driver instantiates `ε := Nat`, predicate `k := fun e _ => e == k`,
and recovers the identity of a block's predicates by probing them with the ids seen so far.

  new <name|~> <0|1>                                  -> ok | err builder
  call <method> <group|~> <times|-> <loop|-> <optional|-> <ids|->
        method ∈ next not_next followed_by not_followed_by followed_by_any not_followed_by_any;
        `-` = argument omitted (default); loop/optional must be `-` for methods without that parameter;
        ids = one id (single-predicate methods) / comma separated, `-` = empty list (`_any` methods)
                                                      -> ok +<n> <block>* | err block
  pre <id> / halt <id>                                -> ok
  gen                                                 -> ok <name> <singleton> B[<block>*] P[ids] H[ids] | err pattern
  rawblk <slno> <npreds>                              -> ok | err block        (BoboPatternBlock(...) directly)
  rawpat <name|~> <slno,slno,..|->                    -> ok | err block | err pattern
        (one-predicate blocks constructed left to right, then BoboPattern(name, blocks, [], []))
  typed <subtype> <cast> <isinstance> <exacttype> <castok>
                                                      -> res=<true|false|raise> handed=<none|orig|cast> orig=<same|changed>
  <block> = group:strict loop negated optional:ids   (`~` = empty group name)
-/
namespace Bobo.Drv.Builder
open Bobo.Run Bobo.Builder

structure DS where
  st    : Option (St Nat) := none
  maxId : Nat := 0

def mkPred (k : Nat) : Pred Nat := fun e _ => some (e == k)

def predId (maxId : Nat) (p : Pred Nat) : String :=
  match (List.range (maxId + 1)).find? (fun k => p k [] == some true) with
  | some k => toString k
  | none => "?"

def grpStr (g : String) : String := if g.isEmpty then "~" else g
def grpParse (g : String) : String := if g = "~" then "" else g

def showIds (maxId : Nat) (ps : List (Pred Nat)) : String :=
  ",".intercalate (ps.map (predId maxId))

def showBlock (maxId : Nat) (b : Block Nat) : String :=
  grpStr b.group ++ ":" ++ boolStr b.strict ++ boolStr b.loop ++ boolStr b.negated ++ boolStr b.optional
    ++ ":" ++ showIds maxId b.preds

def showBlocks (maxId : Nat) (bs : List (Block Nat)) : String :=
  " ".intercalate (bs.map (showBlock maxId))

def parseMethod : String → Option Method
  | "next" => some .next
  | "not_next" => some .notNext
  | "followed_by" => some .followedBy
  | "not_followed_by" => some .notFollowedBy
  | "followed_by_any" => some .followedByAny
  | "not_followed_by_any" => some .notFollowedByAny
  | _ => none

def parseBool? : String → Option Bool
  | "0" => some false
  | "1" => some true
  | _ => none

/-- an optional argument: `-` = omitted (`some none`), otherwise parsed; `none` = malformed. -/
def optArg {α} (parse : String → Option α) (s : String) : Option (Option α) :=
  if s = "-" then some none else (parse s).map some

def parseIds (s : String) : Option (List Nat) :=
  if s = "-" then some [] else (s.splitOn ",").mapM parseNat?

def doCall (d : DS) (s : St Nat) (m g t l o ids : String) : DS × String :=
  match parseMethod m, optArg parseInt? t, optArg parseBool? l, optArg parseBool? o, parseIds ids with
  | some meth, some times, some loop, some opt, some ks =>
    if (loop.isSome && !meth.hasLoop) || (opt.isSome && !meth.hasOptional) then (d, "bad-op")
    else if !meth.usesList && ks.length ≠ 1 then (d, "bad-op")
    else
      let c : Call Nat :=
        { method := meth, pred := mkPred (ks.headD 0), preds := ks.map mkPred, group := if g = "-" then "" else grpParse g,
          times := times.getD 1, loop := loop.getD false, optional := opt.getD false }
      let mx := ks.foldl max d.maxId
      let r := applyCall s c
      let d' : DS := { st := some r.1, maxId := mx }
      match r.2 with
      | some .block => (d', "err block")
      | some .pattern => (d', "err pattern")
      | some .builder => (d', "err builder")
      | none =>
        let added := r.1.blocks.drop s.blocks.length
        (d', "ok +" ++ toString added.length ++ (if added.isEmpty then "" else " " ++ showBlocks mx added))
  | _, _, _, _, _ => (d, "bad-op")

def doTyped (a b c e f : String) : String :=
  match parseBool? a, parseBool? b, parseBool? c, parseBool? e, parseBool? f with
  | some subtype, some doCast, some inst, some exact, some castOk =>
    let t : Typed Nat :=
      { isInst := fun x => if x = 0 then inst else true, isExact := fun x => if x = 0 then exact else true,
        cast := fun _ => if castOk then some 1 else none, subtype := subtype, doCast := doCast }
    let ev : Ev Nat Unit := { data := 0, rest := () }
    let r := evalTyped t (fun (_ : Ev Nat Unit) (_ : Unit) => some true) ev ()
    let res := match r.result with | some true => "true" | some false => "false" | none => "raise"
    let handed := match r.handed with
      | none => "none"
      | some x => if x.data = 0 then "orig" else "cast"
    "res=" ++ res ++ " handed=" ++ handed ++ " orig=" ++ (if r.orig.data = 0 then "same" else "changed")
  | _, _, _, _, _ => "bad-op"

def parseFlags (s : String) : Option (Bool × Bool × Bool × Bool) :=
  match s.toList.map (fun c => if c = '1' then some true else if c = '0' then some false else none) with
  | [some a, some b, some c, some e] => some (a, b, c, e)
  | _ => none

def rawBlock (fl : Bool × Bool × Bool × Bool) (npreds : Nat) : Block Nat :=
  { preds := (List.range npreds).map mkPred, group := "", strict := fl.1, loop := fl.2.1,
    negated := fl.2.2.1, optional := fl.2.2.2 }

def doRawPat (name fls : String) : String :=
  let toks := if fls = "-" then [] else fls.splitOn ","
  match toks.mapM parseFlags with
  | none => "bad-op"
  | some fs =>
    let bs := fs.map (fun f => rawBlock f 1)
    if !(bs.all Block.legal) then "err block"
    else if ctorOk ({ name := grpParse name, blocks := bs, pre := [], halt := [], singleton := false } : Pattern Nat)
      then "ok" else "err pattern"

def step (d : DS) (line : String) : DS × String :=
  match words line, d.st with
  | ["new", name, sg], _ =>
    match parseBool? sg with
    | some b =>
      match (init (grpParse name) b : Except Err (St Nat)) with
      | .ok s => ({ st := some s, maxId := 0 }, "ok")
      | .error _ => ({ st := none, maxId := 0 }, "err builder")
    | none => (d, "bad-op")
  | ["call", m, g, t, l, o, ids], some s => doCall d s m g t l o ids
  | ["pre", k], some s =>
    match parseNat? k with
    | some k =>
      let r := applyCall s { method := .precondition, pred := mkPred k }
      ({ st := some r.1, maxId := max d.maxId k }, "ok")
    | none => (d, "bad-op")
  | ["halt", k], some s =>
    match parseNat? k with
    | some k =>
      let r := applyCall s { method := .haltcondition, pred := mkPred k }
      ({ st := some r.1, maxId := max d.maxId k }, "ok")
    | none => (d, "bad-op")
  | ["gen"], some s =>
    match generate s with
    | .ok p =>
      (d, "ok " ++ p.name ++ " " ++ boolStr p.singleton ++ " B[" ++ showBlocks d.maxId p.blocks ++ "] P["
            ++ showIds d.maxId p.pre ++ "] H[" ++ showIds d.maxId p.halt ++ "]")
    | .error .pattern => (d, "err pattern")
    | .error .block => (d, "err block")
    | .error .builder => (d, "err builder")
  | ["typed", a, b, c, e, f], _ => (d, doTyped a b c e f)
  | ["rawblk", fl, n], _ =>
    match parseFlags fl, parseNat? n with
    | some f, some k => (d, if (rawBlock f k).legal then "ok" else "err block")
    | _, _ => (d, "bad-op")
  | ["rawpat", name, fls], _ => (d, doRawPat name fls)
  | _, _ => (d, "bad-op")

end Bobo.Drv.Builder
