import BoboVerif.Model.Engine
import BoboVerif.Drivers.Util
/-
driver for M-Engine (`bobodrv engine`).  The matcher is scripted: every `update`
line carries the notifications the real decider produced, in order.

  cfg <tR> <tD> <tP> <tF> <early 0|1> <validator all|int|str|intstr> <localOnly 0|1>   -> ok   (resets everything)
  phen <name> <P|F|B> <datagen -|cnt|grp|k<int>> <action -|<name>:<t|f|h>>              -> ok
  add raw <data>            data = none | i<int> | s<letters>
  add sev <id> <ts> <data>  an already-built simple event
  update [dec <nc> <nh> <nu> <rec>…]…      rec = runid|phen|pat|idx|hist ; hist = - or g=e1+e2/g2=e3

  step <R|D|P|F> [dec …]   one `update()` of a single task (fine-grained interleaving)

answer to add/update/step:
  sz <rq> <dq> <pq> <fq> <hq> | pub <events> | cx <events> | ac <events> | ex <name@cevid…> | err <-|text> | script <ok|under|left<k>> | ret <-|0|1>
-/
namespace Bobo.Drv.Engine
open Bobo.Engine

/-- scripted matcher state: notifications still to hand out, underflow flag. -/
abbrev Script := List Notif × Bool

def scripted (s : Script) (_e : Event) : Script × Notif :=
  match s.1 with
  | n :: rest => ((rest, s.2), n)
  | [] => (([], true), ⟨[], [], []⟩)

structure PhenD where
  name  : String
  inP   : Bool
  inF   : Bool
  dg    : String
  act   : String

structure DS where
  cfg   : Cfg := {}
  valid : String := "all"
  localOnly : Bool := true
  phens : List PhenD := []
  st    : St Script := init ([], false)
  ready : Bool := false

def histCount (h : Hist) : Nat := (h.map (fun g => g.2.length)).foldl (· + ·) 0

def datagenFn (spec : String) : Option (Option (Hist → Data)) :=
  if spec = "-" then some none
  else if spec = "cnt" then some (some fun h => .int (histCount h))
  else if spec = "grp" then some (some fun h => .int h.length)
  else if spec.startsWith "k" then
    match (spec.drop 1).toInt? with
    | some k => some (some fun _ => .int k)
    | none => none
  else none

def actionFn (spec : String) : Option (Option (String × (Event → Bool × Data))) :=
  if spec = "-" then some none
  else match spec.splitOn ":" with
    | [name, "t"] => some (some (name, fun e => (true, e.data)))
    | [name, "f"] => some (some (name, fun _ => (false, .none)))
    | [name, "h"] => some (some (name, fun e => (histCount e.hist % 2 == 0, .str e.phen)))
    | _ => none

def dataOk (v : String) (d : Data) : Bool :=
  match v, d with
  | "all", _ => true
  | "int", .int _ => true
  | "str", .str _ => true
  | "intstr", .int _ => true
  | "intstr", .str _ => true
  | _, _ => false

def validFn (v : String) : Item → Bool
  | .raw d => dataOk v d
  | .ev e => dataOk v e.data

def params (d : DS) : Params Script :=
  { decide := scripted
    isValid := validFn d.valid
    datagenOf := fun n =>
      match d.phens.find? (fun p => p.inP && p.name == n) with
      | some p => datagenFn p.dg
      | none => none
    actionOf := fun n =>
      match d.phens.find? (fun p => p.inF && p.name == n) with
      | some p => (actionFn p.act).bind id
      | none => none
    localOnly := d.localOnly
    idOf := fun k => "e" ++ toString k
    tsOf := fun k => (k : Int) }

def parseData (t : String) : Option Data :=
  if t = "none" then some .none
  else if t.startsWith "i" then (t.drop 1).toInt?.map .int
  else if t.startsWith "s" then some (.str (t.drop 1).toString)
  else none

def showData : Data → String
  | .none => "none"
  | .int n => "i" ++ toString n
  | .str s => "s" ++ s

def parseHist (t : String) : Option Hist :=
  if t = "-" then some []
  else
    (t.splitOn "/").mapM fun g =>
      match g.splitOn "=" with
      | [name, ids] => some (name, if ids = "" then [] else ids.splitOn "+")
      | _ => none

def showHist (h : Hist) : String :=
  if h.isEmpty then "-"
  else "/".intercalate (h.map fun g => g.1 ++ "=" ++ "+".intercalate g.2)

def parseRec (t : String) : Option RunRec :=
  match t.splitOn "|" with
  | [rid, ph, pa, idx, h] =>
    match idx.toNat?, parseHist h with
    | some i, some hh => some ⟨rid, ph, pa, i, hh⟩
    | _, _ => none
  | _ => none

/-- parse `dec nc nh nu rec…` groups. -/
def parseScript : Nat → List String → Option (List Notif)
  | _, [] => some []
  | 0, _ => none
  | fuel + 1, "dec" :: a :: b :: c :: rest =>
    match a.toNat?, b.toNat?, c.toNat? with
    | some nc, some nh, some nu =>
      if rest.length < nc + nh + nu then none
      else
        match (rest.take nc).mapM parseRec, ((rest.drop nc).take nh).mapM parseRec,
              ((rest.drop (nc + nh)).take nu).mapM parseRec with
        | some cs, some hs, some us =>
          (parseScript fuel (rest.drop (nc + nh + nu))).map (⟨cs, hs, us⟩ :: ·)
        | _, _, _ => none
    | _, _, _ => none
  | _, _ => none

def showEvent (e : Event) : String :=
  match e.kind with
  | .simple => s!"S({e.id},{e.ts},{showData e.data})"
  | .complex => s!"C({e.id},{e.ts},{showData e.data},{e.phen},{e.pat},{showHist e.hist})"
  | .action => s!"A({e.id},{e.ts},{showData e.data},{e.phen},{e.pat},{e.actName},{boolStr e.success})"

def showEvents (es : List Event) : String :=
  if es.isEmpty then "-" else ";".intercalate (es.map showEvent)

def report (old new : St Script) (scriptInfo : String) (ret : String := "-") : String :=
  let pub := new.published.drop old.published.length
  let cx := (new.complexes.drop old.complexes.length).map (·.1)
  let ac := new.actions.drop old.actions.length
  let ex := new.execs.drop old.execs.length
  let exs := if ex.isEmpty then "-" else ";".intercalate (ex.map fun x => x.actName ++ "@" ++ x.cev.id)
  s!"sz {new.rq.length} {new.dq.length} {new.pq.length} {new.fq.length} {new.hq.length} | pub {showEvents pub} | cx {showEvents cx} | ac {showEvents ac} | ex {exs} | err {new.err.getD "-"} | script {scriptInfo} | ret {ret}"

def step (d : DS) (line : String) : DS × String :=
  match words line with
  | ["cfg", a, b, c, e, es, v, lo] =>
    match a.toNat?, b.toNat?, c.toNat?, e.toNat? with
    | some tR, some tD, some tP, some tF =>
      if (es = "0" || es = "1") && (lo = "0" || lo = "1") && (["all", "int", "str", "intstr"].contains v) then
        ({ cfg := ⟨tR, tD, tP, tF, es = "1"⟩, valid := v, localOnly := lo = "1", phens := [],
           st := init ([], false), ready := true }, "ok")
      else (d, "bad-op")
    | _, _, _, _ => (d, "bad-op")
  | ["phen", name, wh, dg, act] =>
    if !d.ready then (d, "bad-op")
    else if !(["P", "F", "B"].contains wh) then (d, "bad-op")
    else
      match datagenFn dg, actionFn act with
      | some _, some _ =>
        ({ d with phens := d.phens ++ [⟨name, wh != "F", wh != "P", dg, act⟩] }, "ok")
      | _, _ => (d, "bad-op")
  | ["add", "raw", t] =>
    if !d.ready then (d, "bad-op") else
    match parseData t with
    | some x =>
      let s' := applyOp (params d) d.cfg d.st (.add (.raw x))
      ({ d with st := s' }, report d.st s' "ok")
    | none => (d, "bad-op")
  | ["add", "sev", i, ts, t] =>
    if !d.ready then (d, "bad-op") else
    match ts.toInt?, parseData t with
    | some tt, some x =>
      let s' := applyOp (params d) d.cfg d.st (.add (.ev { kind := .simple, id := i, ts := tt, data := x }))
      ({ d with st := s' }, report d.st s' "ok")
    | _, _ => (d, "bad-op")
  | "update" :: rest =>
    if !d.ready then (d, "bad-op") else
    match parseScript (rest.length + 1) rest with
    | some ns =>
      let s0 := { d.st with ds := (ns, false) }
      let s' := applyOp (params d) d.cfg s0 .update
      let info := if s'.ds.2 then "under" else if s'.ds.1.isEmpty then "ok" else s!"left{s'.ds.1.length}"
      ({ d with st := s' }, report d.st s' info (if s'.err.isSome then "-" else "1"))
    | none => (d, "bad-op")
  | "step" :: t :: rest =>
    if !d.ready then (d, "bad-op") else
    let task? : Option Task := match t with
      | "R" => some .receiver | "D" => some .decider | "P" => some .producer | "F" => some .forwarder
      | _ => none
    match task?, parseScript (rest.length + 1) rest with
    | some task, some ns =>
      let s0 := { d.st with ds := (ns, false), err := none }
      let r := taskUpdate (params d) task s0
      let s' := r.1
      let info := if s'.ds.2 then "under" else if s'.ds.1.isEmpty then "ok" else s!"left{s'.ds.1.length}"
      ({ d with st := s' }, report d.st s' info (if s'.err.isSome then "-" else boolStr r.2))
    | _, _ => (d, "bad-op")
  | _ => (d, "bad-op")

end Bobo.Drv.Engine
