import BoboVerif.Drivers.Util
/- driver stub for the Engine model (to be replaced by the real line protocol). -/
namespace Bobo.Drv.Engine

structure DS where
  dummy : Unit := ()

def step (d : DS) (_line : String) : DS × String := (d, "unimplemented")

end Bobo.Drv.Engine
