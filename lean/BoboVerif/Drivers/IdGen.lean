import BoboVerif.Model.IdGen
import BoboVerif.Drivers.Util
/- driver: `new <urn|->` resets the generator; `gen <now>` prints the id. -/
namespace Bobo.Drv.IdGen
open Bobo.IdGen

structure DS where
  urn : Option String := none
  st  : St := init

def step (d : DS) (line : String) : DS × String :=
  match words line with
  | ["new", u] => ({ urn := if u = "-" then none else some u, st := init }, "ok")
  | ["gen", t] =>
    match parseInt? t with
    | some now =>
      let (s', o) := Bobo.IdGen.step d.st now
      ({ d with st := s' }, fmt d.urn o)
    | none => (d, "bad-op")
  | _ => (d, "bad-op")

end Bobo.Drv.IdGen
