/- shared helpers for the line-protocol drivers (no Mathlib). -/
namespace Bobo.Drv

def words (s : String) : List String :=
  (s.splitOn " ").filter (· ≠ "")

def parseInt? (s : String) : Option Int := s.toInt?
def parseNat? (s : String) : Option Nat := s.toNat?

/-- generic read-eval-print loop: one output line per input line. -/
partial def loop {σ : Type} (step : σ → String → σ × String) (h : IO.FS.Stream) (out : IO.FS.Stream) (s : σ) : IO Unit := do
  let line ← h.getLine
  if line.isEmpty then
    out.flush
    return ()
  let l := (line.dropEndWhile (fun c => c == '\n' || c == '\r')).toString
  let (s', o) := step s l
  out.putStrLn o
  loop step h out s'

def boolStr (b : Bool) : String := if b then "1" else "0"

end Bobo.Drv
