import BoboVerif.Lemmas.ClusterRefine
import BoboVerif.Lemmas.LocalExact
/-!
Clusters of decider states with link faults: besides inputs and deliveries (Model/ClusterD.lean) an
instance may add its full snapshot to what is in flight to a peer, or drop everything in flight to a peer and
send a snapshot instead (RESYNC) — successfully, or not (the pair is then "resync pending").  The snapshot is the
decider's `snapshot()`: the two memories and every stored run.  Key lemma: what the snapshot says about a run key
is exactly what the instance knows about it (`msgSt_snapshot`).  The extended cluster refines the network model
`Bobo.Net` step by step, so `heal_converges` lifts to clusters of decider states.
-/
namespace Bobo.Decider
open Bobo.Run Bobo.Lattice
set_option linter.unusedSimpArgs false
set_option linter.unusedVariables false
variable {ε : Type}

/-- the records of a bucket that name one key: the run stored under it. -/
theorem bucket_ser_filter (ph pa id : String) (rs : List (LRun ε)) (hids : (rs.map (·.run.id)).Nodup)
    (hnames : ∀ r ∈ rs, r.pat.name = pa) :
    (rs.map (fun r => r.ser ph)).filter (keyMatch ph pa id) =
      ((rs.find? (fun r => r.run.id == id)).toList).map (fun r => r.ser ph) := by
  induction rs with
  | nil => rfl
  | cons r rest ih =>
    simp only [List.map_cons, List.nodup_cons] at hids
    have hn := hnames r (List.mem_cons_self ..)
    have ih' := ih hids.2 (fun x hx => hnames x (List.mem_cons_of_mem _ hx))
    by_cases hr : r.run.id = id
    · have hk : keyMatch ph pa id (r.ser ph) = true := (keyMatch_ser ph pa id ph r).mpr ⟨rfl, hn, hr⟩
      have hf : (r.run.id == id) = true := by simpa using hr
      have hrest : (rest.map (fun r => r.ser ph)).filter (keyMatch ph pa id) = [] := by
        rw [List.filter_eq_nil_iff]
        intro x hx hkx
        obtain ⟨y, hy, e⟩ := List.mem_map.mp hx
        subst e
        have := ((keyMatch_ser ph pa id ph y).mp hkx).2.2
        exact hids.1 (List.mem_map.mpr ⟨y, hy, by rw [this, hr]⟩)
      simp [List.filter_cons, hk, List.find?_cons, hf, hrest]
    · have hk : keyMatch ph pa id (r.ser ph) = false := by
        cases h : keyMatch ph pa id (r.ser ph) with
        | false => rfl
        | true => exact absurd ((keyMatch_ser ph pa id ph r).mp h).2.2 hr
      have hf : (r.run.id == id) = false := by simpa using hr
      simp only [List.map_cons, List.filter_cons, hk, Bool.false_eq_true, if_false, List.find?_cons, hf]
      exact ih'

theorem all_eq_buckets (t : Table ε) :
    t.all.map (fun x => x.2.ser x.1) = t.buckets.flatMap (fun b => b.2.2.map (fun r => r.ser b.1)) := by
  unfold Table.all Table.buckets
  simp only [List.map_flatMap, List.flatMap_assoc, List.flatMap_map, List.map_map, Function.comp_def]

/-- the serialised runs of a table that name one key: the run stored under it. -/
theorem all_filter_key (t : Table ε) (h : TableWF t) (ph pa id : String) :
    (t.all.map (fun x => x.2.ser x.1)).filter (keyMatch ph pa id) =
      ((t.runAt ph pa id).toList).map (fun r => r.ser ph) := by
  rw [all_eq_buckets]
  have := buckets_filter_key t h ph pa id (fun bph brs => brs.map (fun r => r.ser bph)) rfl
    (fun bph bpa brs hn x hx => by
      obtain ⟨y, hy, e⟩ := List.mem_map.mp hx
      subst e
      exact ⟨rfl, hn y hy⟩)
  rw [this, runAt_def]
  exact bucket_ser_filter ph pa id _ (h.ids ph pa) (h.names ph pa)

/-- **the snapshot says about every key exactly what the instance knows about it.** -/
theorem absMsg_snapshot (c : Cfg ε) (hc : c.caching = true) (s : DState ε) (h : TableWF s.table) (ph pa id : String) :
    absMsg (snapshot c s).1 (snapshot c s).2.1 (snapshot c s).2.2 ph pa id = abs s ph pa id := by
  unfold snapshot absMsg abs
  simp only [hc, if_true]
  have hupd : joinAll (((s.table.all.map (fun x => x.2.ser x.1)).filter (keyMatch ph pa id)).map recSt) =
      stOf (s.table.runAt ph pa id) := by
    rw [all_filter_key s.table h]
    cases s.table.runAt ph pa id with
    | none => simp [joinAll, stOf]
    | some r => simp [joinAll, stOf, recSt, LRun.ser, join_bot_right, join_bot_left]
  have hmap : s.table.all.map (fun x => x.2.ser x.1) = s.table.all.map (fun x => match x with | (ph, r) => r.ser ph) := by
    apply List.map_congr_left; intro x _; rfl
  rw [← hmap, hupd]
  have hv : (stOf (s.table.runAt ph pa id)).Valid := stOf_valid _
  have hle : stOf (s.table.runAt ph pa id) ≤ halted := stOf_le_halted _
  simp only [inCache]
  by_cases hC : s.cacheC.any (fun x => x.id == id) = true
  · simp only [hC, if_true]
    refine join_completed_left (join_valid ?_ hv)
    split
    · exact halted_valid
    · exact bot_valid
  · have hC' : s.cacheC.any (fun x => x.id == id) = false := by simpa using hC
    simp only [hC', Bool.false_eq_true, if_false, join_bot_left]
    by_cases hH : s.cacheH.any (fun x => x.id == id) = true
    · simp only [hH, if_true]
      exact join_eq_left hle
    · have hH' : s.cacheH.any (fun x => x.id == id) = false := by simpa using hH
      simp only [hH', Bool.false_eq_true, if_false, join_bot_left]

end Bobo.Decider

namespace Bobo.ClusterD
open Bobo.Run Bobo.Decider Bobo.Lattice
set_option linter.unusedSimpArgs false
set_option linter.unusedVariables false
variable {ε : Type}

/-- a cluster with link faults: the cluster state plus, per ordered pair, "a RESYNC is owed". -/
structure FState (n : Nat) (ε : Type) where
  cs : CState n ε
  pend : Fin n → Fin n → Bool

inductive FStep (n : Nat) (ε : Type) where
  | base (st : CStep n ε)                    -- input at an instance / delivery of any pending message
  | snapshot (i j : Fin n)                   -- i adds its full snapshot to what is in flight to j
  | resync (i j : Fin n) (ok : Bool)         -- i drops its backlog for j and sends a snapshot (or the send fails)

/-- the message carrying `snapshot()`. -/
def snapMsg (c : Cfg ε) (s : DState ε) : Msg ε := ⟨(snapshot c s).1, (snapshot c s).2.1, (snapshot c s).2.2⟩

def setFlight {n : Nat} (f : Fin n → Fin n → List (Msg ε)) (i j : Fin n) (v : List (Msg ε)) :
    Fin n → Fin n → List (Msg ε) := fun a b => if a = i ∧ b = j then v else f a b

def setPend {n : Nat} (f : Fin n → Fin n → Bool) (i j : Fin n) (v : Bool) : Fin n → Fin n → Bool :=
  fun a b => if a = i ∧ b = j then v else f a b

def fstep {n : Nat} (c : Cfg ε) (fs : FState n ε) : FStep n ε → Option (FState n ε)
  | .base st => (cstep c fs.cs st).map (fun cs' => { fs with cs := cs' })
  | .snapshot i j =>
    some { fs with cs := { fs.cs with flight := setFlight fs.cs.flight i j (fs.cs.flight i j ++ [snapMsg c (fs.cs.node i)]) } }
  | .resync i j ok =>
    if ok then some { cs := { fs.cs with flight := setFlight fs.cs.flight i j [snapMsg c (fs.cs.node i)] },
                      pend := setPend fs.pend i j false }
    else some { cs := { fs.cs with flight := setFlight fs.cs.flight i j [] }, pend := setPend fs.pend i j true }

def frun {n : Nat} (c : Cfg ε) : FState n ε → List (FStep n ε) → Option (FState n ε)
  | fs, [] => some fs
  | fs, st :: rest => match fstep c fs st with
    | none => none
    | some fs' => frun c fs' rest

def finit (n : Nat) (ε : Type) : FState n ε := { cs := cinit n ε, pend := fun _ _ => false }

/-- simulation relation with the network model for one key. -/
structure RF {n : Nat} (ph pa id : String) (fs : FState n ε) (ns : Bobo.Net.St n) : Prop where
  know : ∀ i, ns.know i = abs (fs.cs.node i) ph pa id
  flight : ∀ i j, ns.flight i j = (fs.cs.flight i j).map (msgSt ph pa id)
  pending : ∀ i j, ns.pending i j = fs.pend i j
  wf : ∀ i, TableWF (fs.cs.node i).table

theorem msgSt_snapshot (c : Cfg ε) (hc : c.caching = true) (s : DState ε) (h : TableWF s.table) (ph pa id : String) :
    msgSt ph pa id (snapMsg c s) = abs s ph pa id := absMsg_snapshot c hc s h ph pa id


theorem RF.toR {n : Nat} {ph pa id : String} {fs : FState n ε} {ns : Bobo.Net.St n} (h : RF ph pa id fs ns) :
    True := trivial

/-- one step of the cluster with faults is matched by steps of the network model. -/
theorem fsim_step {n : Nat} (c : Cfg ε) (hc : c.caching = true) (hns : NoSing c)
    (ph pa id : String) (hk : (c.getPattern ph pa).isSome = true)
    (fs fs' : FState n ε) (ns : Bobo.Net.St n) (hR : RF ph pa id fs ns) (hI : Bobo.Net.Inv ns)
    (st : FStep n ε) (hstep : fstep c fs st = some fs') :
    ∃ ns', RF ph pa id fs' ns' ∧ Bobo.Net.Inv ns' := by
  cases st with
  | base bst =>
    simp only [fstep] at hstep
    cases hb : cstep c fs.cs bst with
    | none => simp [hb] at hstep
    | some cs' =>
      simp only [hb, Option.map_some, Option.some.injEq] at hstep
      subst hstep
      -- reuse the fault-free simulation on a network state whose `pending` is all false: the base steps neither read
      -- nor write `pending`, so we run them on the state with `pending` erased and put it back afterwards
      let ns0 : Bobo.Net.St n := { ns with pending := fun _ _ => false }
      have hR0 : R ph pa id fs.cs ns0 := ⟨hR.know, hR.flight, fun _ _ => rfl, hR.wf⟩
      -- the invariant of ns0 is not needed by `sim_step` for the relation; we prove the relation by the same case
      -- analysis directly on `ns`
      cases bst with
      | input i e =>
        simp only [cstep] at hb
        cases hl : localStep c (fs.cs.node i) e with
        | none => simp [hl] at hb
        | some r =>
          obtain ⟨s', nt, ch⟩ := r
          simp only [hl] at hb
          by_cases hroom : roomFor c (fs.cs.node i) nt.completed nt.halted = true
          · simp only [hroom, Bool.not_true, Bool.false_eq_true, if_false] at hb
            have hroom' := hroom
            simp only [roomFor, Bool.and_eq_true, decide_eq_true_eq] at hroom'
            obtain ⟨hwf', habsAll⟩ := local_is_join c hc _ _ _ _ _ (hR.wf i) hl hroom'.1 hroom'.2
            have habs := habsAll ph pa id
            have hwfset : ∀ k, TableWF (setNode fs.cs.node i s' k).table := by
              intro k; simp only [setNode]; split
              · exact hwf'
              · exact hR.wf k
            cases ch
            · simp only [Bool.false_eq_true, if_false, Option.some.injEq] at hb
              subst hb
              obtain ⟨h1, h2, h3⟩ := not_changed_lists_empty c _ _ _ _ hl
              rw [h1, h2, h3, absMsg_nil, join_bot_right] at habs
              refine ⟨ns, ⟨fun k => ?_, hR.flight, hR.pending, hwfset⟩, hI⟩
              rw [hR.know k]
              simp only [setNode]
              split
              · rename_i e1; subst e1; exact habs.symm
              · rfl
            · simp only [if_true, Option.some.injEq] at hb
              subst hb
              refine ⟨Bobo.Net.step ns (.say i (absMsg nt.completed nt.halted nt.updated ph pa id)), ⟨?_, ?_, ?_, hwfset⟩,
                Bobo.Net.inv_step ns hI _⟩
              · intro k
                simp only [Bobo.Net.step, Bobo.Net.upd, setNode]
                split
                · rename_i e1; subst e1; rw [hR.know k]; exact habs.symm
                · exact hR.know k
              · intro a b
                simp only [Bobo.Net.step]
                split
                · rw [hR.flight a b]; simp [msgSt]
                · exact hR.flight a b
              · intro a b; simp only [Bobo.Net.step]; exact hR.pending a b
          · simp [hroom] at hb
      | deliver i j k remove =>
        simp only [cstep] at hb
        cases hm : (fs.cs.flight i j)[k]? with
        | none =>
          simp only [hm, Option.some.injEq] at hb
          subst hb
          exact ⟨ns, hR, hI⟩
        | some m =>
          simp only [hm] at hb
          by_cases hroom : roomFor c (fs.cs.node j) m.comp m.halt = true
          · simp only [hroom, Bool.not_true, Bool.false_eq_true, if_false] at hb
            cases hr : remoteStep c (fs.cs.node j) m.comp m.halt m.upd with
            | none => simp [hr] at hb
            | some r =>
              obtain ⟨s', nt⟩ := r
              simp only [hr, Option.some.injEq] at hb
              subst hb
              simp only [roomFor, Bool.and_eq_true, decide_eq_true_eq] at hroom
              have habs := remote_abs_after c hc hns (fs.cs.node j) s' nt m.comp m.halt m.upd hroom.1 hroom.2 hr ph pa id hk
              have hget : (ns.flight i j)[k]? = some (msgSt ph pa id m) := by
                rw [hR.flight i j, List.getElem?_map, hm]; rfl
              have hwfset : ∀ a, TableWF (setNode fs.cs.node j s' a).table := by
                intro a; simp only [setNode]; split
                · exact wf_remoteStep ahead true c _ _ _ _ _ _ (hR.wf j) hr
                · exact hR.wf a
              refine ⟨Bobo.Net.step ns (.deliver i j k remove), ⟨?_, ?_, ?_, hwfset⟩, Bobo.Net.inv_step ns hI _⟩
              · intro a
                simp only [Bobo.Net.step, hget, Bobo.Net.upd, setNode]
                split
                · rename_i e1; subst e1; rw [hR.know a]; exact habs.symm
                · exact hR.know a
              · intro a b
                simp only [Bobo.Net.step, hget]
                cases remove
                · simp only [Bool.false_eq_true, if_false]; exact hR.flight a b
                · simp only [if_true, Bobo.Net.upd2]
                  split
                  · rename_i e1; obtain ⟨e1, e2⟩ := e1; subst e1 e2
                    rw [hR.flight a b, map_eraseIdx']
                  · exact hR.flight a b
              · intro a b; simp only [Bobo.Net.step, hget]; exact hR.pending a b
          · simp [hroom] at hb
  | snapshot i j =>
    simp only [fstep, Option.some.injEq] at hstep
    subst hstep
    refine ⟨Bobo.Net.step ns (.snapshot i j), ⟨hR.know, ?_, hR.pending, hR.wf⟩, Bobo.Net.inv_step ns hI _⟩
    intro a b
    simp only [Bobo.Net.step, Bobo.Net.upd2, setFlight]
    split
    · rename_i e1; obtain ⟨e1, e2⟩ := e1; subst e1 e2
      rw [hR.flight a b, List.map_append, List.map_cons, List.map_nil, msgSt_snapshot c hc _ (hR.wf a), hR.know a]
    · exact hR.flight a b
  | resync i j ok =>
    cases ok
    · simp only [fstep, Bool.false_eq_true, if_false, Option.some.injEq] at hstep
      subst hstep
      refine ⟨Bobo.Net.step ns (.resync i j false), ⟨hR.know, ?_, ?_, hR.wf⟩, Bobo.Net.inv_step ns hI _⟩
      · intro a b
        simp only [Bobo.Net.step, Bool.false_eq_true, if_false, Bobo.Net.upd2, setFlight]
        split
        · rfl
        · exact hR.flight a b
      · intro a b
        simp only [Bobo.Net.step, Bool.false_eq_true, if_false, Bobo.Net.upd2, setPend]
        split
        · rfl
        · exact hR.pending a b
    · simp only [fstep, if_true, Option.some.injEq] at hstep
      subst hstep
      refine ⟨Bobo.Net.step ns (.resync i j true), ⟨hR.know, ?_, ?_, hR.wf⟩, Bobo.Net.inv_step ns hI _⟩
      · intro a b
        simp only [Bobo.Net.step, if_true, Bobo.Net.upd2, setFlight]
        split
        · rename_i e1; obtain ⟨e1, e2⟩ := e1; subst e1 e2
          rw [List.map_cons, List.map_nil, msgSt_snapshot c hc _ (hR.wf a), hR.know a]
        · exact hR.flight a b
      · intro a b
        simp only [Bobo.Net.step, if_true, Bobo.Net.upd2, setPend]
        split
        · rfl
        · exact hR.pending a b

theorem fsim_init {n : Nat} (ph pa id : String) : RF ph pa id (finit n ε) (Bobo.Net.init n) where
  know := fun _ => by simp [Bobo.Net.init, finit, cinit, abs, inCache, Table.runAt, Table.runsFrom, lookup, stOf]
  flight := fun _ _ => by simp [Bobo.Net.init, finit, cinit]
  pending := fun _ _ => rfl
  wf := fun _ => wf_empty

theorem fsim_run {n : Nat} (c : Cfg ε) (hc : c.caching = true) (hns : NoSing c)
    (ph pa id : String) (hk : (c.getPattern ph pa).isSome = true) (steps : List (FStep n ε)) :
    ∀ (fs fs' : FState n ε) (ns : Bobo.Net.St n), RF ph pa id fs ns → Bobo.Net.Inv ns →
      frun c fs steps = some fs' → ∃ ns', RF ph pa id fs' ns' ∧ Bobo.Net.Inv ns' := by
  induction steps with
  | nil => intro fs fs' ns hR hI h; simp [frun] at h; subst h; exact ⟨ns, hR, hI⟩
  | cons st rest ih =>
    intro fs fs' ns hR hI h
    simp only [frun] at h
    cases hs : fstep c fs st with
    | none => simp [hs] at h
    | some fs1 =>
      simp only [hs] at h
      obtain ⟨ns1, hR1, hI1⟩ := fsim_step c hc hns ph pa id hk fs fs1 ns hR hI st hs
      exact ih fs1 fs' ns1 hR1 hI1 h

end Bobo.ClusterD
