import BoboVerif.Model.Locks
/-!
Helper lemmas for C08 (M-Locks): the state invariant that ties the dynamic
lock table (owner, count) to the static `heldAt` of every thread, its
preservation by every step, and the core lemma "an invariant state of a
balanced, disciplined system is not stuck".
-/
namespace Bobo.Locks

@[simp] theorem upd_same {β : Type} (f : Nat → β) (a : Nat) (b : β) : upd f a b a = b := by
  simp [upd]

theorem upd_other {β : Type} (f : Nat → β) (a : Nat) (b : β) {x : Nat} (h : x ≠ a) :
    upd f a b x = f x := by
  simp [upd, h]

/-! ### `heldAt` -/

theorem heldAt_zero (p : Prog) : heldAt p 0 = fun _ => 0 := by
  simp [heldAt]

theorem heldAt_succ {p : Prog} {k : Nat} {a : Act} (h : p[k]? = some a) :
    heldAt p (k + 1) = applyAct (heldAt p k) a := by
  unfold heldAt
  rw [List.take_add_one, List.foldl_append, h]
  rfl

theorem heldAt_of_length_le {p : Prog} {k : Nat} (h : p.length ≤ k) :
    heldAt p k = heldAt p p.length := by
  unfold heldAt
  rw [List.take_of_length_le h, List.take_of_length_le (Nat.le_refl _)]

/-- a program that holds something is not at its end (balanced programs). -/
theorem lt_length_of_held {p : Prog} (hb : Balanced p) {k : Nat} {l : Lock}
    (h : 0 < heldAt p k l) : k < p.length := by
  apply Nat.lt_of_not_le
  intro hle
  rw [heldAt_of_length_le hle, hb.2 l] at h
  exact Nat.lt_irrefl _ h

/-! ### the invariant -/

/-- dynamic lock table = static held counts of the threads, and owners are threads. -/
structure Inv (S : Sys) (s : State) : Prop where
  held  : ∀ t l, t < S.n →
            heldAt (S.prog t) (s.pc t) l = if s.owner l = some t then s.count l else 0
  owner : ∀ l t, s.owner l = some t → t < S.n ∧ 0 < s.count l

theorem inv_init (S : Sys) : Inv S init := by
  constructor
  · intro t l _
    simp [init, heldAt_zero]
  · intro l t h
    simp [init] at h

/-- mutual exclusion, derived: two threads never hold the same lock. -/
theorem Inv.excl {S : Sys} {s : State} (I : Inv S s) {t t' : Tid} {l : Lock}
    (ht : t < S.n) (ht' : t' < S.n)
    (h : 0 < heldAt (S.prog t) (s.pc t) l) (h' : 0 < heldAt (S.prog t') (s.pc t') l) : t = t' := by
  rw [I.held t l ht] at h
  rw [I.held t' l ht'] at h'
  split at h
  · split at h'
    · rename_i a b
      rw [a] at b
      exact Option.some.inj b
    · exact absurd h' (Nat.lt_irrefl _)
  · exact absurd h (Nat.lt_irrefl _)

theorem Inv.owner_of_held {S : Sys} {s : State} (I : Inv S s) {t : Tid} {l : Lock}
    (ht : t < S.n) (h : 0 < heldAt (S.prog t) (s.pc t) l) : s.owner l = some t := by
  rw [I.held t l ht] at h
  split at h
  · assumption
  · exact absurd h (Nat.lt_irrefl _)

theorem Inv.held_of_owner {S : Sys} {s : State} (I : Inv S s) {t : Tid} {l : Lock}
    (h : s.owner l = some t) : t < S.n ∧ 0 < heldAt (S.prog t) (s.pc t) l := by
  have ⟨ht, hc⟩ := I.owner l t h
  refine ⟨ht, ?_⟩
  rw [I.held t l ht, if_pos h]
  exact hc

/-- every step of a balanced system preserves the invariant. -/
theorem inv_step {S : Sys} {s s' : State} (I : Inv S s) (h : Step S s s') : Inv S s' := by
  obtain ⟨t, ht, hs⟩ := h
  unfold stepThread at hs
  split at hs
  · exact absurd hs (by simp)
  · -- acq l
    rename_i l hact
    split at hs
    · -- free
      rename_i hfree
      injection hs with hs
      subst hs
      constructor
      · intro t' l' ht'
        by_cases e : t' = t
        · subst e
          simp only [upd_same]
          rw [heldAt_succ hact]
          by_cases el : l' = l
          · subst el
            have := I.held t' l' ht'
            simp [hfree] at this
            simp [applyAct, this]
          · simp only [applyAct, upd_other _ _ _ el]
            rw [I.held t' l' ht']
        · simp only [upd_other _ _ _ e]
          by_cases el : l' = l
          · subst el
            have := I.held t' l' ht'
            simp [hfree] at this
            simp only [upd_same, this]
            have : ¬ (some t = some t') := fun h => e (Option.some.inj h).symm
            simp [this]
          · simp only [upd_other _ _ _ el]
            exact I.held t' l' ht'
      · intro l' t' ho
        by_cases el : l' = l
        · subst el
          simp only [upd_same] at ho
          injection ho with ho
          subst ho
          exact ⟨ht, by simp⟩
        · simp only [upd_other _ _ _ el] at ho ⊢
          exact I.owner l' t' ho
    · -- owned
      rename_i o hown
      split at hs
      · rename_i eo
        subst eo
        injection hs with hs
        subst hs
        constructor
        · intro t' l' ht'
          by_cases e : t' = o
          · subst e
            simp only [upd_same]
            rw [heldAt_succ hact]
            by_cases el : l' = l
            · subst el
              have := I.held t' l' ht'
              simp [hown] at this
              simp [applyAct, this, hown]
            · simp only [applyAct, upd_other _ _ _ el]
              rw [I.held t' l' ht']
          · simp only [upd_other _ _ _ e]
            by_cases el : l' = l
            · subst el
              have := I.held t' l' ht'
              have ne : ¬ (some o = some t') := fun h => e (Option.some.inj h).symm
              simp [hown, ne] at this
              simp [this, hown, ne]
            · simp only [upd_other _ _ _ el]
              exact I.held t' l' ht'
        · intro l' t' ho
          by_cases el : l' = l
          · subst el
            simp only [upd_same]
            exact ⟨(I.owner l' t' ho).1, by omega⟩
          · simp only [upd_other _ _ _ el]
            exact I.owner l' t' ho
      · exact absurd hs (by simp)
  · -- rel l
    rename_i l hact
    split at hs
    · rename_i hen
      obtain ⟨hown, hpos⟩ := hen
      split at hs
      · -- last release
        rename_i hone
        injection hs with hs
        subst hs
        constructor
        · intro t' l' ht'
          by_cases e : t' = t
          · subst e
            simp only [upd_same]
            rw [heldAt_succ hact]
            by_cases el : l' = l
            · subst el
              have := I.held t' l' ht'
              simp [hown, hone] at this
              simp [applyAct, this]
            · simp only [applyAct, upd_other _ _ _ el]
              rw [I.held t' l' ht']
          · simp only [upd_other _ _ _ e]
            by_cases el : l' = l
            · subst el
              have := I.held t' l' ht'
              have ne : ¬ (some t = some t') := fun h => e (Option.some.inj h).symm
              simp [hown, ne] at this
              simp [this]
            · simp only [upd_other _ _ _ el]
              exact I.held t' l' ht'
        · intro l' t' ho
          by_cases el : l' = l
          · subst el
            simp at ho
          · simp only [upd_other _ _ _ el] at ho ⊢
            exact I.owner l' t' ho
      · rename_i hne
        injection hs with hs
        subst hs
        constructor
        · intro t' l' ht'
          by_cases e : t' = t
          · subst e
            simp only [upd_same]
            rw [heldAt_succ hact]
            by_cases el : l' = l
            · subst el
              have := I.held t' l' ht'
              simp [hown] at this
              simp [applyAct, this, hown]
            · simp only [applyAct, upd_other _ _ _ el]
              rw [I.held t' l' ht']
          · simp only [upd_other _ _ _ e]
            by_cases el : l' = l
            · subst el
              have := I.held t' l' ht'
              have ne : ¬ (some t = some t') := fun h => e (Option.some.inj h).symm
              simp [hown, ne] at this
              simp [this, hown, ne]
            · simp only [upd_other _ _ _ el]
              exact I.held t' l' ht'
        · intro l' t' ho
          by_cases el : l' = l
          · subst el
            simp only [upd_same]
            exact ⟨(I.owner l' t' ho).1, by omega⟩
          · simp only [upd_other _ _ _ el]
            exact I.owner l' t' ho
    · exact absurd hs (by simp)

theorem inv_reachable {S : Sys} {s : State} (h : Reachable S s) : Inv S s := by
  induction h with
  | init => exact inv_init S
  | step _ hs ih => exact inv_step ih hs

/-! ### an invariant state of a balanced, disciplined system is not stuck -/

/-- sup of `f` over `t < n`. -/
def supTo (f : Nat → Nat) : Nat → Nat
  | 0 => 0
  | n + 1 => max (supTo f n) (f n)

theorem le_supTo (f : Nat → Nat) : ∀ {n t : Nat}, t < n → f t ≤ supTo f n
  | 0, _, h => absurd h (Nat.not_lt_zero _)
  | n + 1, t, h => by
    simp only [supTo]
    by_cases e : t = n
    · subst e; exact Nat.le_max_right _ _
    · have : t < n := by omega
      exact Nat.le_trans (le_supTo f this) (Nat.le_max_left _ _)

/-- rank of the lock a thread is about to acquire (0 if it is not at an `acq`). -/
def wantRank (S : Sys) (r : Lock → Nat) (s : State) (t : Tid) : Nat :=
  match (S.prog t)[s.pc t]? with
  | some (.acq x) => r x
  | _ => 0

/-- an unfinished thread that cannot move waits for a lock it does not hold, owned by another thread
(a `rel` is always enabled: balanced programs release only what the invariant says they own). -/
theorem blocked_of_none {S : Sys} {s : State} (I : Inv S s)
    (hb : ∀ t, t < S.n → Balanced (S.prog t)) {t : Tid} (ht : t < S.n)
    (hu : Unfinished S s t) (hn : stepThread S s t = none) :
    ∃ x o, NewAcq (S.prog t) (s.pc t) x ∧ s.owner x = some o ∧ o ≠ t := by
  unfold stepThread at hn
  split at hn
  · rename_i hnone
    unfold Unfinished at hu
    have := List.getElem?_eq_none_iff.mp hnone
    omega
  · rename_i l hact
    split at hn
    · exact absurd hn (by simp)
    · rename_i o hown
      split at hn
      · exact absurd hn (by simp)
      · rename_i hne
        refine ⟨l, o, ⟨hact, ?_⟩, hown, hne⟩
        rw [I.held t l ht]
        have : ¬ (s.owner l = some t) := by
          rw [hown]; intro h; exact hne (Option.some.inj h)
        simp [this]
  · rename_i l hact
    have hpos := (hb t ht).1 _ _ hact
    have hown := I.owner_of_held ht hpos
    have hc : 0 < s.count l := by
      have := I.held t l ht
      rw [if_pos hown] at this
      omega
    split at hn
    · split at hn <;> exact absurd hn (by simp)
    · rename_i hno
      exact absurd ⟨hown, hc⟩ hno

/-- **core lemma**: mutual exclusion + "holders are unfinished" (both from `Inv` and `Balanced`)
+ the gated rank discipline ⇒ the state is not stuck. -/
theorem not_stuck_of_inv {S : Sys} {s : State} (I : Inv S s)
    (hb : ∀ t, t < S.n → Balanced (S.prog t)) (r : Lock → Nat) (g : Lock)
    (hd : Disciplined S r g) : ¬ Stuck S s := by
  intro ⟨⟨t0, ht0, hu0⟩, hall⟩
  have key : ∀ d t, t < S.n → Unfinished S s t →
      supTo (wantRank S r s) S.n - wantRank S r s t ≤ d → False := by
    intro d
    induction d with
    | zero =>
      intro t ht hu hle
      obtain ⟨x, o, hna, hox, _⟩ := blocked_of_none I hb ht hu (hall t ht)
      have ⟨ho, hheld⟩ := I.held_of_owner hox
      have huo : Unfinished S s o := lt_length_of_held (hb o ho) hheld
      obtain ⟨x', o', hna', hox', hne'⟩ := blocked_of_none I hb ho huo (hall o ho)
      rcases hd o _ x' ho hna' with hA | ⟨hg, hleaf⟩
      · have hlt := hA x hheld
        have w : wantRank S r s t = r x := by simp [wantRank, hna.1]
        have w' : wantRank S r s o = r x' := by simp [wantRank, hna'.1]
        have le : wantRank S r s o ≤ supTo (wantRank S r s) S.n := le_supTo _ ho
        omega
      · have ⟨ho', hheld'⟩ := I.held_of_owner hox'
        have huo' : Unfinished S s o' := lt_length_of_held (hb o' ho') hheld'
        obtain ⟨y, _, hna'', _, _⟩ := blocked_of_none I hb ho' huo' (hall o' ho')
        have hg' := hleaf o' _ y ho' hna'' hheld'
        exact hne' (I.excl ho ho' hg hg').symm
    | succ d ih =>
      intro t ht hu hle
      obtain ⟨x, o, hna, hox, _⟩ := blocked_of_none I hb ht hu (hall t ht)
      have ⟨ho, hheld⟩ := I.held_of_owner hox
      have huo : Unfinished S s o := lt_length_of_held (hb o ho) hheld
      obtain ⟨x', o', hna', hox', hne'⟩ := blocked_of_none I hb ho huo (hall o ho)
      rcases hd o _ x' ho hna' with hA | ⟨hg, hleaf⟩
      · have hlt := hA x hheld
        have w : wantRank S r s t = r x := by simp [wantRank, hna.1]
        have w' : wantRank S r s o = r x' := by simp [wantRank, hna'.1]
        have le : wantRank S r s o ≤ supTo (wantRank S r s) S.n := le_supTo _ ho
        exact ih o ho huo (by omega)
      · have ⟨ho', hheld'⟩ := I.held_of_owner hox'
        have huo' : Unfinished S s o' := lt_length_of_held (hb o' ho') hheld'
        obtain ⟨y, _, hna'', _, _⟩ := blocked_of_none I hb ho' huo' (hall o' ho')
        have hg' := hleaf o' _ y ho' hna'' hheld'
        exact hne' (I.excl ho ho' hg hg').symm
  exact key _ t0 ht0 hu0 (Nat.le_refl _)

/-! ### from the finite table to the discipline -/

/-- thread programs conform to a table of (held classes, acquired class) entries:
`cls` maps each lock instance to its class (`Class.attr`), `g` is the gate instance.
Every new acquisition is covered by an entry that lists (at least) the classes of
everything held, and an entry that lists the gate class is only used while `g` is held. -/
def Conforms (S : Sys) (cls : Lock → Nat) (gate : Nat) (g : Lock) (es : List Entry) : Prop :=
  ∀ t k x, t < S.n → NewAcq (S.prog t) k x →
    ∃ e, e ∈ es ∧ e.2 = cls x ∧
      (∀ z, 0 < heldAt (S.prog t) k z → cls z ∈ e.1) ∧
      (gate ∈ e.1 → 0 < heldAt (S.prog t) k g)

theorem disciplined_of_check {S : Sys} {cls : Lock → Nat} {gate : Nat} {g : Lock}
    {es : List Entry} {rc : Nat → Nat}
    (hc : checkAcqs rc gate es = true) (hconf : Conforms S cls gate g es) :
    Disciplined S (fun l => rc (cls l)) g := by
  intro t k x ht hna
  obtain ⟨e, he, hcx, hheld, hgate⟩ := hconf t k x ht hna
  have hok := List.all_eq_true.mp hc e he
  simp only [entryOk, Bool.and_eq_true, Bool.or_eq_true] at hok
  rcases hok.2 with hasc | ⟨hg, hleaf⟩
  · left
    intro z hz
    have := List.all_eq_true.mp hasc (cls z) (hheld z hz)
    show rc (cls z) < rc (cls x)
    rw [← hcx]
    exact of_decide_eq_true this
  · right
    refine ⟨hgate (List.contains_iff_mem.mp hg), ?_⟩
    intro t' k' y ht' hna' hx
    obtain ⟨e', he', _, hheld', hgate'⟩ := hconf t' k' y ht' hna'
    have h1 := List.all_eq_true.mp hleaf e' he'
    have hmem : e'.1.contains e.2 = true := by
      rw [hcx]; exact List.contains_iff_mem.mpr (hheld' x hx)
    simp only [hmem, Bool.not_true, Bool.false_or] at h1
    exact hgate' (List.contains_iff_mem.mp h1)

theorem isRanking_sound {r : Nat → Nat} {edges : List (Nat × Nat)} (h : isRanking r edges = true) :
    ∀ e, e ∈ edges → r e.1 < r e.2 := by
  intro e he
  exact of_decide_eq_true (List.all_eq_true.mp h e he)

theorem topoRank_sound {edges : List (Nat × Nat)} {r : Nat → Nat} (h : topoRank edges = some r) :
    ∀ e, e ∈ edges → r e.1 < r e.2 := by
  unfold topoRank at h
  simp only at h
  split at h
  · rename_i hr
    injection h with h
    subst h
    exact isRanking_sound hr
  · exact absurd h (by simp)

/-! ### a concrete system satisfying the hypotheses of the rank theorem (non-vacuity) -/

def nvA : Prog := [.acq 0, .acq 1, .rel 1, .rel 0]
def nvB : Prog := [.acq 1, .rel 1]
def nvSys : Sys := ⟨2, fun t => if t = 0 then nvA else nvB⟩

theorem nvA_balanced : Balanced nvA := by
  constructor
  · intro k l h
    have hk : k < nvA.length := by
      apply Nat.lt_of_not_le; intro hle
      rw [List.getElem?_eq_none_iff.mpr hle] at h; simp at h
    simp only [nvA, List.length] at hk
    have : k = 0 ∨ k = 1 ∨ k = 2 ∨ k = 3 := by omega
    rcases this with rfl | rfl | rfl | rfl <;> simp [nvA] at h <;> subst h <;> decide
  · intro l
    by_cases h0 : l = 0 <;> by_cases h1 : l = 1 <;> simp [nvA, heldAt, applyAct, upd, h0, h1]

theorem nvB_balanced : Balanced nvB := by
  constructor
  · intro k l h
    have hk : k < nvB.length := by
      apply Nat.lt_of_not_le; intro hle
      rw [List.getElem?_eq_none_iff.mpr hle] at h; simp at h
    simp only [nvB, List.length] at hk
    have : k = 0 ∨ k = 1 := by omega
    rcases this with rfl | rfl <;> simp [nvB] at h <;> subst h <;> decide
  · intro l
    by_cases h1 : l = 1 <;> simp [nvB, heldAt, applyAct, upd, h1]

theorem nv_disciplined : RankDisciplined nvSys (fun l => l) := by
  intro t k x ht hna z hz
  have ht' : t = 0 ∨ t = 1 := by have : t < 2 := ht; omega
  obtain ⟨hact, _⟩ := hna
  rcases ht' with rfl | rfl
  · have hk : k < nvA.length := by
      apply Nat.lt_of_not_le; intro hle
      have : (nvSys.prog 0)[k]? = none := List.getElem?_eq_none_iff.mpr hle
      rw [this] at hact; simp at hact
    simp only [nvA, List.length] at hk
    have : k = 0 ∨ k = 1 ∨ k = 2 ∨ k = 3 := by omega
    rcases this with rfl | rfl | rfl | rfl <;> simp [nvSys, nvA] at hact
    · subst hact; simp [nvSys, nvA, heldAt] at hz
    · subst hact
      by_cases h0 : z = 0
      · subst h0; decide
      · simp [nvSys, nvA, heldAt, applyAct, upd, h0] at hz
  · have hk : k < nvB.length := by
      apply Nat.lt_of_not_le; intro hle
      have : (nvSys.prog 1)[k]? = none := List.getElem?_eq_none_iff.mpr hle
      rw [this] at hact; simp at hact
    simp only [nvB, List.length] at hk
    have : k = 0 ∨ k = 1 := by omega
    rcases this with rfl | rfl <;> simp [nvSys, nvB] at hact
    subst hact; simp [nvSys, nvB, heldAt] at hz

end Bobo.Locks
