import BoboVerif.Lemmas.Abs
/-!
`on_distributed_update` on the status abstraction: the phases of `remoteStepG`
(filter, memorise, remove, re-filter, update) for configurations without
singleton patterns.
-/
namespace Bobo.Decider
open Bobo.Run Bobo.Lattice
set_option linter.unusedSimpArgs false
variable {ε : Type}

/-- no pattern of the configuration is a singleton (C04 is stated for non-singleton patterns). -/
def NoSing (c : Cfg ε) : Prop := ∀ ph pa p, c.getPattern ph pa = some p → p.singleton = false

theorem removeOne_nosing (c : Cfg ε) (hns : NoSing c) (b : Bool) (s : DState ε) (out : List (Rec ε)) (rr : Rec ε) :
    removeOne c b (s, out) rr =
      match c.getPattern rr.phen rr.pat with
      | none => (s, out)
      | some _ => ({ s with table := s.table.remove rr.phen rr.pat rr.id }, out ++ [rr]) := by
  unfold removeOne
  cases hp : c.getPattern rr.phen rr.pat with
  | none => rfl
  | some p => simp [hns _ _ p hp]

theorem fold_removeOne (c : Cfg ε) (hns : NoSing c) (b : Bool) (rs : List (Rec ε)) :
    ∀ (s : DState ε) (out : List (Rec ε)),
      (rs.foldl (removeOne c b) (s, out)).1.cacheC = s.cacheC ∧
      (rs.foldl (removeOne c b) (s, out)).1.cacheH = s.cacheH ∧
      ∀ ph pa id, (∀ x ∈ rs, x.id ≠ id) →
        (rs.foldl (removeOne c b) (s, out)).1.table.runAt ph pa id = s.table.runAt ph pa id := by
  induction rs with
  | nil => intro s out; simp
  | cons rr rest ih =>
    intro s out
    simp only [List.foldl_cons]
    rw [removeOne_nosing c hns]
    cases hp : c.getPattern rr.phen rr.pat with
    | none =>
      simp only
      obtain ⟨h1, h2, h3⟩ := ih s out
      exact ⟨h1, h2, fun ph pa id hid => h3 ph pa id (fun x hx => hid x (List.mem_cons_of_mem _ hx))⟩
    | some p =>
      simp only
      obtain ⟨h1, h2, h3⟩ := ih { s with table := s.table.remove rr.phen rr.pat rr.id } (out ++ [rr])
      refine ⟨h1, h2, fun ph pa id hid => ?_⟩
      rw [h3 ph pa id (fun x hx => hid x (List.mem_cons_of_mem _ hx))]
      simp only
      rw [runAt_remove]
      have : ¬ (ph = rr.phen ∧ pa = rr.pat ∧ id = rr.id) :=
        fun h => hid rr (List.mem_cons_self ..) h.2.2.symm
      simp [this]

theorem ahead_iff_not_le (rr : Rec ε) (l : Run ε) :
    ahead rr l = true ↔ ¬ (recSt rr ≤ active l.idx l.hist.size) := by
  unfold ahead recSt
  rw [le_def]
  simp only [active, Bool.or_eq_true, Bool.and_eq_true, decide_eq_true_eq, beq_iff_eq, Nat.lt_irrefl,
    false_or, true_and]
  omega

theorem keyMatch_iff (ph pa id : String) (rr : Rec ε) :
    keyMatch ph pa id rr = true ↔ (ph = rr.phen ∧ pa = rr.pat ∧ id = rr.id) := by
  unfold keyMatch
  simp only [Bool.and_eq_true, beq_iff_eq]
  constructor
  · rintro ⟨⟨h1, h2⟩, h3⟩; exact ⟨h1.symm, h2.symm, h3.symm⟩
  · rintro ⟨h1, h2, h3⟩; exact ⟨⟨h1.symm, h2.symm⟩, h3.symm⟩

/-- one record of the `updated` list: the key's status is joined with the record's position. -/
theorem updateOne_nosing (c : Cfg ε) (hns : NoSing c) (s : DState ε) (out : List (Rec ε)) (rr : Rec ε) :
    ∃ s' out', updateOne c ahead (s, out) rr = some (s', out') ∧
      s'.cacheC = s.cacheC ∧ s'.cacheH = s.cacheH ∧
      ∀ ph pa id, stOf (s'.table.runAt ph pa id) =
        if (c.getPattern rr.phen rr.pat).isSome = true ∧ keyMatch ph pa id rr = true
        then join (stOf (s.table.runAt ph pa id)) (recSt rr)
        else stOf (s.table.runAt ph pa id) := by
  unfold updateOne
  cases hp : c.getPattern rr.phen rr.pat with
  | none => exact ⟨s, out, rfl, rfl, rfl, fun ph pa id => by simp⟩
  | some p =>
    have hsg := hns _ _ p hp
    simp only [hsg, Bool.false_eq_true, if_false, Bool.false_and, Option.isSome_some, true_and]
    cases hl : s.table.runAt rr.phen rr.pat rr.id with
    | some rl =>
      have hid : rl.run.id = rr.id := by
        have := List.find?_some (by rw [runAt_def] at hl; exact hl)
        simpa using this
      simp only
      refine ⟨_, _, rfl, rfl, rfl, fun ph pa id => ?_⟩
      by_cases ha : ahead rr rl.run = true
      · simp only [ha, if_true]
        rw [runAt_setBlock]
        by_cases hk : keyMatch ph pa id rr = true
        · have hk' := (keyMatch_iff ph pa id rr).mp hk
          obtain ⟨h1, h2, h3⟩ := hk'
          subst h1 h2 h3
          simp only [hk, if_true, hid, and_self, hl, Option.map_some]
          have hle : active rl.run.idx rl.run.hist.size ≤ recSt rr := by
            rcases le_total (active rl.run.idx rl.run.hist.size) (recSt rr) with h | h
            · exact h
            · exact absurd h ((ahead_iff_not_le rr rl.run).mp ha)
          simp only [stOf]
          rw [join_eq_right hle]
          rfl
        · have hk' : ¬ (ph = rr.phen ∧ pa = rr.pat ∧ id = rl.run.id) := by
            rw [hid]; exact fun h => hk ((keyMatch_iff ph pa id rr).mpr h)
          simp [hk, hk']
      · simp only [ha, Bool.false_eq_true, if_false]
        by_cases hk : keyMatch ph pa id rr = true
        · have hk' := (keyMatch_iff ph pa id rr).mp hk
          obtain ⟨h1, h2, h3⟩ := hk'
          subst h1 h2 h3
          simp only [hk, if_true, hl, stOf]
          have hle : recSt rr ≤ active rl.run.idx rl.run.hist.size := by
            rcases le_total (recSt rr) (active rl.run.idx rl.run.hist.size) with h | h
            · exact h
            · by_cases hx : recSt rr ≤ active rl.run.idx rl.run.hist.size
              · exact hx
              · exact absurd ((ahead_iff_not_le rr rl.run).mpr hx) ha
          rw [join_eq_left hle]
        · simp [hk]
    | none =>
      simp only
      obtain ⟨t', ht'⟩ := add_isSome_of_runAt_none s.table rr.phen rr.pat
        { run := { id := rr.id, idx := rr.idx, hist := rr.hist, halted := completeAt p.blocks.length rr.idx }, pat := p } hl
      simp only [ht']
      refine ⟨_, _, rfl, rfl, rfl, fun ph pa id => ?_⟩
      simp only
      rw [runAt_add _ _ _ _ _ ht']
      by_cases hk : keyMatch ph pa id rr = true
      · have hk' := (keyMatch_iff ph pa id rr).mp hk
        obtain ⟨h1, h2, h3⟩ := hk'
        subst h1 h2 h3
        simp only [hk, if_true, and_self, hl, stOf, join_bot_left]
        rfl
      · have hk' : ¬ (ph = rr.phen ∧ pa = rr.pat ∧ id = rr.id) :=
          fun h => hk ((keyMatch_iff ph pa id rr).mpr h)
        simp [hk, hk']

/-- the whole `updated` loop: never fails, leaves the memory alone, joins each known key with what
the list says about it. -/
theorem fold_updateOne (c : Cfg ε) (hns : NoSing c) (rs : List (Rec ε)) :
    ∀ (s : DState ε) (out : List (Rec ε)),
      ∃ s' out', foldlM' (updateOne c ahead) (s, out) rs = some (s', out') ∧
        s'.cacheC = s.cacheC ∧ s'.cacheH = s.cacheH ∧
        ∀ ph pa id, (c.getPattern ph pa).isSome = true →
          stOf (s'.table.runAt ph pa id) =
            join (stOf (s.table.runAt ph pa id)) (joinAll ((rs.filter (keyMatch ph pa id)).map recSt)) := by
  induction rs with
  | nil =>
    intro s out
    exact ⟨s, out, rfl, rfl, rfl, fun ph pa id _ => by simp [joinAll, join_bot_right]⟩
  | cons rr rest ih =>
    intro s out
    obtain ⟨s1, out1, hstep, hc1, hh1, hst1⟩ := updateOne_nosing c hns s out rr
    obtain ⟨s2, out2, hfold, hc2, hh2, hst2⟩ := ih s1 out1
    refine ⟨s2, out2, ?_, hc2.trans hc1, hh2.trans hh1, fun ph pa id hknown => ?_⟩
    · simp only [foldlM', hstep, hfold]
    · rw [hst2 ph pa id hknown, hst1 ph pa id]
      by_cases hk : keyMatch ph pa id rr = true
      · have hk' := (keyMatch_iff ph pa id rr).mp hk
        have hsome : (c.getPattern rr.phen rr.pat).isSome = true := by
          rw [← hk'.1, ← hk'.2.1]; exact hknown
        simp only [hsome, hk, and_self, if_true, List.filter_cons, List.map_cons]
        rw [joinAll_cons, join_assoc]
      · simp only [hk, and_false, if_false, List.filter_cons, Bool.false_eq_true]

end Bobo.Decider

namespace Bobo.Decider
open Bobo.Run Bobo.Lattice
variable {ε : Type}

/-- what the completed / halted loops report: the records of known patterns, unchanged, in order. -/
theorem fold_removeOne_out (c : Cfg ε) (hns : NoSing c) (b : Bool) (rs : List (Rec ε)) :
    ∀ (s : DState ε) (out : List (Rec ε)),
      (rs.foldl (removeOne c b) (s, out)).2 =
        out ++ rs.filter (fun r => (c.getPattern r.phen r.pat).isSome) := by
  induction rs with
  | nil => intro s out; simp
  | cons rr rest ih =>
    intro s out
    simp only [List.foldl_cons]
    rw [removeOne_nosing c hns]
    cases hp : c.getPattern rr.phen rr.pat with
    | none => simp only; rw [ih]; simp [List.filter_cons, hp]
    | some p => simp only; rw [ih]; simp [List.filter_cons, hp, List.append_assoc]

/-- removal only removes: a key is afterwards absent or exactly as before. -/
theorem fold_removeOne_runAt (c : Cfg ε) (hns : NoSing c) (b : Bool) (rs : List (Rec ε)) :
    ∀ (s : DState ε) (out : List (Rec ε)) (ph pa id : String),
      (rs.foldl (removeOne c b) (s, out)).1.table.runAt ph pa id = none ∨
      (rs.foldl (removeOne c b) (s, out)).1.table.runAt ph pa id = s.table.runAt ph pa id := by
  induction rs with
  | nil => intro s out ph pa id; exact .inr rfl
  | cons rr rest ih =>
    intro s out ph pa id
    simp only [List.foldl_cons]
    rw [removeOne_nosing c hns]
    cases hp : c.getPattern rr.phen rr.pat with
    | none => exact ih s out ph pa id
    | some p =>
      simp only
      rcases ih { s with table := s.table.remove rr.phen rr.pat rr.id } (out ++ [rr]) ph pa id with h | h
      · exact .inl h
      · rw [h]
        simp only
        rw [runAt_remove]
        split
        · exact .inl rfl
        · exact .inr rfl

end Bobo.Decider
