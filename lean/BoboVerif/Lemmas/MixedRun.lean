import BoboVerif.Lemmas.IdInv
import BoboVerif.Lemmas.ClusterFaults
/-!
Whole executions of ONE decider that MIX its own `update()` steps with arbitrary remote messages
(`on_distributed_update`): the step lemmas behind `Props/C05.lean`'s `mixed_*` theorems.

* `local_ids_nolive`: `local_ids` without the "every stored run is live" premise (a remote `updated` record at a
  completing index stores a halted run; such a run is inert under `update()`).
* `remote_phases`: the exact shape of one `on_distributed_update` (non-singleton configuration, memory on, room).
* `remote_idInv`: the identifier discipline `IdInv` survives an arbitrary remote message that respects the keys
  of the runs it names (`KeyOK`) and does not name identifiers the local generator has yet to issue.
-/
namespace Bobo.Decider
open Bobo.Run Bobo.Lattice
set_option linter.unusedSimpArgs false
set_option linter.unusedVariables false
variable {ε : Type}

/-- `_check_against_runs`, one key, without any liveness premise: either a finished record names the key (and then
the key is dropped and no `updated` record names it) or no finished record names it. -/
theorem checkAgainstRuns_exact_weak (e : ε) (t : Table ε) (h : TableWF t) (ph pa id : String) :
    (((checkAgainstRuns e t).2.1 ++ (checkAgainstRuns e t).2.2.1).any (keyMatch ph pa id) = true ∧
      (checkAgainstRuns e t).1.runAt ph pa id = none ∧
      (checkAgainstRuns e t).2.2.2.filter (keyMatch ph pa id) = []) ∨
    (((checkAgainstRuns e t).2.1 ++ (checkAgainstRuns e t).2.2.1).any (keyMatch ph pa id) = false) := by
  obtain ⟨p1, p2, p3, p4⟩ := checkAgainstRuns_perkey e t h ph pa id
  rw [any_eq_filter, List.filter_append, p1, p2, p3, p4]
  cases hfind : t.runAt ph pa id with
  | none => right; simp [contribOf]
  | some r =>
    simp only [contribOf]
    have hs := contrib_shape e ph r
    generalize contrib e ph r = cr at hs
    cases hs with
    | completed r' hid hpat0 => left; simp
    | halted r' hid hpat0 => left; simp
    | updated r' hid hpat hle hah hlv => right; simp
    | same => right; simp

/-- **identifier discipline of one `update()`**: from the invariant before the step follow the identifier
hygiene of its notification (no announced run is remembered as finished; no identifier is announced both as
finished and as updated; the originator no longer holds what it announces finished) and the invariant after
it — the generators only have to be repetition- and collision-free. -/
theorem local_ids_nolive (c : Cfg ε) (hc : c.caching = true) (hcw : CfgWF c) (fA : Nat → String)
    (injA : ∀ i j, fA i = fA j → i = j) (Iss : String → Prop)
    (a a' : DState ε) (e : ε) (nt : Notif ε) (ch : Bool)
    (hwf : TableWF a.table)
    (hinv : IdInv c Iss a)
    (hfr : ∀ k, a.nextId ≤ k → ¬ Iss (fA k))
    (hA : localStep (withIds c fA) a e = some (a', nt, ch))
    (hevC : a.cacheC.length + nt.completed.length ≤ c.maxCache)
    (hevH : a.cacheH.length + nt.halted.length ≤ c.maxCache) :
    a.nextId ≤ a'.nextId ∧
    (∀ x ∈ nt.completed ++ nt.halted ++ nt.updated, inCache a.cacheC x.id = false ∧ inCache a.cacheH x.id = false) ∧
    (∀ u ∈ nt.updated, ∀ f ∈ nt.completed ++ nt.halted, u.id ≠ f.id) ∧
    (∀ x ∈ nt.completed ++ nt.halted, a'.table.runAt x.phen x.pat x.id = none) ∧
    IdInv c (fun id => Iss id ∨ ∃ k, a.nextId ≤ k ∧ k < a'.nextId ∧ id = fA k) a' ∧
    ((nt.completed ++ nt.halted).map (·.id)).Nodup := by
  have hcw' : CfgWF (withIds c fA) := hcw
  have hc' : (withIds c fA).caching = true := hc
  unfold localStep at hA
  have hprov := checkAgainstRuns_provenance e a.table hwf
  have hexact := fun ph pa id (p : Pattern ε) => checkAgainstRuns_exact_weak e a.table hwf ph pa id
  have hkept := checkAgainstRuns_kept_old e a.table hwf
  have hperkey := fun ph pa id => checkAgainstRuns_perkey e a.table hwf ph pa id
  generalize hcar : checkAgainstRuns e a.table = car at hA hprov hexact hkept hperkey
  obtain ⟨t1, rhc, rhi, rupd⟩ := car
  simp only at hA hprov hexact hkept hperkey
  cases hcp : checkAgainstPatterns (withIds c fA) e t1 a.nextId with
  | none => simp [hcp] at hA
  | some acc =>
    simp only [hcp, Option.some.injEq, Prod.mk.injEq] at hA
    obtain ⟨hs', hnt, _⟩ := hA
    obtain ⟨d, hd, hpat⟩ := checkAgainstPatterns_exact (withIds c fA) hcw' e t1 a.nextId acc hcp
    have hids := checkAgainstPatterns_ids (withIds c fA) injA e t1 a.nextId acc hcp
    have hframe := checkAgainstPatterns_frame (withIds c fA) hcw' e t1 a.nextId acc hcp
    obtain ⟨dh, du, hdh, hdu, hrange, hsepp, hnodup, hnodupH⟩ := hids.lists
    have hnext := hids.next
    simp only [List.nil_append] at hd hpat hdh hdu hrange hnext
    have hddu : du = d := by rw [hd] at hdu; exact hdu.symm
    subst hddu
    subst hnt
    simp only at hevC hevH
    have hevC' : a.cacheC.length + (rhc ++ acc.hc).length ≤ (withIds c fA).maxCache := hevC
    have hevH' : a.cacheH.length + rhi.length ≤ (withIds c fA).maxCache := hevH
    rw [maybeCache_noevict (withIds c fA) hc' { table := acc.table, cacheC := a.cacheC, cacheH := a.cacheH, nextId := acc.nextId } _ _ hevC' hevH'] at hs'
    subst hs'
    simp only [hdh, hdu]
    clear hevC hevH hevC' hevH' hids hcp hcar
    -- ===== the facts the argument rests on =====
    have hidOf : ∀ k, (withIds c fA).idOf k = fA k := fun _ => rfl
    have hgp : ∀ ph pa, (withIds c fA).getPattern ph pa = c.getPattern ph pa := fun _ _ => rfl
    -- identifiers of the patterns phase are not issued yet
    have hfreshid : ∀ x ∈ dh ++ du, ¬ Iss x.id := by
      intro x hx
      obtain ⟨k, hk1, _, ek⟩ := hrange x hx
      rw [ek, hidOf]; exact hfr k hk1
    have hnewissued : ∀ x ∈ dh ++ du, (Iss x.id ∨ ∃ k, a.nextId ≤ k ∧ k < acc.nextId ∧ x.id = fA k) := by
      intro x hx
      obtain ⟨k, hk1, hk2, ek⟩ := hrange x hx
      exact .inr ⟨k, hk1, hk2, by rw [ek, hidOf]⟩
    -- runs-phase records name stored runs
    have hprov' : ∀ x ∈ rhc ++ rhi ++ rupd, ∃ r, a.table.runAt x.phen x.pat x.id = some r :=
      fun x hx => (isSome_iff_exists _).mp (hprov x hx)
    have hissued : ∀ x ∈ rhc ++ rhi ++ rupd, Iss x.id := by
      intro x hx; obtain ⟨r, hr⟩ := hprov' x hx; exact hinv.tbl _ _ _ r hr
    have hold : ∀ ph pa id, (t1.runAt ph pa id).isSome = true → ∃ r0, a.table.runAt ph pa id = some r0 := by
      intro ph pa id h1
      obtain ⟨r1, hr1⟩ := (isSome_iff_exists _).mp h1
      exact (isSome_iff_exists _).mp (hkept ph pa id r1 hr1)
    -- what is stored after the step was kept from before or created by an `updated` record of the patterns phase
    have hF2 : ∀ ph pa id r', acc.table.runAt ph pa id = some r' →
        (t1.runAt ph pa id).isSome = true ∨ (t1.runAt ph pa id = none ∧ ∃ u ∈ du, keyMatch ph pa id u = true) := by
      intro ph pa id r' hr'
      cases hp : c.getPattern ph pa with
      | none =>
        rw [hframe ph pa id (by rw [hgp]; exact hp)] at hr'
        left; simp only at hr'; rw [hr']; rfl
      | some p =>
        cases ht : t1.runAt ph pa id with
        | some r1 => left; rfl
        | none =>
          right; refine ⟨rfl, ?_⟩
          rw [hpat ph pa id p (by rw [hgp]; exact hp), ht] at hr'
          cases hf : du.filter (keyMatch ph pa id) with
          | nil => rw [hf] at hr'; simp at hr'
          | cons u rest =>
            have hu : u ∈ du.filter (keyMatch ph pa id) := by rw [hf]; exact List.mem_cons_self ..
            exact ⟨u, (List.mem_filter.mp hu).1, (List.mem_filter.mp hu).2⟩
    have hknown' : ∀ ph pa id r', acc.table.runAt ph pa id = some r' → (c.getPattern ph pa).isSome = true := by
      intro ph pa id r' hr'
      cases hp : c.getPattern ph pa with
      | some p => rfl
      | none =>
        rw [hframe ph pa id (by rw [hgp]; exact hp)] at hr'
        simp only at hr'
        obtain ⟨r0, hr0⟩ := hold ph pa id (by rw [hr']; rfl)
        have := hinv.known ph pa id r0 hr0
        rw [hp] at this; exact this
    -- a record of the patterns phase names no key of the old table
    have hnewkey : ∀ u ∈ dh ++ du, ∀ ph pa id, keyMatch ph pa id u = true → a.table.runAt ph pa id = none := by
      intro u hu ph pa id hk
      cases hr : a.table.runAt ph pa id with
      | none => rfl
      | some r0 =>
        exfalso
        have := hinv.tbl ph pa id r0 hr
        rw [((keyMatch_iff ph pa id u).mp hk).2.2] at this
        exact hfreshid u hu this
    -- ===== 1. counter =====
    refine ⟨hnext, ?_, ?_, ?_, ?_, ?_⟩
    -- ===== 2. nothing announced is remembered as finished =====
    · intro x hx
      have hx' : x ∈ rhc ++ rhi ++ rupd ∨ x ∈ dh ++ du := by
        simp only [List.mem_append] at hx ⊢
        rcases hx with ((h | h) | h) | (h | h)
        · exact .inl (.inl (.inl h))
        · exact .inr (.inl h)
        · exact .inl (.inl (.inr h))
        · exact .inl (.inr h)
        · exact .inr (.inr h)
      rcases hx' with h | h
      · obtain ⟨r, hr⟩ := hprov' x h
        exact hinv.fresh _ _ _ r hr
      · constructor
        · exact bool_false_of_not_true (fun hin => hfreshid x h (hinv.mem x.id (.inl hin)))
        · exact bool_false_of_not_true (fun hin => hfreshid x h (hinv.mem x.id (.inr hin)))
    -- ===== 3. no identifier both finished and updated =====
    · intro u hu f hf hid
      have hu' : u ∈ rupd ∨ u ∈ du := List.mem_append.mp hu
      have hf' : f ∈ rhc ++ rhi ∨ f ∈ dh := by
        simp only [List.mem_append] at hf ⊢
        rcases hf with (h | h) | h
        · exact .inl (.inl h)
        · exact .inr h
        · exact .inl (.inr h)
      rcases hu' with hu1 | hu2 <;> rcases hf' with hf1 | hf2
      · -- both name stored runs: same identifier, hence same key; a key contributes to one list only
        obtain ⟨ru, hru⟩ := hprov' u (List.mem_append.mpr (.inr hu1))
        obtain ⟨rf, hrf⟩ := hprov' f (List.mem_append.mpr (.inl hf1))
        rw [hid] at hru
        obtain ⟨e1, e2⟩ := hinv.uniq _ _ _ _ _ ru rf hru hrf
        have hku : keyMatch f.phen f.pat f.id u = true :=
          (keyMatch_iff _ _ _ u).mpr ⟨e1.symm, e2.symm, hid.symm⟩
        have hkf : keyMatch f.phen f.pat f.id f = true := (keyMatch_iff _ _ _ f).mpr ⟨rfl, rfl, rfl⟩
        obtain ⟨p, hp⟩ := (isSome_iff_exists _).mp (hinv.known _ _ _ rf hrf)
        rcases hexact f.phen f.pat f.id p with ⟨_, _, hnil⟩ | hany
        · have : u ∈ rupd.filter (keyMatch f.phen f.pat f.id) := List.mem_filter.mpr ⟨hu1, hku⟩
          rw [hnil] at this; simp at this
        · have : (rhc ++ rhi).any (keyMatch f.phen f.pat f.id) = true := List.any_eq_true.mpr ⟨f, hf1, hkf⟩
          rw [hany] at this; exact absurd this (by decide)
      · exact hfreshid f (List.mem_append.mpr (.inl hf2)) (by rw [← hid]; exact hissued u (List.mem_append.mpr (.inr hu1)))
      · exact hfreshid u (List.mem_append.mpr (.inr hu2)) (by rw [hid]; exact hissued f (List.mem_append.mpr (.inl hf1)))
      · exact hsepp f hf2 u hu2 hid.symm
    -- ===== 4. the originator no longer holds what it announces finished =====
    · intro x hx
      have hx' : x ∈ rhc ++ rhi ∨ x ∈ dh := by
        simp only [List.mem_append] at hx ⊢
        rcases hx with (h | h) | h
        · exact .inl (.inl h)
        · exact .inr h
        · exact .inl (.inr h)
      cases hr : acc.table.runAt x.phen x.pat x.id with
      | none => rfl
      | some r' =>
        exfalso
        have hkx : keyMatch x.phen x.pat x.id x = true := (keyMatch_iff _ _ _ x).mpr ⟨rfl, rfl, rfl⟩
        rcases hx' with h | h
        · -- finished in the runs phase: dropped there, and no fresh identifier can bring the key back
          obtain ⟨r0, hr0⟩ := hprov' x (List.mem_append.mpr (.inl h))
          obtain ⟨p, hp⟩ := (isSome_iff_exists _).mp (hinv.known _ _ _ r0 hr0)
          have ht1 : t1.runAt x.phen x.pat x.id = none := by
            rcases hexact x.phen x.pat x.id p with ⟨_, hn, _⟩ | hany
            · exact hn
            · have : (rhc ++ rhi).any (keyMatch x.phen x.pat x.id) = true := List.any_eq_true.mpr ⟨x, h, hkx⟩
              rw [hany] at this; exact absurd this (by decide)
          rcases hF2 _ _ _ r' hr with h1 | ⟨_, u, hu, hku⟩
          · rw [ht1] at h1; simp at h1
          · have := hnewkey u (List.mem_append.mpr (.inr hu)) _ _ _ hku
            rw [hr0] at this; exact absurd this (by simp)
        · -- completed at once with a fresh identifier: never stored
          rcases hF2 _ _ _ r' hr with h1 | ⟨_, u, hu, hku⟩
          · obtain ⟨r0, hr0⟩ := hold _ _ _ h1
            have := hnewkey x (List.mem_append.mpr (.inl h)) _ _ _ hkx
            rw [hr0] at this; exact absurd this (by simp)
          · exact hsepp x h u hu ((keyMatch_iff _ _ _ u).mp hku).2.2
    -- ===== 5. the invariant afterwards =====
    · refine ⟨hknown', ?_, ?_, ?_, ?_⟩
      · -- stored identifiers are issued
        intro ph pa id r' hr'
        rcases hF2 ph pa id r' hr' with h1 | ⟨_, u, hu, hku⟩
        · obtain ⟨r0, hr0⟩ := hold _ _ _ h1
          exact .inl (hinv.tbl _ _ _ r0 hr0)
        · rw [((keyMatch_iff ph pa id u).mp hku).2.2]
          exact hnewissued u (List.mem_append.mpr (.inr hu))
      · -- remembered identifiers are issued
        intro id hm
        simp only [inCache_append] at hm
        have hcases : (inCache a.cacheC id = true ∨ inCache a.cacheH id = true) ∨
            (∃ x ∈ rhc ++ rhi, x.id = id) ∨ (∃ x ∈ dh, x.id = id) := by
          rcases hm with hm | hm
          · rcases Bool.or_eq_true _ _ |>.mp hm with h | h
            · exact .inl (.inl h)
            · obtain ⟨x, hx, hxe⟩ := List.any_eq_true.mp h
              have hxid : x.id = id := by simpa using hxe
              rcases List.mem_append.mp hx with h1 | h1
              · exact .inr (.inl ⟨x, List.mem_append.mpr (.inl h1), hxid⟩)
              · exact .inr (.inr ⟨x, h1, hxid⟩)
          · rcases Bool.or_eq_true _ _ |>.mp hm with h | h
            · exact .inl (.inr h)
            · obtain ⟨x, hx, hxe⟩ := List.any_eq_true.mp h
              exact .inr (.inl ⟨x, List.mem_append.mpr (.inr hx), by simpa using hxe⟩)
        rcases hcases with h | ⟨x, hx, hxe⟩ | ⟨x, hx, hxe⟩
        · exact .inl (hinv.mem id h)
        · rw [← hxe]; exact .inl (hissued x (List.mem_append.mpr (.inl hx)))
        · rw [← hxe]; exact hnewissued x (List.mem_append.mpr (.inl hx))
      · -- no identifier under two keys
        intro ph pa ph' pa' id r r' hr hr'
        rcases hF2 ph pa id r hr with h1 | ⟨_, u, hu, hku⟩ <;> rcases hF2 ph' pa' id r' hr' with h2 | ⟨_, u', hu', hku'⟩
        · obtain ⟨r0, hr0⟩ := hold _ _ _ h1
          obtain ⟨r0', hr0'⟩ := hold _ _ _ h2
          exact hinv.uniq _ _ _ _ _ r0 r0' hr0 hr0'
        · exfalso
          obtain ⟨r0, hr0⟩ := hold _ _ _ h1
          have hi := hinv.tbl _ _ _ r0 hr0
          rw [((keyMatch_iff ph' pa' id u').mp hku').2.2] at hi
          exact hfreshid u' (List.mem_append.mpr (.inr hu')) hi
        · exfalso
          obtain ⟨r0, hr0⟩ := hold _ _ _ h2
          have hi := hinv.tbl _ _ _ r0 hr0
          rw [((keyMatch_iff ph pa id u).mp hku).2.2] at hi
          exact hfreshid u (List.mem_append.mpr (.inr hu)) hi
        · obtain ⟨k1, k2, k3⟩ := (keyMatch_iff ph pa id u).mp hku
          obtain ⟨k1', k2', k3'⟩ := (keyMatch_iff ph' pa' id u').mp hku'
          have : u = u' := eq_of_nodup_map du (·.id) hnodup u hu u' hu' (by rw [← k3, ← k3'])
          subst this
          exact ⟨k1.trans k1'.symm, k2.trans k2'.symm⟩
      · -- no stored run is remembered as finished
        intro ph pa id r' hr'
        have hgoal : inCache a.cacheC id = false → inCache a.cacheH id = false →
            (∀ x ∈ rhc ++ rhi, x.id ≠ id) → (∀ x ∈ dh, x.id ≠ id) →
            inCache (a.cacheC ++ (rhc ++ dh)) id = false ∧ inCache (a.cacheH ++ rhi) id = false := by
          intro h1 h2 h3 h4
          have a1 : (rhc ++ dh).any (·.id == id) = false := by
            rw [List.any_eq_false]; intro x hx
            rcases List.mem_append.mp hx with h | h
            · simpa using h3 x (List.mem_append.mpr (.inl h))
            · simpa using h4 x h
          have a2 : rhi.any (·.id == id) = false := by
            rw [List.any_eq_false]; intro x hx
            simpa using h3 x (List.mem_append.mpr (.inr hx))
          simp [inCache_append, h1, h2, a1, a2]
        rcases hF2 ph pa id r' hr' with h1 | ⟨_, u, hu, hku⟩
        · obtain ⟨r0, hr0⟩ := hold _ _ _ h1
          obtain ⟨f1, f2⟩ := hinv.fresh _ _ _ r0 hr0
          refine hgoal f1 f2 ?_ ?_
          · intro x hx hxe
            obtain ⟨rx, hrx⟩ := hprov' x (List.mem_append.mpr (.inl hx))
            rw [hxe] at hrx
            obtain ⟨e1, e2⟩ := hinv.uniq _ _ _ _ _ r0 rx hr0 hrx
            have hkx : keyMatch ph pa id x = true := (keyMatch_iff _ _ _ x).mpr ⟨e1, e2, hxe.symm⟩
            obtain ⟨p, hp⟩ := (isSome_iff_exists _).mp (hinv.known _ _ _ r0 hr0)
            rcases hexact ph pa id p with ⟨_, hn, _⟩ | hany
            · rw [hn] at h1; simp at h1
            · have : (rhc ++ rhi).any (keyMatch ph pa id) = true := List.any_eq_true.mpr ⟨x, hx, hkx⟩
              rw [hany] at this; exact absurd this (by decide)
          · intro x hx hxe
            exact hfreshid x (List.mem_append.mpr (.inl hx)) (by rw [hxe]; exact hinv.tbl _ _ _ r0 hr0)
        · have hidu : id = u.id := ((keyMatch_iff ph pa id u).mp hku).2.2
          have hnot : ¬ Iss id := by rw [hidu]; exact hfreshid u (List.mem_append.mpr (.inr hu))
          refine hgoal (bool_false_of_not_true (fun h => hnot (hinv.mem id (.inl h))))
            (bool_false_of_not_true (fun h => hnot (hinv.mem id (.inr h)))) ?_ ?_
          · intro x hx hxe
            exact hnot (by rw [← hxe]; exact hissued x (List.mem_append.mpr (.inl hx)))
          · intro x hx hxe
            exact hsepp x hx u hu (by rw [hxe, hidu])


    -- ===== 6. every finished run is announced once in this notification =====
    · -- (rhc ++ dh) ++ rhi: identifiers of the runs phase are distinct (one record per key, one key per identifier),
      -- those of the patterns phase are distinct and fresh
      have hrun : ((rhc ++ rhi).map (·.id)).Nodup := by
        apply nodup_ids_of_key_unique
        · intro ph pa id
          obtain ⟨_, p2, p3, _⟩ := hperkey ph pa id
          rw [List.filter_append, List.length_append, p2, p3]
          exact contribOf_finished_le_one e ph _
        · intro x hx y hy hxy
          obtain ⟨rx, hrx⟩ := hprov' x (List.mem_append.mpr (.inl hx))
          obtain ⟨ry, hry⟩ := hprov' y (List.mem_append.mpr (.inl hy))
          rw [hxy] at hrx
          exact hinv.uniq _ _ _ _ _ rx ry hrx hry
      have hperm : ((rhc ++ dh ++ rhi).map (·.id)).Perm (((rhc ++ rhi) ++ dh).map (·.id)) := by
        simp only [List.map_append, List.append_assoc]
        exact List.Perm.append_left _ List.perm_append_comm
      rw [hperm.nodup_iff, List.map_append, List.nodup_append]
      refine ⟨hrun, hnodupH, ?_⟩
      intro i hi j hj hij
      obtain ⟨x, hx, ex⟩ := List.mem_map.mp hi
      obtain ⟨y, hy, ey⟩ := List.mem_map.mp hj
      exact hfreshid y (List.mem_append.mpr (.inl hy)) (by rw [ey, ← hij, ← ex]; exact hissued x (List.mem_append.mpr (.inl hx)))

/-! ### one remote message, exactly -/

theorem updateOne_out (c : Cfg ε) (hns : NoSing c) (s s1 : DState ε) (out out1 : List (Rec ε)) (rr : Rec ε)
    (h : updateOne c ahead (s, out) rr = some (s1, out1)) :
    out1 = out ++ (if (c.getPattern rr.phen rr.pat).isSome then [rr] else []) := by
  unfold updateOne at h
  cases hp : c.getPattern rr.phen rr.pat with
  | none =>
    simp only [hp, Option.some.injEq, Prod.mk.injEq] at h
    simp [h.2]
  | some p =>
    have hsg := hns _ _ p hp
    simp only [hp, hsg, Bool.false_eq_true, if_false, Bool.false_and] at h
    split at h
    · simp only [Option.some.injEq, Prod.mk.injEq] at h
      simp [h.2]
    · split at h
      · simp at h
      · simp only [Option.some.injEq, Prod.mk.injEq] at h
        simp [h.2]

/-- what the `updated` loop reports (non-singleton): the records of known patterns, unchanged, in order. -/
theorem fold_updateOne_out (c : Cfg ε) (hns : NoSing c) (rs : List (Rec ε)) :
    ∀ (s s' : DState ε) (out out' : List (Rec ε)),
      foldlM' (updateOne c ahead) (s, out) rs = some (s', out') →
      out' = out ++ rs.filter (fun r => (c.getPattern r.phen r.pat).isSome) := by
  induction rs with
  | nil =>
    intro s s' out out' h
    simp only [foldlM', Option.some.injEq, Prod.mk.injEq] at h
    simp [h.2]
  | cons rr rest ih =>
    intro s s' out out' h
    obtain ⟨s1, out1, hstep, _, _, _⟩ := updateOne_exact c hns s out rr
    simp only [foldlM', hstep] at h
    have h1 := updateOne_out c hns s s1 out out1 rr hstep
    rw [ih s1 s' out1 out' h, h1]
    cases hk : (c.getPattern rr.phen rr.pat).isSome <;> simp [List.filter_cons, hk]

/-- **`on_distributed_update`, exactly, for ANY message** (non-singleton configuration, memory enabled with room):
the two filters, what is memorised, what is reported, and the run stored under every known key afterwards. -/
theorem remote_phases (c : Cfg ε) (hc : c.caching = true) (hns : NoSing c) (s s' : DState ε) (n : Notif ε)
    (comp halt upd : List (Rec ε))
    (hevC : s.cacheC.length + comp.length ≤ c.maxCache)
    (hevH : s.cacheH.length + halt.length ≤ c.maxCache)
    (hstep : remoteStep c s comp halt upd = some (s', n)) :
    ∃ comp1 halt1 upd2,
      comp1 = comp.filter (fun r => !inCache s.cacheC r.id) ∧
      halt1 = halt.filter (fun r => !inCache s.cacheC r.id && !inCache s.cacheH r.id) ∧
      upd2 = (upd.filter (fun r => !inCache s.cacheC r.id && !inCache s.cacheH r.id)).filter
              (fun r => !inCache s'.cacheC r.id && !inCache s'.cacheH r.id) ∧
      s'.cacheC = s.cacheC ++ comp1 ∧ s'.cacheH = s.cacheH ++ halt1 ∧
      n.completed = dedupById (comp1.filter (fun r => (c.getPattern r.phen r.pat).isSome)) ∧
      n.halted = dedupById (halt1.filter (fun r => (c.getPattern r.phen r.pat).isSome)) ∧
      n.updated = upd2.filter (fun r => (c.getPattern r.phen r.pat).isSome) ∧
      n.loc = false ∧
      ∀ ph pa id p, c.getPattern ph pa = some p →
        s'.table.runAt ph pa id = (upd2.filter (keyMatch ph pa id)).foldl (applyRec p)
          (if (comp1 ++ halt1).any (keyMatch ph pa id) then none else s.table.runAt ph pa id) := by
  unfold remoteStep remoteStepG at hstep
  simp only [checkAgainstCache, hc, if_true] at hstep
  generalize hcomp1 : comp.filter (fun r => !inCache s.cacheC r.id) = comp1 at hstep
  generalize hhalt1 : halt.filter (fun r => !inCache s.cacheC r.id && !inCache s.cacheH r.id) = halt1 at hstep
  generalize hupd1 : upd.filter (fun r => !inCache s.cacheC r.id && !inCache s.cacheH r.id) = upd1 at hstep
  have hl1 : comp1.length ≤ comp.length := by rw [← hcomp1]; exact List.length_filter_le _ _
  have hl2 : halt1.length ≤ halt.length := by rw [← hhalt1]; exact List.length_filter_le _ _
  rw [maybeCache_noevict c hc s comp1 halt1 (by omega) (by omega)] at hstep
  generalize hs1 : ({ s with cacheC := s.cacheC ++ comp1, cacheH := s.cacheH ++ halt1 } : DState ε) = s1 at hstep
  have hO2 := fold_removeOne_out c hns true comp1 s1 []
  have hT2 := fold_removeOne_exact c hns true comp1 s1 []
  obtain ⟨hC2, hH2, _⟩ := fold_removeOne c hns true comp1 s1 []
  generalize hf2 : comp1.foldl (removeOne c true) (s1, []) = st2 at hstep hO2 hC2 hH2 hT2
  obtain ⟨s2, compOut⟩ := st2
  simp only at hstep hO2 hC2 hH2 hT2
  have hO3 := fold_removeOne_out c hns false halt1 s2 []
  have hT3 := fold_removeOne_exact c hns false halt1 s2 []
  obtain ⟨hC3, hH3, _⟩ := fold_removeOne c hns false halt1 s2 []
  generalize hf3 : halt1.foldl (removeOne c false) (s2, []) = st3 at hstep hO3 hC3 hH3 hT3
  obtain ⟨s3, haltOut⟩ := st3
  simp only at hstep hO3 hC3 hH3 hT3
  generalize hupd2 : upd1.filter (fun r => !inCache s3.cacheC r.id && !inCache s3.cacheH r.id) = upd2 at hstep
  obtain ⟨s4, updOut, hfold, hC4, hH4, hT4⟩ := fold_updateOne_exact c hns upd2 s3 []
  have hO4 := fold_updateOne_out c hns upd2 s3 s4 [] updOut hfold
  simp only [hfold, Option.some.injEq, Prod.mk.injEq] at hstep
  obtain ⟨hs4, hn⟩ := hstep
  subst hs4 hn
  simp only [List.nil_append] at hO2 hO3 hO4
  have hC3' : s3.cacheC = s.cacheC ++ comp1 := by rw [hC3, hC2, ← hs1]
  have hH3' : s3.cacheH = s.cacheH ++ halt1 := by rw [hH3, hH2, ← hs1]
  refine ⟨comp1, halt1, upd2, rfl, rfl, ?_, by rw [hC4, hC3'], by rw [hH4, hH3'], by rw [hO2], by rw [hO3], hO4, rfl, ?_⟩
  · rw [← hupd2, hC4, hH4]
  · intro ph pa id p hp
    rw [hT4 ph pa id p hp, hT3 ph pa id, hT2 ph pa id, any_known_key c ph pa id p hp, any_known_key c ph pa id p hp,
      List.any_append, ← hs1]
    cases comp1.any (keyMatch ph pa id) <;> cases halt1.any (keyMatch ph pa id) <;> simp

/-! ### the identifier discipline under an arbitrary remote message -/

/-- a message respects the keys of the runs it names: a stored run named by the message (in any of its lists) is
named under the key it is stored under, and the `updated` list names no identifier under two keys.  (Run identifiers
are globally unique labels of ONE run of ONE pattern — what the peers' generators guarantee, C16.) -/
def KeyOK (s : DState ε) (comp halt upd : List (Rec ε)) : Prop :=
  (∀ r ∈ comp ++ halt ++ upd, ∀ ph pa r0, s.table.runAt ph pa r.id = some r0 → ph = r.phen ∧ pa = r.pat) ∧
  (∀ u ∈ upd, ∀ v ∈ upd, u.id = v.id → u.phen = v.phen ∧ u.pat = v.pat)

theorem fold_applyRec_source (p : Pattern ε) (l : List (Rec ε)) (o : Option (LRun ε)) (r' : LRun ε)
    (h : l.foldl (applyRec p) o = some r') : o = some r' ∧ l = [] ∨ ∃ u, u ∈ l := by
  cases l with
  | nil => left; exact ⟨by simpa using h, rfl⟩
  | cons u rest => right; exact ⟨u, List.mem_cons_self ..⟩

theorem any_id_false_of (l : List (Rec ε)) (id : String) (h : ∀ r ∈ l, r.id ≠ id) : l.any (·.id == id) = false := by
  rw [List.any_eq_false]; intro r hr; simpa using h r hr

theorem inCache_true_iff (q : List (Rec ε)) (id : String) : inCache q id = true ↔ ∃ r ∈ q, r.id = id := by
  unfold inCache
  rw [List.any_eq_true]
  constructor
  · rintro ⟨r, hr, he⟩; exact ⟨r, hr, by simpa using he⟩
  · rintro ⟨r, hr, he⟩; exact ⟨r, hr, by simpa using he⟩

/-- where a run stored after a remote message comes from: it was stored before and no finished record of the
message (that passed the memory filter) names its key, or an `updated` record that passed both filters names its key. -/
theorem remote_source (c : Cfg ε) (hc : c.caching = true) (hns : NoSing c) (Iss : String → Prop) (s s' : DState ε)
    (n : Notif ε) (comp halt upd : List (Rec ε))
    (hevC : s.cacheC.length + comp.length ≤ c.maxCache)
    (hevH : s.cacheH.length + halt.length ≤ c.maxCache)
    (hinv : IdInv c Iss s)
    (hstep : remoteStep c s comp halt upd = some (s', n)) :
    ∀ ph pa id r', s'.table.runAt ph pa id = some r' →
      (s.table.runAt ph pa id = some r' ∧
        ∀ r ∈ comp ++ halt, keyMatch ph pa id r = true → inCache s.cacheC r.id = true ∨ inCache s.cacheH r.id = true) ∨
      (∃ u ∈ upd, keyMatch ph pa id u = true ∧ inCache s'.cacheC u.id = false ∧ inCache s'.cacheH u.id = false) := by
  obtain ⟨comp1, halt1, upd2, hcomp1, hhalt1, hupd2, hC, hH, _, _, _, _, hT⟩ :=
    remote_phases c hc hns s s' n comp halt upd hevC hevH hstep
  intro ph pa id r' hr'
  cases hp : c.getPattern ph pa with
  | none =>
    exfalso
    rw [(remote_frame ahead true c s s' comp halt upd n hstep).2 ph pa id hp] at hr'
    have := hinv.known ph pa id r' hr'
    rw [hp] at this; simp at this
  | some p =>
    rw [hT ph pa id p hp] at hr'
    rcases fold_applyRec_source p _ _ r' hr' with ⟨h0, _⟩ | ⟨u, hu⟩
    · left
      by_cases hany : (comp1 ++ halt1).any (keyMatch ph pa id) = true
      · simp [hany] at h0
      · simp only [hany, Bool.false_eq_true, if_false] at h0
        refine ⟨h0, ?_⟩
        intro r hr hk
        have hany' : (comp1 ++ halt1).any (keyMatch ph pa id) = false := by simpa using hany
        rw [List.any_eq_false] at hany'
        rcases List.mem_append.mp hr with h1 | h1
        · by_cases hin : inCache s.cacheC r.id = true
          · exact .inl hin
          · exfalso
            have : r ∈ comp1 := by rw [hcomp1]; exact List.mem_filter.mpr ⟨h1, by simpa using hin⟩
            exact hany' r (List.mem_append.mpr (.inl this)) hk
        · by_cases hin : inCache s.cacheC r.id = true
          · exact .inl hin
          · by_cases hin2 : inCache s.cacheH r.id = true
            · exact .inr hin2
            · exfalso
              have : r ∈ halt1 := by
                rw [hhalt1]; exact List.mem_filter.mpr ⟨h1, by simp at hin hin2; simp [hin, hin2]⟩
              exact hany' r (List.mem_append.mpr (.inr this)) hk
    · right
      have hu1 := (List.mem_filter.mp hu).1
      have hk := (List.mem_filter.mp hu).2
      rw [hupd2] at hu1
      have hf := (List.mem_filter.mp hu1).2
      have hu0 := (List.mem_filter.mp (List.mem_filter.mp hu1).1).1
      simp only [Bool.and_eq_true, Bool.not_eq_eq_eq_not, Bool.not_true] at hf
      exact ⟨u, hu0, hk, hf.1, hf.2⟩

/-- **the identifier discipline survives an arbitrary remote message** that respects the keys of the runs it names
and names issued identifiers only. -/
theorem remote_idInv (c : Cfg ε) (hc : c.caching = true) (hns : NoSing c) (Iss : String → Prop) (s s' : DState ε)
    (n : Notif ε) (comp halt upd : List (Rec ε))
    (hevC : s.cacheC.length + comp.length ≤ c.maxCache)
    (hevH : s.cacheH.length + halt.length ≤ c.maxCache)
    (hinv : IdInv c Iss s) (hkey : KeyOK s comp halt upd)
    (hiss : ∀ r ∈ comp ++ halt ++ upd, Iss r.id)
    (hstep : remoteStep c s comp halt upd = some (s', n)) : IdInv c Iss s' := by
  have hsrc := remote_source c hc hns Iss s s' n comp halt upd hevC hevH hinv hstep
  obtain ⟨comp1, halt1, upd2, hcomp1, hhalt1, hupd2, hC, hH, _, _, _, _, hT⟩ :=
    remote_phases c hc hns s s' n comp halt upd hevC hevH hstep
  have hm1 : ∀ r ∈ comp1, r ∈ comp := fun r hr => by rw [hcomp1] at hr; exact (List.mem_filter.mp hr).1
  have hm2 : ∀ r ∈ halt1, r ∈ halt := fun r hr => by rw [hhalt1] at hr; exact (List.mem_filter.mp hr).1
  refine ⟨?_, ?_, ?_, ?_, ?_⟩
  · -- known
    intro ph pa id r' hr'
    cases hp : c.getPattern ph pa with
    | some p => rfl
    | none =>
      rw [(remote_frame ahead true c s s' comp halt upd n hstep).2 ph pa id hp] at hr'
      have := hinv.known ph pa id r' hr'
      rw [hp] at this; exact this
  · -- stored identifiers are issued
    intro ph pa id r' hr'
    rcases hsrc ph pa id r' hr' with ⟨h0, _⟩ | ⟨u, hu, hk, _⟩
    · exact hinv.tbl ph pa id r' h0
    · rw [((keyMatch_iff ph pa id u).mp hk).2.2]
      exact hiss u (List.mem_append.mpr (.inr hu))
  · -- remembered identifiers are issued
    intro id hm
    rw [hC, hH, inCache_append, inCache_append] at hm
    rcases hm with hm | hm
    · rcases Bool.or_eq_true _ _ |>.mp hm with h | h
      · exact hinv.mem id (.inl h)
      · obtain ⟨x, hx, hxe⟩ := List.any_eq_true.mp h
        have : x.id = id := by simpa using hxe
        rw [← this]
        exact hiss x (List.mem_append.mpr (.inl (List.mem_append.mpr (.inl (hm1 x hx)))))
    · rcases Bool.or_eq_true _ _ |>.mp hm with h | h
      · exact hinv.mem id (.inr h)
      · obtain ⟨x, hx, hxe⟩ := List.any_eq_true.mp h
        have : x.id = id := by simpa using hxe
        rw [← this]
        exact hiss x (List.mem_append.mpr (.inl (List.mem_append.mpr (.inr (hm2 x hx)))))
  · -- no identifier under two keys
    intro ph pa ph' pa' id r r' hr hr'
    rcases hsrc ph pa id r hr with ⟨h0, _⟩ | ⟨u, hu, hk, _⟩ <;>
      rcases hsrc ph' pa' id r' hr' with ⟨h0', _⟩ | ⟨u', hu', hk', _⟩
    · exact hinv.uniq _ _ _ _ _ r r' h0 h0'
    · obtain ⟨k1, k2, k3⟩ := (keyMatch_iff ph' pa' id u').mp hk'
      rw [k3] at h0
      obtain ⟨e1, e2⟩ := hkey.1 u' (List.mem_append.mpr (.inr hu')) ph pa r h0
      exact ⟨e1.trans k1.symm, e2.trans k2.symm⟩
    · obtain ⟨k1, k2, k3⟩ := (keyMatch_iff ph pa id u).mp hk
      rw [k3] at h0'
      obtain ⟨e1, e2⟩ := hkey.1 u (List.mem_append.mpr (.inr hu)) ph' pa' r' h0'
      exact ⟨k1.trans e1.symm, k2.trans e2.symm⟩
    · obtain ⟨k1, k2, k3⟩ := (keyMatch_iff ph pa id u).mp hk
      obtain ⟨k1', k2', k3'⟩ := (keyMatch_iff ph' pa' id u').mp hk'
      obtain ⟨e1, e2⟩ := hkey.2 u hu u' hu' (by rw [← k3, ← k3'])
      exact ⟨k1.trans (e1.trans k1'.symm), k2.trans (e2.trans k2'.symm)⟩
  · -- no stored run is remembered as finished
    intro ph pa id r' hr'
    rcases hsrc ph pa id r' hr' with ⟨h0, hfin⟩ | ⟨u, hu, hk, f1, f2⟩
    · obtain ⟨g1, g2⟩ := hinv.fresh ph pa id r' h0
      rw [hC, hH, inCache_append, inCache_append, g1, g2]
      have hno : ∀ x ∈ comp ++ halt, inCache s.cacheC x.id = false → inCache s.cacheH x.id = false ∨ x ∈ comp → x.id ≠ id := by
        intro x hx _ _ hxe
        have hx' : x ∈ comp ++ halt ++ upd := List.mem_append.mpr (.inl hx)
        obtain ⟨e1, e2⟩ := hkey.1 x hx' ph pa r' (by rw [hxe]; exact h0)
        have hk : keyMatch ph pa id x = true := (keyMatch_iff ph pa id x).mpr ⟨e1, e2, hxe.symm⟩
        rcases hfin x hx hk with h | h
        · rw [hxe, g1] at h; exact absurd h (by decide)
        · rw [hxe, g2] at h; exact absurd h (by decide)
      have a1 : comp1.any (·.id == id) = false := any_id_false_of _ _ (fun x hx =>
        hno x (List.mem_append.mpr (.inl (hm1 x hx))) (by rw [hcomp1] at hx; simpa using (List.mem_filter.mp hx).2)
          (.inr (hm1 x hx)))
      have a2 : halt1.any (·.id == id) = false := any_id_false_of _ _ (fun x hx => by
        have hx0 := hx
        rw [hhalt1] at hx0
        have hf := (List.mem_filter.mp hx0).2
        simp only [Bool.and_eq_true, Bool.not_eq_eq_eq_not, Bool.not_true] at hf
        exact hno x (List.mem_append.mpr (.inr (hm2 x hx))) hf.1 (.inl hf.2))
      simp [a1, a2]
    · rw [((keyMatch_iff ph pa id u).mp hk).2.2]
      exact ⟨f1, f2⟩

/-! ### mixed executions: definitions and the two step lemmas -/

/-- the identifiers a remote message names (in any of its three lists). -/
def msgIds (comp halt upd : List (Rec ε)) : List String := (comp ++ halt ++ upd).map (·.id)

/-- an optional extra side condition on the remote messages of an execution (receiver state, the three lists). -/
abbrev MsgCond (ε : Type) := DState ε → List (Rec ε) → List (Rec ε) → List (Rec ε) → Prop

/-- no side condition. -/
def anyMsg : MsgCond ε := fun _ _ _ _ => True

/-- the side condition under which the FULL "reported finished at most once" holds: no message names as completed a
run this instance remembers as halted, or that the same message names as halted. -/
def NoHaltThenComplete : MsgCond ε := fun s comp halt _ =>
  ∀ r ∈ comp, inCache s.cacheH r.id = false ∧ ∀ h ∈ halt, h.id ≠ r.id

/-- one step of a mixed execution of ONE decider whose own identifiers come from `g`: its own `update()` on an event
(reported with `true`), or `on_distributed_update` on an ARBITRARY message (reported with `false`).  Memory has room
at every step; a remote message does not name an identifier the local generator has yet to issue (`hfresh`), respects
the keys of the runs it names (`hkey`), and satisfies the optional side condition `R`. -/
inductive MixedStep (R : MsgCond ε) (c : Cfg ε) (g : Nat → String) : DState ε → DState ε → Notif ε × Bool → Prop
  | loc {s s' : DState ε} {e : ε} {nt : Notif ε} {ch : Bool}
      (hstep : localStep (withIds c g) s e = some (s', nt, ch))
      (hevC : s.cacheC.length + nt.completed.length ≤ c.maxCache)
      (hevH : s.cacheH.length + nt.halted.length ≤ c.maxCache) : MixedStep R c g s s' (nt, true)
  | rem {s s' : DState ε} {comp halt upd : List (Rec ε)} {nt : Notif ε}
      (hstep : remoteStep (withIds c g) s comp halt upd = some (s', nt))
      (hevC : s.cacheC.length + comp.length ≤ c.maxCache)
      (hevH : s.cacheH.length + halt.length ≤ c.maxCache)
      (hfresh : ∀ k, s.nextId ≤ k → g k ∉ msgIds comp halt upd)
      (hkey : KeyOK s comp halt upd)
      (hR : R s comp halt upd) : MixedStep R c g s s' (nt, false)

/-- executions from a given state; the list collects the notifications in order. -/
inductive MixedFrom (R : MsgCond ε) (c : Cfg ε) (g : Nat → String) (s0 : DState ε) :
    DState ε → List (Notif ε × Bool) → Prop
  | refl : MixedFrom R c g s0 s0 []
  | step {s s' : DState ε} {nts : List (Notif ε × Bool)} {x : Notif ε × Bool}
      (h : MixedFrom R c g s0 s nts) (hs : MixedStep R c g s s' x) : MixedFrom R c g s0 s' (nts ++ [x])

theorem MixedFrom.trans {R : MsgCond ε} {c : Cfg ε} {g : Nat → String} {s0 s1 s2 : DState ε}
    {e1 e2 : List (Notif ε × Bool)} (h1 : MixedFrom R c g s0 s1 e1) (h2 : MixedFrom R c g s1 s2 e2) :
    MixedFrom R c g s0 s2 (e1 ++ e2) := by
  induction h2 with
  | refl => simpa using h1
  | step _ hs ih => rw [← List.append_assoc]; exact .step ih hs

theorem MixedStep.weaken {R R' : MsgCond ε} (hRR : ∀ s a b u, R s a b u → R' s a b u) {c : Cfg ε} {g : Nat → String}
    {s s' : DState ε} {x : Notif ε × Bool} (h : MixedStep R c g s s' x) : MixedStep R' c g s s' x := by
  cases h with
  | loc hstep hevC hevH => exact .loc hstep hevC hevH
  | rem hstep hevC hevH hfresh hkey hR => exact .rem hstep hevC hevH hfresh hkey (hRR _ _ _ _ hR)

theorem MixedFrom.weaken {R R' : MsgCond ε} (hRR : ∀ s a b u, R s a b u → R' s a b u) {c : Cfg ε} {g : Nat → String}
    {s0 s : DState ε} {nts : List (Notif ε × Bool)} (h : MixedFrom R c g s0 s nts) : MixedFrom R' c g s0 s nts := by
  induction h with
  | refl => exact .refl
  | step _ hs ih => exact .step ih (hs.weaken hRR)

/-- identifiers reported completed / halted / updated / finished by a list of notifications, in order. -/
def mxCompleted (nts : List (Notif ε × Bool)) : List String := nts.flatMap (fun x => x.1.completed.map (·.id))
def mxHalted (nts : List (Notif ε × Bool)) : List String := nts.flatMap (fun x => x.1.halted.map (·.id))
def mxUpdated (nts : List (Notif ε × Bool)) : List String := nts.flatMap (fun x => x.1.updated.map (·.id))
def mxFinished (nts : List (Notif ε × Bool)) : List String :=
  nts.flatMap (fun x => (x.1.completed ++ x.1.halted).map (·.id))

/-- "not yet issued by the local generator": what `IdInv` tracks along a mixed execution. -/
def NotAhead (g : Nat → String) (n : Nat) (id : String) : Prop := ∀ k, n ≤ k → id ≠ g k

/-- what one step of a mixed execution guarantees about its notification and the finished-run memory. -/
structure StepFacts (s s' : DState ε) (nt : Notif ε) : Prop where
  growC : ∀ id, inCache s.cacheC id = true → inCache s'.cacheC id = true
  growH : ∀ id, inCache s.cacheH id = true → inCache s'.cacheH id = true
  compNew : ∀ r ∈ nt.completed, inCache s.cacheC r.id = false ∧ inCache s'.cacheC r.id = true
  haltNew : ∀ r ∈ nt.halted, inCache s.cacheC r.id = false ∧ inCache s.cacheH r.id = false ∧ inCache s'.cacheH r.id = true
  updNew : ∀ r ∈ nt.updated, inCache s'.cacheC r.id = false ∧ inCache s'.cacheH r.id = false
  compNodup : (nt.completed.map (·.id)).Nodup
  haltNodup : (nt.halted.map (·.id)).Nodup

/-- the extra guarantee behind the FULL statement. -/
def StrictFacts (s : DState ε) (nt : Notif ε) : Prop :=
  ∀ r ∈ nt.completed, inCache s.cacheH r.id = false ∧ ∀ h ∈ nt.halted, h.id ≠ r.id

theorem IdInv.toWithIds {c : Cfg ε} {Iss : String → Prop} {s : DState ε} (g : Nat → String) (h : IdInv c Iss s) :
    IdInv (withIds c g) Iss s := ⟨h.known, h.tbl, h.mem, h.uniq, h.fresh⟩

theorem IdInv.ofWithIds {c : Cfg ε} {Iss : String → Prop} {s : DState ε} {g : Nat → String}
    (h : IdInv (withIds c g) Iss s) : IdInv c Iss s := ⟨h.known, h.tbl, h.mem, h.uniq, h.fresh⟩

theorem inCache_of_mem (q : List (Rec ε)) (r : Rec ε) (h : r ∈ q) : inCache q r.id = true :=
  (inCache_true_iff q r.id).mpr ⟨r, h, rfl⟩

/-- the memories after one `update()` (memory on, room). -/
theorem local_caches (c : Cfg ε) (hc : c.caching = true) (a a' : DState ε) (e : ε) (nt : Notif ε) (ch : Bool)
    (hA : localStep c a e = some (a', nt, ch))
    (hevC : a.cacheC.length + nt.completed.length ≤ c.maxCache)
    (hevH : a.cacheH.length + nt.halted.length ≤ c.maxCache) :
    a'.cacheC = a.cacheC ++ nt.completed ∧ a'.cacheH = a.cacheH ++ nt.halted := by
  unfold localStep at hA
  generalize checkAgainstRuns e a.table = car at hA
  obtain ⟨t1, rhc, rhi, rupd⟩ := car
  simp only at hA
  cases hcp : checkAgainstPatterns c e t1 a.nextId with
  | none => simp [hcp] at hA
  | some acc =>
    simp only [hcp, Option.some.injEq, Prod.mk.injEq] at hA
    obtain ⟨hs', hnt, _⟩ := hA
    subst hnt
    rw [maybeCache_noevict c hc { table := acc.table, cacheC := a.cacheC, cacheH := a.cacheH, nextId := acc.nextId } _ _
      hevC hevH] at hs'
    subst hs'
    exact ⟨rfl, rfl⟩

/-- **one `update()` inside a mixed execution.** -/
theorem mixed_local_step (c : Cfg ε) (hc : c.caching = true) (hcw : CfgWF c) (g : Nat → String)
    (inj : ∀ i j, g i = g j → i = j) (s s' : DState ε) (e : ε) (nt : Notif ε) (ch : Bool)
    (hwf : TableWF s.table) (hids : IdInv c (NotAhead g s.nextId) s)
    (hstep : localStep (withIds c g) s e = some (s', nt, ch))
    (hevC : s.cacheC.length + nt.completed.length ≤ c.maxCache)
    (hevH : s.cacheH.length + nt.halted.length ≤ c.maxCache) :
    TableWF s'.table ∧ IdInv c (NotAhead g s'.nextId) s' ∧ StepFacts s s' nt ∧ StrictFacts s nt := by
  have hc' : (withIds c g).caching = true := hc
  have hfr : ∀ k, s.nextId ≤ k → ¬ NotAhead g s.nextId (g k) := fun k hk h => h k hk rfl
  obtain ⟨hnext, hmem, hsep, _, hids', hnd⟩ := local_ids_nolive c hc hcw g inj (NotAhead g s.nextId) s s' e nt ch
    hwf hids hfr hstep hevC hevH
  obtain ⟨hC, hH⟩ := local_caches (withIds c g) hc' s s' e nt ch hstep hevC hevH
  have hwf' : TableWF s'.table := (local_is_join (withIds c g) hc' s s' e nt ch hwf hstep hevC hevH).1
  have hndC : (nt.completed.map (·.id)).Nodup := by
    rw [List.map_append, List.nodup_append] at hnd; exact hnd.1
  have hndH : (nt.halted.map (·.id)).Nodup := by
    rw [List.map_append, List.nodup_append] at hnd; exact hnd.2.1
  have hdisj : ∀ r ∈ nt.completed, ∀ h ∈ nt.halted, h.id ≠ r.id := by
    intro r hr h hh e1
    rw [List.map_append, List.nodup_append] at hnd
    exact hnd.2.2 r.id (List.mem_map.mpr ⟨r, hr, rfl⟩) h.id (List.mem_map.mpr ⟨h, hh, rfl⟩) e1.symm
  refine ⟨hwf', hids'.mono ?_, ?_, ?_⟩
  · rintro id (h | ⟨k, _, hk2, e1⟩)
    · exact fun k hk => h k (Nat.le_trans hnext hk)
    · intro k' hk' e2
      have := inj k k' (by rw [← e1, e2]); omega
  · refine ⟨?_, ?_, ?_, ?_, ?_, hndC, hndH⟩
    · intro id h; rw [hC, inCache_append, h]; rfl
    · intro id h; rw [hH, inCache_append, h]; rfl
    · intro r hr
      refine ⟨(hmem r (List.mem_append.mpr (.inl (List.mem_append.mpr (.inl hr))))).1, ?_⟩
      rw [hC]; exact inCache_of_mem _ r (List.mem_append.mpr (.inr hr))
    · intro r hr
      have := hmem r (List.mem_append.mpr (.inl (List.mem_append.mpr (.inr hr))))
      refine ⟨this.1, this.2, ?_⟩
      rw [hH]; exact inCache_of_mem _ r (List.mem_append.mpr (.inr hr))
    · intro r hr
      have h0 := hmem r (List.mem_append.mpr (.inr hr))
      rw [hC, hH, inCache_append, inCache_append, h0.1, h0.2]
      have a1 : nt.completed.any (·.id == r.id) = false := any_id_false_of _ _ (fun f hf e1 =>
        hsep r hr f (List.mem_append.mpr (.inl hf)) e1.symm)
      have a2 : nt.halted.any (·.id == r.id) = false := any_id_false_of _ _ (fun f hf e1 =>
        hsep r hr f (List.mem_append.mpr (.inr hf)) e1.symm)
      simp [a1, a2]
  · intro r hr
    exact ⟨(hmem r (List.mem_append.mpr (.inl (List.mem_append.mpr (.inl hr))))).2, hdisj r hr⟩

/-- **one arbitrary remote message inside a mixed execution.** -/
theorem mixed_remote_step (c : Cfg ε) (hc : c.caching = true) (hns : NoSing c) (g : Nat → String)
    (s s' : DState ε) (comp halt upd : List (Rec ε)) (nt : Notif ε)
    (hwf : TableWF s.table) (hids : IdInv c (NotAhead g s.nextId) s)
    (hstep : remoteStep (withIds c g) s comp halt upd = some (s', nt))
    (hevC : s.cacheC.length + comp.length ≤ c.maxCache)
    (hevH : s.cacheH.length + halt.length ≤ c.maxCache)
    (hfresh : ∀ k, s.nextId ≤ k → g k ∉ msgIds comp halt upd)
    (hkey : KeyOK s comp halt upd) :
    TableWF s'.table ∧ IdInv c (NotAhead g s'.nextId) s' ∧ StepFacts s s' nt ∧
      (NoHaltThenComplete s comp halt upd → StrictFacts s nt) := by
  have hc' : (withIds c g).caching = true := hc
  have hns' : NoSing (withIds c g) := hns
  have hnext : s'.nextId = s.nextId := (remote_frame ahead true (withIds c g) s s' comp halt upd nt hstep).1
  have hiss : ∀ r ∈ comp ++ halt ++ upd, NotAhead g s.nextId r.id := by
    intro r hr k hk e1
    exact hfresh k hk (by rw [← e1]; exact List.mem_map.mpr ⟨r, hr, rfl⟩)
  have hids' := remote_idInv (withIds c g) hc' hns' (NotAhead g s.nextId) s s' nt comp halt upd hevC hevH
    (hids.toWithIds g) hkey hiss hstep
  obtain ⟨comp1, halt1, upd2, hcomp1, hhalt1, hupd2, hC, hH, hnC, hnH, hnU, _, _⟩ :=
    remote_phases (withIds c g) hc' hns' s s' nt comp halt upd hevC hevH hstep
  refine ⟨wf_remoteStep ahead true (withIds c g) s s' comp halt upd nt hwf hstep, ?_, ?_, ?_⟩
  · rw [hnext]; exact hids'.ofWithIds
  · refine ⟨?_, ?_, ?_, ?_, ?_, ?_, ?_⟩
    · intro id h; rw [hC, inCache_append, h]; rfl
    · intro id h; rw [hH, inCache_append, h]; rfl
    · intro r hr
      rw [hnC] at hr
      have hr1 : r ∈ comp1 := (List.mem_filter.mp (mem_of_mem_dedupById _ _ hr)).1
      have hr0 := hr1
      rw [hcomp1] at hr0
      refine ⟨by simpa using (List.mem_filter.mp hr0).2, ?_⟩
      rw [hC]; exact inCache_of_mem _ r (List.mem_append.mpr (.inr hr1))
    · intro r hr
      rw [hnH] at hr
      have hr1 : r ∈ halt1 := (List.mem_filter.mp (mem_of_mem_dedupById _ _ hr)).1
      have hr0 := hr1
      rw [hhalt1] at hr0
      have hf := (List.mem_filter.mp hr0).2
      simp only [Bool.and_eq_true, Bool.not_eq_eq_eq_not, Bool.not_true] at hf
      refine ⟨hf.1, hf.2, ?_⟩
      rw [hH]; exact inCache_of_mem _ r (List.mem_append.mpr (.inr hr1))
    · intro r hr
      rw [hnU] at hr
      have hr1 := (List.mem_filter.mp hr).1
      rw [hupd2] at hr1
      have hf := (List.mem_filter.mp hr1).2
      simp only [Bool.and_eq_true, Bool.not_eq_eq_eq_not, Bool.not_true] at hf
      exact hf
    · rw [hnC]; exact dedupById_nodup _
    · rw [hnH]; exact dedupById_nodup _
  · intro hR r hr
    rw [hnC] at hr
    have hr1 : r ∈ comp1 := (List.mem_filter.mp (mem_of_mem_dedupById _ _ hr)).1
    rw [hcomp1] at hr1
    obtain ⟨h1, h2⟩ := hR r (List.mem_filter.mp hr1).1
    refine ⟨h1, ?_⟩
    intro h hh
    rw [hnH] at hh
    have hh1 : h ∈ halt1 := (List.mem_filter.mp (mem_of_mem_dedupById _ _ hh)).1
    rw [hhalt1] at hh1
    exact h2 h (List.mem_filter.mp hh1).1

/-! ### the invariant of mixed executions -/

theorem mxCompleted_snoc (nts : List (Notif ε × Bool)) (x : Notif ε × Bool) :
    mxCompleted (nts ++ [x]) = mxCompleted nts ++ x.1.completed.map (·.id) := by simp [mxCompleted]
theorem mxHalted_snoc (nts : List (Notif ε × Bool)) (x : Notif ε × Bool) :
    mxHalted (nts ++ [x]) = mxHalted nts ++ x.1.halted.map (·.id) := by simp [mxHalted]
theorem mxUpdated_snoc (nts : List (Notif ε × Bool)) (x : Notif ε × Bool) :
    mxUpdated (nts ++ [x]) = mxUpdated nts ++ x.1.updated.map (·.id) := by simp [mxUpdated]
theorem mxFinished_snoc (nts : List (Notif ε × Bool)) (x : Notif ε × Bool) :
    mxFinished (nts ++ [x]) = mxFinished nts ++ (x.1.completed ++ x.1.halted).map (·.id) := by simp [mxFinished]

theorem mxCompleted_append (a b : List (Notif ε × Bool)) : mxCompleted (a ++ b) = mxCompleted a ++ mxCompleted b := by
  simp [mxCompleted]
theorem mxHalted_append (a b : List (Notif ε × Bool)) : mxHalted (a ++ b) = mxHalted a ++ mxHalted b := by
  simp [mxHalted]
theorem mxFinished_append (a b : List (Notif ε × Bool)) : mxFinished (a ++ b) = mxFinished a ++ mxFinished b := by
  simp [mxFinished]

theorem mem_mxFinished (nts : List (Notif ε × Bool)) (id : String) :
    id ∈ mxFinished nts ↔ id ∈ mxCompleted nts ∨ id ∈ mxHalted nts := by
  induction nts with
  | nil => simp [mxFinished, mxCompleted, mxHalted]
  | cons x rest ih =>
    simp only [mxFinished, mxCompleted, mxHalted, List.flatMap_cons, List.mem_append, List.map_append] at ih ⊢
    rw [ih]
    constructor
    · rintro ((h | h) | (h | h))
      · exact .inl (.inl h)
      · exact .inr (.inl h)
      · exact .inl (.inr h)
      · exact .inr (.inr h)
    · rintro ((h | h) | (h | h))
      · exact .inl (.inl h)
      · exact .inr (.inl h)
      · exact .inl (.inr h)
      · exact .inr (.inr h)

theorem count_mxFinished (nts : List (Notif ε × Bool)) (id : String) :
    (mxFinished nts).count id = (mxCompleted nts).count id + (mxHalted nts).count id := by
  induction nts with
  | nil => simp [mxFinished, mxCompleted, mxHalted]
  | cons x rest ih =>
    simp only [mxFinished, mxCompleted, mxHalted, List.flatMap_cons, List.count_append, List.map_append] at ih ⊢
    omega

/-- the invariant of a mixed execution. -/
structure MixedInv (c : Cfg ε) (g : Nat → String) (s : DState ε) (nts : List (Notif ε × Bool)) : Prop where
  wf : TableWF s.table
  ids : IdInv c (NotAhead g s.nextId) s
  remC : ∀ id ∈ mxCompleted nts, inCache s.cacheC id = true
  remH : ∀ id ∈ mxHalted nts, inCache s.cacheH id = true
  onceC : (mxCompleted nts).Nodup
  onceH : (mxHalted nts).Nodup
  sep : ∀ x ∈ nts, ∀ u ∈ x.1.updated, ∀ f ∈ x.1.completed ++ x.1.halted, u.id ≠ f.id

theorem mixedInv_init (c : Cfg ε) (g : Nat → String) : MixedInv c g ({} : DState ε) [] := by
  have hnone : ∀ ph pa id (r : LRun ε), ({} : DState ε).table.runAt ph pa id = some r → False := by
    intro ph pa id r hr; simp [Table.runAt, Table.runsFrom, lookup] at hr
  exact ⟨wf_empty,
    ⟨fun ph pa id r hr => (hnone ph pa id r hr).elim, fun ph pa id r hr => (hnone ph pa id r hr).elim,
     fun id hm => by simp [inCache] at hm, fun ph pa _ _ id r _ hr _ => (hnone ph pa id r hr).elim,
     fun ph pa id r hr => (hnone ph pa id r hr).elim⟩,
    fun id hid => by simp [mxCompleted] at hid, fun id hid => by simp [mxHalted] at hid,
    by simp [mxCompleted], by simp [mxHalted], fun x hx => by simp at hx⟩

/-- what every step of a mixed execution guarantees (both kinds of step). -/
theorem mixed_step_facts (R : MsgCond ε) (c : Cfg ε) (hc : c.caching = true) (hns : NoSing c) (hcw : CfgWF c)
    (g : Nat → String) (inj : ∀ i j, g i = g j → i = j) (s s' : DState ε) (x : Notif ε × Bool)
    (hwf : TableWF s.table) (hids : IdInv c (NotAhead g s.nextId) s) (hs : MixedStep R c g s s' x) :
    TableWF s'.table ∧ IdInv c (NotAhead g s'.nextId) s' ∧ StepFacts s s' x.1 ∧
      ((∀ s a b u, R s a b u → NoHaltThenComplete s a b u) → StrictFacts s x.1) := by
  cases hs with
  | @loc e nt ch hstep hevC hevH =>
    obtain ⟨h1, h2, h3, h4⟩ := mixed_local_step c hc hcw g inj s s' e nt ch hwf hids hstep hevC hevH
    exact ⟨h1, h2, h3, fun _ => h4⟩
  | @rem comp halt upd nt hstep hevC hevH hfresh hkey hR =>
    obtain ⟨h1, h2, h3, h4⟩ := mixed_remote_step c hc hns g s s' comp halt upd nt hwf hids hstep hevC hevH hfresh hkey
    exact ⟨h1, h2, h3, fun hRR => h4 (hRR _ _ _ _ hR)⟩

theorem mixedInv_step (R : MsgCond ε) (c : Cfg ε) (hc : c.caching = true) (hns : NoSing c) (hcw : CfgWF c)
    (g : Nat → String) (inj : ∀ i j, g i = g j → i = j) (s s' : DState ε) (nts : List (Notif ε × Bool))
    (x : Notif ε × Bool) (h : MixedInv c g s nts) (hs : MixedStep R c g s s' x) : MixedInv c g s' (nts ++ [x]) := by
  obtain ⟨hwf', hids', hf, _⟩ := mixed_step_facts R c hc hns hcw g inj s s' x h.wf h.ids hs
  refine ⟨hwf', hids', ?_, ?_, ?_, ?_, ?_⟩
  · intro id hid
    rw [mxCompleted_snoc, List.mem_append] at hid
    rcases hid with hid | hid
    · exact hf.growC id (h.remC id hid)
    · obtain ⟨r, hr, e1⟩ := List.mem_map.mp hid
      rw [← e1]; exact (hf.compNew r hr).2
  · intro id hid
    rw [mxHalted_snoc, List.mem_append] at hid
    rcases hid with hid | hid
    · exact hf.growH id (h.remH id hid)
    · obtain ⟨r, hr, e1⟩ := List.mem_map.mp hid
      rw [← e1]; exact (hf.haltNew r hr).2.2
  · rw [mxCompleted_snoc, List.nodup_append]
    refine ⟨h.onceC, hf.compNodup, ?_⟩
    intro i hi j hj hij
    obtain ⟨r, hr, e1⟩ := List.mem_map.mp hj
    have h1 := h.remC i hi
    rw [hij, ← e1, (hf.compNew r hr).1] at h1
    exact absurd h1 (by decide)
  · rw [mxHalted_snoc, List.nodup_append]
    refine ⟨h.onceH, hf.haltNodup, ?_⟩
    intro i hi j hj hij
    obtain ⟨r, hr, e1⟩ := List.mem_map.mp hj
    have h1 := h.remH i hi
    rw [hij, ← e1, (hf.haltNew r hr).2.1] at h1
    exact absurd h1 (by decide)
  · intro y hy u hu f hf' e1
    rcases List.mem_append.mp hy with hy | hy
    · exact h.sep y hy u hu f hf' e1
    · simp only [List.mem_singleton] at hy
      subst hy
      have hu' := hf.updNew u hu
      rcases List.mem_append.mp hf' with h1 | h1
      · have := (hf.compNew f h1).2
        rw [← e1, hu'.1] at this; exact absurd this (by decide)
      · have := (hf.haltNew f h1).2.2
        rw [← e1, hu'.2] at this; exact absurd this (by decide)

/-- the invariant holds along every continuation of an execution. -/
theorem mixedInv_from (R : MsgCond ε) (c : Cfg ε) (hc : c.caching = true) (hns : NoSing c) (hcw : CfgWF c)
    (g : Nat → String) (inj : ∀ i j, g i = g j → i = j) (s0 s : DState ε) (nts0 ext : List (Notif ε × Bool))
    (h0 : MixedInv c g s0 nts0) (h : MixedFrom R c g s0 s ext) : MixedInv c g s (nts0 ++ ext) := by
  induction h with
  | refl => simpa using h0
  | step _ hs ih =>
    rw [← List.append_assoc]
    exact mixedInv_step R c hc hns hcw g inj _ _ _ _ ih hs

/-- a remembered identifier stays remembered, is never reported halted or updated again; a remembered-completed
identifier is never reported completed again. -/
theorem mixed_after (R : MsgCond ε) (c : Cfg ε) (hc : c.caching = true) (hns : NoSing c) (hcw : CfgWF c)
    (g : Nat → String) (inj : ∀ i j, g i = g j → i = j) (s0 s : DState ε) (nts0 ext : List (Notif ε × Bool))
    (h0 : MixedInv c g s0 nts0) (h : MixedFrom R c g s0 s ext) (id : String) :
    (inCache s0.cacheC id = true → inCache s.cacheC id = true ∧ id ∉ mxCompleted ext ∧ id ∉ mxHalted ext ∧ id ∉ mxUpdated ext) ∧
    (inCache s0.cacheH id = true → inCache s.cacheH id = true ∧ id ∉ mxHalted ext ∧ id ∉ mxUpdated ext) := by
  induction h with
  | refl => simp [mxCompleted, mxHalted, mxUpdated]
  | @step s1 s2 e1 x hprev hs ih =>
    have hinv := mixedInv_from R c hc hns hcw g inj s0 s1 nts0 e1 h0 hprev
    obtain ⟨_, _, hf, _⟩ := mixed_step_facts R c hc hns hcw g inj s1 s2 x hinv.wf hinv.ids hs
    rw [mxCompleted_snoc, mxHalted_snoc, mxUpdated_snoc]
    constructor
    · intro hin
      obtain ⟨a1, a2, a3, a4⟩ := ih.1 hin
      have a1' := hf.growC id a1
      refine ⟨a1', ?_, ?_, ?_⟩
      · intro hm
        rcases List.mem_append.mp hm with hm | hm
        · exact a2 hm
        · obtain ⟨r, hr, e⟩ := List.mem_map.mp hm
          have := (hf.compNew r hr).1
          rw [e, a1] at this; exact absurd this (by decide)
      · intro hm
        rcases List.mem_append.mp hm with hm | hm
        · exact a3 hm
        · obtain ⟨r, hr, e⟩ := List.mem_map.mp hm
          have := (hf.haltNew r hr).1
          rw [e, a1] at this; exact absurd this (by decide)
      · intro hm
        rcases List.mem_append.mp hm with hm | hm
        · exact a4 hm
        · obtain ⟨r, hr, e⟩ := List.mem_map.mp hm
          have := (hf.updNew r hr).1
          rw [e, a1'] at this; exact absurd this (by decide)
    · intro hin
      obtain ⟨a1, a3, a4⟩ := ih.2 hin
      have a1' := hf.growH id a1
      refine ⟨a1', ?_, ?_⟩
      · intro hm
        rcases List.mem_append.mp hm with hm | hm
        · exact a3 hm
        · obtain ⟨r, hr, e⟩ := List.mem_map.mp hm
          have := (hf.haltNew r hr).2.1
          rw [e, a1] at this; exact absurd this (by decide)
      · intro hm
        rcases List.mem_append.mp hm with hm | hm
        · exact a4 hm
        · obtain ⟨r, hr, e⟩ := List.mem_map.mp hm
          have := (hf.updNew r hr).2
          rw [e, a1'] at this; exact absurd this (by decide)

/-- under `NoHaltThenComplete`, additionally: the identifiers reported finished are pairwise different. -/
theorem mixed_strict_nodup (c : Cfg ε) (hc : c.caching = true) (hns : NoSing c) (hcw : CfgWF c)
    (g : Nat → String) (inj : ∀ i j, g i = g j → i = j) (s : DState ε) (nts : List (Notif ε × Bool))
    (h : MixedFrom NoHaltThenComplete c g {} s nts) : (mxFinished nts).Nodup := by
  induction h with
  | refl => simp [mxFinished]
  | @step s1 s2 ex x hprev hs ih =>
    have hinv : MixedInv c g s1 ex := by
      simpa using mixedInv_from NoHaltThenComplete c hc hns hcw g inj {} s1 [] ex (mixedInv_init c g) hprev
    obtain ⟨_, _, hf, hst⟩ := mixed_step_facts NoHaltThenComplete c hc hns hcw g inj s1 s2 x hinv.wf hinv.ids hs
    have hst := hst (fun _ _ _ _ h => h)
    rw [mxFinished_snoc, List.nodup_append]
    refine ⟨ih, ?_, ?_⟩
    · rw [List.map_append, List.nodup_append]
      refine ⟨hf.compNodup, hf.haltNodup, ?_⟩
      intro i hi j hj hij
      obtain ⟨r, hr, e1⟩ := List.mem_map.mp hi
      obtain ⟨q, hq, e2⟩ := List.mem_map.mp hj
      exact (hst r hr).2 q hq (by rw [e1, e2, hij])
    · intro i hi j hj hij
      obtain ⟨r, hr, e1⟩ := List.mem_map.mp hj
      have hold : inCache s1.cacheC i = true ∨ inCache s1.cacheH i = true := by
        rcases (mem_mxFinished ex i).mp hi with h1 | h1
        · exact .inl (hinv.remC i h1)
        · exact .inr (hinv.remH i h1)
      rw [hij, ← e1] at hold
      rcases List.mem_append.mp hr with h1 | h1
      · rcases hold with h2 | h2
        · rw [(hf.compNew r h1).1] at h2; exact absurd h2 (by decide)
        · rw [(hst r h1).1] at h2; exact absurd h2 (by decide)
      · rcases hold with h2 | h2
        · rw [(hf.haltNew r h1).1] at h2; exact absurd h2 (by decide)
        · rw [(hf.haltNew r h1).2.1] at h2; exact absurd h2 (by decide)

/-- an execution can be cut at any point of its notification list. -/
theorem MixedFrom.split {R : MsgCond ε} {c : Cfg ε} {g : Nat → String} {s0 s : DState ε}
    {nts : List (Notif ε × Bool)} (h : MixedFrom R c g s0 s nts) :
    ∀ pre post, nts = pre ++ post → ∃ m, MixedFrom R c g s0 m pre ∧ MixedFrom R c g m s post := by
  induction h with
  | refl =>
    intro pre post e
    have := List.append_eq_nil_iff.mp e.symm
    rw [this.1, this.2]; exact ⟨s0, .refl, .refl⟩
  | @step s1 s2 e1 x hprev hs ih =>
    intro pre post e
    rcases List.eq_nil_or_concat post with hp | ⟨L, b, hp⟩
    · subst hp
      rw [List.append_nil] at e
      rw [← e]
      exact ⟨s2, .step hprev hs, .refl⟩
    · rw [List.concat_eq_append] at hp
      subst hp
      rw [← List.append_assoc] at e
      obtain ⟨e2, e3⟩ := List.append_inj' e rfl
      simp only [List.cons.injEq, and_true] at e3
      subst e3
      obtain ⟨m, hm1, hm2⟩ := ih pre L e2
      exact ⟨m, hm1, .step hm2 hs⟩

/-! ### an executable runner (for concrete runs and counter-runs checked by `decide`) -/

inductive MStep (ε : Type) where
  | loc (e : ε)
  | rem (comp halt upd : List (Rec ε))

/-- `KeyOK`, tested on the serialised table. -/
def keyOKb (s : DState ε) (comp halt upd : List (Rec ε)) : Bool :=
  (comp ++ halt ++ upd).all (fun r => (s.table.all.map (fun x => x.2.ser x.1)).all
    (fun y => !(y.id == r.id) || (y.phen == r.phen && y.pat == r.pat))) &&
  upd.all (fun u => upd.all (fun v => !(u.id == v.id) || (u.phen == v.phen && u.pat == v.pat)))

theorem keyOK_of_keyOKb (s : DState ε) (hwf : TableWF s.table) (comp halt upd : List (Rec ε))
    (h : keyOKb s comp halt upd = true) : KeyOK s comp halt upd := by
  unfold keyOKb at h
  rw [Bool.and_eq_true, List.all_eq_true, List.all_eq_true] at h
  constructor
  · intro r hr ph pa r0 h0
    have hmem : r0.ser ph ∈ (s.table.all.map (fun x => x.2.ser x.1)).filter (keyMatch ph pa r.id) := by
      rw [all_filter_key s.table hwf ph pa r.id, h0]; simp
    have hy := (List.mem_filter.mp hmem)
    have hchk := List.all_eq_true.mp (h.1 r hr) _ hy.1
    obtain ⟨k1, k2, k3⟩ := (keyMatch_iff ph pa r.id _).mp hy.2
    rw [← k3] at hchk
    simp only [beq_self_eq_true, Bool.not_true, Bool.false_or, Bool.and_eq_true, beq_iff_eq] at hchk
    exact ⟨k1.trans hchk.1, k2.trans hchk.2⟩
  · intro u hu v hv e1
    have hchk := List.all_eq_true.mp (h.2 u hu) v hv
    simp only [e1, beq_self_eq_true, Bool.not_true, Bool.false_or, Bool.and_eq_true, beq_iff_eq] at hchk
    exact hchk

/-- `NoHaltThenComplete`, tested. -/
def noHCb (s : DState ε) (comp halt : List (Rec ε)) : Bool :=
  comp.all (fun r => !inCache s.cacheH r.id && halt.all (fun h => !(h.id == r.id)))

theorem noHC_of_noHCb (s : DState ε) (comp halt upd : List (Rec ε)) (h : noHCb s comp halt = true) :
    NoHaltThenComplete s comp halt upd := by
  unfold noHCb at h
  rw [List.all_eq_true] at h
  intro r hr
  have := h r hr
  rw [Bool.and_eq_true, List.all_eq_true] at this
  refine ⟨by simpa using this.1, fun q hq => ?_⟩
  simpa using this.2 q hq

/-- run a list of steps from a state.  With `chk` every side condition of `MixedStep` is tested (`fr n id` tests
"`id` is none of the identifiers the local generator issues from its `n`-th on"; with `strict` also
`NoHaltThenComplete`); with `chk = false` none is. -/
def mixedExec (c : Cfg ε) (g : Nat → String) (fr : Nat → String → Bool) (strict chk : Bool) :
    DState ε → List (Notif ε × Bool) → List (MStep ε) → Option (DState ε × List (Notif ε × Bool))
  | s, nts, [] => some (s, nts)
  | s, nts, .loc e :: rest =>
    match localStep (withIds c g) s e with
    | none => none
    | some (s', nt, _) =>
      if !chk || (decide (s.cacheC.length + nt.completed.length ≤ c.maxCache) &&
          decide (s.cacheH.length + nt.halted.length ≤ c.maxCache))
      then mixedExec c g fr strict chk s' (nts ++ [(nt, true)]) rest else none
  | s, nts, .rem comp halt upd :: rest =>
    match remoteStep (withIds c g) s comp halt upd with
    | none => none
    | some (s', nt) =>
      if !chk || (decide (s.cacheC.length + comp.length ≤ c.maxCache) &&
          decide (s.cacheH.length + halt.length ≤ c.maxCache) &&
          (msgIds comp halt upd).all (fr s.nextId) && keyOKb s comp halt upd && (!strict || noHCb s comp halt))
      then mixedExec c g fr strict chk s' (nts ++ [(nt, false)]) rest else none

/-- a checked run of the runner is a mixed execution. -/
theorem mixedExec_sound (R : MsgCond ε) (c : Cfg ε) (hc : c.caching = true) (hns : NoSing c) (hcw : CfgWF c)
    (g : Nat → String) (inj : ∀ i j, g i = g j → i = j) (fr : Nat → String → Bool)
    (hfr : ∀ n id, fr n id = true → ∀ k, n ≤ k → g k ≠ id) (strict : Bool)
    (hR : ∀ s a b u, (!strict || noHCb s a b) = true → R s a b u) (steps : List (MStep ε)) :
    ∀ (s s' : DState ε) (nts nts' : List (Notif ε × Bool)), MixedInv c g s nts →
      mixedExec c g fr strict true s nts steps = some (s', nts') →
      ∃ ext, nts' = nts ++ ext ∧ MixedFrom R c g s s' ext := by
  induction steps with
  | nil =>
    intro s s' nts nts' _ h
    simp only [mixedExec, Option.some.injEq, Prod.mk.injEq] at h
    exact ⟨[], by simp [h.2], by rw [h.1]; exact .refl⟩
  | cons st rest ih =>
    intro s s' nts nts' hinv h
    cases st with
    | loc e =>
      simp only [mixedExec] at h
      cases hl : localStep (withIds c g) s e with
      | none => simp [hl] at h
      | some v =>
        obtain ⟨s1, nt, ch⟩ := v
        simp only [hl, Bool.not_true, Bool.false_or] at h
        split at h
        · rename_i hchk
          rw [Bool.and_eq_true, decide_eq_true_eq, decide_eq_true_eq] at hchk
          have hs : MixedStep R c g s s1 (nt, true) := .loc hl hchk.1 hchk.2
          obtain ⟨ext, e1, hfrom⟩ := ih s1 s' _ nts' (mixedInv_step R c hc hns hcw g inj s s1 nts _ hinv hs) h
          refine ⟨[(nt, true)] ++ ext, by rw [e1, List.append_assoc], ?_⟩
          exact MixedFrom.trans (by simpa using MixedFrom.step (MixedFrom.refl (R := R) (c := c) (g := g) (s0 := s)) hs) hfrom
        · simp at h
    | rem comp halt upd =>
      simp only [mixedExec] at h
      cases hl : remoteStep (withIds c g) s comp halt upd with
      | none => simp [hl] at h
      | some v =>
        obtain ⟨s1, nt⟩ := v
        simp only [hl, Bool.not_true, Bool.false_or] at h
        split at h
        · rename_i hchk
          simp only [Bool.and_eq_true, decide_eq_true_eq] at hchk
          obtain ⟨⟨⟨⟨c1, c2⟩, c3⟩, c4⟩, c5⟩ := hchk
          have hfresh : ∀ k, s.nextId ≤ k → g k ∉ msgIds comp halt upd := by
            intro k hk hm
            exact hfr s.nextId (g k) (List.all_eq_true.mp c3 _ hm) k hk rfl
          have hs : MixedStep R c g s s1 (nt, false) :=
            .rem hl c1 c2 hfresh (keyOK_of_keyOKb s hinv.wf comp halt upd c4) (hR _ _ _ _ c5)
          obtain ⟨ext, e1, hfrom⟩ := ih s1 s' _ nts' (mixedInv_step R c hc hns hcw g inj s s1 nts _ hinv hs) h
          refine ⟨[(nt, false)] ++ ext, by rw [e1, List.append_assoc], ?_⟩
          exact MixedFrom.trans (by simpa using MixedFrom.step (MixedFrom.refl (R := R) (c := c) (g := g) (s0 := s)) hs) hfrom
        · simp at h

end Bobo.Decider
