import BoboVerif.Model.Run
import BoboVerif.Gen.RunWalk
/-!
The block walk of `run.py` regenerated on every run (translate/runwalk.py) is the model's `walk`: one step
of `walk` is "evaluate the block's predicates, then do what the generated decision table says".
-/
namespace Bobo.Run
open Bobo.Gen.RunWalk
variable {ε : Type}

/-- what each action of the generated table means on the model's run. -/
def applyAct (n : Nat) (e : ε) (b : Block ε) (rest : List (Block ε)) (i : Nat) (r : Run ε) : Act → Out × Run ε
  | .record => (.ok true, { r with hist := addEvent r.hist b.group e })
  | .halt => (.ok true, halt r)
  | .nochange => (.ok false, r)
  | .forward => (.ok true, moveForward n r b e i)
  | .next => walk n e rest (i + 1) r

/-- **the model's walk is the source's walk**: at every block, with the predicates' verdict `m`, `walk` does
what the decision tables generated from `_process_loop` / `_process_not_loop` say. -/
theorem gen_walk_eq (n : Nat) (e : ε) (b : Block ε) (rest : List (Block ε)) (i : Nat) (r : Run ε) :
    walk n e (b :: rest) i r =
      match isMatch b.preds e r.hist with
      | none => (.raised, r)
      | some m => applyAct n e b rest i r
          (if b.loop then loopAct m b.strict else notLoopAct m b.negated b.optional b.strict) := by
  rw [walk]
  cases isMatch b.preds e r.hist with
  | none => rfl
  | some m =>
    simp only [loopAct, notLoopAct]
    cases m <;> cases b.loop <;> cases b.negated <;> cases b.optional <;> cases b.strict <;> rfl

/-- the steps of `process` the model follows: finished runs ignore the event; preconditions (all evaluated, a
failing one halts), haltconditions (all evaluated, a matching one halts), then the walk from the stored index. -/
def processStepsModel : List String :=
  ["finished?", "preconditions:all-evaluated:fail->halt", "haltconditions:all-evaluated:any->halt", "index:=stored",
   "block:=blocks[index]", "dispatch-on-loop"]

theorem gen_processSteps_eq : processSteps = processStepsModel := by decide

/-- `_move_forward` = add the event, index := temp_index + 1, halted := is_complete() (`moveForward`). -/
theorem gen_moveForward_eq : moveForwardStmts =
    ["self._add_event(event, block)", "self._block_index = temp_index + 1", "self._halted = self.is_complete()"] := by
  decide

end Bobo.Run
