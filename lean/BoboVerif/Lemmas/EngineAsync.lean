import BoboVerif.Model.EngineAsync
import BoboVerif.Lemmas.Engine
/-!
Helper lemmas for C02, asynchronous handler (M-EngineAsync): the invariant
`AInv = UInv ∧ DInv` and its preservation by every atomic step (one lemma per
step), closure of predicates under the engine loop, the length view (`ALens`)
of every atomic step, termination, service and draining.
-/
set_option linter.unusedSimpArgs false
set_option linter.unusedVariables false
namespace Bobo.Engine
variable {σ : Type}

/-! ### the part of the blocking invariant that does not depend on HOW actions are executed -/

/-- `Inv` of Lemmas/Engine.lean minus `execs_eq` / `resp_log` (which say: executed at once, in dispatch order). -/
structure UInv (P : Params σ) (s : St σ) : Prop where
  entered_eq   : s.entered.map (·.2) = s.popped ++ s.rq
  processed_eq : s.processed.map (·.1) = s.popped.filter P.isValid
  wraps        : ∀ p ∈ s.processed, Wraps p.1 p.2
  published_eq : s.published = s.seen ++ s.dq
  completed_eq : s.completedLog.map (fun r => (r, true)) = s.prodPopped ++ s.pq
  complexes_eq : s.complexes.map cxOfEvent = (s.prodPopped.filter (known P)).map (cxOfRun P)
  complex_kind : ∀ x ∈ s.complexes, x.1.kind = .complex
  accepted_eq  : s.fwdAccepted = (s.complexes.filter (fwdTakes P)).map (·.1)
  fwd_eq       : s.fwdAccepted = s.fwdPopped ++ s.fq
  resp_eq      : s.respLog = s.respPopped ++ s.hq
  actions_eq   : s.actions.map acOfEvent = s.respPopped.map acOfResp
  action_kind  : ∀ e ∈ s.actions, e.kind = .action
  fb_prod      : (s.entered.filter (fun x => x.1 == .prod)).map (·.2) = s.complexes.map (fun x => Item.ev x.1)
  fb_fwd       : (s.entered.filter (fun x => x.1 == .fwd)).map (·.2) = s.actions.map Item.ev

theorem uinv_init (P : Params σ) (d : σ) : UInv P (init d) := by
  constructor <;> simp [init, St.published]

theorem uinv_add (P : Params σ) (it : Item) (s : St σ) (h : UInv P s) : UInv P (addData .ext it s) := by
  obtain ⟨h1, h2, h3, h4, h5, h6, h7, h8, h9, h10, h11, h12, h13, h14⟩ := h
  constructor <;> simp_all [addData, St.published]

theorem uinv_clear (P : Params σ) (s : St σ) (h : UInv P s) : UInv P { s with err := none } := by
  obtain ⟨h1, h2, h3, h4, h5, h6, h7, h8, h9, h10, h11, h12, h13, h14⟩ := h
  constructor <;> simp_all [St.published]

theorem uinv_recv (P : Params σ) (s : St σ) (h : UInv P s) : UInv P (recvUpdate P s).1 := by
  obtain ⟨h1, h2, h3, h4, h5, h6, h7, h8, h9, h10, h11, h12, h13, h14⟩ := h
  unfold recvUpdate
  split
  · constructor <;> assumption
  · rename_i it rest hq
    simp only [processData]
    by_cases hv : P.isValid it = true
    · cases it with
      | raw d =>
        constructor <;>
          simp_all [St.published, deliverRecv, List.filter_cons, Wraps] <;> grind
      | ev e =>
        constructor <;>
          simp_all [St.published, deliverRecv, List.filter_cons, Wraps] <;> grind
    · constructor <;> simp_all [St.published, List.filter_cons]

theorem uinv_dec (P : Params σ) (s : St σ) (h : UInv P s) : UInv P (decUpdate P s).1 := by
  obtain ⟨h1, h2, h3, h4, h5, h6, h7, h8, h9, h10, h11, h12, h13, h14⟩ := h
  unfold decUpdate
  split
  · constructor <;> assumption
  · rename_i e rest hq
    simp only
    split
    · constructor <;> simp_all [St.published, deliverDec]
    · constructor <;> simp_all [St.published]

theorem uinv_prod (P : Params σ) (s : St σ) (h : UInv P s) : UInv P (prodUpdate P s).1 := by
  obtain ⟨h1, h2, h3, h4, h5, h6, h7, h8, h9, h10, h11, h12, h13, h14⟩ := h
  unfold prodUpdate
  split
  · constructor <;> assumption
  · rename_i r loc rest hq
    simp only
    split
    · rename_i hk
      constructor <;> simp_all [St.published, List.filter_cons, known]
    · rename_i dg hk
      cases loc <;> cases hlo : P.localOnly <;>
        (constructor <;>
          simp_all [St.published, List.filter_cons, known, deliverProd, addData, mkComplex, cxOfRun, cxOfEvent,
            fwdTakes] <;> grind)

theorem uinv_fwdResponses (P : Params σ) (s : St σ) (h : UInv P s) : UInv P (fwdResponses P s).1 := by
  obtain ⟨h1, h2, h3, h4, h5, h6, h7, h8, h9, h10, h11, h12, h13, h14⟩ := h
  unfold fwdResponses
  split
  · constructor <;> assumption
  · rename_i r rest hq
    constructor <;>
      simp_all [St.published, deliverFwd, addData, mkAction, acOfEvent, acOfResp] <;> grind

/-! ### the steps of the blocking model that the asynchronous engine reuses do not touch the handler's bookkeeping -/

/-- `s'` has the same dispatch / execution / response history as `s`. -/
def Down (s s' : St σ) : Prop :=
  s'.fwdPopped = s.fwdPopped ∧ s'.execs = s.execs ∧ s'.respLog = s.respLog

theorem down_recv (P : Params σ) (s : St σ) : Down s (recvUpdate P s).1 := by
  simp only [recvUpdate, Down]
  split
  · simp
  · simp only [processData]
    split
    · simp
    · rename_i it _ _ _
      cases it <;> simp [deliverRecv]

theorem down_dec (P : Params σ) (s : St σ) : Down s (decUpdate P s).1 := by
  simp only [decUpdate, Down]
  split
  · simp
  · split <;> simp [deliverDec]

theorem down_prod (P : Params σ) (s : St σ) : Down s (prodUpdate P s).1 := by
  simp only [prodUpdate, Down]
  split
  · simp
  · split
    · simp
    · simp only [subsOf_producer, List.foldl_cons, List.foldl_nil, deliverProd]
      split <;> simp [addData]

theorem down_fwdResponses (P : Params σ) (s : St σ) : Down s (fwdResponses P s).1 := by
  simp only [fwdResponses, Down]
  split
  · simp
  · simp [deliverFwd, addData]

/-! ### the asynchronous handler's own invariant -/

/-- the `execute` call / the response a response stands for. -/
def Resp.exec (r : Resp) : Exec := { actName := r.actName, cev := r.cev }

structure DInv (P : Params σ) (a : ASt σ) : Prop where
  /-- `handle` calls = one per complex event taken whose phenomenon has an action, in order -/
  handed_eq   : a.handed = a.fwdPopped.filterMap (execOf P)
  /-- what is in flight is the phenomenon's own action -/
  inflight_ok : ∀ j ∈ a.inflight, P.actionOf j.cev.phen = some (j.actName, j.run)
  /-- every `handle` call is either executed or in flight — as multisets: completion order is arbitrary -/
  handed_perm : a.handed.Perm (a.execs ++ a.inflight.map Job.exec)
  /-- executions and responses are produced together -/
  execs_resp  : a.execs = a.respLog.map Resp.exec
  /-- each response is THE response of its own complex event -/
  resp_ok     : ∀ r ∈ a.respLog, respOf P r.cev = some r

theorem dinv_init (P : Params σ) (d : σ) : DInv P (initA d) := by
  constructor <;> simp [initA, init]

/-- a step that only changes the `St` part and leaves the handler's bookkeeping alone. -/
theorem dinv_frame (P : Params σ) (a : ASt σ) (s' : St σ) (hd : Down a.toSt s') (h : DInv P a) :
    DInv P { a with toSt := s' } := by
  obtain ⟨h1, h2, h3, h4, h5⟩ := h
  obtain ⟨d1, d2, d3⟩ := hd
  constructor <;> simp_all

theorem dinv_pool (P : Params σ) (a : ASt σ) (l : List (List Nat)) (h : DInv P a) : DInv P { a with pool := l } := by
  obtain ⟨h1, h2, h3, h4, h5⟩ := h
  constructor <;> simp_all

theorem perm_getElem_eraseIdx {α : Type} : ∀ (l : List α) (k : Nat) (x : α), l[k]? = some x →
    l.Perm (l.eraseIdx k ++ [x])
  | [], k, x, h => by simp at h
  | y :: l, 0, x, h => by
    simp only [List.getElem?_cons_zero, Option.some.injEq] at h
    subst h
    simpa using (List.perm_append_comm (l₁ := [y]) (l₂ := l))
  | y :: l, k + 1, x, h => by
    simp only [List.getElem?_cons_succ] at h
    simpa using (perm_getElem_eraseIdx l k x h).cons y

theorem dinv_complete (P : Params σ) (k : Nat) (a : ASt σ) (h : DInv P a) : DInv P (complete k a) := by
  unfold complete
  split
  · exact h
  · rename_i j hj
    obtain ⟨h1, h2, h3, h4, h5⟩ := h
    have hmem : j ∈ a.inflight := List.mem_of_getElem? hj
    constructor
    · simpa using h1
    · intro j' hj'
      exact h2 j' (List.mem_of_mem_eraseIdx hj')
    · -- handed ~ execs ++ inflight  ~  execs ++ (erased ++ [j])  ~  (execs ++ [j]) ++ erased
      refine h3.trans ?_
      have hp := (perm_getElem_eraseIdx a.inflight k j hj).map Job.exec
      refine (List.Perm.append_left _ hp).trans ?_
      simp only [List.map_append, List.map_cons, List.map_nil, List.append_assoc]
      exact List.Perm.append_left _ List.perm_append_comm
    · simp [h4, Job.exec, Job.resp, Resp.exec]
    · intro r hr
      simp only [List.mem_append, List.mem_singleton] at hr
      rcases hr with hr | rfl
      · exact h5 r hr
      · simp [respOf, Job.resp, h2 j hmem]

theorem dinv_fwdHandleA (P : Params σ) (a : ASt σ) (h : DInv P a) : DInv P (fwdHandleA P a).1 := by
  unfold fwdHandleA
  split
  · exact h
  · rename_i e rest hq
    obtain ⟨h1, h2, h3, h4, h5⟩ := h
    split
    · rename_i hk
      constructor <;> simp_all [execOf]
    · rename_i name f hk
      constructor
      · simp [h1, execOf, hk]
      · intro j hj
        simp only [List.mem_append, List.mem_singleton] at hj
        rcases hj with hj | rfl
        · exact h2 j hj
        · exact hk
      · simp only [List.map_append, List.map_cons, List.map_nil, ← List.append_assoc]
        exact List.Perm.append_right _ h3
      · exact h4
      · exact h5

/-! ### the whole invariant, one lemma per atomic step -/

def AInv (P : Params σ) (a : ASt σ) : Prop := UInv P a.toSt ∧ DInv P a

theorem ainv_init (P : Params σ) (d : σ) : AInv P (initA d) := ⟨uinv_init P d, dinv_init P d⟩

theorem ainv_lift (P : Params σ) (f : St σ → St σ × Bool) (hu : ∀ s, UInv P s → UInv P (f s).1)
    (hd : ∀ s, Down s (f s).1) (a : ASt σ) (h : AInv P a) : AInv P (liftA f a).1 :=
  ⟨hu _ h.1, dinv_frame P a _ (hd _) h.2⟩

theorem ainv_add (P : Params σ) (it : Item) (a : ASt σ) (h : AInv P a) : AInv P (addDataA .ext it a) :=
  ⟨uinv_add P it _ h.1, dinv_frame P a _ ⟨rfl, rfl, rfl⟩ h.2⟩

theorem ainv_clear (P : Params σ) (a : ASt σ) (h : AInv P a) :
    AInv P { a with toSt := { a.toSt with err := none } } :=
  ⟨uinv_clear P _ h.1, dinv_frame P a _ ⟨rfl, rfl, rfl⟩ h.2⟩

theorem ainv_pool (P : Params σ) (l : List (List Nat)) (a : ASt σ) (h : AInv P a) : AInv P { a with pool := l } :=
  ⟨h.1, dinv_pool P a l h.2⟩

theorem uinv_complete (P : Params σ) (k : Nat) (a : ASt σ) (h : UInv P a.toSt) : UInv P (complete k a).toSt := by
  unfold complete
  split
  · exact h
  · obtain ⟨h1, h2, h3, h4, h5, h6, h7, h8, h9, h10, h11, h12, h13, h14⟩ := h
    constructor <;> simp_all [St.published]

theorem uinv_fwdHandleA (P : Params σ) (a : ASt σ) (h : UInv P a.toSt) : UInv P (fwdHandleA P a).1.toSt := by
  unfold fwdHandleA
  split
  · exact h
  · obtain ⟨h1, h2, h3, h4, h5, h6, h7, h8, h9, h10, h11, h12, h13, h14⟩ := h
    split <;> (constructor <;> simp_all [St.published])

theorem ainv_complete (P : Params σ) (k : Nat) (a : ASt σ) (h : AInv P a) : AInv P (complete k a) :=
  ⟨uinv_complete P k a h.1, dinv_complete P k a h.2⟩

theorem ainv_fwdHandleA (P : Params σ) (a : ASt σ) (h : AInv P a) : AInv P (fwdHandleA P a).1 :=
  ⟨uinv_fwdHandleA P a h.1, dinv_fwdHandleA P a h.2⟩

theorem ainv_fwdResponsesA (P : Params σ) (a : ASt σ) (h : AInv P a) : AInv P (fwdResponsesA P a).1 :=
  ainv_lift P _ (uinv_fwdResponses P) (down_fwdResponses P) a h

/-! ### predicates closed under the atomic steps are closed under the engine loop, whatever the pool does -/

structure AClosed (P : Params σ) (I : ASt σ → Prop) : Prop where
  recv     : ∀ a, I a → I (liftA (recvUpdate P) a).1
  dec      : ∀ a, I a → I (liftA (decUpdate P) a).1
  prod     : ∀ a, I a → I (liftA (prodUpdate P) a).1
  handle   : ∀ a, I a → I (fwdHandleA P a).1
  resp     : ∀ a, I a → I (fwdResponsesA P a).1
  complete : ∀ k a, I a → I (complete k a)
  pool     : ∀ l a, I a → I { a with pool := l }
  clear    : ∀ a, I a → I { a with toSt := { a.toSt with err := none } }

theorem ainv_closed (P : Params σ) : AClosed P (AInv P) :=
  ⟨ainv_lift P _ (uinv_recv P) (down_recv P), ainv_lift P _ (uinv_dec P) (down_dec P),
   ainv_lift P _ (uinv_prod P) (down_prod P), ainv_fwdHandleA P, ainv_fwdResponsesA P,
   ainv_complete P, ainv_pool P, ainv_clear P⟩

theorem completeMany_closed {I : ASt σ → Prop} (hc : ∀ k a, I a → I (complete k a)) :
    ∀ (ks : List Nat) (a : ASt σ), I a → I (completeMany ks a) := by
  intro ks
  induction ks with
  | nil => intro a h; simpa [completeMany] using h
  | cons k ks ih => intro a h; exact ih _ (hc k a h)

theorem poolStep_closed {P : Params σ} {I : ASt σ → Prop} (hc : AClosed P I) (a : ASt σ) (h : I a) :
    I (poolStep a) := by
  unfold poolStep
  split
  · exact h
  · exact completeMany_closed hc.complete _ _ (hc.pool _ a h)

theorem taskUpdateA_closed {P : Params σ} {I : ASt σ → Prop} (hc : AClosed P I) (t : Task) (a : ASt σ) (h : I a) :
    I (taskUpdateA P t a).1 := by
  cases t
  · exact hc.recv a h
  · exact hc.dec a h
  · exact hc.prod a h
  · exact hc.resp _ (hc.handle a h)

theorem stepA_closed {P : Params σ} {I : ASt σ → Prop} (hc : AClosed P I) (t : Task) (a : ASt σ) (h : I a) :
    I (stepA P t a).1 := by
  cases t
  · exact hc.recv _ (poolStep_closed hc a h)
  · exact hc.dec _ (poolStep_closed hc a h)
  · exact hc.prod _ (poolStep_closed hc a h)
  · exact hc.resp _ (poolStep_closed hc _ (hc.handle _ (poolStep_closed hc a h)))

theorem whileLoopA_closed {I : ASt σ → Prop} (upd : ASt σ → ASt σ × Bool) (hu : ∀ s, I s → I (upd s).1) :
    ∀ fuel s, I s → I (whileLoopA upd fuel s).1 := by
  intro fuel
  induction fuel with
  | zero => intro s h; simpa [whileLoopA] using h
  | succ n ih =>
    intro s h
    simp only [whileLoopA]
    split
    · exact hu s h
    · split
      · exact ih _ (hu s h)
      · exact hu s h

theorem forLoopA_closed {I : ASt σ → Prop} (upd : ASt σ → ASt σ × Bool) (early : Bool) (hu : ∀ s, I s → I (upd s).1) :
    ∀ n s, I s → I (forLoopA upd early n s) := by
  intro n
  induction n with
  | zero => intro s h; simpa [forLoopA] using h
  | succ n ih =>
    intro s h
    simp only [forLoopA]
    split
    · exact hu s h
    · split
      · exact hu s h
      · exact ih _ (hu s h)

theorem runTaskFuelA_closed {P : Params σ} {I : ASt σ → Prop} (ht : ∀ t s, I s → I (stepA P t s).1)
    (c : Cfg) (fuel : Nat) (s : ASt σ) (tt : Task × Nat) (h : I s) : I (runTaskFuelA P c fuel s tt) := by
  unfold runTaskFuelA
  split
  · exact h
  · split
    · exact whileLoopA_closed _ (ht tt.1) _ _ h
    · exact forLoopA_closed _ _ (ht tt.1) _ _ h

theorem foldl_runTaskA_closed {P : Params σ} {I : ASt σ → Prop} (ht : ∀ t s, I s → I (stepA P t s).1)
    (c : Cfg) : ∀ (l : List (Task × Nat)) (s : ASt σ), I s → I (l.foldl (runTaskA P c) s) := by
  intro l
  induction l with
  | nil => intro s h; simpa using h
  | cons tt l ih => intro s h; exact ih _ (runTaskFuelA_closed ht c _ s tt h)

theorem engineUpdateA_closed {P : Params σ} {I : ASt σ → Prop} (hc : AClosed P I) (c : Cfg) (s : ASt σ) (h : I s) :
    I (engineUpdateA P c s) :=
  foldl_runTaskA_closed (stepA_closed hc) c _ _ (hc.clear s h)

theorem applyOpA_closed {P : Params σ} {I : ASt σ → Prop} (hc : AClosed P I)
    (hadd : ∀ it s, I s → I (addDataA .ext it s)) (c : Cfg) (o : AOp) (s : ASt σ) (h : I s) :
    I (applyOpA P c s o) := by
  cases o with
  | add it => exact hadd it s h
  | update script => exact engineUpdateA_closed hc c _ (hc.pool script s h)
  | complete k => exact hc.complete k s h

theorem runOpsA_closed {P : Params σ} {I : ASt σ → Prop} (hc : AClosed P I)
    (hadd : ∀ it s, I s → I (addDataA .ext it s)) (c : Cfg) :
    ∀ (ops : List AOp) (s : ASt σ), I s → I (runOpsA P c s ops) := by
  intro ops
  induction ops with
  | nil => intro s h; simpa [runOpsA] using h
  | cons o ops ih =>
    intro s h
    simp only [runOpsA, List.foldl_cons]
    exact ih _ (applyOpA_closed hc hadd c o s h)

/-! ### the effect of every atomic step on the queue lengths and on the numbers of items taken -/

structure ALens where
  rq : Nat
  dq : Nat
  pq : Nat
  fq : Nat
  hq : Nat
  inf : Nat  -- executions in flight
  sR : Nat   -- items the receiver took
  sD : Nat   -- events the decider took
  sP : Nat   -- runs the producer took
  sF : Nat   -- complex events the forwarder took
  sH : Nat   -- responses the forwarder took

def alens (s : ASt σ) : ALens :=
  ⟨s.rq.length, s.dq.length, s.pq.length, s.fq.length, s.hq.length, s.inflight.length,
   s.popped.length, s.seen.length, s.prodPopped.length, s.fwdPopped.length, s.respPopped.length⟩

/-- the pool: `n ≥ 0` executions move from in flight to the response queue; nothing else moves. -/
def CompE (a b : ALens) : Prop :=
  ∃ n, b.inf + n = a.inf ∧ b.hq = a.hq + n ∧
    b.rq = a.rq ∧ b.dq = a.dq ∧ b.pq = a.pq ∧ b.fq = a.fq ∧
    b.sR = a.sR ∧ b.sD = a.sD ∧ b.sP = a.sP ∧ b.sF = a.sF ∧ b.sH = a.sH

def RecvE (a b : ALens) (r : Bool) : Prop :=
  (a.rq = 0 ∧ b = a ∧ r = false) ∨
  (a.rq > 0 ∧ b.rq + 1 = a.rq ∧ b.sR = a.sR + 1 ∧ a.dq ≤ b.dq ∧ b.dq ≤ a.dq + 1 ∧
    b.pq = a.pq ∧ b.fq = a.fq ∧ b.hq = a.hq ∧ b.inf = a.inf ∧ b.sD = a.sD ∧ b.sP = a.sP ∧ b.sF = a.sF ∧ b.sH = a.sH)

def DecE (a b : ALens) (r : Bool) : Prop :=
  (a.dq = 0 ∧ b = a ∧ r = false) ∨
  (a.dq > 0 ∧ b.dq + 1 = a.dq ∧ b.sD = a.sD + 1 ∧ a.pq ≤ b.pq ∧
    b.rq = a.rq ∧ b.fq = a.fq ∧ b.hq = a.hq ∧ b.inf = a.inf ∧ b.sR = a.sR ∧ b.sP = a.sP ∧ b.sF = a.sF ∧ b.sH = a.sH)

def ProdE (a b : ALens) (r : Bool) : Prop :=
  (a.pq = 0 ∧ b = a ∧ r = false) ∨
  (a.pq > 0 ∧ b.pq + 1 = a.pq ∧ b.sP = a.sP + 1 ∧ a.rq ≤ b.rq ∧ b.rq ≤ a.rq + 1 ∧ a.fq ≤ b.fq ∧ b.fq ≤ a.fq + 1 ∧
    b.dq = a.dq ∧ b.hq = a.hq ∧ b.inf = a.inf ∧ b.sR = a.sR ∧ b.sD = a.sD ∧ b.sF = a.sF ∧ b.sH = a.sH)

def HandleE (a b : ALens) (r : Bool) : Prop :=
  (a.fq = 0 ∧ b = a ∧ r = false) ∨
  (a.fq > 0 ∧ r = true ∧ b.fq + 1 = a.fq ∧ b.sF = a.sF + 1 ∧ a.inf ≤ b.inf ∧ b.inf ≤ a.inf + 1 ∧
    b.hq = a.hq ∧ b.rq = a.rq ∧ b.dq = a.dq ∧ b.pq = a.pq ∧ b.sR = a.sR ∧ b.sD = a.sD ∧ b.sP = a.sP ∧ b.sH = a.sH)

def RespE (a b : ALens) (r : Bool) : Prop :=
  (a.hq = 0 ∧ b = a ∧ r = false) ∨
  (a.hq > 0 ∧ r = true ∧ b.hq + 1 = a.hq ∧ b.sH = a.sH + 1 ∧ b.rq = a.rq + 1 ∧
    b.fq = a.fq ∧ b.inf = a.inf ∧ b.dq = a.dq ∧ b.pq = a.pq ∧ b.sR = a.sR ∧ b.sD = a.sD ∧ b.sP = a.sP ∧ b.sF = a.sF)

/-- one `update()` call of task `t` inside an engine update (pool included), seen through the lengths. -/
def AEff : Task → ALens → ALens → Bool → Prop
  | .receiver,  a, b, r => ∃ m, CompE a m ∧ RecvE m b r
  | .decider,   a, b, r => ∃ m, CompE a m ∧ DecE m b r
  | .producer,  a, b, r => ∃ m, CompE a m ∧ ProdE m b r
  | .forwarder, a, b, r => ∃ m1 m2 m3 r1 r2, CompE a m1 ∧ HandleE m1 m2 r1 ∧ CompE m2 m3 ∧ RespE m3 b r2 ∧
      r = (r1 || r2)

theorem compE_refl (a : ALens) : CompE a a := ⟨0, by simp⟩

theorem compE_trans {a b c : ALens} (h1 : CompE a b) (h2 : CompE b c) : CompE a c := by
  obtain ⟨n, h1⟩ := h1
  obtain ⟨m, h2⟩ := h2
  exact ⟨n + m, by omega⟩

theorem eff_complete (k : Nat) (s : ASt σ) : CompE (alens s) (alens (complete k s)) := by
  unfold complete
  split
  · exact compE_refl _
  · rename_i j hj
    have hk : k < s.inflight.length := by
      rcases Nat.lt_or_ge k s.inflight.length with h | h
      · exact h
      · simp [List.getElem?_eq_none h] at hj
    refine ⟨1, ?_⟩
    simp [alens, List.length_eraseIdx, hk]
    omega

theorem eff_completeMany : ∀ (ks : List Nat) (s : ASt σ), CompE (alens s) (alens (completeMany ks s)) := by
  intro ks
  induction ks with
  | nil => intro s; exact compE_refl _
  | cons k ks ih => intro s; exact compE_trans (eff_complete k s) (ih _)

theorem alens_pool (s : ASt σ) (l : List (List Nat)) : alens { s with pool := l } = alens s := rfl

theorem eff_poolStep (s : ASt σ) : CompE (alens s) (alens (poolStep s)) := by
  unfold poolStep
  split
  · exact compE_refl _
  · rename_i ks rest _
    have := eff_completeMany ks { s with pool := rest }
    rwa [alens_pool] at this

theorem eff_recvA (P : Params σ) (s : ASt σ) :
    RecvE (alens s) (alens (liftA (recvUpdate P) s).1) (liftA (recvUpdate P) s).2 := by
  simp only [liftA, recvUpdate, RecvE]
  split
  · rename_i h; left; simp [alens, h]
  · rename_i it rest h
    right
    simp only [processData]
    split
    · simp [alens, h]
    · cases it <;> simp [alens, h, deliverRecv]

theorem eff_decA (P : Params σ) (s : ASt σ) :
    DecE (alens s) (alens (liftA (decUpdate P) s).1) (liftA (decUpdate P) s).2 := by
  simp only [liftA, decUpdate, DecE]
  split
  · rename_i h; left; simp [alens, h]
  · rename_i e rest h
    right
    split <;> simp [alens, h, deliverDec]

theorem eff_prodA (P : Params σ) (s : ASt σ) :
    ProdE (alens s) (alens (liftA (prodUpdate P) s).1) (liftA (prodUpdate P) s).2 := by
  simp only [liftA, prodUpdate, ProdE]
  split
  · rename_i h; left; simp [alens, h]
  · rename_i r loc rest h
    right
    split
    · simp [alens, h]
    · simp only [subsOf_producer, List.foldl_cons, List.foldl_nil, deliverProd]
      split <;> simp [alens, h, addData]

theorem eff_handleA (P : Params σ) (s : ASt σ) :
    HandleE (alens s) (alens (fwdHandleA P s).1) (fwdHandleA P s).2 := by
  unfold fwdHandleA HandleE
  split
  · rename_i h; left; simp [alens, h]
  · rename_i e rest h
    right
    simp only
    split <;> simp [alens, h]

theorem eff_respA (P : Params σ) (s : ASt σ) :
    RespE (alens s) (alens (fwdResponsesA P s).1) (fwdResponsesA P s).2 := by
  simp only [fwdResponsesA, liftA, fwdResponses, RespE]
  split
  · rename_i h; left; simp [alens, h]
  · rename_i r rest h
    right
    simp [alens, h, deliverFwd, addData]

theorem eff_stepA (P : Params σ) (t : Task) (s : ASt σ) :
    AEff t (alens s) (alens (stepA P t s).1) (stepA P t s).2 := by
  cases t
  · exact ⟨_, eff_poolStep s, eff_recvA P _⟩
  · exact ⟨_, eff_poolStep s, eff_decA P _⟩
  · exact ⟨_, eff_poolStep s, eff_prodA P _⟩
  · exact ⟨_, _, _, _, _, eff_poolStep s, eff_handleA P _, eff_poolStep _, eff_respA P _, rfl⟩

/-! ### termination of the `while task.update()` loops, whatever the pool does meanwhile -/

def measL : Task → ALens → Nat
  | .receiver,  a => a.rq
  | .decider,   a => a.dq
  | .producer,  a => a.pq
  | .forwarder, a => 2 * a.fq + a.inf + a.hq

theorem taskMeasureA_alens (t : Task) (s : ASt σ) : taskMeasureA t s = measL t (alens s) := by
  cases t <;> rfl

theorem aeff_true_decreases {t : Task} {a b : ALens} (h : AEff t a b true) : measL t b < measL t a := by
  cases t <;> simp only [AEff, CompE, RecvE, DecE, ProdE, HandleE, RespE, measL] at h ⊢
  · obtain ⟨m, ⟨n, hc⟩, h⟩ := h
    rcases h with ⟨_, _, hr⟩ | h
    · exact absurd hr (by decide)
    · omega
  · obtain ⟨m, ⟨n, hc⟩, h⟩ := h
    rcases h with ⟨_, _, hr⟩ | h
    · exact absurd hr (by decide)
    · omega
  · obtain ⟨m, ⟨n, hc⟩, h⟩ := h
    rcases h with ⟨_, _, hr⟩ | h
    · exact absurd hr (by decide)
    · omega
  · obtain ⟨m1, m2, m3, r1, r2, ⟨n1, hc1⟩, h1, ⟨n2, hc2⟩, h2, hr⟩ := h
    rcases h1 with ⟨_, rfl, rfl⟩ | h1 <;> rcases h2 with ⟨_, rfl, rfl⟩ | h2
    · exact absurd hr (by decide)
    · omega
    · omega
    · omega

theorem stepA_true_decreases (P : Params σ) (t : Task) (s : ASt σ) (h : (stepA P t s).2 = true) :
    taskMeasureA t (stepA P t s).1 < taskMeasureA t s := by
  have he := eff_stepA P t s
  rw [h] at he
  rw [taskMeasureA_alens, taskMeasureA_alens]
  exact aeff_true_decreases he

theorem whileLoopA_fuel (upd : ASt σ → ASt σ × Bool) (m : ASt σ → Nat)
    (hm : ∀ s, (upd s).2 = true → m (upd s).1 < m s) :
    ∀ fuel s, m s < fuel →
      (whileLoopA upd fuel s).2 = false ∧ ∀ fuel', fuel ≤ fuel' → whileLoopA upd fuel' s = whileLoopA upd fuel s := by
  intro fuel
  induction fuel with
  | zero => intro s h; omega
  | succ n ih =>
    intro s h
    constructor
    · simp only [whileLoopA]
      split
      · rfl
      · split
        · rename_i hb
          exact (ih _ (by have := hm s hb; omega)).1
        · rfl
    · intro fuel' hf
      obtain ⟨k, rfl⟩ : ∃ k, fuel' = k + 1 := ⟨fuel' - 1, by omega⟩
      simp only [whileLoopA]
      split
      · rfl
      · split
        · rename_i hb
          exact (ih _ (by have := hm s hb; omega)).2 k (by omega)
        · rfl

/-! ### no exception -/

def HealthyA (P : Params σ) (Q : σ → Prop) (a : ASt σ) : Prop := Healthy P Q a.toSt

theorem healthy_fwdResponses {P : Params σ} {Q : σ → Prop} (s : St σ) (h : Healthy P Q s) :
    Healthy P Q (fwdResponses P s).1 := by
  obtain ⟨he, hp, hq⟩ := h
  simp only [fwdResponses]
  split
  · exact ⟨he, hp, hq⟩
  · exact ⟨by simpa [deliverFwd, addData] using he, by simpa [deliverFwd, addData] using hp,
      by simpa [deliverFwd, addData] using hq⟩

theorem healthyA_closed {P : Params σ} {Q : σ → Prop} (hs : StableOut P Q) : AClosed P (HealthyA P Q) := by
  refine ⟨fun a h => healthy_task hs .receiver _ h, fun a h => healthy_task hs .decider _ h,
    fun a h => healthy_task hs .producer _ h, ?_, fun a h => healthy_fwdResponses _ h, ?_, fun l a h => h,
    fun a h => ⟨rfl, h.2.1, h.2.2⟩⟩
  · intro a h
    unfold fwdHandleA
    split
    · exact h
    · split <;> exact ⟨h.1, h.2.1, h.2.2⟩
  · intro k a h
    unfold complete
    split
    · exact h
    · exact ⟨h.1, h.2.1, h.2.2⟩

theorem healthyA_add {P : Params σ} {Q : σ → Prop} (it : Item) (s : ASt σ) (h : HealthyA P Q s) :
    HealthyA P Q (addDataA .ext it s) :=
  healthy_add it _ h

/-! ### one engine update runs every task at least once -/

theorem runTaskA_after_first {P : Params σ} {J : ASt σ → Prop} (c : Cfg) (t : Task) (n : Nat) (s : ASt σ)
    (hJ : ∀ a, J a → J (stepA P t a).1) (he : s.err = none) (h1 : J (stepA P t s).1) :
    J (runTaskA P c s (t, n)) := by
  unfold runTaskA runTaskFuelA
  simp only [he, Option.isSome_none, Bool.false_eq_true, if_false]
  by_cases hn : n = 0
  · simp only [loopOf, hn, if_true, whileLoopA]
    split
    · exact h1
    · split
      · exact whileLoopA_closed _ hJ _ _ h1
      · exact h1
  · obtain ⟨k, rfl⟩ : ∃ k, n = k + 1 := ⟨n - 1, by omega⟩
    simp only [loopOf, hn, if_false, forLoopA]
    split
    · exact h1
    · split
      · exact h1
      · exact forLoopA_closed _ _ hJ _ _ h1

theorem foldl_serviceA {P : Params σ} (c : Cfg) (t : Task) (M J H : ASt σ → Prop)
    (hM : ∀ t' a, M a → M (stepA P t' a).1)
    (hJ : ∀ t' a, J a → J (stepA P t' a).1)
    (hH : ∀ t' a, H a → H (stepA P t' a).1) (hHe : ∀ a, H a → a.err = none)
    (hfirst : ∀ a, M a → H a → J (stepA P t a).1) :
    ∀ (l : List (Task × Nat)) a, M a → H a → (∃ n, (t, n) ∈ l) → J (l.foldl (runTaskA P c) a) := by
  intro l
  induction l with
  | nil => intro a _ _ h; simp at h
  | cons tt l ih =>
    intro a hm hh hex
    obtain ⟨t', n'⟩ := tt
    simp only [List.foldl_cons]
    by_cases ht : t' = t
    · subst ht
      apply foldl_runTaskA_closed hJ
      exact runTaskA_after_first c t' n' a (hJ t') (hHe a hh) (hfirst a hm hh)
    · apply ih
      · exact runTaskFuelA_closed hM c _ a _ hm
      · exact runTaskFuelA_closed hH c _ a _ hh
      · obtain ⟨n, hn⟩ := hex
        simp only [List.mem_cons, Prod.mk.injEq] at hn
        rcases hn with ⟨h1, _⟩ | hn
        · exact absurd h1.symm ht
        · exact ⟨n, hn⟩

theorem alens_clear (s : ASt σ) : alens { s with toSt := { s.toSt with err := none } } = alens s := rfl

/-- the served count of a channel grows by at least one per engine update while it has work. -/
theorem serve_genericA {P : Params σ} {Q : σ → Prop} (c : Cfg) (sv pd : ALens → Nat) (t : Task)
    (hmono : ∀ t' a b r, AEff t' a b r → sv a ≤ sv b ∧ sv a + pd a ≤ sv b + pd b)
    (hown : ∀ a b r, AEff t a b r → min (sv a + pd a) (sv a + 1) ≤ sv b)
    (hs : StableOut P Q) (s : ASt σ) (hh : HealthyA P Q s) :
    min (sv (alens s) + pd (alens s)) (sv (alens s) + 1) ≤ sv (alens (engineUpdateA P c s)) := by
  have hex : ∃ n, (t, n) ∈ schedule c := by
    cases t
    · exact ⟨c.tR, by simp [schedule]⟩
    · exact ⟨c.tD, by simp [schedule]⟩
    · exact ⟨c.tP, by simp [schedule]⟩
    · exact ⟨c.tF, by simp [schedule]⟩
  let a0 := alens s
  refine foldl_serviceA (P := P) c t
    (fun a => sv a0 ≤ sv (alens a) ∧ sv a0 + pd a0 ≤ sv (alens a) + pd (alens a))
    (fun a => min (sv a0 + pd a0) (sv a0 + 1) ≤ sv (alens a))
    (HealthyA P Q) ?_ ?_ (stepA_closed (healthyA_closed hs)) (fun a h => h.1) ?_ (schedule c) _ ?_ ?_ hex
  · intro t' a hm
    have := hmono t' _ _ _ (eff_stepA P t' a)
    omega
  · intro t' a hj
    have := hmono t' _ _ _ (eff_stepA P t' a)
    omega
  · intro a hm _
    have := hown _ _ _ (eff_stepA P t a)
    omega
  · exact ⟨Nat.le_refl _, Nat.le_refl _⟩
  · exact ⟨rfl, hh.2.1, hh.2.2⟩

/-! ### arithmetic consequences of `AEff` (what `omega` needs) -/

theorem aeff_mono {t : Task} {a b : ALens} {r : Bool} (h : AEff t a b r) :
    a.sR ≤ b.sR ∧ a.sD ≤ b.sD ∧ a.sP ≤ b.sP ∧ a.sF ≤ b.sF ∧ a.sH ≤ b.sH ∧
    a.sR + a.rq ≤ b.sR + b.rq ∧ a.sD + a.dq ≤ b.sD + b.dq ∧ a.sP + a.pq ≤ b.sP + b.pq ∧
    a.sF + a.fq ≤ b.sF + b.fq ∧ a.sH + a.hq ≤ b.sH + b.hq := by
  cases t <;> simp only [AEff, CompE, RecvE, DecE, ProdE, HandleE, RespE] at h
  · obtain ⟨m, ⟨n, hc⟩, h⟩ := h
    rcases h with ⟨_, rfl, _⟩ | h <;> omega
  · obtain ⟨m, ⟨n, hc⟩, h⟩ := h
    rcases h with ⟨_, rfl, _⟩ | h <;> omega
  · obtain ⟨m, ⟨n, hc⟩, h⟩ := h
    rcases h with ⟨_, rfl, _⟩ | h <;> omega
  · obtain ⟨m1, m2, m3, r1, r2, ⟨n1, hc1⟩, h1, ⟨n2, hc2⟩, h2, hr⟩ := h
    rcases h1 with ⟨_, rfl, _⟩ | h1 <;> rcases h2 with ⟨_, rfl, _⟩ | h2 <;> omega

theorem aeff_own_R {a b : ALens} {r : Bool} (h : AEff .receiver a b r) : min (a.sR + a.rq) (a.sR + 1) ≤ b.sR := by
  simp only [AEff, CompE, RecvE] at h
  obtain ⟨m, ⟨n, hc⟩, h⟩ := h
  rcases h with ⟨_, rfl, _⟩ | h <;> omega
theorem aeff_own_D {a b : ALens} {r : Bool} (h : AEff .decider a b r) : min (a.sD + a.dq) (a.sD + 1) ≤ b.sD := by
  simp only [AEff, CompE, DecE] at h
  obtain ⟨m, ⟨n, hc⟩, h⟩ := h
  rcases h with ⟨_, rfl, _⟩ | h <;> omega
theorem aeff_own_P {a b : ALens} {r : Bool} (h : AEff .producer a b r) : min (a.sP + a.pq) (a.sP + 1) ≤ b.sP := by
  simp only [AEff, CompE, ProdE] at h
  obtain ⟨m, ⟨n, hc⟩, h⟩ := h
  rcases h with ⟨_, rfl, _⟩ | h <;> omega
theorem aeff_own_F {a b : ALens} {r : Bool} (h : AEff .forwarder a b r) : min (a.sF + a.fq) (a.sF + 1) ≤ b.sF := by
  simp only [AEff, CompE, HandleE, RespE] at h
  obtain ⟨m1, m2, m3, r1, r2, ⟨n1, hc1⟩, h1, ⟨n2, hc2⟩, h2, hr⟩ := h
  rcases h1 with ⟨_, rfl, _⟩ | h1 <;> rcases h2 with ⟨_, rfl, _⟩ | h2 <;> omega
theorem aeff_own_H {a b : ALens} {r : Bool} (h : AEff .forwarder a b r) : min (a.sH + a.hq) (a.sH + 1) ≤ b.sH := by
  simp only [AEff, CompE, HandleE, RespE] at h
  obtain ⟨m1, m2, m3, r1, r2, ⟨n1, hc1⟩, h1, ⟨n2, hc2⟩, h2, hr⟩ := h
  rcases h1 with ⟨_, rfl, _⟩ | h1 <;> rcases h2 with ⟨_, rfl, _⟩ | h2 <;> omega

/-- weighted number of hand-overs still to come if the matcher completes nothing any more
(an execution in flight still has: completion, response taken, fed back, seen). -/
def muA (a : ALens) : Nat := 8 * a.pq + 5 * a.fq + 4 * a.inf + 3 * a.hq + 2 * a.rq + a.dq

/-- `muA` plus everything taken so far: no atomic step increases it. -/
def phiA (a : ALens) : Nat := muA a + a.sR + a.sD + a.sP + a.sF + a.sH

theorem phi_aeff {t : Task} {a b : ALens} {r : Bool} (h : AEff t a b r) (hd : t = .decider → b.pq = a.pq) :
    phiA b ≤ phiA a := by
  cases t <;> simp only [AEff, CompE, RecvE, DecE, ProdE, HandleE, RespE, phiA, muA] at h ⊢
  · obtain ⟨m, ⟨n, hc⟩, h⟩ := h
    rcases h with ⟨_, rfl, _⟩ | h <;> omega
  · have := hd rfl
    obtain ⟨m, ⟨n, hc⟩, h⟩ := h
    rcases h with ⟨_, rfl, _⟩ | h <;> omega
  · obtain ⟨m, ⟨n, hc⟩, h⟩ := h
    rcases h with ⟨_, rfl, _⟩ | h <;> omega
  · obtain ⟨m1, m2, m3, r1, r2, ⟨n1, hc1⟩, h1, ⟨n2, hc2⟩, h2, hr⟩ := h
    rcases h1 with ⟨_, rfl, _⟩ | h1 <;> rcases h2 with ⟨_, rfl, _⟩ | h2 <;> omega

/-! ### the pool touches neither the matcher state nor the producer queue -/

theorem complete_ds_pq (k : Nat) (a : ASt σ) : (complete k a).ds = a.ds ∧ (complete k a).pq = a.pq := by
  unfold complete
  split <;> simp

theorem poolStep_ds_pq (a : ASt σ) : (poolStep a).ds = a.ds ∧ (poolStep a).pq = a.pq := by
  unfold poolStep
  split
  · simp
  · rename_i ks rest _
    exact completeMany_closed (I := fun b => b.ds = a.ds ∧ b.pq = a.pq)
      (fun k b hb => by have := complete_ds_pq k b; exact ⟨this.1.trans hb.1, this.2.trans hb.2⟩) ks _ ⟨rfl, rfl⟩

theorem stepA_dec_pq_quiet {P : Params σ} {Q : σ → Prop} (hq : Quiet P Q) (s : ASt σ) (h : Q s.ds) :
    (stepA P .decider s).1.pq = s.pq := by
  have hp := poolStep_ds_pq s
  show (decUpdate P (poolStep s).toSt).1.pq = s.pq
  rw [dec_pq_quiet hq _ (by rw [hp.1]; exact h), hp.2]

theorem phi_stepA {P : Params σ} {Q : σ → Prop} (hq : Quiet P Q) (t : Task) (s : ASt σ) (h : HealthyA P Q s) :
    phiA (alens (stepA P t s).1) ≤ phiA (alens s) :=
  phi_aeff (eff_stepA P t s) (by
    intro ht; subst ht
    simp only [alens]
    rw [stepA_dec_pq_quiet hq s h.2.2])

/-! ### a silent pool: nothing leaves `inflight` -/

theorem poolStep_silent (a : ASt σ) (h : a.pool = []) : poolStep a = a := by
  simp [poolStep, h]

theorem stepA_silent (P : Params σ) (t : Task) (a : ASt σ) (h : a.pool = []) :
    (stepA P t a).1.pool = [] ∧ a.inflight.length ≤ (stepA P t a).1.inflight.length := by
  cases t
  · simp [stepA, poolStep_silent a h, taskUpdateA, liftA, h]
  · simp [stepA, poolStep_silent a h, taskUpdateA, liftA, h]
  · simp [stepA, poolStep_silent a h, taskUpdateA, liftA, h]
  · have h1 : (fwdHandleA P a).1.pool = [] ∧ a.inflight.length ≤ (fwdHandleA P a).1.inflight.length := by
      unfold fwdHandleA
      split
      · simp [h]
      · split <;> simp [h]
    simp only [stepA, poolStep_silent a h, poolStep_silent _ h1.1, fwdResponsesA, liftA]
    exact h1

/-! ### one engine update, seen through the lengths -/

theorem engineUpdateA_serves {P : Params σ} {Q : σ → Prop} (hs : StableOut P Q) (c : Cfg) (s : ASt σ)
    (hh : HealthyA P Q s) :
    let a := alens s
    let b := alens (engineUpdateA P c s)
    min (a.sR + a.rq) (a.sR + 1) ≤ b.sR ∧ min (a.sD + a.dq) (a.sD + 1) ≤ b.sD ∧
    min (a.sP + a.pq) (a.sP + 1) ≤ b.sP ∧ min (a.sF + a.fq) (a.sF + 1) ≤ b.sF ∧
    min (a.sH + a.hq) (a.sH + 1) ≤ b.sH := by
  refine ⟨?_, ?_, ?_, ?_, ?_⟩
  · exact serve_genericA c (·.sR) (·.rq) .receiver
      (fun t a b r h => by have := aeff_mono h; omega) (fun a b r h => aeff_own_R h) hs s hh
  · exact serve_genericA c (·.sD) (·.dq) .decider
      (fun t a b r h => by have := aeff_mono h; omega) (fun a b r h => aeff_own_D h) hs s hh
  · exact serve_genericA c (·.sP) (·.pq) .producer
      (fun t a b r h => by have := aeff_mono h; omega) (fun a b r h => aeff_own_P h) hs s hh
  · exact serve_genericA c (·.sF) (·.fq) .forwarder
      (fun t a b r h => by have := aeff_mono h; omega) (fun a b r h => aeff_own_F h) hs s hh
  · exact serve_genericA c (·.sH) (·.hq) .forwarder
      (fun t a b r h => by have := aeff_mono h; omega) (fun a b r h => aeff_own_H h) hs s hh

/-- what was ever offered to a queue (taken + pending) never shrinks. -/
def OfferedA (a b : ALens) : Prop :=
  a.sR + a.rq ≤ b.sR + b.rq ∧ a.sD + a.dq ≤ b.sD + b.dq ∧ a.sP + a.pq ≤ b.sP + b.pq ∧
  a.sF + a.fq ≤ b.sF + b.fq ∧ a.sH + a.hq ≤ b.sH + b.hq

theorem offered_engineA (P : Params σ) (c : Cfg) (s : ASt σ) : OfferedA (alens s) (alens (engineUpdateA P c s)) := by
  refine foldl_runTaskA_closed (P := P) (I := fun a => OfferedA (alens s) (alens a)) ?_ c _ _ ?_
  · intro t a ha
    have := aeff_mono (eff_stepA P t a)
    simp only [OfferedA] at ha ⊢
    omega
  · simp only [OfferedA, alens_clear]; omega

/-- in a feedback-quiet suffix no engine update increases `phiA`, whatever the pool does during it. -/
theorem engineUpdateA_phi {P : Params σ} {Q : σ → Prop} (hq : Quiet P Q) (c : Cfg) (s : ASt σ)
    (hh : HealthyA P Q s) : phiA (alens (engineUpdateA P c s)) ≤ phiA (alens s) := by
  have hs := hq.stable
  have := foldl_runTaskA_closed (P := P) (I := fun a => HealthyA P Q a ∧ phiA (alens a) ≤ phiA (alens s))
    (fun t a ha => ⟨stepA_closed (healthyA_closed hs) t a ha.1, Nat.le_trans (phi_stepA hq t a ha.1) ha.2⟩)
    c (schedule c) { s with toSt := { s.toSt with err := none } } ⟨⟨rfl, hh.2.1, hh.2.2⟩, Nat.le_refl _⟩
  exact this.2

/-- **progress**: in a feedback-quiet suffix each engine update strictly decreases `muA` unless all five queues are
empty (then only the pool can move things on), whatever the pool does during it. -/
theorem engineUpdateA_progress {P : Params σ} {Q : σ → Prop} (hq : Quiet P Q) (c : Cfg) (s : ASt σ)
    (hh : HealthyA P Q s) :
    muA (alens (engineUpdateA P c s)) ≤ muA (alens s) ∧
    ((alens s).rq + (alens s).dq + (alens s).pq + (alens s).fq + (alens s).hq ≠ 0 →
      muA (alens (engineUpdateA P c s)) < muA (alens s)) := by
  have h1 := engineUpdateA_phi hq c s hh
  have h2 := engineUpdateA_serves hq.stable c s hh
  simp only [phiA] at h1
  dsimp only at h2
  constructor
  · omega
  · intro h0; omega

/-- a silent pool during the engine update: nothing leaves `inflight`. -/
theorem engineUpdateA_silent (P : Params σ) (c : Cfg) (s : ASt σ) (h : s.pool = []) :
    (engineUpdateA P c s).pool = [] ∧ s.inflight.length ≤ (engineUpdateA P c s).inflight.length := by
  refine foldl_runTaskA_closed (P := P) (I := fun a => a.pool = [] ∧ s.inflight.length ≤ a.inflight.length)
    ?_ c _ _ ⟨h, Nat.le_refl _⟩
  intro t a ha
  have := stepA_silent P t a ha.1
  exact ⟨this.1, Nat.le_trans ha.2 this.2⟩

/-! ### the pool script commutes with the handler steps (for the tie to the blocking model) -/

theorem complete_pool (k : Nat) (a : ASt σ) (l : List (List Nat)) :
    complete k { a with pool := l } = { complete k a with pool := l } := by
  unfold complete
  simp only
  split <;> rfl

theorem fwdHandleA_pool (P : Params σ) (a : ASt σ) (l : List (List Nat)) :
    fwdHandleA P { a with pool := l } = ({ (fwdHandleA P a).1 with pool := l }, (fwdHandleA P a).2) := by
  unfold fwdHandleA
  simp only
  split
  · rfl
  · split <;> rfl

/-! ### the ghost fields are never read (asynchronous engine) -/

/-- two states agree on everything that is not history: the `St` core, what is in flight, the pool script. -/
def CoreEq (s s' : ASt σ) : Prop := core s.toSt = core s'.toSt ∧ s.inflight = s'.inflight ∧ s.pool = s'.pool

theorem core_fields {s s' : St σ} (h : core s = core s') :
    s.rq = s'.rq ∧ s.dq = s'.dq ∧ s.pq = s'.pq ∧ s.fq = s'.fq ∧ s.hq = s'.hq ∧ s.ds = s'.ds ∧ s.nid = s'.nid ∧
    s.nts = s'.nts ∧ s.err = s'.err :=
  ⟨congrArg Core.rq h, congrArg Core.dq h, congrArg Core.pq h, congrArg Core.fq h, congrArg Core.hq h,
   congrArg Core.ds h, congrArg Core.nid h, congrArg Core.nts h, congrArg Core.err h⟩

theorem core_of_fields {s s' : St σ} (h : s.rq = s'.rq ∧ s.dq = s'.dq ∧ s.pq = s'.pq ∧ s.fq = s'.fq ∧ s.hq = s'.hq ∧
    s.ds = s'.ds ∧ s.nid = s'.nid ∧ s.nts = s'.nts ∧ s.err = s'.err) : core s = core s' := by
  obtain ⟨h1, h2, h3, h4, h5, h6, h7, h8, h9⟩ := h
  simp [core, *]

theorem core_fwdResponses (P : Params σ) (s s' : St σ) (h : core s = core s') :
    core (fwdResponses P s).1 = core (fwdResponses P s').1 ∧ (fwdResponses P s).2 = (fwdResponses P s').2 := by
  obtain ⟨h1, h2, h3, h4, h5, h6, h7, h8, h9⟩ := core_fields h
  unfold fwdResponses
  rw [h5]
  split
  · exact ⟨h, rfl⟩
  · refine ⟨core_of_fields ?_, rfl⟩
    simp [deliverFwd, addData, mkAction, *]

theorem coreEq_lift (f : St σ → St σ × Bool)
    (hf : ∀ s s', core s = core s' → core (f s).1 = core (f s').1 ∧ (f s).2 = (f s').2)
    (a a' : ASt σ) (h : CoreEq a a') :
    CoreEq (liftA f a).1 (liftA f a').1 ∧ (liftA f a).2 = (liftA f a').2 :=
  ⟨⟨(hf _ _ h.1).1, h.2.1, h.2.2⟩, (hf _ _ h.1).2⟩

theorem coreEq_handle (P : Params σ) (a a' : ASt σ) (h : CoreEq a a') :
    CoreEq (fwdHandleA P a).1 (fwdHandleA P a').1 ∧ (fwdHandleA P a).2 = (fwdHandleA P a').2 := by
  obtain ⟨hc, hi, hp⟩ := h
  obtain ⟨h1, h2, h3, h4, h5, h6, h7, h8, h9⟩ := core_fields hc
  unfold fwdHandleA
  rw [h4]
  split
  · exact ⟨⟨hc, hi, hp⟩, rfl⟩
  · split
    · exact ⟨⟨core_of_fields (by simp [*]), hi, hp⟩, rfl⟩
    · exact ⟨⟨core_of_fields (by simp [*]), by simp [hi], hp⟩, rfl⟩

theorem coreEq_complete (k : Nat) (a a' : ASt σ) (h : CoreEq a a') : CoreEq (complete k a) (complete k a') := by
  obtain ⟨hc, hi, hp⟩ := h
  obtain ⟨h1, h2, h3, h4, h5, h6, h7, h8, h9⟩ := core_fields hc
  unfold complete
  rw [hi]
  split
  · exact ⟨hc, hi, hp⟩
  · exact ⟨core_of_fields (by simp [*]), by simp [hi], hp⟩

theorem coreEq_completeMany : ∀ (ks : List Nat) (a a' : ASt σ), CoreEq a a' →
    CoreEq (completeMany ks a) (completeMany ks a') := by
  intro ks
  induction ks with
  | nil => intro a a' h; exact h
  | cons k ks ih => intro a a' h; exact ih _ _ (coreEq_complete k a a' h)

theorem coreEq_poolStep (a a' : ASt σ) (h : CoreEq a a') : CoreEq (poolStep a) (poolStep a') := by
  unfold poolStep
  rw [h.2.2]
  split
  · exact h
  · exact coreEq_completeMany _ _ _ ⟨h.1, h.2.1, rfl⟩

theorem coreEq_stepA (P : Params σ) (t : Task) (a a' : ASt σ) (h : CoreEq a a') :
    CoreEq (stepA P t a).1 (stepA P t a').1 ∧ (stepA P t a).2 = (stepA P t a').2 := by
  have hp := coreEq_poolStep a a' h
  cases t
  · exact coreEq_lift _ (core_task P .receiver) _ _ hp
  · exact coreEq_lift _ (core_task P .decider) _ _ hp
  · exact coreEq_lift _ (core_task P .producer) _ _ hp
  · have h1 := coreEq_handle P _ _ hp
    have h2 : CoreEq (fwdResponsesA P (poolStep (fwdHandleA P (poolStep a)).1)).1
          (fwdResponsesA P (poolStep (fwdHandleA P (poolStep a')).1)).1 ∧
        (fwdResponsesA P (poolStep (fwdHandleA P (poolStep a)).1)).2 =
          (fwdResponsesA P (poolStep (fwdHandleA P (poolStep a')).1)).2 :=
      coreEq_lift _ (core_fwdResponses P) _ _ (coreEq_poolStep _ _ h1.1)
    exact ⟨h2.1, by show (_ || _) = (_ || _); rw [h1.2, h2.2]⟩

theorem coreEq_err {a a' : ASt σ} (h : CoreEq a a') : a.err = a'.err := congrArg Core.err h.1

theorem coreEq_whileLoopA (P : Params σ) (t : Task) :
    ∀ fuel (s s' : ASt σ), CoreEq s s' →
      CoreEq (whileLoopA (stepA P t) fuel s).1 (whileLoopA (stepA P t) fuel s').1 := by
  intro fuel
  induction fuel with
  | zero => intro s s' h; simpa [whileLoopA] using h
  | succ n ih =>
    intro s s' h
    have hc := coreEq_stepA P t s s' h
    simp only [whileLoopA, coreEq_err hc.1, hc.2]
    split
    · exact hc.1
    · split
      · exact ih _ _ hc.1
      · exact hc.1

theorem coreEq_forLoopA (P : Params σ) (t : Task) (early : Bool) :
    ∀ n (s s' : ASt σ), CoreEq s s' →
      CoreEq (forLoopA (stepA P t) early n s) (forLoopA (stepA P t) early n s') := by
  intro n
  induction n with
  | zero => intro s s' h; simpa [forLoopA] using h
  | succ n ih =>
    intro s s' h
    have hc := coreEq_stepA P t s s' h
    simp only [forLoopA, coreEq_err hc.1, hc.2]
    split
    · exact hc.1
    · split
      · exact hc.1
      · exact ih _ _ hc.1

theorem coreEq_measure (t : Task) {s s' : ASt σ} (h : CoreEq s s') : taskMeasureA t s = taskMeasureA t s' := by
  obtain ⟨h1, h2, h3, h4, h5, h6, h7, h8, h9⟩ := core_fields h.1
  cases t <;> simp [taskMeasureA, *, h.2.1]

theorem coreEq_runTaskA (P : Params σ) (c : Cfg) (tt : Task × Nat) (s s' : ASt σ) (h : CoreEq s s') :
    CoreEq (runTaskA P c s tt) (runTaskA P c s' tt) := by
  unfold runTaskA runTaskFuelA
  rw [coreEq_err h, coreEq_measure tt.1 h]
  split
  · exact h
  · split
    · exact coreEq_whileLoopA P tt.1 _ _ _ h
    · exact coreEq_forLoopA P tt.1 _ _ _ _ h

theorem coreEq_engineUpdateA (P : Params σ) (c : Cfg) (s s' : ASt σ) (h : CoreEq s s') :
    CoreEq (engineUpdateA P c s) (engineUpdateA P c s') := by
  unfold engineUpdateA
  have h0 : CoreEq { s with toSt := { s.toSt with err := none } } { s' with toSt := { s'.toSt with err := none } } := by
    obtain ⟨h1, h2, h3, h4, h5, h6, h7, h8, h9⟩ := core_fields h.1
    exact ⟨core_of_fields (by simp [*]), h.2.1, h.2.2⟩
  generalize ({ s with toSt := { s.toSt with err := none } } : ASt σ) = a at h0
  generalize ({ s' with toSt := { s'.toSt with err := none } } : ASt σ) = a' at h0
  induction (schedule c) generalizing a a' with
  | nil => simpa using h0
  | cons tt l ih => exact ih _ _ (coreEq_runTaskA P c tt a a' h0)

end Bobo.Engine
