import BoboVerif.Lemmas.FreshAll
import BoboVerif.Lemmas.LocalTotal
/-!
Progress for ALL patterns — the step lemmas behind `Props/C12All.lean`.

A. `on_distributed_update` never raises: `updateOne` is total (in its `none`-local-run branch the identifier is not
   stored under the key, so `Table.add` accepts), hence so are the `updated` loop and `remoteStepG` — for every state,
   every message, every "ahead" test, with or without the second filter.  No hypothesis at all.
B. `FutureFree` for the states of `AllRun` executions (from `AllInv`: every stored identifier is `NotAhead`).
C. the traces of executions with the kind of each step (`LStep`, `LFrom`), and "a local announcement is new".
-/
namespace Bobo.Decider
open Bobo.Run
set_option linter.unusedSimpArgs false
set_option linter.unusedVariables false
variable {ε : Type}

/-! ### A. the remote handler never raises -/

/-- an empty bucket holds no identifier. -/
theorem runAt_none_of_head_none (t : Table ε) (ph pa id : String) (h : (t.runsFrom ph pa).head? = none) :
    t.runAt ph pa id = none := by
  rw [runAt_def]
  cases hr : t.runsFrom ph pa with
  | nil => rfl
  | cons a l => rw [hr] at h; simp at h

/-- **one `updated` record never raises** — any state, any record, any pattern kind: where a run is created, the
identifier is not stored under the key (non-singleton: `run_at` has just returned nothing; singleton: the bucket is
empty). -/
theorem updateOne_isSome (c : Cfg ε) (f : Rec ε → Run ε → Bool) (st : DState ε × List (Rec ε)) (rr : Rec ε) :
    (updateOne c f st rr).isSome = true := by
  obtain ⟨s, out⟩ := st
  unfold updateOne
  cases hp : c.getPattern rr.phen rr.pat with
  | none => rfl
  | some p =>
    simp only
    split
    · split <;> rfl
    · rename_i hnone
      have hrun : s.table.runAt rr.phen rr.pat rr.id = none := by
        cases hsg : p.singleton with
        | false => simpa [hsg] using hnone
        | true =>
          simp only [hsg, if_true] at hnone
          exact runAt_none_of_head_none _ _ _ _ hnone
      obtain ⟨t', ht'⟩ := add_isSome_of_runAt_none s.table rr.phen rr.pat
        { run := { id := rr.id, idx := rr.idx, hist := rr.hist, halted := completeAt p.blocks.length rr.idx }, pat := p }
        hrun
      simp only [ht']
      rfl

theorem foldlM'_isSome {α β} (f : β → α → Option β) (hf : ∀ b a, (f b a).isSome = true) :
    ∀ (l : List α) (b : β), (foldlM' f b l).isSome = true := by
  intro l
  induction l with
  | nil => intro b; rfl
  | cons a rest ih =>
    intro b
    obtain ⟨b1, h1⟩ := Option.isSome_iff_exists.mp (hf b a)
    simp only [foldlM', h1]
    exact ih b1

/-- **`on_distributed_update` never raises**: every state, every message, every pattern kind, every "ahead" test,
with or without the second filter, memory on or off, room or no room. -/
theorem remoteStepG_isSome (aheadF : Rec ε → Run ε → Bool) (refilter : Bool) (c : Cfg ε) (s : DState ε)
    (comp halt upd : List (Rec ε)) : (remoteStepG aheadF refilter c s comp halt upd).isSome = true := by
  unfold remoteStepG
  simp only
  generalize checkAgainstCache c s comp halt upd = cc
  obtain ⟨comp1, halt1, upd1⟩ := cc
  simp only
  generalize comp1.foldl (removeOne c true) (maybeCache c s comp1 halt1, []) = st2
  obtain ⟨s2, compOut⟩ := st2
  simp only
  generalize halt1.foldl (removeOne c false) (s2, []) = st3
  obtain ⟨s3, haltOut⟩ := st3
  simp only
  generalize (if refilter = true then (checkAgainstCache c s3 [] [] upd1).2.2 else upd1) = upd2
  obtain ⟨st4, h4⟩ := Option.isSome_iff_exists.mp
    (foldlM'_isSome (updateOne c aheadF) (updateOne_isSome c aheadF) upd2 (s3, []))
  obtain ⟨s4, updOut⟩ := st4
  simp only [h4]
  rfl

/-! ### B. the states of executions hold none of the identifiers still to be handed out -/

/-- from the invariant of `AllRun` executions: every stored identifier is "not ahead" of the local generator, i.e.
none of the identifiers the generator has still to issue is stored. -/
theorem futureFree_of_allInv (c : Cfg ε) (g : Nat → String) (s : DState ε) (h : AllInv c g s) :
    FutureFree (withIds c g) s.table s.nextId := by
  intro k hk ph pa
  cases hr : s.table.runAt ph pa ((withIds c g).idOf k) with
  | none => rfl
  | some r => exact absurd rfl (h.ids.tbl ph pa _ r hr k hk)

/-- `update()` never raises in a state satisfying the invariant of `AllRun` executions. -/
theorem localStep_isSome_of_allInv (c : Cfg ε) (g : Nat → String) (inj : ∀ i j, g i = g j → i = j)
    (hblocks : ∀ P ∈ c.phenomena, ∀ p ∈ P.patterns, p.blocks ≠ [])
    (s : DState ε) (h : AllInv c g s) (e : ε) : ∃ s' nt ch, localStep (withIds c g) s e = some (s', nt, ch) := by
  obtain ⟨s', nt, ch, h1, _⟩ := localStep_total (withIds c g) inj hblocks s e h.wf (futureFree_of_allInv c g s h)
  exact ⟨s', nt, ch, h1⟩

/-! ### C. what a LOCAL step announces finished is new -/

/-- one `update()` in a state satisfying the invariant: the identifiers its notification reports completed or halted
are pairwise distinct, and none of them is in the finished-run memory before the step. -/
theorem local_announces_new (c : Cfg ε) (hc : c.caching = true) (hcw : CfgWF c) (g : Nat → String)
    (inj : ∀ i j, g i = g j → i = j) (s s' : DState ε) (e : ε) (nt : Notif ε) (ch : Bool)
    (h : AllInv c g s) (hstep : localStep (withIds c g) s e = some (s', nt, ch))
    (hevC : s.cacheC.length + nt.completed.length ≤ c.maxCache)
    (hevH : s.cacheH.length + nt.halted.length ≤ c.maxCache) :
    ((nt.completed ++ nt.halted).map (·.id)).Nodup ∧ ∀ r ∈ nt.completed ++ nt.halted, ¬ Mem s r.id := by
  have hfr : ∀ k, s.nextId ≤ k → ¬ NotAhead g s.nextId (g k) := fun k hk h => h k hk rfl
  obtain ⟨_, hmem, _, _, _, hnd⟩ := local_ids_nolive c hc hcw g inj (NotAhead g s.nextId) s s' e nt ch
    h.wf h.ids hfr hstep hevC hevH
  refine ⟨hnd, ?_⟩
  intro r hr hm
  obtain ⟨h1, h2⟩ := hmem r (List.mem_append.mpr (.inl hr))
  rcases hm with hm | hm
  · rw [h1] at hm; exact absurd hm (by decide)
  · rw [h2] at hm; exact absurd hm (by decide)

/-! ### C. executions with the kind of each step -/

/-- `AllStep` with the kind of the step: `true` = the decider's own `update()`, `false` = a peer's message. -/
inductive LStep (c : Cfg ε) (g : Nat → String) : DState ε → DState ε → Bool → List String → Prop
  | loc {s s' : DState ε} {e : ε} {nt : Notif ε} {ch : Bool}
      (hstep : localStep (withIds c g) s e = some (s', nt, ch))
      (hevC : s.cacheC.length + nt.completed.length ≤ c.maxCache)
      (hevH : s.cacheH.length + nt.halted.length ≤ c.maxCache) :
      LStep c g s s' true ((nt.completed ++ nt.halted).map (·.id))
  | rem {s s' : DState ε} {comp halt upd : List (Rec ε)} {nt : Notif ε}
      (hstep : remoteStep (withIds c g) s comp halt upd = some (s', nt))
      (hevC : s.cacheC.length + 2 * comp.length ≤ c.maxCache)
      (hevH : s.cacheH.length + 2 * halt.length ≤ c.maxCache)
      (hfresh : ∀ k, s.nextId ≤ k → g k ∉ msgIds comp halt upd)
      (hkey : KeyOK s comp halt upd) :
      LStep c g s s' false ((comp ++ halt ++ nt.completed ++ nt.halted).map (·.id))

theorem LStep.toAll {c : Cfg ε} {g : Nat → String} {s s' : DState ε} {b : Bool} {x : List String}
    (h : LStep c g s s' b x) : AllStep c g s s' x := by
  cases h with
  | loc hstep hevC hevH => exact .loc hstep hevC hevH
  | rem hstep hevC hevH hfresh hkey => exact .rem hstep hevC hevH hfresh hkey

theorem AllStep.toL {c : Cfg ε} {g : Nat → String} {s s' : DState ε} {x : List String}
    (h : AllStep c g s s' x) : ∃ b, LStep c g s s' b x := by
  cases h with
  | loc hstep hevC hevH => exact ⟨true, .loc hstep hevC hevH⟩
  | rem hstep hevC hevH hfresh hkey => exact ⟨false, .rem hstep hevC hevH hfresh hkey⟩

/-- a trace: per step, its kind (`true` = local) and the identifiers it names finished. -/
abbrev Trace := List (Bool × List String)

/-- every identifier named finished along a trace, in order (what `AllFrom` collects). -/
def finOf (tr : Trace) : List String := tr.flatMap (·.2)

/-- the identifiers announced finished by the LOCAL steps of a trace, in order. -/
def locOf (tr : Trace) : List String := (tr.filter (·.1)).flatMap (·.2)

theorem finOf_snoc (tr : Trace) (b : Bool) (x : List String) : finOf (tr ++ [(b, x)]) = finOf tr ++ x := by
  simp [finOf, List.flatMap_append]

theorem finOf_append (t1 t2 : Trace) : finOf (t1 ++ t2) = finOf t1 ++ finOf t2 := by
  simp [finOf, List.flatMap_append]

theorem locOf_snoc_true (tr : Trace) (x : List String) : locOf (tr ++ [(true, x)]) = locOf tr ++ x := by
  simp [locOf, List.filter_append, List.flatMap_append]

theorem locOf_snoc_false (tr : Trace) (x : List String) : locOf (tr ++ [(false, x)]) = locOf tr := by
  simp [locOf, List.filter_append, List.flatMap_append]

/-- executions from a given state with their trace. -/
inductive LFrom (c : Cfg ε) (g : Nat → String) (s0 : DState ε) : DState ε → Trace → Prop
  | refl : LFrom c g s0 s0 []
  | step {s s' : DState ε} {tr : Trace} {b : Bool} {x : List String}
      (h : LFrom c g s0 s tr) (hs : LStep c g s s' b x) : LFrom c g s0 s' (tr ++ [(b, x)])

theorem LFrom.toAll {c : Cfg ε} {g : Nat → String} {s0 s : DState ε} {tr : Trace} (h : LFrom c g s0 s tr) :
    AllFrom c g s0 s (finOf tr) := by
  induction h with
  | refl => exact .refl
  | step _ hs ih => rw [finOf_snoc]; exact .step ih hs.toAll

theorem AllFrom.toL {c : Cfg ε} {g : Nat → String} {s0 s : DState ε} {fin : List String}
    (h : AllFrom c g s0 s fin) : ∃ tr, LFrom c g s0 s tr ∧ finOf tr = fin := by
  induction h with
  | refl => exact ⟨[], .refl, rfl⟩
  | step _ hs ih =>
    obtain ⟨tr, h1, e⟩ := ih
    obtain ⟨b, hb⟩ := hs.toL
    exact ⟨tr ++ [(b, _)], .step h1 hb, by rw [finOf_snoc, e]⟩

theorem LFrom.trans {c : Cfg ε} {g : Nat → String} {s0 s1 s2 : DState ε} {t1 t2 : Trace}
    (h1 : LFrom c g s0 s1 t1) (h2 : LFrom c g s1 s2 t2) : LFrom c g s0 s2 (t1 ++ t2) := by
  induction h2 with
  | refl => simpa using h1
  | step _ hs ih => rw [← List.append_assoc]; exact .step ih hs

/-- **the invariant of traces**: started from a state reached by an execution that named `fin0` finished, the local
labels of the trace are pairwise distinct, are among the identifiers the trace names finished, are none of `fin0`, and
each local label list is duplicate free and disjoint from everything named finished before it. -/
theorem lfrom_local_once (c : Cfg ε) (hc : c.caching = true) (hcw : CfgWF c) (g : Nat → String)
    (inj : ∀ i j, g i = g j → i = j) (s0 : DState ε) (fin0 : List String) (h0 : AllFrom c g {} s0 fin0)
    (s : DState ε) (tr : Trace) (h : LFrom c g s0 s tr) :
    (locOf tr).Nodup ∧ (∀ x ∈ locOf tr, x ∈ finOf tr) ∧ (∀ x ∈ locOf tr, x ∉ fin0) ∧
    (∀ pre x post, tr = pre ++ (true, x) :: post → x.Nodup ∧ ∀ id ∈ x, id ∉ fin0 ++ finOf pre) := by
  induction h with
  | refl =>
    refine ⟨by simp [locOf], by simp [locOf], by simp [locOf], ?_⟩
    intro pre x post e
    have := List.append_eq_nil_iff.mp e.symm
    simp at this
  | @step s1 s2 tr1 b x hprev hs ih =>
    obtain ⟨ih1, ih2, ih3, ih4⟩ := ih
    obtain ⟨hinv, _, hmem⟩ := allInv_from c hc hcw g inj {} s1 (fin0 ++ finOf tr1) (allInv_init c g)
      (AllFrom.trans h0 hprev.toAll)
    cases hs with
    | @loc e nt ch hstep hevC hevH =>
      obtain ⟨hnd, hnew⟩ := local_announces_new c hc hcw g inj s1 s2 e nt ch hinv hstep hevC hevH
      have hnew' : ∀ id ∈ (nt.completed ++ nt.halted).map (·.id), id ∉ fin0 ++ finOf tr1 := by
        intro id hid hin
        obtain ⟨r, hr, e1⟩ := List.mem_map.mp hid
        exact hnew r hr (by rw [e1]; exact hmem id hin)
      refine ⟨?_, ?_, ?_, ?_⟩
      · rw [locOf_snoc_true, List.nodup_append]
        refine ⟨ih1, hnd, ?_⟩
        intro a ha b' hb' hab
        exact hnew' b' hb' (List.mem_append.mpr (.inr (by rw [← hab]; exact ih2 a ha)))
      · intro y hy
        rw [locOf_snoc_true] at hy
        rw [finOf_snoc]
        rcases List.mem_append.mp hy with h1 | h1
        · exact List.mem_append.mpr (.inl (ih2 y h1))
        · exact List.mem_append.mpr (.inr h1)
      · intro y hy
        rw [locOf_snoc_true] at hy
        rcases List.mem_append.mp hy with h1 | h1
        · exact ih3 y h1
        · exact fun hin => hnew' y h1 (List.mem_append.mpr (.inl hin))
      · intro pre y post e1
        rcases List.eq_nil_or_concat post with hp | ⟨L, b', hp⟩
        · subst hp
          obtain ⟨e2, e3⟩ := List.append_inj' e1 rfl
          simp only [List.cons.injEq, Prod.mk.injEq, true_and, and_true] at e3
          subst e2; subst e3
          exact ⟨hnd, hnew'⟩
        · rw [List.concat_eq_append] at hp
          subst hp
          rw [← List.cons_append, ← List.append_assoc] at e1
          obtain ⟨e2, _⟩ := List.append_inj' e1 rfl
          exact ih4 pre y L e2
    | @rem comp halt upd nt hstep hevC hevH hfresh hkey =>
      refine ⟨by rw [locOf_snoc_false]; exact ih1, ?_, by rw [locOf_snoc_false]; exact ih3, ?_⟩
      · intro y hy
        rw [locOf_snoc_false] at hy
        rw [finOf_snoc]
        exact List.mem_append.mpr (.inl (ih2 y hy))
      · intro pre y post e1
        rcases List.eq_nil_or_concat post with hp | ⟨L, b', hp⟩
        · subst hp
          obtain ⟨_, e3⟩ := List.append_inj' e1 rfl
          simp at e3
        · rw [List.concat_eq_append] at hp
          subst hp
          rw [← List.cons_append, ← List.append_assoc] at e1
          obtain ⟨e2, _⟩ := List.append_inj' e1 rfl
          exact ih4 pre y L e2

/-! ### C (remote side, partial): what a REMOTE notification reports finished -/

/-- what `removeOne` appends to the list being rebuilt: nothing, the record, or the record of the head of the
record's bucket. -/
theorem removeOne_cases3 (c : Cfg ε) (b : Bool) (s : DState ε) (out : List (Rec ε)) (rr : Rec ε) :
    (removeOne c b (s, out) rr).2 = out ∨ (removeOne c b (s, out) rr).2 = out ++ [rr] ∨
    (∃ rl : LRun ε, (s.table.runsFrom rr.phen rr.pat).head? = some rl ∧
      (removeOne c b (s, out) rr).2 = out ++ [rl.ser rr.phen]) := by
  unfold removeOne
  cases hp : c.getPattern rr.phen rr.pat with
  | none => exact .inl rfl
  | some p =>
    right
    simp only
    split
    · rename_i rl heq
      have hsg : p.singleton = true := by
        cases h : p.singleton with
        | true => rfl
        | false => simp [h] at heq
      simp only [hsg, if_true] at heq
      by_cases hid : rr.id = rl.run.id
      · left
        have : (rr.id != rl.run.id) = false := by simp [hid]
        simp only [this, Bool.false_eq_true, if_false]
      · right
        refine ⟨rl, heq, ?_⟩
        have : (rr.id != rl.run.id) = true := by simpa using hid
        simp only [this, if_true]
    · left
      rfl

/-- a record of the rebuilt list was there before, is the record just walked, or names a stored run. -/
theorem removeOne_out_src (c : Cfg ε) (b : Bool) (s : DState ε) (out : List (Rec ε)) (rr : Rec ε) :
    ∀ x ∈ (removeOne c b (s, out) rr).2, x ∈ out ∨ x = rr ∨ ∃ ph pa r, s.table.runAt ph pa x.id = some r := by
  intro x hx
  rcases removeOne_cases3 c b s out rr with e | e | ⟨rl, hhead, e⟩
  · rw [e] at hx; exact .inl hx
  · rw [e] at hx
    rcases List.mem_append.mp hx with h | h
    · exact .inl h
    · exact .inr (.inl (List.mem_singleton.mp h))
  · rw [e] at hx
    rcases List.mem_append.mp hx with h | h
    · exact .inl h
    · right; right
      rw [List.mem_singleton.mp h]
      exact ⟨rr.phen, rr.pat, rl, runAt_of_head _ _ _ _ hhead⟩

theorem fold_removeOne_shrink (c : Cfg ε) (b : Bool) : ∀ (l : List (Rec ε)) (st : DState ε × List (Rec ε))
    (ph pa id : String) (r : LRun ε), (l.foldl (removeOne c b) st).1.table.runAt ph pa id = some r →
      st.1.table.runAt ph pa id = some r := by
  intro l
  induction l with
  | nil => intro st ph pa id r h; exact h
  | cons rr rest ih =>
    intro st ph pa id r h
    obtain ⟨s, out⟩ := st
    simp only [List.foldl_cons] at h
    have h1 := ih (removeOne c b (s, out) rr) ph pa id r h
    exact removeOne_shrink c b s out rr ph pa id r h1

/-- the rebuilt list of a whole completed / halted loop: records it started with, records of the list walked, or
records of runs stored when the loop started. -/
theorem fold_removeOne_out_src (c : Cfg ε) (b : Bool) : ∀ (l : List (Rec ε)) (st : DState ε × List (Rec ε)),
    ∀ x ∈ (l.foldl (removeOne c b) st).2,
      x ∈ st.2 ∨ x ∈ l ∨ ∃ ph pa r, st.1.table.runAt ph pa x.id = some r := by
  intro l
  induction l with
  | nil => intro st x hx; exact .inl hx
  | cons rr rest ih =>
    intro st x hx
    obtain ⟨s, out⟩ := st
    simp only [List.foldl_cons] at hx
    rcases ih (removeOne c b (s, out) rr) x hx with h | h | ⟨ph, pa, r, h⟩
    · rcases removeOne_out_src c b s out rr x h with h1 | h1 | h1
      · exact .inl h1
      · exact .inr (.inl (by rw [h1]; exact List.mem_cons_self ..))
      · exact .inr (.inr h1)
    · exact .inr (.inl (List.mem_cons_of_mem _ h))
    · exact .inr (.inr ⟨ph, pa, r, removeOne_shrink c b s out rr ph pa x.id r h⟩)

/-- memory on, fresh state: **what a remote notification reports halted is in neither memory before the message;
what it reports completed is not in the completed memory before the message** (it may be in the halted memory: a run
halted here and named completed by a peer); each of the two lists names an identifier once. -/
theorem remote_reported_new (c : Cfg ε) (hc : c.caching = true) (f : Rec ε → Run ε → Bool) (b : Bool)
    (s s' : DState ε) (comp halt upd : List (Rec ε)) (n : Notif ε) (hF : Fresh s)
    (hs : remoteStepG f b c s comp halt upd = some (s', n)) :
    (∀ x ∈ n.completed, inCache s.cacheC x.id = false ∧ (inCache s.cacheH x.id = true → x ∈ comp)) ∧
    (∀ x ∈ n.halted, ¬ Mem s x.id) ∧
    (n.completed.map (·.id)).Nodup ∧ (n.halted.map (·.id)).Nodup := by
  unfold remoteStepG at hs
  rw [checkAgainstCache_on c hc] at hs
  simp only at hs
  generalize hcomp1 : comp.filter (fun r => !inCache s.cacheC r.id) = comp1 at hs
  generalize hhalt1 : halt.filter (fun r => !inCache s.cacheC r.id && !inCache s.cacheH r.id) = halt1 at hs
  generalize upd.filter (fun r => !inCache s.cacheC r.id && !inCache s.cacheH r.id) = upd1 at hs
  have ho2 := fold_removeOne_out_src c true comp1 (maybeCache c s comp1 halt1, [])
  have hsh2 := fold_removeOne_shrink c true comp1 (maybeCache c s comp1 halt1, [])
  generalize comp1.foldl (removeOne c true) (maybeCache c s comp1 halt1, []) = st2 at hs ho2 hsh2
  obtain ⟨s2, compOut⟩ := st2
  simp only at hs ho2 hsh2
  have ho3 := fold_removeOne_out_src c false halt1 (s2, [])
  generalize halt1.foldl (removeOne c false) (s2, []) = st3 at hs ho3
  obtain ⟨s3, haltOut⟩ := st3
  simp only at hs ho3
  generalize (if b = true then (checkAgainstCache c s3 [] [] upd1).2.2 else upd1) = upd2 at hs
  cases hfold : foldlM' (updateOne c f) (s3, []) upd2 with
  | none => simp [hfold] at hs
  | some st4 =>
    obtain ⟨s4, updOut⟩ := st4
    simp only [hfold, Option.some.injEq, Prod.mk.injEq] at hs
    obtain ⟨_, e2⟩ := hs
    subst e2
    have hstored : ∀ id, (∃ ph pa r, s.table.runAt ph pa id = some r) → ¬ Mem s id :=
      fun id ⟨ph, pa, r, hr⟩ => (fresh_iff s).mp hF ph pa id r hr
    refine ⟨?_, ?_, dedupById_nodup _, dedupById_nodup _⟩
    · intro x hx
      simp only at hx
      rcases ho2 x (mem_of_mem_dedupById _ _ hx) with h | h | ⟨ph, pa, r, h⟩
      · simp at h
      · rw [← hcomp1] at h
        have hf := (List.mem_filter.mp h).2
        exact ⟨by simpa using hf, fun _ => (List.mem_filter.mp h).1⟩
      · rw [maybeCache_table] at h
        have hnm := hstored x.id ⟨ph, pa, r, h⟩
        exact ⟨bool_false_of_not_true (fun hm => hnm (.inl hm)), fun hm => absurd (.inr hm) hnm⟩
    · intro x hx
      simp only at hx
      rcases ho3 x (mem_of_mem_dedupById _ _ hx) with h | h | ⟨ph, pa, r, h⟩
      · simp at h
      · rw [← hhalt1] at h
        exact not_mem_of_filter s halt x h
      · have h1 := hsh2 ph pa x.id r h
        rw [maybeCache_table] at h1
        exact hstored x.id ⟨ph, pa, r, h1⟩

/-! ### an executable runner with traces (for concrete runs checked by `decide`) -/

/-- `allExec` (Lemmas/FreshAll.lean) collecting the trace instead of the flat list. -/
def lExec (c : Cfg ε) (g : Nat → String) (fr : Nat → String → Bool) :
    DState ε → Trace → List (MStep ε) → Option (DState ε × Trace)
  | s, tr, [] => some (s, tr)
  | s, tr, .loc e :: rest =>
    match localStep (withIds c g) s e with
    | none => none
    | some (s', nt, _) =>
      if decide (s.cacheC.length + nt.completed.length ≤ c.maxCache) &&
          decide (s.cacheH.length + nt.halted.length ≤ c.maxCache)
      then lExec c g fr s' (tr ++ [(true, (nt.completed ++ nt.halted).map (·.id))]) rest else none
  | s, tr, .rem comp halt upd :: rest =>
    match remoteStep (withIds c g) s comp halt upd with
    | none => none
    | some (s', nt) =>
      if decide (s.cacheC.length + 2 * comp.length ≤ c.maxCache) &&
          decide (s.cacheH.length + 2 * halt.length ≤ c.maxCache) &&
          (msgIds comp halt upd).all (fr s.nextId) && keyOKb s comp halt upd
      then lExec c g fr s' (tr ++ [(false, (comp ++ halt ++ nt.completed ++ nt.halted).map (·.id))]) rest else none

/-- a run of the runner is an execution with that trace. -/
theorem lExec_sound (c : Cfg ε) (hc : c.caching = true) (hcw : CfgWF c)
    (g : Nat → String) (inj : ∀ i j, g i = g j → i = j) (fr : Nat → String → Bool)
    (hfr : ∀ n id, fr n id = true → ∀ k, n ≤ k → g k ≠ id) (steps : List (MStep ε)) :
    ∀ (s s' : DState ε) (tr tr' : Trace), AllInv c g s →
      lExec c g fr s tr steps = some (s', tr') →
      ∃ ext, tr' = tr ++ ext ∧ LFrom c g s s' ext := by
  induction steps with
  | nil =>
    intro s s' tr tr' _ h
    simp only [lExec, Option.some.injEq, Prod.mk.injEq] at h
    exact ⟨[], by simp [h.2], by rw [h.1]; exact .refl⟩
  | cons st rest ih =>
    intro s s' tr tr' hinv h
    cases st with
    | loc e =>
      simp only [lExec] at h
      cases hl : localStep (withIds c g) s e with
      | none => simp [hl] at h
      | some v =>
        obtain ⟨s1, nt, ch⟩ := v
        simp only [hl] at h
        split at h
        · rename_i hchk
          rw [Bool.and_eq_true, decide_eq_true_eq, decide_eq_true_eq] at hchk
          have hs : LStep c g s s1 true _ := .loc hl hchk.1 hchk.2
          obtain ⟨ext, e1, hfrom⟩ := ih s1 s' _ tr' (allInv_step c hc hcw g inj s s1 _ hinv hs.toAll).1 h
          refine ⟨[(true, (nt.completed ++ nt.halted).map (·.id))] ++ ext, by rw [e1, List.append_assoc], ?_⟩
          exact LFrom.trans (by simpa using LFrom.step (LFrom.refl (c := c) (g := g) (s0 := s)) hs) hfrom
        · simp at h
    | rem comp halt upd =>
      simp only [lExec] at h
      cases hl : remoteStep (withIds c g) s comp halt upd with
      | none => simp [hl] at h
      | some v =>
        obtain ⟨s1, nt⟩ := v
        simp only [hl] at h
        split at h
        · rename_i hchk
          simp only [Bool.and_eq_true, decide_eq_true_eq] at hchk
          obtain ⟨⟨⟨c1, c2⟩, c3⟩, c4⟩ := hchk
          have hfresh : ∀ k, s.nextId ≤ k → g k ∉ msgIds comp halt upd := by
            intro k hk hm
            exact hfr s.nextId (g k) (List.all_eq_true.mp c3 _ hm) k hk rfl
          have hs : LStep c g s s1 false _ := .rem hl c1 c2 hfresh (keyOK_of_keyOKb s hinv.wf comp halt upd c4)
          obtain ⟨ext, e1, hfrom⟩ := ih s1 s' _ tr' (allInv_step c hc hcw g inj s s1 _ hinv hs.toAll).1 h
          refine ⟨[(false, (comp ++ halt ++ nt.completed ++ nt.halted).map (·.id))] ++ ext,
            by rw [e1, List.append_assoc], ?_⟩
          exact LFrom.trans (by simpa using LFrom.step (LFrom.refl (c := c) (g := g) (s0 := s)) hs) hfrom
        · simp at h

end Bobo.Decider
