import BoboVerif.Model.Json
/-!
Helper lemmas for C09 (M-Json): association lists, `mapMO`, the generic
schema round trip, well-formedness of the encodings.
-/
namespace Bobo.Json

theorem nodupB_cons {x : String} {xs : List String} :
    nodupB (x :: xs) = true ↔ x ∉ xs ∧ nodupB xs = true := by
  simp [nodupB]

theorem lookup_map_of_mem {α : Type} (key : α → String) (val : α → JVal) :
    ∀ (l : List α) (e : α), e ∈ l → nodupB (l.map key) = true →
      lookup (key e) (l.map fun x => (key x, val x)) = some (val e) := by
  intro l
  induction l with
  | nil => intro e he; simp at he
  | cons x l ih =>
    intro e he hn
    simp only [List.map_cons, nodupB_cons] at hn
    simp only [List.map_cons, lookup]
    rcases List.mem_cons.mp he with h | h
    · subst h; simp
    · by_cases hk : key x = key e
      · exfalso; apply hn.1; rw [hk]; exact List.mem_map_of_mem h
      · simp [hk, ih e h hn.2]

theorem lookupF_of_mem : ∀ (kw : List (String × FVal)) (a : String) (v : FVal),
    (a, v) ∈ kw → nodupB (kw.map (·.1)) = true → lookupF a kw = some v := by
  intro kw
  induction kw with
  | nil => intro a v h; simp at h
  | cons x kw ih =>
    intro a v h hn
    obtain ⟨a', v'⟩ := x
    simp only [List.map_cons, nodupB_cons] at hn
    simp only [lookupF]
    rcases List.mem_cons.mp h with h | h
    · cases h; simp
    · by_cases hk : a' = a
      · exfalso; apply hn.1; rw [hk]
        exact List.mem_map.mpr ⟨(a, v), h, rfl⟩
      · simp [hk, ih a v h hn.2]

theorem mem_of_lookupF : ∀ (kw : List (String × FVal)) (a : String) (v : FVal),
    lookupF a kw = some v → (a, v) ∈ kw := by
  intro kw
  induction kw with
  | nil => intro a v h; simp [lookupF] at h
  | cons x kw ih =>
    intro a v h
    obtain ⟨a', v'⟩ := x
    simp only [lookupF] at h
    by_cases hk : a' = a
    · simp [hk] at h; subst hk; subst h; simp
    · simp [hk] at h; exact List.mem_cons_of_mem _ (ih a v h)

theorem mapMO_eq_some_map {α β : Type} (f : α → Option β) (g : α → β) :
    ∀ l : List α, (∀ x ∈ l, f x = some (g x)) → mapMO f l = some (l.map g) := by
  intro l
  induction l with
  | nil => intro _; rfl
  | cons x l ih =>
    intro h
    have hx := h x (by simp)
    have hl := ih (fun y hy => h y (by simp [hy]))
    simp [mapMO, hx, hl]

/-- a comprehension over `ds` yields the list `kw` when it does so position by position. -/
theorem mapMO_zip (f : DecF → Option (String × FVal)) :
    ∀ (ds : List DecF) (kw : List (String × FVal)),
      kw.map (·.1) = ds.map (·.kw) →
      (∀ d ∈ ds, ∀ r ∈ kw, r.1 = d.kw → f d = some r) →
      mapMO f ds = some kw := by
  intro ds
  induction ds with
  | nil => intro kw h _; cases kw <;> simp_all [mapMO]
  | cons d ds ih =>
    intro kw h hf
    cases kw with
    | nil => simp at h
    | cons r kw =>
      simp only [List.map_cons, List.cons.injEq] at h
      have h1 := hf d (by simp) r (by simp) h.1
      have h2 := ih kw h.2 (fun d' hd' r' hr' e => hf d' (by simp [hd']) r' (by simp [hr']) e)
      simp [mapMO, h1, h2]

theorem wfKVs_map {α : Type} (key : α → String) (val : α → JVal) :
    ∀ l : List α, (∀ x ∈ l, (val x).wf = true) → wfKVs (l.map fun x => (key x, val x)) = true := by
  intro l
  induction l with
  | nil => intro _; simp [wfKVs]
  | cons x l ih =>
    intro h
    simp [wfKVs, h x (by simp), ih (fun y hy => h y (by simp [hy]))]

/-- the value `encField` writes for an entry (total; `null` stands for the AttributeError
case, which `Schema.wf` excludes). -/
def encVal (dumps : JVal → String) (kw : List (String × FVal)) (e : EncF) : JVal :=
  match e.src with
  | .const s => .str s
  | .attr a =>
    match lookupF a kw with
    | some (.plain v) => v
    | some (.nested t) => .str (dumps t)
    | none => .null

/-- the constructor arguments fit the schema: names in kwargs order, a BoboJSONable exactly
where the constructor annotation says so, every payload JSON-representable. -/
def KwOk (σ : Schema) (kw : List (String × FVal)) : Prop :=
  kw.map (·.1) = σ.dec.map (·.kw) ∧
  ∀ a v, (a, v) ∈ kw →
    match v with
    | .plain x => a ∉ σ.nested ∧ x.wf = true
    | .nested t => a ∈ σ.nested ∧ t.wf = true

theorem schema_wf_unpack {σ : Schema} (h : σ.wf = true) :
    nodupB (σ.enc.map (·.key)) = true ∧ nodupB (σ.dec.map (·.kw)) = true ∧
    (∀ d ∈ σ.dec, ∃ e ∈ σ.enc, e.key = d.key ∧ e.src = .attr d.kw) ∧
    (∀ e ∈ σ.enc, ∀ a, e.src = .attr a → ∃ d ∈ σ.dec, d.kw = a ∧ d.key = e.key) ∧
    (∀ d ∈ σ.dec, (d.wrap = .fromStr ↔ d.kw ∈ σ.nested)) := by
  simp only [Schema.wf, Bool.and_eq_true, List.all_eq_true, List.any_eq_true, beq_iff_eq] at h
  obtain ⟨⟨⟨⟨h1, h2⟩, h3⟩, h4⟩, h5⟩ := h
  refine ⟨h1, h2, ?_, ?_, ?_⟩
  · intro d hd
    obtain ⟨e, he, hk, hs⟩ := h3 d hd
    exact ⟨e, he, hk, hs⟩
  · intro e he a ha
    have := h4 e he
    rw [ha] at this
    simp only [List.any_eq_true, Bool.and_eq_true, beq_iff_eq] at this
    obtain ⟨d, hd, h1, h2⟩ := this
    exact ⟨d, hd, h1, h2⟩
  · intro d hd
    have := h5 d hd
    simp only [List.contains_eq_mem] at this
    constructor
    · intro hw; simpa [hw] using this
    · intro hm
      by_cases hw : d.wrap = .fromStr
      · exact hw
      · simp [hw, hm] at this

/-- **generic round trip**: for a well-formed schema and constructor arguments that fit it,
`to_json_dict` (with the `default` hook) succeeds, yields a JSON-representable dict, and
`from_json_dict`'s argument list is exactly the original constructor arguments. -/
theorem roundtrip_of_wf_aux (c : Codec) (σ : Schema) (hσ : σ.wf = true)
    (kw : List (String × FVal)) (hk : KwOk σ kw) :
    interpEnc c.dumps σ kw = some (.obj (σ.enc.map fun e => (e.key, encVal c.dumps kw e))) ∧
    (JVal.obj (σ.enc.map fun e => (e.key, encVal c.dumps kw e))).wf = true ∧
    interpDec c.loads σ (.obj (σ.enc.map fun e => (e.key, encVal c.dumps kw e))) = some kw := by
  obtain ⟨hn1, hn2, hde, hed, hwr⟩ := schema_wf_unpack hσ
  obtain ⟨hnames, hvals⟩ := hk
  have hkwn : nodupB (kw.map (·.1)) = true := by rw [hnames]; exact hn2
  -- every attribute written is a constructor argument
  have hattr : ∀ e ∈ σ.enc, ∀ a, e.src = .attr a → ∃ v, lookupF a kw = some v := by
    intro e he a ha
    obtain ⟨d, hd, hda, _⟩ := hed e he a ha
    have : a ∈ kw.map (·.1) := by rw [hnames, ← hda]; exact List.mem_map_of_mem hd
    obtain ⟨⟨a', v⟩, hm, rfl⟩ := List.mem_map.mp this
    exact ⟨v, lookupF_of_mem kw _ v hm hkwn⟩
  refine ⟨?_, ?_, ?_⟩
  · -- encoder
    unfold interpEnc
    rw [mapMO_eq_some_map (encField c.dumps kw) (fun e => (e.key, encVal c.dumps kw e))]
    · rfl
    · intro e he
      unfold encField encVal
      cases hs : e.src with
      | const s => rfl
      | attr a =>
        obtain ⟨v, hv⟩ := hattr e he a hs
        cases v <;> simp [hv]
  · -- representable
    simp only [JVal.wf, List.map_map, Bool.and_eq_true]
    refine ⟨by simpa [Function.comp_def] using hn1, ?_⟩
    apply wfKVs_map
    intro e _
    unfold encVal
    cases hs : e.src with
    | const s => simp [JVal.wf]
    | attr a =>
      cases hl : lookupF a kw with
      | none => simp [hl, JVal.wf]
      | some v =>
        cases v with
        | plain x => simpa [hl] using (hvals a _ (mem_of_lookupF kw a _ hl)).2
        | nested t => simp [hl, JVal.wf]
  · -- decoder
    simp only [interpDec]
    apply mapMO_zip _ _ _ hnames
    intro d hd r hr hrd
    obtain ⟨a, v⟩ := r
    simp only at hrd
    subst hrd
    obtain ⟨e, he, hek, hes⟩ := hde d hd
    have hl : lookup d.key (σ.enc.map fun e => (e.key, encVal c.dumps kw e)) = some (encVal c.dumps kw e) := by
      rw [← hek]; exact lookup_map_of_mem (fun e : EncF => e.key) _ σ.enc e he hn1
    have hv : lookupF d.kw kw = some v := lookupF_of_mem kw _ v hr hkwn
    have hok := hvals d.kw v hr
    unfold decField
    rw [hl]
    cases v with
    | plain x =>
      have hw : d.wrap = .plain := by
        cases hw : d.wrap with
        | plain => rfl
        | fromStr => exact absurd ((hwr d hd).mp hw) hok.1
      simp [hw, encVal, hes, hv]
    | nested t =>
      have hw : d.wrap = .fromStr := (hwr d hd).mpr hok.1
      simp [hw, encVal, hes, hv, c.loads_dumps t hok.2]

/-! ### well-formedness of the concrete encodings -/

theorem names_encodeGroups (dumps : JVal → String) :
    ∀ gs : Groups, (encodeGroups dumps gs).map (·.1) = gs.names
  | .nil => by simp [encodeGroups, Groups.names]
  | .cons g es gs => by simp [encodeGroups, Groups.names, names_encodeGroups dumps gs]

theorem wfList_encodeEvs (dumps : JVal → String) : ∀ es : Evs, wfList (encodeEvs dumps es) = true
  | .nil => by simp [encodeEvs, wfList]
  | .cons e es => by simp [encodeEvs, wfList, JVal.wf, wfList_encodeEvs dumps es]

theorem wfKVs_encodeGroups (dumps : JVal → String) : ∀ gs : Groups, wfKVs (encodeGroups dumps gs) = true
  | .nil => by simp [encodeGroups, wfKVs]
  | .cons g es gs => by
    simp [encodeGroups, wfKVs, JVal.wf, wfList_encodeEvs dumps es, wfKVs_encodeGroups dumps gs]

theorem nodupB_names_of_WF : ∀ gs : Groups, gs.WF → nodupB gs.names = true
  | .nil, _ => by simp [Groups.names, nodupB]
  | .cons g es gs, h => by
    simp only [Groups.WF] at h
    simp [Groups.names, nodupB_cons, h.2.2.1, nodupB_names_of_WF gs h.2.2.2]

/-- a history's dict is JSON-representable as soon as its group names are distinct
(the events are *strings* at this level). -/
theorem encodeHist_wf (dumps : JVal → String) (h : Hist) (hw : Groups.WF h) :
    (encodeHist dumps h).wf = true := by
  simp [encodeHist, JVal.wf, names_encodeGroups, nodupB_names_of_WF h hw, wfKVs_encodeGroups]

theorem mkHist_of_WF : ∀ gs : Groups, gs.WF → mkHist gs = gs
  | .nil, _ => by simp [mkHist]
  | .cons g .nil gs, h => by simp [Groups.WF] at h
  | .cons g (.cons e es) gs, h => by
    simp only [Groups.WF] at h
    simp [mkHist, mkHist_of_WF gs h.2.2.2]


/-! ### the hand-written encoders are the schema interpretation of the constructor arguments -/

theorem simple_wf : simpleSchema.wf = true := by decide
theorem complex_wf : complexSchema.wf = true := by decide
theorem action_wf : actionSchema.wf = true := by decide
theorem run_wf : runSchema.wf = true := by decide

theorem ev_schema_wf (e : Ev) : e.schema.wf = true := by
  cases e <;> simp only [Ev.schema] <;> decide

theorem encodeEv_eq (dumps : JVal → String) (e : Ev) :
    JVal.obj (e.schema.enc.map fun f => (f.key, encVal dumps (e.kwargs dumps) f)) = encodeEv dumps e := by
  cases e <;> rfl

theorem encodeRun_eq (dumps : JVal → String) (r : Run) :
    JVal.obj (runSchema.enc.map fun f => (f.key, encVal dumps (r.kwargs dumps) f)) = encodeRun dumps r := by
  rfl

theorem ev_kwOk (dumps : JVal → String) (e : Ev) (h : e.WF) : KwOk e.schema (e.kwargs dumps) := by
  cases e with
  | simple id ts d =>
    simp only [Ev.WF] at h
    refine ⟨by simp [Ev.kwargs, Ev.schema, simpleSchema], ?_⟩
    intro a v hm
    simp only [Ev.kwargs, List.mem_cons, Prod.mk.injEq, List.not_mem_nil, or_false] at hm
    rcases hm with ⟨rfl, rfl⟩ | ⟨rfl, rfl⟩ | ⟨rfl, rfl⟩ <;> simp [Ev.schema, simpleSchema, JVal.wf, h.2]
  | complex id ts d ph pat hist =>
    simp only [Ev.WF] at h
    refine ⟨by simp [Ev.kwargs, Ev.schema, complexSchema], ?_⟩
    intro a v hm
    simp only [Ev.kwargs, List.mem_cons, Prod.mk.injEq, List.not_mem_nil, or_false] at hm
    rcases hm with ⟨rfl, rfl⟩ | ⟨rfl, rfl⟩ | ⟨rfl, rfl⟩ | ⟨rfl, rfl⟩ | ⟨rfl, rfl⟩ | ⟨rfl, rfl⟩ <;>
      simp [Ev.schema, complexSchema, JVal.wf, h.2.1, encodeHist_wf dumps hist h.2.2.2.2]
  | action id ts d ph pat act ok =>
    simp only [Ev.WF] at h
    refine ⟨by simp [Ev.kwargs, Ev.schema, actionSchema], ?_⟩
    intro a v hm
    simp only [Ev.kwargs, List.mem_cons, Prod.mk.injEq, List.not_mem_nil, or_false] at hm
    rcases hm with ⟨rfl, rfl⟩ | ⟨rfl, rfl⟩ | ⟨rfl, rfl⟩ | ⟨rfl, rfl⟩ | ⟨rfl, rfl⟩ | ⟨rfl, rfl⟩ | ⟨rfl, rfl⟩ <;>
      simp [Ev.schema, actionSchema, JVal.wf, h.2.1]

theorem run_kwOk (dumps : JVal → String) (r : Run) (h : r.WF) : KwOk runSchema (r.kwargs dumps) := by
  refine ⟨by simp [Run.kwargs, runSchema], ?_⟩
  intro a v hm
  simp only [Run.kwargs, List.mem_cons, Prod.mk.injEq, List.not_mem_nil, or_false] at hm
  rcases hm with ⟨rfl, rfl⟩ | ⟨rfl, rfl⟩ | ⟨rfl, rfl⟩ | ⟨rfl, rfl⟩ | ⟨rfl, rfl⟩ <;>
    simp [runSchema, JVal.wf, encodeHist_wf dumps r.hist h.2.2.2.2]

/-- an event's dict is JSON-representable (the nested history is a *string* at this level). -/
theorem encodeEv_wf (c : Codec) (e : Ev) (h : e.WF) : (encodeEv c.dumps e).wf = true := by
  rw [← encodeEv_eq]
  exact (roundtrip_of_wf_aux c e.schema (ev_schema_wf e) _ (ev_kwOk c.dumps e h)).2.1

theorem encodeRun_wf (c : Codec) (r : Run) (h : r.WF) : (encodeRun c.dumps r).wf = true := by
  rw [← encodeRun_eq]
  exact (roundtrip_of_wf_aux c runSchema run_wf _ (run_kwOk c.dumps r h)).2.1

/-- `from_json_dict`'s constructor arguments for the dict of an event are the event's own. -/
theorem interpDec_encodeEv (c : Codec) (e : Ev) (h : e.WF) :
    interpDec c.loads e.schema (encodeEv c.dumps e) = some (e.kwargs c.dumps) := by
  rw [← encodeEv_eq]
  exact (roundtrip_of_wf_aux c e.schema (ev_schema_wf e) _ (ev_kwOk c.dumps e h)).2.2

theorem interpDec_encodeRun (c : Codec) (r : Run) (h : r.WF) :
    interpDec c.loads runSchema (encodeRun c.dumps r) = some (r.kwargs c.dumps) := by
  rw [← encodeRun_eq]
  exact (roundtrip_of_wf_aux c runSchema run_wf _ (run_kwOk c.dumps r h)).2.2

/-! ### the factory on each kind -/

theorem decodeEvD_simple (c : Codec) (n : Nat) (id : String) (ts : Int) (d : JVal)
    (h : (Ev.simple id ts d).WF) :
    decodeEvD c.loads (n + 1) (encodeEv c.dumps (.simple id ts d)) = some (.simple id ts d) := by
  have hd := interpDec_encodeEv c (.simple id ts d) h
  simp only [Ev.schema] at hd
  simp only [Ev.WF] at h
  generalize hj : encodeEv c.dumps (.simple id ts d) = j at hd
  simp only [encodeEv] at hj
  subst hj
  simp [decodeEvD, factory, lookup, dispatch, hd, Ev.kwargs, mkSimple, h.1]

theorem decodeEvD_action (c : Codec) (n : Nat) (id : String) (ts : Int) (d : JVal) (ph pat act : String)
    (ok : Bool) (h : (Ev.action id ts d ph pat act ok).WF) :
    decodeEvD c.loads (n + 1) (encodeEv c.dumps (.action id ts d ph pat act ok))
      = some (.action id ts d ph pat act ok) := by
  have hd := interpDec_encodeEv c (.action id ts d ph pat act ok) h
  simp only [Ev.schema] at hd
  simp only [Ev.WF] at h
  generalize hj : encodeEv c.dumps (.action id ts d ph pat act ok) = j at hd
  simp only [encodeEv] at hj
  subst hj
  simp [decodeEvD, factory, lookup, dispatch, hd, Ev.kwargs, mkAction, h.1, h.2.2.1, h.2.2.2.1, h.2.2.2.2]

theorem decodeEvD_complex (c : Codec) (n : Nat) (id : String) (ts : Int) (d : JVal) (ph pat : String)
    (hist : Groups) (h : (Ev.complex id ts d ph pat hist).WF)
    (ih : decodeGroupsWith c.loads (decodeEvD c.loads n) (encodeGroups c.dumps hist) = some hist) :
    decodeEvD c.loads (n + 1) (encodeEv c.dumps (.complex id ts d ph pat hist))
      = some (.complex id ts d ph pat hist) := by
  have hd := interpDec_encodeEv c (.complex id ts d ph pat hist) h
  simp only [Ev.schema] at hd
  simp only [Ev.WF] at h
  generalize hj : encodeEv c.dumps (.complex id ts d ph pat hist) = j at hd
  simp only [encodeEv] at hj
  subst hj
  simp [decodeEvD, factory, lookup, dispatch, hd, Ev.kwargs, mkComplex, encodeHist, decodeHistWith, ih,
    mkHist_of_WF hist h.2.2.2.2, h.1, h.2.2.1, h.2.2.2.1]

/-! ### the induction over nesting -/

mutual
theorem ev_rt (c : Codec) : ∀ (e : Ev), e.WF → ∀ n, e.depth < n →
    decodeEvD c.loads n (encodeEv c.dumps e) = some e
  | .simple id ts d, hw, n, hn => by
    cases n with
    | zero => omega
    | succ n => exact decodeEvD_simple c n id ts d hw
  | .action id ts d ph pat act ok, hw, n, hn => by
    cases n with
    | zero => omega
    | succ n => exact decodeEvD_action c n id ts d ph pat act ok hw
  | .complex id ts d ph pat hist, hw, n, hn => by
    cases n with
    | zero => omega
    | succ n =>
      have hw' : hist.WF := by simp only [Ev.WF] at hw; exact hw.2.2.2.2
      have hn' : hist.depth < n := by simp only [Ev.depth] at hn; omega
      exact decodeEvD_complex c n id ts d ph pat hist hw (groups_rt c hist hw' n hn')
theorem evs_rt (c : Codec) : ∀ (es : Evs), es.WF → ∀ n, es.depth < n →
    decodeEvsWith c.loads (decodeEvD c.loads n) (encodeEvs c.dumps es) = some es
  | .nil, _, _, _ => by simp [encodeEvs, decodeEvsWith]
  | .cons e es, hw, n, hn => by
    simp only [Evs.WF] at hw
    simp only [Evs.depth] at hn
    have he := ev_rt c e hw.1 n (by omega)
    have hes := evs_rt c es hw.2 n (by omega)
    have hwf := encodeEv_wf c e hw.1
    simp [encodeEvs, decodeEvsWith, histSchema, fromText, c.loads_dumps _ hwf, he, hes]
theorem groups_rt (c : Codec) : ∀ (gs : Groups), gs.WF → ∀ n, gs.depth < n →
    decodeGroupsWith c.loads (decodeEvD c.loads n) (encodeGroups c.dumps gs) = some gs
  | .nil, _, _, _ => by simp [encodeGroups, decodeGroupsWith]
  | .cons g es gs, hw, n, hn => by
    simp only [Groups.WF] at hw
    simp only [Groups.depth] at hn
    have hes := evs_rt c es hw.2.1 n (by omega)
    have hgs := groups_rt c gs hw.2.2.2 n (by omega)
    simp [encodeGroups, decodeGroupsWith, hes, hgs]
end

theorem hist_rt (c : Codec) (h : Hist) (hw : Groups.WF h) (n : Nat) (hn : Groups.depth h < n) :
    decodeHistD c.loads n (encodeHist c.dumps h) = some h := by
  simp [decodeHistD, encodeHist, decodeHistWith, groups_rt c h hw n hn, mkHist_of_WF h hw]

theorem runD_rt (c : Codec) (r : Run) (hw : r.WF) (n : Nat) (hn : r.depth < n) :
    decodeRunD c.loads n (encodeRun c.dumps r) = some r := by
  have hd := interpDec_encodeRun c r hw
  obtain ⟨h1, h2, h3, h4, h5⟩ := hw
  have hh := hist_rt c r.hist h5 n hn
  have h3' : ¬ r.idx < 1 := by omega
  have h4' : ¬ Groups.size r.hist < 1 := by omega
  simp [decodeRunD, hd, Run.kwargs, mkRun, hh, h1, h2, h3', h4']

/-! ### message level -/

theorem mapMO_map {α β γ : Type} (f : β → Option γ) (g : α → β) :
    ∀ l : List α, mapMO f (l.map g) = mapMO (fun x => f (g x)) l
  | [] => rfl
  | x :: l => by simp [mapMO, mapMO_map f g l]

theorem wfList_strs {α : Type} (t : α → String) : ∀ l : List α, wfList (l.map fun r => JVal.str (t r)) = true
  | [] => by simp [wfList]
  | x :: l => by simp [wfList, JVal.wf, wfList_strs t l]

theorem dictsL_strs {α : Type} (t : α → String) : ∀ l : List α, dictsL (l.map fun r => JVal.str (t r)) = 0
  | [] => by simp [dictsL]
  | x :: l => by simp [dictsL, JVal.dicts, dictsL_strs t l]

theorem applyHookL_strs {α : Type} (hook : List (String × HVal) → Option (List (String × HVal)))
    (t : α → String) : ∀ l : List α,
    applyHookL hook (l.map fun r => JVal.str (t r)) = some (l.map fun r => HVal.atom (.str (t r)))
  | [] => by simp [applyHookL]
  | x :: l => by simp [applyHookL, applyHook, applyHookL_strs hook t l]

theorem hookElems_rt (fromStr : String → Option Run) (t : Run → String) (l : List Run)
    (h : ∀ r ∈ l, fromStr (t r) = some r) :
    mapMO (hookElem fromStr) (l.map fun r => HVal.atom (.str (t r))) = some (l.map .run) := by
  rw [mapMO_map]
  apply mapMO_eq_some_map
  intro r hr
  simp [hookElem, h r hr]

theorem getRuns_runs (l : List Run) : getRuns (.arr (l.map .run)) = some l := by
  simp only [getRuns]
  rw [mapMO_map]
  have := mapMO_eq_some_map (fun x : Run => (some x : Option Run)) id l (by simp)
  simpa using this

/-! ### header -/

theorem splitSp_append : ∀ (a r : List Char), ' ' ∉ a → splitSp (a ++ ' ' :: r) = some (a, r)
  | [], r, _ => by simp [splitSp]
  | x :: a, r, h => by
    have hx : x ≠ ' ' := fun e => h (by simp [e])
    have ha : ' ' ∉ a := fun m => h (by simp [m])
    simp [splitSp, hx, splitSp_append a r ha]

end Bobo.Json
