import BoboVerif.Model.Tcp
import BoboVerif.Lemmas.Tcp
import BoboVerif.Props.C15
import BoboVerif.Lemmas.TcpAccount
/-!
Helper lemmas for the whole-run accounting theorems of C06 (last section of Props/C06.lean):
a ghost "what device `j` still misses" folded over the step list (`missingAfter`), the invariant
`Acct` tying the ghost to `j`'s backlog / the outgoing queue / the resync period, one preservation
lemma per `Step` constructor (`acct_push`, `acct_incoming`, `acct_pass`) and the induction over the
step list (`acct_run`).
-/
namespace Bobo.Tcp
variable {Rec : Type}

/-- the records a message carries. -/
def recs (m : Msg Rec) : List Rec := m.c ++ m.h ++ m.u

/-- the whole backlog of a device. -/
def stashAll (p : Peer Rec) : List Rec := p.stashC ++ p.stashH ++ p.stashU

theorem mem_recs {m : Msg Rec} {x : Rec} : x ∈ recs m ↔ x ∈ m.c ∨ x ∈ m.h ∨ x ∈ m.u := by
  simp [recs, List.mem_append]

theorem mem_stashAll {p : Peer Rec} {x : Rec} : x ∈ stashAll p ↔ x ∈ p.stashC ∨ x ∈ p.stashH ∨ x ∈ p.stashU := by
  simp [stashAll, List.mem_append]

/-- one step of the ghost: a push adds its records; a RESYNC reported delivered to `j` supersedes
everything; a SYNC reported delivered to `j` removes what it carried; nothing else changes it. -/
def missStep [DecidableEq Rec] (j : Nat) (s : TState Rec) (missing : List Rec) : Step Rec → List Rec
  | .push m => missing ++ recs m
  | .pass now snap outcome =>
    match (outIter s now snap outcome).2.find? (fun w => w.peer == j) with
    | none => missing
    | some w =>
      if w.typ = .resync ∧ (outcome j).1 = 0 then []
      else if w.typ = .sync ∧ (outcome j).1 = 0 then missing.filter (fun x => x ∉ recs w.payload)
      else missing
  | .incoming _ _ => missing

/-- the ghost after a run: independent of backlog and queue, it only looks at what was pushed and at
what was handed to the wire for `j` with a reported success. -/
def missingAfter [DecidableEq Rec] (j : Nat) : TState Rec → List Rec → List (Step Rec) → List Rec
  | _, missing, [] => missing
  | s, missing, x :: xs => missingAfter j (step s x).1 (missStep j s missing x) xs

/-- the decision clock of the last pass of the run (`L0`: a clock reading taken before the run). -/
def lastNow (L0 : Int) : List (Step Rec) → Int
  | [] => L0
  | .pass now _ _ :: xs => lastNow now xs
  | .push _ :: xs => lastNow L0 xs
  | .incoming _ _ :: xs => lastNow L0 xs

/-- the decision clocks of the passes never go backwards (and start at or after `L0`).  Nothing is
asked of the clocks read after the sends. -/
def MonoClocks (L0 : Int) : List (Step Rec) → Prop
  | [] => True
  | .pass now _ _ :: xs => L0 ≤ now ∧ MonoClocks now xs
  | .push _ :: xs => MonoClocks L0 xs
  | .incoming _ _ :: xs => MonoClocks L0 xs

instance decMonoClocks : (L0 : Int) → (steps : List (Step Rec)) → Decidable (MonoClocks L0 steps)
  | _, [] => isTrue trivial
  | L0, .pass now _ _ :: xs =>
    have := decMonoClocks now xs
    inferInstanceAs (Decidable (L0 ≤ now ∧ MonoClocks now xs))
  | L0, .push _ :: xs => decMonoClocks L0 xs
  | L0, .incoming _ _ :: xs => decMonoClocks L0 xs

/-- **the accounting invariant** for device index `j` (urn `urn`, not the instance itself), ghost
`missing`, last clock `L`: `last_comms ≥ 0`, and either `j` is in the resync period at every clock
`≥ L`, or every record `j` misses is in `j`'s backlog or in a queued message. -/
def Acct (j : Nat) (urn : String) (s : TState Rec) (missing : List Rec) (L : Int) : Prop :=
  ∃ p, s.peers[j]? = some (urn, p) ∧ urn ≠ s.self ∧ 0 ≤ p.lastComms ∧
    ((∀ now', now' ≥ L → now' - p.lastComms ≥ s.cfg.periodResync) ∨
     (∀ x ∈ missing, x ∈ stashAll p ∨ ∃ m ∈ s.queue, x ∈ recs m))

theorem acct_mono {j : Nat} {urn : String} {s : TState Rec} {missing : List Rec} {L L' : Int}
    (hL : L ≤ L') (h : Acct j urn s missing L) : Acct j urn s missing L' := by
  obtain ⟨p, he, hself, hlc, hd⟩ := h
  refine ⟨p, he, hself, hlc, ?_⟩
  rcases hd with hA | hB
  · exact Or.inl (fun now' hn => hA now' (by omega))
  · exact Or.inr hB

/-! ### one lemma per step constructor -/

theorem acct_push [DecidableEq Rec] {j : Nat} {urn : String} {s : TState Rec} {missing : List Rec} {L : Int}
    (m : Msg Rec) (h : Acct j urn s missing L) : Acct j urn (push s m) (missing ++ recs m) L := by
  obtain ⟨p, he, hself, hlc, hd⟩ := h
  refine ⟨p, he, hself, hlc, ?_⟩
  rcases hd with hA | hB
  · exact Or.inl hA
  · right
    intro x hx
    rcases List.mem_append.mp hx with hx | hx
    · rcases hB x hx with h1 | ⟨m', hm', hxm⟩
      · exact Or.inl h1
      · exact Or.inr ⟨m', by simp [push, hm'], hxm⟩
    · exact Or.inr ⟨m, by simp [push], hx⟩

theorem acct_incoming {j : Nat} {urn : String} {s : TState Rec} {missing : List Rec} {L : Int}
    (i flags : Nat) (h : Acct j urn s missing L) : Acct j urn (incoming s i flags) missing L := by
  obtain ⟨p, he, hself, hlc, hd⟩ := h
  by_cases hij : i = j
  · subst hij
    have hp : (incoming s i flags).peers[i]? = some (urn, onIncomingFlags flags p) := by
      simp only [incoming]; rw [incomingPeers_self, he]; rfl
    by_cases hf : flags &&& FLAG_RESET = FLAG_RESET
    · refine ⟨_, hp, hself, by simp [onIncomingFlags, hf, Peer.clearLast], ?_⟩
      rcases hd with hA | hB
      · left
        intro now' hn
        have := hA now' hn
        have h0 : (onIncomingFlags flags p).lastComms = 0 := by simp [onIncomingFlags, hf, Peer.clearLast]
        rw [h0]
        show now' - 0 ≥ s.cfg.periodResync
        omega
      · right
        intro x hx
        have : stashAll (onIncomingFlags flags p) = stashAll p := by
          simp [onIncomingFlags, hf, Peer.clearLast, stashAll]
        rw [this]; exact hB x hx
    · have : onIncomingFlags flags p = p := by simp [onIncomingFlags, hf]
      rw [this] at hp
      exact ⟨p, hp, hself, hlc, hd⟩
  · have hp : (incoming s i flags).peers[j]? = some (urn, p) := by
      simp only [incoming]; rw [incomingPeers_ne _ _ _ _ hij]; exact he
    exact ⟨p, hp, hself, hlc, hd⟩

/-- what the pass does for a device other than self, in terms of the tree's decision for it
(same as `pass_for_device` of Props/C06.lean, needed here below it in the import order). -/
theorem outIter_device (s : TState Rec) (now : Int) (snap : Msg Rec) (outcome : Nat → Nat × Int)
    (j : Nat) (e : String × Peer Rec) (he : s.peers[j]? = some e) (hself : e.1 ≠ s.self) :
    (outIter s now snap outcome).2.find? (fun w => w.peer == j) =
      (decideOne s.cfg now s.queue.isEmpty e.2).map (fun t => wireOf snap s.queue j (t, e.2.resets) e) ∧
    (outIter s now snap outcome).1.peers[j]? =
      some (match decideOne s.cfg now s.queue.isEmpty e.2 with
            | none => e
            | some t => entryAfter snap s.queue outcome j (t, e.2.resets) e) := by
  have hw := outIter_wire s now snap outcome j
  have hp := outIter_peer s now snap outcome j
  rw [he] at hw hp
  simp only [Option.bind_some, Option.map_some] at hw hp
  have hd : decideEntry s.cfg s.self now s.queue.isEmpty e
      = (decideOne s.cfg now s.queue.isEmpty e.2).map (fun t => (t, e.2.resets)) := by
    simp [decideEntry, hself]
  rw [hd] at hw hp
  refine ⟨?_, ?_⟩
  · rw [hw]; cases decideOne s.cfg now s.queue.isEmpty e.2 <;> rfl
  · rw [hp]; cases decideOne s.cfg now s.queue.isEmpty e.2 <;> rfl

/-- an empty queue stays empty over a pass. -/
theorem outIter_queue_nil (s : TState Rec) (now : Int) (snap : Msg Rec) (outcome : Nat → Nat × Int)
    (h : s.queue = []) : (outIter s now snap outcome).1.queue = [] := by
  rcases outIter_queue s now snap outcome with hq | hq <;> rw [hq, h] <;> rfl

/-- `last_comms` is never negative after a send-loop body if it was not before. -/
theorem sendPeer_lastComms_nonneg (t : MsgType) (snap cache : Msg Rec) (err : Nat) (clock : Int) (p : Peer Rec)
    (h : 0 ≤ p.lastComms) : 0 ≤ (sendPeer t p.resets snap cache err clock p).1.lastComms := by
  by_cases herr : err = 0
  · subst herr
    rw [(book_success t p.resets snap cache clock p).1]
    simp only [if_true]; omega
  · rw [(book_failure t p.resets snap cache err herr clock p).1]; exact h

theorem acct_pass [DecidableEq Rec] {j : Nat} {urn : String} {s : TState Rec} {missing : List Rec} {L : Int}
    (now : Int) (snap : Msg Rec) (outcome : Nat → Nat × Int) (hmono : L ≤ now) (h : Acct j urn s missing L) :
    Acct j urn (outIter s now snap outcome).1 (missStep j s missing (.pass now snap outcome)) now := by
  obtain ⟨p, he, hself, hlc, hd⟩ := h
  obtain ⟨hw, hp⟩ := outIter_device s now snap outcome j (urn, p) he hself
  simp only at hw hp
  have hcfg : (outIter s now snap outcome).1.cfg = s.cfg := rfl
  have hslf : (outIter s now snap outcome).1.self = s.self := rfl
  unfold Acct
  rw [hcfg, hslf]
  simp only [missStep]
  by_cases hres : now - p.lastComms ≥ s.cfg.periodResync
  · -- `j` is in the resync period at the decision
    have hdec : decideOne s.cfg now s.queue.isEmpty p
        = if now - p.lastAttempt ≥ s.cfg.attemptResync then some .resync else none := by
      unfold decideOne; exact resync_only _ _ _ _ _ hres
    by_cases ha : now - p.lastAttempt ≥ s.cfg.attemptResync
    · rw [hdec, if_pos ha] at hw hp
      simp only [Option.map_some] at hw
      rw [hw]
      refine ⟨_, hp, hself, sendPeer_lastComms_nonneg _ _ _ _ _ p hlc, ?_⟩
      by_cases herr : (outcome j).1 = 0
      · right
        simp [wireOf, herr]
      · left
        intro now' hn
        rw [(book_failure .resync p.resets snap (cacheOf s.queue) _ herr (outcome j).2 p).1]
        omega
    · rw [hdec, if_neg ha] at hw hp
      simp only [Option.map_none] at hw
      rw [hw]
      exact ⟨p, hp, hself, hlc, Or.inl (fun now' hn => by omega)⟩
  · -- not in the resync period: the invariant must hold by its second disjunct
    have hB : ∀ x ∈ missing, x ∈ stashAll p ∨ ∃ m ∈ s.queue, x ∈ recs m := by
      rcases hd with hA | hB
      · exact absurd (hA now (by omega)) hres
      · exact hB
    cases hdec : decideOne s.cfg now s.queue.isEmpty p with
    | none =>
      rw [hdec] at hw hp
      simp only [Option.map_none] at hw
      rw [hw]
      have hqe : s.queue = [] := by
        cases hq : s.queue with
        | nil => rfl
        | cons m rest =>
          have : decideOne s.cfg now s.queue.isEmpty p = some .sync := by
            unfold decideOne
            rw [sync_when_work]
            exact ⟨by omega, Or.inl (by rw [hq]; rfl)⟩
          rw [this] at hdec; cases hdec
      refine ⟨p, hp, hself, hlc, Or.inr ?_⟩
      intro x hx
      rcases hB x hx with h1 | ⟨m, hm, _⟩
      · exact Or.inl h1
      · rw [hqe] at hm; cases hm
    | some t =>
      rw [hdec] at hw hp
      simp only [Option.map_some] at hw
      rw [hw]
      refine ⟨_, hp, hself, sendPeer_lastComms_nonneg _ _ _ _ _ p hlc, Or.inr ?_⟩
      cases t with
      | resync =>
        exfalso
        unfold decideOne at hdec
        rw [resync_iff] at hdec
        exact hres hdec.1
      | ping =>
        unfold decideOne at hdec
        rw [ping_only_when_idle] at hdec
        obtain ⟨_, _, hqE, hst, _⟩ := hdec
        have hqe : s.queue = [] := by simpa using hqE
        have hstash : stashAll p = [] := by
          unfold Peer.sizeStash at hst
          have h1 : p.stashC = [] := List.eq_nil_of_length_eq_zero (by omega)
          have h2 : p.stashH = [] := List.eq_nil_of_length_eq_zero (by omega)
          have h3 : p.stashU = [] := List.eq_nil_of_length_eq_zero (by omega)
          simp [stashAll, h1, h2, h3]
        intro x hx
        have hx' : x ∈ missing := by
          simpa [wireOf] using hx
        rcases hB x hx' with h1 | ⟨m, hm, _⟩
        · rw [hstash] at h1; cases h1
        · rw [hqe] at hm; cases hm
      | sync =>
        -- a SYNC is on the wire: the queue head is popped
        have hmem : wireOf snap s.queue j (.sync, p.resets) (urn, p) ∈ (outIter s now snap outcome).2 :=
          mem_of_find_wire hw
        have hq : (outIter s now snap outcome).1.queue = s.queue.tail := by
          rcases outIter_queue_exact s now snap outcome with ⟨hno, _⟩ | ⟨_, hq⟩
          · exact absurd rfl (hno _ hmem)
          · exact hq
        rw [hq]
        -- every record of the old queue is in the pass's cache or in the new queue
        have hsplit : ∀ x, (∃ m ∈ s.queue, x ∈ recs m) → x ∈ recs (cacheOf s.queue) ∨ ∃ m ∈ s.queue.tail, x ∈ recs m := by
          intro x ⟨m, hm, hxm⟩
          cases hqq : s.queue with
          | nil => rw [hqq] at hm; cases hm
          | cons m0 rest =>
            rw [hqq] at hm
            rcases List.mem_cons.mp hm with rfl | hm
            · exact Or.inl hxm
            · exact Or.inr ⟨m, hm, hxm⟩
        by_cases herr : (outcome j).1 = 0
        · intro x hx
          simp [wireOf, herr, prep] at hx
          obtain ⟨hxm, hxd⟩ := hx
          have hxn := of_decide_eq_true hxd
          have hnotin : x ∉ stashAll p ∧ x ∉ recs (cacheOf s.queue) := by
            simp only [payload, mem_recs, mem_stashAll, List.mem_append] at hxn ⊢
            grind
          rcases hB x hxm with h1 | h2
          · exact absurd h1 hnotin.1
          · rcases hsplit x h2 with h3 | h3
            · exact absurd h3 hnotin.2
            · exact Or.inr h3
        · intro x hx
          have hx' : x ∈ missing := by simpa [wireOf, herr] using hx
          have hst := (book_failure .sync p.resets snap (cacheOf s.queue) _ herr (outcome j).2 p).2.2.2.2.1 rfl
          rcases hB x hx' with h1 | h2
          · left
            rw [mem_stashAll] at h1 ⊢
            rw [hst.1, hst.2.1, hst.2.2]
            simp only [List.mem_append]
            grind
          · rcases hsplit x h2 with h3 | h3
            · left
              rw [mem_recs] at h3
              rw [mem_stashAll, hst.1, hst.2.1, hst.2.2]
              simp only [List.mem_append]
              grind
            · exact Or.inr h3

/-! ### every run -/

theorem acct_step [DecidableEq Rec] {j : Nat} {urn : String} {s : TState Rec} {missing : List Rec} {L : Int}
    (x : Step Rec) (xs : List (Step Rec)) (hm : MonoClocks L (x :: xs)) (h : Acct j urn s missing L) :
    ∃ L', Acct j urn (step s x).1 (missStep j s missing x) L' ∧ MonoClocks L' xs ∧ lastNow L (x :: xs) = lastNow L' xs := by
  cases x with
  | push m => exact ⟨L, acct_push m h, hm, rfl⟩
  | incoming i flags => exact ⟨L, acct_incoming i flags h, hm, rfl⟩
  | pass now snap outcome => exact ⟨now, acct_pass now snap outcome hm.1 h, hm.2, rfl⟩

/-- the invariant holds after every run with monotone decision clocks. -/
theorem acct_run [DecidableEq Rec] (j : Nat) (urn : String) (steps : List (Step Rec)) :
    ∀ (s : TState Rec) (missing : List Rec) (L : Int), MonoClocks L steps → Acct j urn s missing L →
      Acct j urn (runState s steps) (missingAfter j s missing steps) (lastNow L steps) := by
  induction steps with
  | nil => intro s missing L _ h; exact h
  | cons x xs ih =>
    intro s missing L hm h
    obtain ⟨L', hacct, hm', hl⟩ := acct_step x xs hm h
    rw [hl]
    exact ih _ _ L' hm' hacct

end Bobo.Tcp
