import BoboVerif.Lemmas.IdDiscipline
/-!
The identifier discipline as a state invariant (`IdInv`) and what one `update()`
does to it: the step's notification satisfies the identifier hygiene that
`replica_mirrors_runs` assumes, and the invariant holds again afterwards.
-/
namespace Bobo.Decider
open Bobo.Run Bobo.Lattice
set_option linter.unusedSimpArgs false
set_option linter.unusedVariables false
variable {ε : Type}

/-- `id` has been handed out: by the first generator among its first `nA` identifiers, or by the second among
its first `nB`. -/
def Issued (fA fB : Nat → String) (nA nB : Nat) (id : String) : Prop :=
  (∃ k, k < nA ∧ id = fA k) ∨ (∃ k, k < nB ∧ id = fB k)

/-- the two identifier generators never repeat and never collide (C16). -/
structure Gens (fA fB : Nat → String) : Prop where
  injA : ∀ i j, fA i = fA j → i = j
  injB : ∀ i j, fB i = fB j → i = j
  disj : ∀ i j, fA i ≠ fB j

theorem Gens.symm {fA fB : Nat → String} (g : Gens fA fB) : Gens fB fA :=
  ⟨g.injB, g.injA, fun i j h => g.disj j i h.symm⟩

theorem Issued.mono {fA fB : Nat → String} {nA nB nA' : Nat} {id : String} (h : Issued fA fB nA nB id)
    (hle : nA ≤ nA') : Issued fA fB nA' nB id := by
  rcases h with ⟨k, hk, e⟩ | h
  · exact .inl ⟨k, Nat.lt_of_lt_of_le hk hle, e⟩
  · exact .inr h

theorem Issued.symm {fA fB : Nat → String} {nA nB : Nat} {id : String} (h : Issued fA fB nA nB id) :
    Issued fB fA nB nA id := Or.symm h

/-- an identifier the first generator has not handed out yet is not issued. -/
theorem not_issued_fresh {fA fB : Nat → String} (g : Gens fA fB) (nA nB k : Nat) (hk : nA ≤ k) :
    ¬ Issued fA fB nA nB (fA k) := by
  rintro (⟨j, hj, e⟩ | ⟨j, _, e⟩)
  · have := g.injA k j e; omega
  · exact g.disj k j e

/-- identifier discipline of one instance's state, given how many identifiers each generator has handed out:
only known keys are stored; every stored or remembered identifier has been issued; no identifier is stored under
two keys; no stored run is remembered as finished. -/
structure IdInv (c : Cfg ε) (Iss : String → Prop) (s : DState ε) : Prop where
  known : ∀ ph pa id r, s.table.runAt ph pa id = some r → (c.getPattern ph pa).isSome = true
  tbl : ∀ ph pa id r, s.table.runAt ph pa id = some r → Iss id
  mem : ∀ id, inCache s.cacheC id = true ∨ inCache s.cacheH id = true → Iss id
  uniq : ∀ ph pa ph' pa' id r r', s.table.runAt ph pa id = some r → s.table.runAt ph' pa' id = some r' →
    ph = ph' ∧ pa = pa'
  fresh : ∀ ph pa id r, s.table.runAt ph pa id = some r → inCache s.cacheC id = false ∧ inCache s.cacheH id = false

/-- more identifiers issued: the invariant still holds. -/
theorem IdInv.mono {c : Cfg ε} {Iss Iss' : String → Prop} {s : DState ε} (h : IdInv c Iss s)
    (himp : ∀ id, Iss id → Iss' id) : IdInv c Iss' s :=
  ⟨h.known, fun ph pa id r hr => himp _ (h.tbl ph pa id r hr), fun id hm => himp _ (h.mem id hm), h.uniq, h.fresh⟩

theorem isSome_iff_exists {α} (o : Option α) : o.isSome = true ↔ ∃ v, o = some v := by
  cases o <;> simp

theorem fold_applyRec_some (p : Pattern ε) (l : List (Rec ε)) (r : LRun ε) :
    ∃ r', l.foldl (applyRec p) (some r) = some r' := by
  induction l generalizing r with
  | nil => exact ⟨r, rfl⟩
  | cons x rest ih =>
    simp only [List.foldl_cons, applyRec]
    exact ih _

theorem eq_of_nodup_map {α β} (l : List α) (f : α → β) (h : (l.map f).Nodup) :
    ∀ x ∈ l, ∀ y ∈ l, f x = f y → x = y := by
  induction l with
  | nil => intro x hx; simp at hx
  | cons a rest ih =>
    simp only [List.map_cons, List.nodup_cons] at h
    intro x hx y hy hxy
    rcases List.mem_cons.mp hx with e1 | h1 <;> rcases List.mem_cons.mp hy with e2 | h2
    · rw [e1, e2]
    · exfalso; apply h.1; rw [← e1, hxy]; exact List.mem_map.mpr ⟨y, h2, rfl⟩
    · exfalso; apply h.1; rw [← e2, ← hxy]; exact List.mem_map.mpr ⟨x, h1, rfl⟩
    · exact ih h.2 x h1 y h2 hxy

theorem bool_false_of_not_true {b : Bool} (h : ¬ b = true) : b = false := by
  cases b <;> simp_all


/-- **identifier discipline of one `update()`**: from the invariant before the step follow the identifier
hygiene of its notification (no announced run is remembered as finished; no identifier is announced both as
finished and as updated; the originator no longer holds what it announces finished) and the invariant after
it — the generators only have to be repetition- and collision-free. -/
theorem local_ids (c : Cfg ε) (hc : c.caching = true) (hcw : CfgWF c) (fA : Nat → String)
    (injA : ∀ i j, fA i = fA j → i = j) (Iss : String → Prop)
    (a a' : DState ε) (e : ε) (nt : Notif ε) (ch : Bool)
    (hwf : TableWF a.table)
    (hlive : ∀ ph pa id r, a.table.runAt ph pa id = some r → r.run.halted = false)
    (hinv : IdInv c Iss a)
    (hfr : ∀ k, a.nextId ≤ k → ¬ Iss (fA k))
    (hA : localStep (withIds c fA) a e = some (a', nt, ch))
    (hevC : a.cacheC.length + nt.completed.length ≤ c.maxCache)
    (hevH : a.cacheH.length + nt.halted.length ≤ c.maxCache) :
    a.nextId ≤ a'.nextId ∧
    (∀ x ∈ nt.completed ++ nt.halted ++ nt.updated, inCache a.cacheC x.id = false ∧ inCache a.cacheH x.id = false) ∧
    (∀ u ∈ nt.updated, ∀ f ∈ nt.completed ++ nt.halted, u.id ≠ f.id) ∧
    (∀ x ∈ nt.completed ++ nt.halted, a'.table.runAt x.phen x.pat x.id = none) ∧
    IdInv c (fun id => Iss id ∨ ∃ k, a.nextId ≤ k ∧ k < a'.nextId ∧ id = fA k) a' ∧
    ((nt.completed ++ nt.halted).map (·.id)).Nodup := by
  have hcw' : CfgWF (withIds c fA) := hcw
  have hc' : (withIds c fA).caching = true := hc
  unfold localStep at hA
  have hprov := checkAgainstRuns_provenance e a.table hwf
  have hexact := fun ph pa id p => checkAgainstRuns_exact e a.table hwf ph pa id (fun r hr => hlive ph pa id r hr) p
  have hkept := checkAgainstRuns_kept_old e a.table hwf
  have hperkey := fun ph pa id => checkAgainstRuns_perkey e a.table hwf ph pa id
  generalize hcar : checkAgainstRuns e a.table = car at hA hprov hexact hkept hperkey
  obtain ⟨t1, rhc, rhi, rupd⟩ := car
  simp only at hA hprov hexact hkept hperkey
  cases hcp : checkAgainstPatterns (withIds c fA) e t1 a.nextId with
  | none => simp [hcp] at hA
  | some acc =>
    simp only [hcp, Option.some.injEq, Prod.mk.injEq] at hA
    obtain ⟨hs', hnt, _⟩ := hA
    obtain ⟨d, hd, hpat⟩ := checkAgainstPatterns_exact (withIds c fA) hcw' e t1 a.nextId acc hcp
    have hids := checkAgainstPatterns_ids (withIds c fA) injA e t1 a.nextId acc hcp
    have hframe := checkAgainstPatterns_frame (withIds c fA) hcw' e t1 a.nextId acc hcp
    obtain ⟨dh, du, hdh, hdu, hrange, hsepp, hnodup, hnodupH⟩ := hids.lists
    have hnext := hids.next
    simp only [List.nil_append] at hd hpat hdh hdu hrange hnext
    have hddu : du = d := by rw [hd] at hdu; exact hdu.symm
    subst hddu
    subst hnt
    simp only at hevC hevH
    have hevC' : a.cacheC.length + (rhc ++ acc.hc).length ≤ (withIds c fA).maxCache := hevC
    have hevH' : a.cacheH.length + rhi.length ≤ (withIds c fA).maxCache := hevH
    rw [maybeCache_noevict (withIds c fA) hc' { table := acc.table, cacheC := a.cacheC, cacheH := a.cacheH, nextId := acc.nextId } _ _ hevC' hevH'] at hs'
    subst hs'
    simp only [hdh, hdu]
    clear hevC hevH hevC' hevH' hids hcp hcar
    -- ===== the facts the argument rests on =====
    have hidOf : ∀ k, (withIds c fA).idOf k = fA k := fun _ => rfl
    have hgp : ∀ ph pa, (withIds c fA).getPattern ph pa = c.getPattern ph pa := fun _ _ => rfl
    -- identifiers of the patterns phase are not issued yet
    have hfreshid : ∀ x ∈ dh ++ du, ¬ Iss x.id := by
      intro x hx
      obtain ⟨k, hk1, _, ek⟩ := hrange x hx
      rw [ek, hidOf]; exact hfr k hk1
    have hnewissued : ∀ x ∈ dh ++ du, (Iss x.id ∨ ∃ k, a.nextId ≤ k ∧ k < acc.nextId ∧ x.id = fA k) := by
      intro x hx
      obtain ⟨k, hk1, hk2, ek⟩ := hrange x hx
      exact .inr ⟨k, hk1, hk2, by rw [ek, hidOf]⟩
    -- runs-phase records name stored runs
    have hprov' : ∀ x ∈ rhc ++ rhi ++ rupd, ∃ r, a.table.runAt x.phen x.pat x.id = some r :=
      fun x hx => (isSome_iff_exists _).mp (hprov x hx)
    have hissued : ∀ x ∈ rhc ++ rhi ++ rupd, Iss x.id := by
      intro x hx; obtain ⟨r, hr⟩ := hprov' x hx; exact hinv.tbl _ _ _ r hr
    have hold : ∀ ph pa id, (t1.runAt ph pa id).isSome = true → ∃ r0, a.table.runAt ph pa id = some r0 := by
      intro ph pa id h1
      obtain ⟨r1, hr1⟩ := (isSome_iff_exists _).mp h1
      exact (isSome_iff_exists _).mp (hkept ph pa id r1 hr1)
    -- what is stored after the step was kept from before or created by an `updated` record of the patterns phase
    have hF2 : ∀ ph pa id r', acc.table.runAt ph pa id = some r' →
        (t1.runAt ph pa id).isSome = true ∨ (t1.runAt ph pa id = none ∧ ∃ u ∈ du, keyMatch ph pa id u = true) := by
      intro ph pa id r' hr'
      cases hp : c.getPattern ph pa with
      | none =>
        rw [hframe ph pa id (by rw [hgp]; exact hp)] at hr'
        left; simp only at hr'; rw [hr']; rfl
      | some p =>
        cases ht : t1.runAt ph pa id with
        | some r1 => left; rfl
        | none =>
          right; refine ⟨rfl, ?_⟩
          rw [hpat ph pa id p (by rw [hgp]; exact hp), ht] at hr'
          cases hf : du.filter (keyMatch ph pa id) with
          | nil => rw [hf] at hr'; simp at hr'
          | cons u rest =>
            have hu : u ∈ du.filter (keyMatch ph pa id) := by rw [hf]; exact List.mem_cons_self ..
            exact ⟨u, (List.mem_filter.mp hu).1, (List.mem_filter.mp hu).2⟩
    have hknown' : ∀ ph pa id r', acc.table.runAt ph pa id = some r' → (c.getPattern ph pa).isSome = true := by
      intro ph pa id r' hr'
      cases hp : c.getPattern ph pa with
      | some p => rfl
      | none =>
        rw [hframe ph pa id (by rw [hgp]; exact hp)] at hr'
        simp only at hr'
        obtain ⟨r0, hr0⟩ := hold ph pa id (by rw [hr']; rfl)
        have := hinv.known ph pa id r0 hr0
        rw [hp] at this; exact this
    -- a record of the patterns phase names no key of the old table
    have hnewkey : ∀ u ∈ dh ++ du, ∀ ph pa id, keyMatch ph pa id u = true → a.table.runAt ph pa id = none := by
      intro u hu ph pa id hk
      cases hr : a.table.runAt ph pa id with
      | none => rfl
      | some r0 =>
        exfalso
        have := hinv.tbl ph pa id r0 hr
        rw [((keyMatch_iff ph pa id u).mp hk).2.2] at this
        exact hfreshid u hu this
    -- ===== 1. counter =====
    refine ⟨hnext, ?_, ?_, ?_, ?_, ?_⟩
    -- ===== 2. nothing announced is remembered as finished =====
    · intro x hx
      have hx' : x ∈ rhc ++ rhi ++ rupd ∨ x ∈ dh ++ du := by
        simp only [List.mem_append] at hx ⊢
        rcases hx with ((h | h) | h) | (h | h)
        · exact .inl (.inl (.inl h))
        · exact .inr (.inl h)
        · exact .inl (.inl (.inr h))
        · exact .inl (.inr h)
        · exact .inr (.inr h)
      rcases hx' with h | h
      · obtain ⟨r, hr⟩ := hprov' x h
        exact hinv.fresh _ _ _ r hr
      · constructor
        · exact bool_false_of_not_true (fun hin => hfreshid x h (hinv.mem x.id (.inl hin)))
        · exact bool_false_of_not_true (fun hin => hfreshid x h (hinv.mem x.id (.inr hin)))
    -- ===== 3. no identifier both finished and updated =====
    · intro u hu f hf hid
      have hu' : u ∈ rupd ∨ u ∈ du := List.mem_append.mp hu
      have hf' : f ∈ rhc ++ rhi ∨ f ∈ dh := by
        simp only [List.mem_append] at hf ⊢
        rcases hf with (h | h) | h
        · exact .inl (.inl h)
        · exact .inr h
        · exact .inl (.inr h)
      rcases hu' with hu1 | hu2 <;> rcases hf' with hf1 | hf2
      · -- both name stored runs: same identifier, hence same key; a key contributes to one list only
        obtain ⟨ru, hru⟩ := hprov' u (List.mem_append.mpr (.inr hu1))
        obtain ⟨rf, hrf⟩ := hprov' f (List.mem_append.mpr (.inl hf1))
        rw [hid] at hru
        obtain ⟨e1, e2⟩ := hinv.uniq _ _ _ _ _ ru rf hru hrf
        have hku : keyMatch f.phen f.pat f.id u = true :=
          (keyMatch_iff _ _ _ u).mpr ⟨e1.symm, e2.symm, hid.symm⟩
        have hkf : keyMatch f.phen f.pat f.id f = true := (keyMatch_iff _ _ _ f).mpr ⟨rfl, rfl, rfl⟩
        obtain ⟨p, hp⟩ := (isSome_iff_exists _).mp (hinv.known _ _ _ rf hrf)
        rcases hexact f.phen f.pat f.id p with ⟨_, _, hnil⟩ | ⟨hany, _⟩
        · have : u ∈ rupd.filter (keyMatch f.phen f.pat f.id) := List.mem_filter.mpr ⟨hu1, hku⟩
          rw [hnil] at this; simp at this
        · have : (rhc ++ rhi).any (keyMatch f.phen f.pat f.id) = true := List.any_eq_true.mpr ⟨f, hf1, hkf⟩
          rw [hany] at this; exact absurd this (by decide)
      · exact hfreshid f (List.mem_append.mpr (.inl hf2)) (by rw [← hid]; exact hissued u (List.mem_append.mpr (.inr hu1)))
      · exact hfreshid u (List.mem_append.mpr (.inr hu2)) (by rw [hid]; exact hissued f (List.mem_append.mpr (.inl hf1)))
      · exact hsepp f hf2 u hu2 hid.symm
    -- ===== 4. the originator no longer holds what it announces finished =====
    · intro x hx
      have hx' : x ∈ rhc ++ rhi ∨ x ∈ dh := by
        simp only [List.mem_append] at hx ⊢
        rcases hx with (h | h) | h
        · exact .inl (.inl h)
        · exact .inr h
        · exact .inl (.inr h)
      cases hr : acc.table.runAt x.phen x.pat x.id with
      | none => rfl
      | some r' =>
        exfalso
        have hkx : keyMatch x.phen x.pat x.id x = true := (keyMatch_iff _ _ _ x).mpr ⟨rfl, rfl, rfl⟩
        rcases hx' with h | h
        · -- finished in the runs phase: dropped there, and no fresh identifier can bring the key back
          obtain ⟨r0, hr0⟩ := hprov' x (List.mem_append.mpr (.inl h))
          obtain ⟨p, hp⟩ := (isSome_iff_exists _).mp (hinv.known _ _ _ r0 hr0)
          have ht1 : t1.runAt x.phen x.pat x.id = none := by
            rcases hexact x.phen x.pat x.id p with ⟨_, hn, _⟩ | ⟨hany, _⟩
            · exact hn
            · have : (rhc ++ rhi).any (keyMatch x.phen x.pat x.id) = true := List.any_eq_true.mpr ⟨x, h, hkx⟩
              rw [hany] at this; exact absurd this (by decide)
          rcases hF2 _ _ _ r' hr with h1 | ⟨_, u, hu, hku⟩
          · rw [ht1] at h1; simp at h1
          · have := hnewkey u (List.mem_append.mpr (.inr hu)) _ _ _ hku
            rw [hr0] at this; exact absurd this (by simp)
        · -- completed at once with a fresh identifier: never stored
          rcases hF2 _ _ _ r' hr with h1 | ⟨_, u, hu, hku⟩
          · obtain ⟨r0, hr0⟩ := hold _ _ _ h1
            have := hnewkey x (List.mem_append.mpr (.inl h)) _ _ _ hkx
            rw [hr0] at this; exact absurd this (by simp)
          · exact hsepp x h u hu ((keyMatch_iff _ _ _ u).mp hku).2.2
    -- ===== 5. the invariant afterwards =====
    · refine ⟨hknown', ?_, ?_, ?_, ?_⟩
      · -- stored identifiers are issued
        intro ph pa id r' hr'
        rcases hF2 ph pa id r' hr' with h1 | ⟨_, u, hu, hku⟩
        · obtain ⟨r0, hr0⟩ := hold _ _ _ h1
          exact .inl (hinv.tbl _ _ _ r0 hr0)
        · rw [((keyMatch_iff ph pa id u).mp hku).2.2]
          exact hnewissued u (List.mem_append.mpr (.inr hu))
      · -- remembered identifiers are issued
        intro id hm
        simp only [inCache_append] at hm
        have hcases : (inCache a.cacheC id = true ∨ inCache a.cacheH id = true) ∨
            (∃ x ∈ rhc ++ rhi, x.id = id) ∨ (∃ x ∈ dh, x.id = id) := by
          rcases hm with hm | hm
          · rcases Bool.or_eq_true _ _ |>.mp hm with h | h
            · exact .inl (.inl h)
            · obtain ⟨x, hx, hxe⟩ := List.any_eq_true.mp h
              have hxid : x.id = id := by simpa using hxe
              rcases List.mem_append.mp hx with h1 | h1
              · exact .inr (.inl ⟨x, List.mem_append.mpr (.inl h1), hxid⟩)
              · exact .inr (.inr ⟨x, h1, hxid⟩)
          · rcases Bool.or_eq_true _ _ |>.mp hm with h | h
            · exact .inl (.inr h)
            · obtain ⟨x, hx, hxe⟩ := List.any_eq_true.mp h
              exact .inr (.inl ⟨x, List.mem_append.mpr (.inr hx), by simpa using hxe⟩)
        rcases hcases with h | ⟨x, hx, hxe⟩ | ⟨x, hx, hxe⟩
        · exact .inl (hinv.mem id h)
        · rw [← hxe]; exact .inl (hissued x (List.mem_append.mpr (.inl hx)))
        · rw [← hxe]; exact hnewissued x (List.mem_append.mpr (.inl hx))
      · -- no identifier under two keys
        intro ph pa ph' pa' id r r' hr hr'
        rcases hF2 ph pa id r hr with h1 | ⟨_, u, hu, hku⟩ <;> rcases hF2 ph' pa' id r' hr' with h2 | ⟨_, u', hu', hku'⟩
        · obtain ⟨r0, hr0⟩ := hold _ _ _ h1
          obtain ⟨r0', hr0'⟩ := hold _ _ _ h2
          exact hinv.uniq _ _ _ _ _ r0 r0' hr0 hr0'
        · exfalso
          obtain ⟨r0, hr0⟩ := hold _ _ _ h1
          have hi := hinv.tbl _ _ _ r0 hr0
          rw [((keyMatch_iff ph' pa' id u').mp hku').2.2] at hi
          exact hfreshid u' (List.mem_append.mpr (.inr hu')) hi
        · exfalso
          obtain ⟨r0, hr0⟩ := hold _ _ _ h2
          have hi := hinv.tbl _ _ _ r0 hr0
          rw [((keyMatch_iff ph pa id u).mp hku).2.2] at hi
          exact hfreshid u (List.mem_append.mpr (.inr hu)) hi
        · obtain ⟨k1, k2, k3⟩ := (keyMatch_iff ph pa id u).mp hku
          obtain ⟨k1', k2', k3'⟩ := (keyMatch_iff ph' pa' id u').mp hku'
          have : u = u' := eq_of_nodup_map du (·.id) hnodup u hu u' hu' (by rw [← k3, ← k3'])
          subst this
          exact ⟨k1.trans k1'.symm, k2.trans k2'.symm⟩
      · -- no stored run is remembered as finished
        intro ph pa id r' hr'
        have hgoal : inCache a.cacheC id = false → inCache a.cacheH id = false →
            (∀ x ∈ rhc ++ rhi, x.id ≠ id) → (∀ x ∈ dh, x.id ≠ id) →
            inCache (a.cacheC ++ (rhc ++ dh)) id = false ∧ inCache (a.cacheH ++ rhi) id = false := by
          intro h1 h2 h3 h4
          have a1 : (rhc ++ dh).any (·.id == id) = false := by
            rw [List.any_eq_false]; intro x hx
            rcases List.mem_append.mp hx with h | h
            · simpa using h3 x (List.mem_append.mpr (.inl h))
            · simpa using h4 x h
          have a2 : rhi.any (·.id == id) = false := by
            rw [List.any_eq_false]; intro x hx
            simpa using h3 x (List.mem_append.mpr (.inr hx))
          simp [inCache_append, h1, h2, a1, a2]
        rcases hF2 ph pa id r' hr' with h1 | ⟨_, u, hu, hku⟩
        · obtain ⟨r0, hr0⟩ := hold _ _ _ h1
          obtain ⟨f1, f2⟩ := hinv.fresh _ _ _ r0 hr0
          refine hgoal f1 f2 ?_ ?_
          · intro x hx hxe
            obtain ⟨rx, hrx⟩ := hprov' x (List.mem_append.mpr (.inl hx))
            rw [hxe] at hrx
            obtain ⟨e1, e2⟩ := hinv.uniq _ _ _ _ _ r0 rx hr0 hrx
            have hkx : keyMatch ph pa id x = true := (keyMatch_iff _ _ _ x).mpr ⟨e1, e2, hxe.symm⟩
            obtain ⟨p, hp⟩ := (isSome_iff_exists _).mp (hinv.known _ _ _ r0 hr0)
            rcases hexact ph pa id p with ⟨_, hn, _⟩ | ⟨hany, _⟩
            · rw [hn] at h1; simp at h1
            · have : (rhc ++ rhi).any (keyMatch ph pa id) = true := List.any_eq_true.mpr ⟨x, hx, hkx⟩
              rw [hany] at this; exact absurd this (by decide)
          · intro x hx hxe
            exact hfreshid x (List.mem_append.mpr (.inl hx)) (by rw [hxe]; exact hinv.tbl _ _ _ r0 hr0)
        · have hidu : id = u.id := ((keyMatch_iff ph pa id u).mp hku).2.2
          have hnot : ¬ Iss id := by rw [hidu]; exact hfreshid u (List.mem_append.mpr (.inr hu))
          refine hgoal (bool_false_of_not_true (fun h => hnot (hinv.mem id (.inl h))))
            (bool_false_of_not_true (fun h => hnot (hinv.mem id (.inr h)))) ?_ ?_
          · intro x hx hxe
            exact hnot (by rw [← hxe]; exact hissued x (List.mem_append.mpr (.inl hx)))
          · intro x hx hxe
            exact hsepp x hx u hu (by rw [hxe, hidu])


    -- ===== 6. every finished run is announced once in this notification =====
    · -- (rhc ++ dh) ++ rhi: identifiers of the runs phase are distinct (one record per key, one key per identifier),
      -- those of the patterns phase are distinct and fresh
      have hrun : ((rhc ++ rhi).map (·.id)).Nodup := by
        apply nodup_ids_of_key_unique
        · intro ph pa id
          obtain ⟨_, p2, p3, _⟩ := hperkey ph pa id
          rw [List.filter_append, List.length_append, p2, p3]
          exact contribOf_finished_le_one e ph _
        · intro x hx y hy hxy
          obtain ⟨rx, hrx⟩ := hprov' x (List.mem_append.mpr (.inl hx))
          obtain ⟨ry, hry⟩ := hprov' y (List.mem_append.mpr (.inl hy))
          rw [hxy] at hrx
          exact hinv.uniq _ _ _ _ _ rx ry hrx hry
      have hperm : ((rhc ++ dh ++ rhi).map (·.id)).Perm (((rhc ++ rhi) ++ dh).map (·.id)) := by
        simp only [List.map_append, List.append_assoc]
        exact List.Perm.append_left _ List.perm_append_comm
      rw [hperm.nodup_iff, List.map_append, List.nodup_append]
      refine ⟨hrun, hnodupH, ?_⟩
      intro i hi j hj hij
      obtain ⟨x, hx, ex⟩ := List.mem_map.mp hi
      obtain ⟨y, hy, ey⟩ := List.mem_map.mp hj
      exact hfreshid y (List.mem_append.mpr (.inl hy)) (by rw [ey, ← hij, ← ex]; exact hissued x (List.mem_append.mpr (.inl hx)))

/-! ### the receiving side: keys of unknown patterns and the identifier counter are not touched -/

theorem maybeCache_nextId (c : Cfg ε) (s : DState ε) (a b : List (Rec ε)) : (maybeCache c s a b).nextId = s.nextId := by
  unfold maybeCache; split <;> rfl

theorem runAt_remove_other (t : Table ε) (ph0 pa0 x ph pa id : String) (h : ¬ (ph = ph0 ∧ pa = pa0)) :
    (t.remove ph0 pa0 x).runAt ph pa id = t.runAt ph pa id := by
  rw [runAt_remove]
  have : ¬ (ph = ph0 ∧ pa = pa0 ∧ id = x) := fun h' => h ⟨h'.1, h'.2.1⟩
  simp [this]

theorem removeOne_frame (c : Cfg ε) (b : Bool) (st : DState ε × List (Rec ε)) (rr : Rec ε) (ph pa id : String)
    (hn : c.getPattern ph pa = none) :
    (removeOne c b st rr).1.table.runAt ph pa id = st.1.table.runAt ph pa id ∧
    (removeOne c b st rr).1.nextId = st.1.nextId := by
  obtain ⟨s, out⟩ := st
  unfold removeOne
  cases hp : c.getPattern rr.phen rr.pat with
  | none => exact ⟨rfl, rfl⟩
  | some p =>
    have hne : ¬ (ph = rr.phen ∧ pa = rr.pat) := by
      intro ⟨e1, e2⟩; rw [e1, e2, hp] at hn; exact absurd hn (by simp)
    simp only
    split
    · split
      · exact ⟨by rw [maybeCache_table]; exact runAt_remove_other _ _ _ _ _ _ _ hne, by rw [maybeCache_nextId]⟩
      · exact ⟨runAt_remove_other _ _ _ _ _ _ _ hne, rfl⟩
    · exact ⟨runAt_remove_other _ _ _ _ _ _ _ hne, rfl⟩

theorem updateOne_frame (c : Cfg ε) (f : Rec ε → Run ε → Bool) (st st' : DState ε × List (Rec ε)) (rr : Rec ε)
    (ph pa id : String) (hn : c.getPattern ph pa = none) (hs : updateOne c f st rr = some st') :
    st'.1.table.runAt ph pa id = st.1.table.runAt ph pa id ∧ st'.1.nextId = st.1.nextId := by
  obtain ⟨s, out⟩ := st
  unfold updateOne at hs
  cases hp : c.getPattern rr.phen rr.pat with
  | none => simp only [hp, Option.some.injEq] at hs; subst hs; exact ⟨rfl, rfl⟩
  | some p =>
    have hne : ¬ (ph = rr.phen ∧ pa = rr.pat) := by
      intro ⟨e1, e2⟩; rw [e1, e2, hp] at hn; exact absurd hn (by simp)
    have hne3 : ∀ x, ¬ (ph = rr.phen ∧ pa = rr.pat ∧ id = x) := fun x h' => hne ⟨h'.1, h'.2.1⟩
    simp only [hp] at hs
    split at hs
    · -- a local run exists
      have hset : ∀ x i h, (s.table.setBlock rr.phen rr.pat x i h).runAt ph pa id = s.table.runAt ph pa id := by
        intro x i h; rw [runAt_setBlock]; simp [hne3 x]
      split at hs <;> simp only [Option.some.injEq] at hs <;> subst hs <;> refine ⟨?_, rfl⟩ <;> simp only <;>
        split <;> first | exact hset _ _ _ | rfl
    · -- created
      split at hs
      · simp at hs
      · rename_i t' hadd
        simp only [Option.some.injEq] at hs; subst hs
        refine ⟨?_, rfl⟩
        simp only
        rw [runAt_add _ _ _ _ _ hadd]
        simp [hne3 _]

/-- **`on_distributed_update` touches neither keys of unknown patterns nor the identifier counter.** -/
theorem remote_frame (f : Rec ε → Run ε → Bool) (b : Bool) (c : Cfg ε) (s s' : DState ε)
    (comp halt upd : List (Rec ε)) (n : Notif ε)
    (hs : remoteStepG f b c s comp halt upd = some (s', n)) :
    s'.nextId = s.nextId ∧ ∀ ph pa id, c.getPattern ph pa = none → s'.table.runAt ph pa id = s.table.runAt ph pa id := by
  unfold remoteStepG at hs
  simp only at hs
  generalize (checkAgainstCache c s comp halt upd) = cc at hs
  obtain ⟨comp1, halt1, upd1⟩ := cc
  simp only at hs
  -- the invariant threaded through the three loops
  let I : DState ε × List (Rec ε) → Prop := fun st =>
    st.1.nextId = s.nextId ∧ ∀ ph pa id, c.getPattern ph pa = none → st.1.table.runAt ph pa id = s.table.runAt ph pa id
  have h1 : I (maybeCache c s comp1 halt1, []) := ⟨maybeCache_nextId _ _ _ _, fun _ _ _ _ => by rw [maybeCache_table]⟩
  have stepR : ∀ b0 (st : DState ε × List (Rec ε)) rr, I st → I (removeOne c b0 st rr) := by
    intro b0 st rr hst
    refine ⟨?_, fun ph pa id hn => ?_⟩
    · obtain ⟨s0, out0⟩ := st
      unfold removeOne
      cases hp : c.getPattern rr.phen rr.pat with
      | none => exact hst.1
      | some p' =>
        simp only
        split
        · split
          · rw [maybeCache_nextId]; exact hst.1
          · exact hst.1
        · exact hst.1
    · exact ((removeOne_frame c b0 st rr ph pa id hn).1).trans (hst.2 ph pa id hn)
  have h2 := foldl_inv I (removeOne c true) comp1 (fun st rr _ hst => stepR true st rr hst) _ h1
  generalize comp1.foldl (removeOne c true) (maybeCache c s comp1 halt1, []) = st2 at hs h2
  obtain ⟨s2, compOut⟩ := st2
  simp only at hs
  have h3 := foldl_inv I (removeOne c false) halt1 (fun st rr _ hst => stepR false st rr hst) (s2, []) h2
  generalize halt1.foldl (removeOne c false) (s2, []) = st3 at hs h3
  obtain ⟨s3, haltOut⟩ := st3
  simp only at hs
  generalize (if b = true then (checkAgainstCache c s3 [] [] upd1).2.2 else upd1) = upd2 at hs
  cases hf : foldlM' (updateOne c f) (s3, []) upd2 with
  | none => simp [hf] at hs
  | some st4 =>
    obtain ⟨s4, updOut⟩ := st4
    simp only [hf, Option.some.injEq, Prod.mk.injEq] at hs
    obtain ⟨e1, _⟩ := hs
    subst e1
    have stepU : ∀ (st : DState ε × List (Rec ε)) rr st', rr ∈ upd2 → I st → updateOne c f st rr = some st' → I st' := by
      intro st rr st' _ hst hu
      refine ⟨?_, fun ph pa id hn => ((updateOne_frame c f st st' rr ph pa id hn hu).1).trans (hst.2 ph pa id hn)⟩
      obtain ⟨s0, out0⟩ := st
      unfold updateOne at hu
      cases hp : c.getPattern rr.phen rr.pat with
      | none => simp only [hp, Option.some.injEq] at hu; subst hu; exact hst.1
      | some p' =>
        simp only [hp] at hu
        split at hu
        · split at hu <;> simp only [Option.some.injEq] at hu <;> subst hu <;> exact hst.1
        · split at hu
          · simp at hu
          · simp only [Option.some.injEq] at hu; subst hu; exact hst.1
    have h4 := foldlM'_inv I (updateOne c f) upd2 stepU (s3, []) (s4, updOut) h3 hf
    exact h4

end Bobo.Decider
