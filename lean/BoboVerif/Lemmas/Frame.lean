import BoboVerif.Model.Frame
/-! helper lemmas for M-Frame (used by Props/C10.lean and Props/C11.lean). -/
namespace Bobo.Frame

/-- bytes carried by a script (only `chunk`s carry any). -/
def flat : List RecvResult → Bytes
  | [] => []
  | .chunk bs :: r => bs ++ flat r
  | _ :: r => flat r

theorem flat_map_chunk (cs : List Bytes) : flat (cs.map .chunk) = cs.flatten := by
  induction cs with
  | nil => rfl
  | cons c cs ih => simp [flat, ih]

theorem lastN_append (a b : Bytes) (hb : b ≠ []) : lastN b.length (a ++ b) = b := by
  unfold lastN
  have : b.length ≠ 0 := by intro h; exact hb (List.eq_nil_of_length_eq_zero h)
  simp [this]

theorem recv_chunk {n : Nat} {script s' : List RecvResult} {p : Bytes}
    (h : recv n script = (.chunk p, s')) : p ++ flat s' = flat script := by
  match script with
  | [] => simp [recv] at h
  | .chunk bs :: rest =>
    simp only [recv] at h
    split at h
    · simp only [Prod.mk.injEq, RecvResult.chunk.injEq] at h; obtain ⟨rfl, rfl⟩ := h; simp [flat]
    · simp only [Prod.mk.injEq, RecvResult.chunk.injEq] at h; obtain ⟨rfl, rfl⟩ := h
      simp [flat, ← List.append_assoc, List.take_append_drop]
  | .eof :: rest => simp [recv] at h
  | .silent :: rest => simp [recv] at h

theorem recv_eof {n : Nat} {script s' : List RecvResult}
    (h : recv n script = (.eof, s')) : flat s' = flat script := by
  match script with
  | [] => simp [recv] at h; subst h; rfl
  | .chunk bs :: rest => simp only [recv] at h; split at h <;> simp at h
  | .eof :: rest => simp [recv] at h; subst h; simp [flat]
  | .silent :: rest => simp [recv] at h

/-- a chunk handed out is never longer than asked for. -/
theorem recv_chunk_le {n : Nat} {script s' : List RecvResult} {p : Bytes}
    (h : recv n script = (.chunk p, s')) : p.length ≤ n := by
  match script with
  | [] => simp [recv] at h
  | .chunk bs :: rest =>
    simp only [recv] at h
    split at h
    · simp only [Prod.mk.injEq, RecvResult.chunk.injEq] at h; obtain ⟨rfl, rfl⟩ := h; assumption
    · simp only [Prod.mk.injEq, RecvResult.chunk.injEq] at h; obtain ⟨rfl, rfl⟩ := h
      simp [List.length_take]; omega
  | .eof :: rest => simp [recv] at h
  | .silent :: rest => simp [recv] at h

end Bobo.Frame
