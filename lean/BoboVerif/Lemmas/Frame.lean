import BoboVerif.Model.Frame
set_option linter.unusedSimpArgs false
set_option linter.unusedVariables false
/-! helper lemmas for M-Frame (used by Props/C10.lean and Props/C11.lean). -/
namespace Bobo.Frame

/-- bytes carried by a script (only `chunk`s carry any). -/
def flat : List RecvResult → Bytes
  | [] => []
  | .chunk bs :: r => bs ++ flat r
  | _ :: r => flat r

theorem flat_map_chunk (cs : List Bytes) : flat (cs.map .chunk) = cs.flatten := by
  induction cs with
  | nil => rfl
  | cons c cs ih => simp [flat, ih]

theorem lastN_append (a b : Bytes) (hb : b ≠ []) : lastN b.length (a ++ b) = b := by
  unfold lastN
  have : b.length ≠ 0 := by intro h; exact hb (List.eq_nil_of_length_eq_zero h)
  simp [this]

theorem recv_chunk {n : Nat} {script s' : List RecvResult} {p : Bytes}
    (h : recv n script = (.chunk p, s')) : p ++ flat s' = flat script := by
  match script with
  | [] => simp [recv] at h
  | .chunk bs :: rest =>
    simp only [recv] at h
    split at h
    · simp only [Prod.mk.injEq, RecvResult.chunk.injEq] at h; obtain ⟨rfl, rfl⟩ := h; simp [flat]
    · simp only [Prod.mk.injEq, RecvResult.chunk.injEq] at h; obtain ⟨rfl, rfl⟩ := h
      simp [flat, ← List.append_assoc, List.take_append_drop]
  | .eof :: rest => simp [recv] at h
  | .silent :: rest => simp [recv] at h

theorem recv_eof {n : Nat} {script s' : List RecvResult}
    (h : recv n script = (.eof, s')) : flat s' = flat script := by
  match script with
  | [] => simp [recv] at h; subst h; rfl
  | .chunk bs :: rest => simp only [recv] at h; split at h <;> simp at h
  | .eof :: rest => simp [recv] at h; subst h; simp [flat]
  | .silent :: rest => simp [recv] at h

/-- a chunk handed out is never longer than asked for. -/
theorem recv_chunk_le {n : Nat} {script s' : List RecvResult} {p : Bytes}
    (h : recv n script = (.chunk p, s')) : p.length ≤ n := by
  match script with
  | [] => simp [recv] at h
  | .chunk bs :: rest =>
    simp only [recv] at h
    split at h
    · simp only [Prod.mk.injEq, RecvResult.chunk.injEq] at h; obtain ⟨rfl, rfl⟩ := h; assumption
    · simp only [Prod.mk.injEq, RecvResult.chunk.injEq] at h; obtain ⟨rfl, rfl⟩ := h
      simp [List.length_take]; omega
  | .eof :: rest => simp [recv] at h
  | .silent :: rest => simp [recv] at h


/-! ### the receive loop -/


/-- `m` is recognised as a complete message. -/
def Framed (cfg : Cfg) (m : Bytes) : Prop := endTest cfg m [] = true
/-- no proper prefix of `m` is recognised as a complete message. -/
def NoEarlyFrame (cfg : Cfg) (m : Bytes) : Prop := ∀ k, k < m.length → endTest cfg (m.take k) [] = false

def NonEmptyChunks (script : List RecvResult) : Prop := ∀ r ∈ script, ∃ bs, r = .chunk bs ∧ bs ≠ []

theorem recvLoop_nil (cfg : Cfg) (a : Int) (s : List RecvResult) (acc : Bytes) (k : Nat) :
    recvLoop cfg a [] s acc k = ⟨.clockOut, k⟩ := by simp [recvLoop, recvLoopG, sockTimeout]

theorem prefix_not_framed {cfg : Cfg} {m : Bytes} (hNE : NoEarlyFrame cfg m) {a r x : Bytes}
    (h : a ++ r = m) (hr : r ≠ []) : endTest cfg a x = false := by
  have hl : a.length < m.length := by
    rw [← h, List.length_append]; have := List.length_pos_iff.mpr hr; omega
  have := hNE a.length hl
  rw [← h, List.take_left'] at this
  · exact this
  · rfl

theorem loop_delivers (cfg : Cfg) (hn : 0 < cfg.recvBytes) (m : Bytes) (hF : Framed cfg m) (hNE : NoEarlyFrame cfg m)
    (accepted : Int) :
    ∀ (clock : List Int) (script : List RecvResult) (acc : Bytes) (k : Nat),
      NonEmptyChunks script → flat script ≠ [] → acc ++ flat script = m →
      (∀ t ∈ clock, t - accepted < cfg.timeout) → (flat script).length ≤ clock.length →
      (recvLoop cfg accepted clock script acc k).out = .frame m := by
  intro clock
  induction clock with
  | nil =>
    intro script acc k _ hne _ _ hlen
    exact absurd (List.eq_nil_of_length_eq_zero (Nat.le_zero.mp hlen)) hne
  | cons now rest ih =>
    intro script acc k hch hne hm hclk hlen
    have hnow : elapsedTest cfg now accepted = false := by
      have := hclk now (by simp); simp [elapsedTest]; omega
    have hrest : ∀ t ∈ rest, t - accepted < cfg.timeout := fun t ht => hclk t (by simp [ht])
    match script, hch, hne, hm, hlen with
    | [], _, hne, _, _ => exact absurd rfl hne
    | r :: script0, hch, hne, hm, hlen =>
      obtain ⟨bs, rfl, hbs⟩ := hch r (by simp)
      have hch0 : NonEmptyChunks script0 := fun r hr => hch r (by simp [hr])
      simp only [flat] at hm hlen
      have hbl := List.length_pos_iff.mpr hbs
      simp only [recvLoop, recvLoopG, sockTimeout, hnow, recv, Bool.false_eq_true, if_false]
      by_cases hsmall : bs.length ≤ cfg.recvBytes
      · simp only [hsmall, if_true]
        by_cases h0 : flat script0 = []
        · have : acc ++ bs = m := by simpa [h0] using hm
          have hF' : endTest cfg (acc ++ bs) bs = true := by rw [this]; exact hF
          rw [if_pos hF', this]
        · have : endTest cfg (acc ++ bs) bs = false :=
            prefix_not_framed hNE (by simpa using hm) h0
          simp only [this, Bool.false_eq_true, if_false]
          exact ih script0 (acc ++ bs) (k + 1) hch0 h0 (by simpa using hm) hrest
            (by simp [List.length_append] at hlen; omega)
      · simp only [hsmall, if_false]
        have hd : bs.drop cfg.recvBytes ≠ [] := by
          intro h; have := congrArg List.length h; simp at this; omega
        have ht : (bs.take cfg.recvBytes).length = cfg.recvBytes := by simp; omega
        have hm' : (acc ++ bs.take cfg.recvBytes) ++ (bs.drop cfg.recvBytes ++ flat script0) = m := by
          rw [← hm, List.append_assoc acc, ← List.append_assoc (bs.take _), List.take_append_drop]
        have : endTest cfg (acc ++ bs.take cfg.recvBytes) (bs.take cfg.recvBytes) = false :=
          prefix_not_framed hNE hm' (by simp [hd])
        simp only [this, Bool.false_eq_true, if_false]
        refine ih (.chunk (bs.drop cfg.recvBytes) :: script0) _ (k + 1) ?_ ?_ ?_ hrest ?_
        · intro r hr
          rcases List.mem_cons.mp hr with h | h
          · exact ⟨_, h, hd⟩
          · exact hch0 r h
        · simp [flat, hd]
        · simpa [flat] using hm'
        · simp [flat, List.length_append] at hlen ⊢; omega



/-- pieces of at most `recv_bytes` bytes: one read each; the whole result. -/
theorem loop_delivers_small (cfg : Cfg) (m : Bytes) (hF : Framed cfg m) (hNE : NoEarlyFrame cfg m)
    (accepted : Int) :
    ∀ (clock : List Int) (cs : List Bytes) (acc : Bytes) (k : Nat),
      (∀ c ∈ cs, c ≠ [] ∧ c.length ≤ cfg.recvBytes) → cs.flatten ≠ [] → acc ++ cs.flatten = m →
      (∀ t ∈ clock, t - accepted < cfg.timeout) → cs.length ≤ clock.length →
      recvLoop cfg accepted clock (cs.map .chunk) acc k = ⟨.frame m, k + cs.length⟩ := by
  intro clock
  induction clock with
  | nil =>
    intro cs acc k _ hne _ _ hlen
    have : cs = [] := List.eq_nil_of_length_eq_zero (Nat.le_zero.mp hlen)
    subst this; simp at hne
  | cons now rest ih =>
    intro cs acc k hcs hne hm hclk hlen
    have hnow : elapsedTest cfg now accepted = false := by
      have := hclk now (by simp); simp [elapsedTest]; omega
    have hrest : ∀ t ∈ rest, t - accepted < cfg.timeout := fun t ht => hclk t (by simp [ht])
    match cs, hcs, hne, hm, hlen with
    | [], _, hne, _, _ => simp at hne
    | c :: cs0, hcs, hne, hm, hlen =>
      obtain ⟨hc, hsmall⟩ := hcs c (by simp)
      have hcs0 : ∀ c ∈ cs0, c ≠ [] ∧ c.length ≤ cfg.recvBytes := fun x hx => hcs x (by simp [hx])
      simp only [List.flatten_cons] at hm
      simp only [List.map_cons, recvLoop, recvLoopG, hnow, recv, hsmall, if_true, Bool.false_eq_true, if_false]
      by_cases h0 : cs0.flatten = []
      · have hcs0nil : cs0 = [] := by
          match cs0, hcs0, h0 with
          | [], _, _ => rfl
          | d :: ds, hd, h0 =>
            have := (hd d (by simp)).1
            simp at h0; exact absurd h0.1 this
        have : acc ++ c = m := by simpa [h0] using hm
        have hF' : endTest cfg (acc ++ c) c = true := by rw [this]; exact hF
        rw [if_pos hF', this, hcs0nil]; simp
      · have : endTest cfg (acc ++ c) c = false := prefix_not_framed hNE (by simpa using hm) h0
        simp only [this, Bool.false_eq_true, if_false]
        have := ih cs0 (acc ++ c) (k + 1) hcs0 h0 (by simpa using hm) hrest (by simp at hlen; omega)
        simp only [recvLoop] at this
        rw [this]; simp; omega

instance (cfg : Cfg) (m : Bytes) : Decidable (Framed cfg m) := by unfold Framed; exact inferInstance
instance (cfg : Cfg) (m : Bytes) : Decidable (NoEarlyFrame cfg m) := by unfold NoEarlyFrame; exact inferInstance

/-- a stream that carries only a proper prefix of `m` never yields a frame, whatever else happens. -/
theorem loop_never_delivers (cfg : Cfg) (m : Bytes) (hNE : NoEarlyFrame cfg m) (accepted : Int) :
    ∀ (clock : List Int) (script : List RecvResult) (acc : Bytes) (k : Nat),
      (∃ r, r ≠ [] ∧ acc ++ flat script ++ r = m) →
      ∀ all, (recvLoop cfg accepted clock script acc k).out ≠ .frame all := by
  intro clock
  induction clock with
  | nil => intro script acc k _ all; simp [recvLoop, recvLoopG, sockTimeout]
  | cons now rest ih =>
    intro script acc k ⟨r, hr, hm⟩ all
    simp only [recvLoop, recvLoopG, sockTimeout]
    split
    · simp
    · split
      · simp
      · next s' hrecv =>
        have hfl := recv_eof hrecv
        have : endTest cfg acc [] = false :=
          prefix_not_framed hNE (r := flat script ++ r) (by simpa using hm) (by simp [hr])
        simp only [this, Bool.false_eq_true, if_false]
        exact ih s' acc (k + 1) ⟨r, hr, by rw [hfl]; exact hm⟩ all
      · next bs s' hrecv =>
        have hfl := recv_chunk hrecv
        have hm' : (acc ++ bs) ++ (flat s' ++ r) = m := by
          rw [← hm, ← hfl]; simp
        have : endTest cfg (acc ++ bs) bs = false := prefix_not_framed hNE hm' (by simp [hr])
        simp only [this, Bool.false_eq_true, if_false]
        exact ih s' (acc ++ bs) (k + 1) ⟨r, hr, by simpa using hm'⟩ all

/-- whatever the peer does, the loop is over at the first clock reading at or past the timeout:
it has a frame, or it raised the timeout error no later than that reading / one socket timeout after an earlier one. -/
theorem loop_ends (cfg : Cfg) (accepted t : Int) (post : List Int) (ht : t - accepted ≥ cfg.timeout) :
    ∀ (pre : List Int) (script : List RecvResult) (acc : Bytes) (k : Nat),
      (∀ u ∈ pre, u - accepted < cfg.timeout) →
      (∃ all, (recvLoop cfg accepted (pre ++ t :: post) script acc k).out = .frame all) ∨
      (∃ g, (recvLoop cfg accepted (pre ++ t :: post) script acc k).out = .timeout g ∧
            (g = t ∨ ∃ u ∈ pre, g = u + cfg.timeout)) := by
  intro pre
  induction pre with
  | nil =>
    intro script acc k _
    right; refine ⟨t, ?_, Or.inl rfl⟩
    have : elapsedTest cfg t accepted = true := by simp [elapsedTest]; omega
    simp [recvLoop, recvLoopG, sockTimeout, this]
  | cons now rest ih =>
    intro script acc k hpre
    have hnow : elapsedTest cfg now accepted = false := by
      have := hpre now (by simp); simp [elapsedTest]; omega
    have hrest : ∀ u ∈ rest, u - accepted < cfg.timeout := fun u hu => hpre u (by simp [hu])
    have lift : ∀ s a k', ((∃ all, (recvLoop cfg accepted (rest ++ t :: post) s a k').out = .frame all) ∨
        (∃ g, (recvLoop cfg accepted (rest ++ t :: post) s a k').out = .timeout g ∧
            (g = t ∨ ∃ u ∈ rest, g = u + cfg.timeout))) →
        ((∃ all, (recvLoop cfg accepted (rest ++ t :: post) s a k').out = .frame all) ∨
        (∃ g, (recvLoop cfg accepted (rest ++ t :: post) s a k').out = .timeout g ∧
            (g = t ∨ ∃ u ∈ now :: rest, g = u + cfg.timeout))) := by
      intro s a k' h
      rcases h with h | ⟨g, hg, hg'⟩
      · exact Or.inl h
      · refine Or.inr ⟨g, hg, ?_⟩
        rcases hg' with h | ⟨u, hu, h⟩
        · exact Or.inl h
        · exact Or.inr ⟨u, by simp [hu], h⟩
    simp only [List.cons_append, recvLoop, recvLoopG, sockTimeout, hnow, Bool.false_eq_true, if_false]
    split
    · right; exact ⟨now + cfg.timeout, by simp, Or.inr ⟨now, by simp, rfl⟩⟩
    · split
      · left; exact ⟨_, rfl⟩
      · exact lift _ _ _ (ih _ _ _ hrest)
    · split
      · left; exact ⟨_, rfl⟩
      · exact lift _ _ _ (ih _ _ _ hrest)

/-- consecutive clock readings are at most `T` apart (every `recv` returns within the socket timeout). -/
def StepsBounded (T : Int) : Int → List Int → Prop
  | _, [] => True
  | prev, t :: ts => t - prev ≤ T ∧ StepsBounded T t ts

instance (T : Int) : ∀ (prev : Int) (ts : List Int), Decidable (StepsBounded T prev ts)
  | _, [] => isTrue trivial
  | prev, t :: ts =>
    have := instDecidableStepsBounded T t ts
    by unfold StepsBounded; exact inferInstance

theorem loop_bounded (cfg : Cfg) (hT : 0 < cfg.timeout) (accepted : Int) :
    ∀ (clock : List Int) (prev : Int) (script : List RecvResult) (acc : Bytes) (k : Nat) (g : Int),
      prev - accepted < cfg.timeout → StepsBounded cfg.timeout prev clock →
      (recvLoop cfg accepted clock script acc k).out = .timeout g → g - accepted < 2 * cfg.timeout := by
  intro clock
  induction clock with
  | nil => intro prev script acc k g _ _ h; simp [recvLoop, recvLoopG, sockTimeout] at h
  | cons now rest ih =>
    intro prev script acc k g hprev hsb h
    obtain ⟨hstep, hsb'⟩ := hsb
    simp only [recvLoop, recvLoopG, sockTimeout] at h
    split at h
    · simp at h; omega
    · next hnow =>
      have hnow' : now - accepted < cfg.timeout := by simp [elapsedTest] at hnow; omega
      split at h
      · simp at h; omega
      · split at h
        · simp at h
        · exact ih now _ _ _ g hnow' hsb' h
      · split at h
        · simp at h
        · exact ih now _ _ _ g hnow' hsb' h



/-! ### the check / write sequence -/


theorem steps_reject_unchanged (ops : Ops) (cfg : Cfg) (all : Bytes) (addr : String) (st st' : St) (e : Exc)
    (h : runSteps ops cfg all addr steps {} st = (some e, st')) : st' = st := by
  simp only [steps, runSteps, stepSem] at h
  cases h1 : ops.decrypt all with
  | none => simp [h1] at h; exact h.2.symm
  | some pt =>
    simp only [h1] at h
    cases h2 : splitPlain pt with
    | error e2 => simp [h2] at h; exact h.2.symm
    | ok f =>
      simp only [h2] at h
      cases h3 : findPeer f.urn st.peers with
      | none => simp [h3] at h; exact h.2.symm
      | some p =>
        simp only [h3] at h
        by_cases hk : f.key = p.key
        · simp only [hk, ne_eq, not_true_eq_false, if_false] at h
          by_cases hs : isSync f.type = true
          · simp only [hs, if_true] at h
            cases h4 : ops.parse f.json with
            | some e4 => simp [h4] at h; exact h.2.symm
            | none =>
              simp only [h4, hs, if_true] at h
              by_cases hq : queueFull cfg st.queue = true
              · simp [hq] at h; exact h.2.symm
              · simp only [hq, Bool.false_eq_true, if_false, hs, if_true, h3] at h
                by_cases ha : addr = p.addr <;> by_cases hr : resetFlag f.flags = true <;> simp [ha, hr] at h
          · simp only [hs, Bool.false_eq_true, if_false, h3] at h
            by_cases ha : addr = p.addr <;> by_cases hr : resetFlag f.flags = true <;> simp [ha, hr] at h
        · simp [hk] at h; exact h.2.symm


/-- what identifies and authenticates the peers: never written by the handler. -/
def keys (st : St) : List (String × String) := st.peers.map (fun p => (p.urn, p.key))

/-- the device key on record for `urn`. -/
def keyOf (urn : String) (ps : List Peer) : Option String := (findPeer urn ps).map (·.key)

theorem keyOf_of_keys : ∀ (ps qs : List Peer), ps.map (fun p => (p.urn, p.key)) = qs.map (fun p => (p.urn, p.key)) →
    ∀ u, keyOf u ps = keyOf u qs := by
  intro ps
  induction ps with
  | nil => intro qs h u; cases qs with
    | nil => rfl
    | cons q qs => simp at h
  | cons p ps ih =>
    intro qs h u
    cases qs with
    | nil => simp at h
    | cons q qs =>
      simp only [List.map_cons, List.cons.injEq, Prod.mk.injEq] at h
      obtain ⟨⟨hu, hk⟩, ht⟩ := h
      have := ih qs ht u
      unfold keyOf at *
      simp only [findPeer, hu]
      split
      · simp [hk]
      · exact this

theorem updPeer_keys (u : String) (f : Peer → Peer) (hf : ∀ p, (f p).urn = p.urn ∧ (f p).key = p.key) :
    ∀ ps : List Peer, (updPeer u f ps).map (fun p => (p.urn, p.key)) = ps.map (fun p => (p.urn, p.key)) := by
  intro ps
  induction ps with
  | nil => rfl
  | cons p ps ih =>
    simp only [updPeer]
    split
    · simp [hf p]
    · simp [ih]

theorem stepSem_keys (ops : Ops) (cfg : Cfg) (all : Bytes) (addr : String) (s : Step) (l : Locals) (st : St) :
    keys (stepSem ops cfg all addr s l st).2 = keys st := by
  cases s <;> simp only [stepSem] <;> (repeat' split) <;> first
    | rfl
    | (simp only [keys]; apply updPeer_keys; intro p; exact ⟨rfl, rfl⟩)

theorem runSteps_keys (ops : Ops) (cfg : Cfg) (all : Bytes) (addr : String) :
    ∀ (ss : List Step) (l : Locals) (st : St), keys (runSteps ops cfg all addr ss l st).2 = keys st := by
  intro ss
  induction ss with
  | nil => intro l st; rfl
  | cons s ss ih =>
    intro l st
    simp only [runSteps]
    have hk := stepSem_keys ops cfg all addr s l st
    split
    · next e st' heq => rw [heq] at hk; exact hk
    · next l' st' heq => rw [heq] at hk; rw [ih l' st']; exact hk

theorem splitPlain_error (pt : String) (e : Exc) (h : splitPlain pt = .error e) : e = .distErr ∨ e = .valueErr := by
  unfold splitPlain at h
  repeat' split at h
  all_goals simp_all

/-- every exception a statement can raise is an `Exception` (given that the payload parser raises only those). -/
theorem stepSem_error_class (ops : Ops) (hparse : ∀ j e, ops.parse j = some e → e ≠ .baseExc)
    (cfg : Cfg) (all : Bytes) (addr : String) (s : Step) (l : Locals) (st st' : St) (e : Exc)
    (h : stepSem ops cfg all addr s l st = (.error e, st')) : e ≠ .baseExc := by
  cases s <;> simp only [stepSem] at h <;> (repeat' split at h) <;> simp_all
  all_goals first
    | (obtain ⟨rfl, _⟩ := h; decide)
    | (rcases splitPlain_error _ _ ‹_› with rfl | rfl <;> decide)
    | (exact hparse _ _ ‹_›)


theorem runSteps_error_class (ops : Ops) (hparse : ∀ j e, ops.parse j = some e → e ≠ .baseExc)
    (cfg : Cfg) (all : Bytes) (addr : String) :
    ∀ (ss : List Step) (l : Locals) (st st' : St) (e : Exc),
      runSteps ops cfg all addr ss l st = (some e, st') → e ≠ .baseExc := by
  intro ss
  induction ss with
  | nil => intro l st st' e h; simp [runSteps] at h
  | cons s ss ih =>
    intro l st st' e h
    simp only [runSteps] at h
    split at h
    · next e1 st1 heq =>
      simp only [Prod.mk.injEq, Option.some.injEq] at h
      obtain ⟨rfl, _⟩ := h
      exact stepSem_error_class ops hparse cfg all addr s l st st1 e1 heq
    · next l1 st1 heq => exact ih l1 st1 st' e h

/-- what an accepted frame has passed. -/
theorem steps_accept_authentic (ops : Ops) (cfg : Cfg) (all : Bytes) (addr : String) (st st' : St)
    (h : runSteps ops cfg all addr steps {} st = (none, st')) :
    ∃ pt f p, ops.decrypt all = some pt ∧ splitPlain pt = .ok f ∧ findPeer f.urn st.peers = some p ∧
      f.key = p.key ∧ (isSync f.type = true → ops.parse f.json = none ∧ queueFull cfg st.queue = false) := by
  simp only [steps, runSteps, stepSem] at h
  cases h1 : ops.decrypt all with
  | none => simp [h1] at h
  | some pt =>
    simp only [h1] at h
    cases h2 : splitPlain pt with
    | error e2 => simp [h2] at h
    | ok f =>
      simp only [h2] at h
      cases h3 : findPeer f.urn st.peers with
      | none => simp [h3] at h
      | some p =>
        simp only [h3] at h
        by_cases hk : f.key = p.key
        · refine ⟨pt, f, p, rfl, h2, h3, hk, ?_⟩
          intro hs
          simp only [hk, ne_eq, not_true_eq_false, if_false, hs, if_true] at h
          cases h4 : ops.parse f.json with
          | some e4 => simp [h4] at h
          | none =>
            simp only [h4, hs, if_true] at h
            by_cases hq : queueFull cfg st.queue = true
            · simp [hq] at h
            · exact ⟨rfl, by simpa using hq⟩
        · simp [hk] at h

/-- and conversely: a frame that passes all of it is accepted. -/
theorem steps_valid_accepted (ops : Ops) (cfg : Cfg) (all : Bytes) (addr : String) (st : St)
    (pt : String) (f : Fields) (p : Peer)
    (h1 : ops.decrypt all = some pt) (h2 : splitPlain pt = .ok f) (h3 : findPeer f.urn st.peers = some p)
    (hk : f.key = p.key) (hs : isSync f.type = true → ops.parse f.json = none ∧ queueFull cfg st.queue = false) :
    (runSteps ops cfg all addr steps {} st).1 = none := by
  simp only [steps, runSteps, stepSem, h1, h2, h3, hk, ne_eq, not_true_eq_false, if_false]
  by_cases hsy : isSync f.type = true
  · obtain ⟨h4, hq⟩ := hs hsy
    simp only [hsy, if_true, h4, hq, Bool.false_eq_true, if_false, h3]
    by_cases ha : addr = p.addr <;> by_cases hr : resetFlag f.flags = true <;> simp [ha, hr]
  · simp only [hsy, Bool.false_eq_true, if_false, h3]
    by_cases ha : addr = p.addr <;> by_cases hr : resetFlag f.flags = true <;> simp [ha, hr]

/-- the first clock reading at or past the timeout. -/
theorem first_reach (T accepted : Int) : ∀ (clock : List Int), (∃ t ∈ clock, t - accepted ≥ T) →
    ∃ pre t post, clock = pre ++ t :: post ∧ (∀ u ∈ pre, u - accepted < T) ∧ t - accepted ≥ T := by
  intro clock
  induction clock with
  | nil => intro ⟨t, ht, _⟩; simp at ht
  | cons c cs ih =>
    intro ⟨t, ht, hge⟩
    by_cases hc : c - accepted ≥ T
    · exact ⟨[], c, cs, rfl, by simp, hc⟩
    · have : ∃ t ∈ cs, t - accepted ≥ T := by
        rcases List.mem_cons.mp ht with rfl | h
        · exact absurd hge hc
        · exact ⟨t, h, hge⟩
      obtain ⟨pre, t', post, rfl, hpre, ht'⟩ := ih this
      refine ⟨c :: pre, t', post, rfl, ?_, ht'⟩
      intro u hu
      rcases List.mem_cons.mp hu with rfl | h
      · omega
      · exact hpre u h

end Bobo.Frame
