import BoboVerif.Model.Decider
import BoboVerif.Lemmas.Table
import BoboVerif.Lemmas.Lattice
/-!
The abstraction `abs : DState → run key → Status` and the effect of the table
operations used by `on_distributed_update` on it.
-/
namespace Bobo.Decider
open Bobo.Run Bobo.Lattice
set_option linter.unusedSimpArgs false
variable {ε : Type}

def stOf (o : Option (LRun ε)) : Status :=
  match o with
  | some r => active r.run.idx r.run.hist.size
  | none => bot

/-- the status of run key (ph, pa, id) in a decider state: remembered completed, else remembered
halted, else its position if active, else unknown. -/
def abs (s : DState ε) (ph pa id : String) : Status :=
  if inCache s.cacheC id then completed
  else if inCache s.cacheH id then halted
  else stOf (s.table.runAt ph pa id)

def recSt (r : Rec ε) : Status := active r.idx r.hist.size

def keyMatch (ph pa id : String) (r : Rec ε) : Bool := r.phen == ph && r.pat == pa && r.id == id

/-- what a message says about run key (ph, pa, id): completed / halted by identifier, progress by key. -/
def absMsg (comp halt upd : List (Rec ε)) (ph pa id : String) : Status :=
  join (if comp.any (·.id == id) then completed else bot)
    (join (if halt.any (·.id == id) then halted else bot)
      (joinAll ((upd.filter (keyMatch ph pa id)).map recSt)))

theorem stOf_valid (o : Option (LRun ε)) : (stOf o).Valid := by
  cases o <;> simp [stOf, bot_valid, active_valid]

theorem abs_valid (s : DState ε) (ph pa id : String) : (abs s ph pa id).Valid := by
  unfold abs; split
  · exact completed_valid
  · split
    · exact halted_valid
    · exact stOf_valid _

/-! ### the finished-run memory without eviction -/

theorem dqAppend_noevict {α} (m : Nat) (q : List α) (x : α) (h : q.length + 1 ≤ m) :
    dqAppend m q x = q ++ [x] := by
  unfold dqAppend
  simp only [List.length_append, List.length_cons, List.length_nil]
  have : q.length + (0 + 1) - m = 0 := by omega
  simp [this]

theorem dqExtend_noevict {α} (m : Nat) (q xs : List α) (h : q.length + xs.length ≤ m) :
    dqExtend m q xs = q ++ xs := by
  unfold dqExtend
  induction xs generalizing q with
  | nil => simp
  | cons x rest ih =>
    simp only [List.foldl_cons, List.length_cons] at h ⊢
    rw [dqAppend_noevict m q x (by omega), ih (q ++ [x]) (by simp; omega)]
    simp

theorem inCache_append (q xs : List (Rec ε)) (id : String) :
    inCache (q ++ xs) id = (inCache q id || xs.any (·.id == id)) := by
  simp [inCache, List.any_append]

/-! ### `run_at` after the table operations -/

theorem find_filter_ne (l : List (LRun ε)) (id id' : String) :
    (l.filter (fun r => !(r.run.id == id))).find? (fun r => r.run.id == id') =
      if id' = id then none else l.find? (fun r => r.run.id == id') := by
  induction l with
  | nil => simp
  | cons r rest ih =>
    by_cases hr : r.run.id = id
    · have h1 : (!(r.run.id == id)) = false := by simp [hr]
      rw [List.filter_cons, h1]
      simp only [Bool.false_eq_true, if_false, ih]
      by_cases hid : id' = id
      · simp [hid]
      · have : ¬ r.run.id = id' := fun e => hid (e.symm.trans hr)
        simp [hid, List.find?_cons, this]
    · have h1 : (!(r.run.id == id)) = true := by simp [hr]
      rw [List.filter_cons, h1]
      simp only [if_true, List.find?_cons, ih]
      by_cases hid : id' = id
      · subst hid
        have : (r.run.id == id') = false := by simpa using hr
        simp [this]
      · simp only [hid, if_false]

theorem find_map_set (l : List (LRun ε)) (id id' : String) (f : LRun ε → LRun ε)
    (hf : ∀ r, (f r).run.id = r.run.id) :
    (l.map (fun r => if r.run.id == id then f r else r)).find? (fun r => r.run.id == id') =
      if id' = id then (l.find? (fun r => r.run.id == id)).map f else l.find? (fun r => r.run.id == id') := by
  induction l with
  | nil => simp
  | cons r rest ih =>
    simp only [List.map_cons, List.find?_cons]
    by_cases hr : r.run.id = id
    · have h1 : (r.run.id == id) = true := by simpa using hr
      simp only [h1, if_true, hf]
      by_cases hid : id' = id
      · subst hid; simp [h1]
      · have : (r.run.id == id') = false := by
          simp only [beq_eq_false_iff_ne, ne_eq]; exact fun e => hid (e.symm.trans hr)
        simp only [this, hid, if_false] at ih ⊢
        exact ih
    · have h1 : (r.run.id == id) = false := by simpa using hr
      simp only [h1, Bool.false_eq_true, if_false]
      by_cases hid : id' = id
      · subst hid
        simp only [h1, if_true] at ih ⊢
        exact ih
      · simp only [hid, if_false] at ih ⊢
        rw [ih]

theorem runAt_remove (t : Table ε) (ph pa id ph' pa' id' : String) :
    (t.remove ph pa id).runAt ph' pa' id' =
      if ph' = ph ∧ pa' = pa ∧ id' = id then none else t.runAt ph' pa' id' := by
  simp only [runAt_def, Table.remove]
  rw [runsFrom_modify _ _ _ _ _ false _ (.inr (by simp))]
  by_cases hk : ph' = ph ∧ pa' = pa
  · obtain ⟨h1, h2⟩ := hk
    subst h1 h2
    simp only [and_self, if_true, true_and, find_filter_ne]
  · have : ¬ (ph' = ph ∧ pa' = pa ∧ id' = id) := fun h => hk ⟨h.1, h.2.1⟩
    simp [hk, this]

theorem runAt_setBlock (t : Table ε) (ph pa id ph' pa' id' : String) (i : Nat) (h : Hist ε) :
    (t.setBlock ph pa id i h).runAt ph' pa' id' =
      if ph' = ph ∧ pa' = pa ∧ id' = id
      then (t.runAt ph pa id).map (fun r => { r with run := { r.run with idx := i, hist := h } })
      else t.runAt ph' pa' id' := by
  simp only [runAt_def, Table.setBlock]
  rw [runsFrom_modify _ _ _ _ _ false _ (.inr (by simp))]
  by_cases hk : ph' = ph ∧ pa' = pa
  · obtain ⟨h1, h2⟩ := hk
    subst h1 h2
    simp only [and_self, if_true, true_and]
    exact find_map_set _ id id' (fun r => { r with run := { r.run with idx := i, hist := h } }) (fun _ => rfl)
  · have : ¬ (ph' = ph ∧ pa' = pa ∧ id' = id) := fun h => hk ⟨h.1, h.2.1⟩
    simp [hk, this]

theorem runAt_add (t t' : Table ε) (ph pa : String) (r : LRun ε) (h : t.add ph pa r = some t')
    (ph' pa' id' : String) :
    t'.runAt ph' pa' id' =
      if ph' = ph ∧ pa' = pa ∧ id' = r.run.id then some r else t.runAt ph' pa' id' := by
  unfold Table.add at h
  by_cases hs : (t.runAt ph pa r.run.id).isSome = true
  · simp [hs] at h
  · simp only [hs, Bool.false_eq_true, if_false, Option.some.injEq] at h
    subst h
    have hnone : t.runAt ph pa r.run.id = none := by
      cases hx : t.runAt ph pa r.run.id with
      | none => rfl
      | some v => simp [hx] at hs
    simp only [runAt_def] at hnone ⊢
    rw [runsFrom_modify _ _ _ _ _ true _ (.inl rfl)]
    by_cases hk : ph' = ph ∧ pa' = pa
    · obtain ⟨h1, h2⟩ := hk
      subst h1 h2
      simp only [and_self, if_true, true_and, List.find?_append]
      by_cases hid : id' = r.run.id
      · subst hid
        simp [hnone]
      · have : (r.run.id == id') = false := by
          simp only [beq_eq_false_iff_ne, ne_eq]; exact fun e => hid e.symm
        simp only [hid, if_false, List.find?_cons, List.find?_nil, this]
        cases List.find? (fun r => r.run.id == id') (t.runsFrom ph' pa') <;> simp
    · have : ¬ (ph' = ph ∧ pa' = pa ∧ id' = r.run.id) := fun h => hk ⟨h.1, h.2.1⟩
      simp [hk, this]

theorem add_isSome_of_runAt_none (t : Table ε) (ph pa : String) (r : LRun ε)
    (h : t.runAt ph pa r.run.id = none) : ∃ t', t.add ph pa r = some t' := by
  unfold Table.add; simp [h]

end Bobo.Decider

namespace Bobo.Decider
variable {ε : Type}
theorem mem_of_mem_dedupById (l : List (Rec ε)) (r : Rec ε) (h : r ∈ dedupById l) : r ∈ l := by
  induction l with
  | nil => simp [dedupById] at h
  | cons x rest ih =>
    simp only [dedupById, List.mem_cons] at h
    rcases h with e | e
    · subst e; exact List.mem_cons_self ..
    · exact List.mem_cons_of_mem _ (ih (List.mem_filter.mp e).1)

/-- each run is reported at most once. -/
theorem dedupById_nodup (l : List (Rec ε)) : ((dedupById l).map (·.id)).Nodup := by
  induction l with
  | nil => simp [dedupById]
  | cons x rest ih =>
    simp only [dedupById, List.map_cons, List.nodup_cons]
    refine ⟨?_, (List.Sublist.map _ List.filter_sublist).nodup ih⟩
    intro hm
    obtain ⟨y, hy, hye⟩ := List.mem_map.mp hm
    have := (List.mem_filter.mp hy).2
    simp [hye] at this
end Bobo.Decider
