import BoboVerif.Lemmas.Remote
/-!
Assembly: `on_distributed_update` is the join of the status lattice.
-/
namespace Bobo.Decider
open Bobo.Run Bobo.Lattice
set_option linter.unusedSimpArgs false
variable {ε : Type}

theorem any_filter_id (l : List (Rec ε)) (p : String → Bool) (id : String) :
    (l.filter (fun r => p r.id)).any (·.id == id) = (l.any (·.id == id) && p id) := by
  induction l with
  | nil => simp
  | cons r rest ih =>
    by_cases hr : r.id = id
    · subst hr
      by_cases hp : p r.id = true
      · simp [List.filter_cons, hp]
      · have hp' : p r.id = false := by simpa using hp
        simp [List.filter_cons, hp', ih]
    · have h1 : (r.id == id) = false := by simpa using hr
      by_cases hp : p r.id = true
      · simp [List.filter_cons, hp, h1, ih]
      · have hp' : p r.id = false := by simpa using hp
        simp [List.filter_cons, hp', h1, ih]

theorem filter_key_of_filter_id (l : List (Rec ε)) (p : String → Bool) (ph pa id : String) (hp : p id = true) :
    (l.filter (fun r => p r.id)).filter (keyMatch ph pa id) = l.filter (keyMatch ph pa id) := by
  induction l with
  | nil => rfl
  | cons r rest ih =>
    by_cases hk : keyMatch ph pa id r = true
    · have hid : r.id = id := ((keyMatch_iff ph pa id r).mp hk).2.2.symm
      have : p r.id = true := by rw [hid]; exact hp
      simp [List.filter_cons, this, hk, ih]
    · by_cases hq : p r.id = true
      · simp [List.filter_cons, hq, hk, ih]
      · simp [List.filter_cons, hq, hk, ih]

theorem stOf_le_halted (o : Option (LRun ε)) : stOf o ≤ halted := by
  cases o with
  | none => exact bot_le _
  | some r => exact active_le_halted _ _

theorem joinAll_recSt_le_halted (l : List (Rec ε)) : joinAll (l.map recSt) ≤ halted := by
  induction l with
  | nil => exact bot_le _
  | cons r rest ih =>
    rw [List.map_cons, joinAll_cons]
    exact join_le (active_le_halted _ _) ih

theorem joinAll_recSt_valid (l : List (Rec ε)) : (joinAll (l.map recSt)).Valid :=
  joinAll_valid _ (by intro x hx; simp only [List.mem_map] at hx; obtain ⟨r, _, rfl⟩ := hx; exact active_valid _ _)

theorem absMsg_valid (comp halt upd : List (Rec ε)) (ph pa id : String) :
    (absMsg comp halt upd ph pa id).Valid := by
  unfold absMsg
  refine join_valid ?_ (join_valid ?_ (joinAll_recSt_valid _))
  · split
    · exact completed_valid
    · exact bot_valid
  · split
    · exact halted_valid
    · exact bot_valid

/-- memorising without eviction. -/
theorem maybeCache_noevict (c : Cfg ε) (hc : c.caching = true) (s : DState ε) (a b : List (Rec ε))
    (ha : s.cacheC.length + a.length ≤ c.maxCache) (hb : s.cacheH.length + b.length ≤ c.maxCache) :
    maybeCache c s a b = { s with cacheC := s.cacheC ++ a, cacheH := s.cacheH ++ b } := by
  unfold maybeCache
  simp only [hc, if_true]
  rw [dqExtend_noevict _ _ _ ha, dqExtend_noevict _ _ _ hb]

/-- **the remote-update handler is the join of the status lattice** (non-singleton configuration,
finished-run memory enabled and not evicting during this step): for every state and every message —
any three lists, the same run several times and in several lists included — the handler returns
normally and every key of a known pattern ends at `abs s ⊔ (what the message says)`. -/
theorem remote_is_join_aux (c : Cfg ε) (hc : c.caching = true) (hns : NoSing c) (s : DState ε)
    (comp halt upd : List (Rec ε))
    (hevC : s.cacheC.length + comp.length ≤ c.maxCache)
    (hevH : s.cacheH.length + halt.length ≤ c.maxCache) :
    ∃ s' n, remoteStep c s comp halt upd = some (s', n) ∧ n.loc = false ∧
      ∀ ph pa id, (c.getPattern ph pa).isSome = true →
        abs s' ph pa id = join (abs s ph pa id) (absMsg comp halt upd ph pa id) := by
  unfold remoteStep remoteStepG
  simp only [checkAgainstCache, hc, if_true]
  -- names for the filtered lists
  generalize hcomp1 : comp.filter (fun r => !inCache s.cacheC r.id) = comp1
  generalize hhalt1 : halt.filter (fun r => !inCache s.cacheC r.id && !inCache s.cacheH r.id) = halt1
  generalize hupd1 : upd.filter (fun r => !inCache s.cacheC r.id && !inCache s.cacheH r.id) = upd1
  have hl1 : comp1.length ≤ comp.length := by rw [← hcomp1]; exact List.length_filter_le _ _
  have hl2 : halt1.length ≤ halt.length := by rw [← hhalt1]; exact List.length_filter_le _ _
  rw [maybeCache_noevict c hc s comp1 halt1 (by omega) (by omega)]
  -- removal loops
  generalize hs1 : ({ s with cacheC := s.cacheC ++ comp1, cacheH := s.cacheH ++ halt1 } : DState ε) = s1
  obtain ⟨hC2, hH2, hT2⟩ := fold_removeOne c hns true comp1 s1 []
  generalize hf2 : comp1.foldl (removeOne c true) (s1, []) = st2 at hC2 hH2 hT2
  obtain ⟨s2, compOut⟩ := st2
  simp only at hC2 hH2 hT2 ⊢
  obtain ⟨hC3, hH3, hT3⟩ := fold_removeOne c hns false halt1 s2 []
  generalize hf3 : halt1.foldl (removeOne c false) (s2, []) = st3 at hC3 hH3 hT3
  obtain ⟨s3, haltOut⟩ := st3
  simp only at hC3 hH3 hT3 ⊢
  -- update loop
  generalize hupd2 : upd1.filter (fun r => !inCache s3.cacheC r.id && !inCache s3.cacheH r.id) = upd2
  obtain ⟨s4, updOut, hfold, hC4, hH4, hT4⟩ := fold_updateOne c hns upd2 s3 []
  simp only [hfold]
  refine ⟨_, _, rfl, rfl, fun ph pa id hknown => ?_⟩
  -- the memory at the end
  have hCend : s4.cacheC = s.cacheC ++ comp1 := by rw [hC4, hC3, hC2, ← hs1]
  have hHend : s4.cacheH = s.cacheH ++ halt1 := by rw [hH4, hH3, hH2, ← hs1]
  have hC3' : s3.cacheC = s.cacheC ++ comp1 := by rw [hC3, hC2, ← hs1]
  have hH3' : s3.cacheH = s.cacheH ++ halt1 := by rw [hH3, hH2, ← hs1]
  have hc1any : comp1.any (·.id == id) = (comp.any (·.id == id) && !inCache s.cacheC id) := by
    rw [← hcomp1]; exact any_filter_id comp (fun x => !inCache s.cacheC x) id
  have hh1any : halt1.any (·.id == id) =
      (halt.any (·.id == id) && (!inCache s.cacheC id && !inCache s.cacheH id)) := by
    rw [← hhalt1]; exact any_filter_id halt (fun x => !inCache s.cacheC x && !inCache s.cacheH x) id
  unfold abs
  simp only [hCend, hHend, inCache_append, hc1any, hh1any]
  have hmv := absMsg_valid comp halt upd ph pa id
  by_cases hinC : inCache s.cacheC id = true
  · -- already completed
    simp only [hinC, Bool.true_or, if_true]
    exact (join_completed_left hmv).symm
  · have hinC' : inCache s.cacheC id = false := by simpa using hinC
    simp only [hinC', Bool.false_or, Bool.not_false, Bool.and_true, Bool.true_and, Bool.false_eq_true, if_false]
    by_cases hcm : comp.any (·.id == id) = true
    · -- the message completes it
      simp only [hcm, if_true]
      unfold absMsg
      simp only [hcm, if_true]
      have hv : (join (if halt.any (·.id == id) = true then halted else bot)
          (joinAll ((upd.filter (keyMatch ph pa id)).map recSt))).Valid := by
        refine join_valid ?_ (joinAll_recSt_valid _)
        split
        · exact halted_valid
        · exact bot_valid
      rw [join_completed_left hv]
      have : (if inCache s.cacheH id = true then halted else stOf (s.table.runAt ph pa id)).Valid := by
        split
        · exact halted_valid
        · exact stOf_valid _
      exact (join_completed_right this).symm
    · have hcm' : comp.any (·.id == id) = false := by simpa using hcm
      simp only [hcm', Bool.false_eq_true, if_false]
      unfold absMsg
      simp only [hcm', Bool.false_eq_true, if_false, join_bot_left]
      by_cases hinH : inCache s.cacheH id = true
      · -- already halted
        simp only [hinH, Bool.true_or, if_true]
        have : join (if halt.any (·.id == id) = true then halted else bot)
            (joinAll ((upd.filter (keyMatch ph pa id)).map recSt)) ≤ halted := by
          refine join_le ?_ (joinAll_recSt_le_halted _)
          split
          · exact le_refl _
          · exact bot_le _
        exact (join_eq_left this).symm
      · have hinH' : inCache s.cacheH id = false := by simpa using hinH
        simp only [hinH', Bool.false_or, Bool.not_false, Bool.and_true, Bool.false_eq_true, if_false]
        by_cases hhm : halt.any (·.id == id) = true
        · -- the message halts it
          simp only [hhm, if_true]
          have h1 : join halted (joinAll ((upd.filter (keyMatch ph pa id)).map recSt)) = halted :=
            join_eq_left (joinAll_recSt_le_halted _)
          rw [h1]
          exact (join_eq_right (stOf_le_halted _)).symm
        · -- progress only
          have hhm' : halt.any (·.id == id) = false := by simpa using hhm
          simp only [hhm', Bool.false_eq_true, if_false, join_bot_left]
          rw [hT4 ph pa id hknown]
          have hnot1 : ∀ x ∈ comp1, x.id ≠ id := by
            intro x hx e
            have : comp1.any (·.id == id) = true := List.any_eq_true.mpr ⟨x, hx, by simp [e]⟩
            rw [hc1any, hcm'] at this
            simp at this
          have hnot2 : ∀ x ∈ halt1, x.id ≠ id := by
            intro x hx e
            have : halt1.any (·.id == id) = true := List.any_eq_true.mpr ⟨x, hx, by simp [e]⟩
            rw [hh1any, hhm'] at this
            simp at this
          have hrun : s3.table.runAt ph pa id = s.table.runAt ph pa id := by
            rw [hT3 ph pa id hnot2, hT2 ph pa id hnot1, ← hs1]
          rw [hrun]
          congr 2
          rw [← hupd2, ← hupd1]
          have hp3 : (!inCache s3.cacheC id && !inCache s3.cacheH id) = true := by
            rw [hC3', hH3', inCache_append, inCache_append, hc1any, hh1any, hinC', hinH', hcm', hhm']
            rfl
          rw [filter_key_of_filter_id _ (fun x => !inCache s3.cacheC x && !inCache s3.cacheH x) ph pa id hp3]
          have hp1 : (!inCache s.cacheC id && !inCache s.cacheH id) = true := by
            rw [hinC', hinH']; rfl
          rw [filter_key_of_filter_id _ (fun x => !inCache s.cacheC x && !inCache s.cacheH x) ph pa id hp1]

theorem remote_abs_after (c : Cfg ε) (hc : c.caching = true) (hns : NoSing c) (s s' : DState ε) (n : Notif ε)
    (comp halt upd : List (Rec ε))
    (hevC : s.cacheC.length + comp.length ≤ c.maxCache)
    (hevH : s.cacheH.length + halt.length ≤ c.maxCache)
    (hstep : remoteStep c s comp halt upd = some (s', n))
    (ph pa id : String) (hk : (c.getPattern ph pa).isSome = true) :
    abs s' ph pa id = join (abs s ph pa id) (absMsg comp halt upd ph pa id) := by
  obtain ⟨s2, n2, h1, _, h2⟩ := remote_is_join_aux c hc hns s comp halt upd hevC hevH
  rw [hstep] at h1
  simp only [Option.some.injEq, Prod.mk.injEq] at h1
  rw [h1.1]; exact h2 ph pa id hk

end Bobo.Decider
