import BoboVerif.Lemmas.IdInv
/-!
Decider-level ordering (C01): what one `update()` (`localStep`) does, seen from one stored run
(`_check_against_runs`) and from one configured pattern (`_check_against_patterns`).

* `checkPattern_spec` — one iteration of `_check_against_patterns`, exactly (`startOf`).
* `foldPats_news` — any stretch of the patterns phase only appends freshly started runs to buckets.
* `foldPats_spec` — under pairwise different (phenomenon, pattern-name) keys: the bucket, the completed
  and the updated records of each configured pattern after the whole phase, exactly.
-/
namespace Bobo.Decider
open Bobo.Run Bobo.Lattice
set_option linter.unusedSimpArgs false
set_option linter.unusedVariables false
variable {ε : Type}

/-- the configuration's patterns, with their phenomenon's name, in the order `_check_against_patterns`
visits them. -/
def Cfg.flatPats (c : Cfg ε) : List (String × Pattern ε) :=
  c.phenomena.flatMap (fun P => P.patterns.map (fun p => (P.name, p)))

/-- no two configured patterns share (phenomenon name, pattern name) — `BoboDecider.__init__` keys its
tables by these names. -/
def PatKeysNodup (c : Cfg ε) : Prop := (c.flatPats.map (fun x => (x.1, x.2.name))).Nodup

/-- the record belongs to bucket (ph, pa). -/
def patKey (ph pa : String) (x : Rec ε) : Bool := x.phen == ph && x.pat == pa

/-- what one iteration of `_check_against_patterns` contributes. -/
structure Started (ε : Type) where
  hc   : List (Rec ε)
  upd  : List (Rec ε)
  runs : List (LRun ε)

/-- the decision of `_check_against_patterns` for pattern `p` of phenomenon `ph`, given whether the
pattern's bucket is empty at that moment and the identifier counter `k`:
first block does not accept → nothing; one-block pattern → completed at once, nothing stored;
otherwise stored (and announced as updated) unless the pattern is a singleton with a non-empty bucket. -/
def startOf (c : Cfg ε) (e : ε) (ph : String) (p : Pattern ε) (bucketEmpty : Bool) (k : Nat) : Started ε :=
  match p.blocks with
  | [] => ⟨[], [], []⟩
  | b0 :: rest =>
    let lr : LRun ε := { run := newRun (c.idOf k) p b0.group e, pat := p }
    if startMatch b0.preds e then
      if rest.isEmpty then ⟨[lr.ser ph], [], []⟩
      else if !p.singleton || bucketEmpty then ⟨[], [lr.ser ph], [lr]⟩
      else ⟨[], [], []⟩
    else ⟨[], [], []⟩

/-- **one iteration of `_check_against_patterns`, exactly.** -/
theorem checkPattern_spec (c : Cfg ε) (e : ε) (ph : String) (acc acc' : PatAcc ε) (p : Pattern ε)
    (hs : checkPattern c e ph acc p = some acc') :
    acc.nextId ≤ acc'.nextId ∧ acc'.nextId ≤ acc.nextId + 1 ∧
    ((startOf c e ph p (acc.table.runsFrom ph p.name).isEmpty acc.nextId).hc ++
      (startOf c e ph p (acc.table.runsFrom ph p.name).isEmpty acc.nextId).upd ≠ [] →
        acc'.nextId = acc.nextId + 1) ∧
    acc'.hc = acc.hc ++ (startOf c e ph p (acc.table.runsFrom ph p.name).isEmpty acc.nextId).hc ∧
    acc'.upd = acc.upd ++ (startOf c e ph p (acc.table.runsFrom ph p.name).isEmpty acc.nextId).upd ∧
    ∀ ph' pa', acc'.table.runsFrom ph' pa' = acc.table.runsFrom ph' pa' ++
      (if ph' = ph ∧ pa' = p.name then
        (startOf c e ph p (acc.table.runsFrom ph p.name).isEmpty acc.nextId).runs else []) := by
  unfold checkPattern at hs
  unfold startOf
  cases hb : p.blocks with
  | nil => simp [hb] at hs
  | cons b0 rest =>
    simp only [hb] at hs ⊢
    by_cases hm : startMatch b0.preds e = true
    · simp only [hm, if_true] at hs ⊢
      cases rest with
      | nil =>
        have hc1 : ((newRun (c.idOf acc.nextId) p b0.group e).halted &&
            (newRun (c.idOf acc.nextId) p b0.group e).isComplete [b0].length) = true := by
          simp [newRun, Run.isComplete, completeAt, hb]
        simp only [hc1, if_true, Option.some.injEq] at hs
        subst hs
        simp
      | cons b1 rest' =>
        have hc1 : ((newRun (c.idOf acc.nextId) p b0.group e).halted &&
            (newRun (c.idOf acc.nextId) p b0.group e).isComplete (b0 :: b1 :: rest').length) = false := by
          simp [newRun, Run.isComplete, completeAt, hb]
        simp only [hc1, Bool.false_eq_true, if_false, List.isEmpty_cons] at hs ⊢
        by_cases hg : (!p.singleton || (acc.table.runsFrom ph p.name).length == 0) = true
        · have hg' : (!p.singleton || (acc.table.runsFrom ph p.name).isEmpty) = true := by
            cases hl : acc.table.runsFrom ph p.name <;> simp_all
          simp only [hg, hg', if_true] at hs ⊢
          cases hadd : acc.table.add ph p.name { run := newRun (c.idOf acc.nextId) p b0.group e, pat := p } with
          | none => simp [hadd] at hs
          | some t' =>
            simp only [hadd, Option.some.injEq] at hs
            subst hs
            refine ⟨Nat.le_succ _, Nat.le_refl _, fun _ => rfl, by simp, rfl, ?_⟩
            intro ph' pa'
            unfold Table.add at hadd
            split at hadd
            · simp at hadd
            · simp only [Option.some.injEq] at hadd
              subst hadd
              simp only
              rw [runsFrom_modify _ _ _ _ _ true _ (.inl rfl)]
              by_cases hk : ph' = ph ∧ pa' = p.name
              · obtain ⟨e1, e2⟩ := hk; subst e1 e2; simp
              · simp [hk]
        · have hg0 : (!p.singleton || (acc.table.runsFrom ph p.name).length == 0) = false := by simpa using hg
          have hg' : (!p.singleton || (acc.table.runsFrom ph p.name).isEmpty) = false := by
            cases hl : acc.table.runsFrom ph p.name <;> simp_all
          simp only [hg0, hg', Bool.false_eq_true, if_false, Option.some.injEq] at hs ⊢
          subst hs
          simp
    · simp only [hm, Bool.false_eq_true, if_false, Option.some.injEq] at hs ⊢
      subst hs
      simp


/-! ### facts about `startOf` -/

theorem startOf_recs (c : Cfg ε) (e : ε) (ph : String) (p : Pattern ε) (be : Bool) (k : Nat) :
    ∀ x ∈ (startOf c e ph p be k).hc ++ (startOf c e ph p be k).upd,
      x.id = c.idOf k ∧ x.phen = ph ∧ x.pat = p.name := by
  unfold startOf
  cases p.blocks with
  | nil => simp
  | cons b0 rest =>
    simp only
    split
    · split
      · intro x hx; simp only [List.append_nil, List.mem_singleton] at hx; subst hx; exact ⟨rfl, rfl, rfl⟩
      · split
        · intro x hx; simp only [List.nil_append, List.mem_singleton] at hx; subst hx; exact ⟨rfl, rfl, rfl⟩
        · simp
    · simp

theorem startOf_runs (c : Cfg ε) (e : ε) (ph : String) (p : Pattern ε) (be : Bool) (k : Nat) :
    ∀ r' ∈ (startOf c e ph p be k).runs, ∃ b0 b1 rest, p.blocks = b0 :: b1 :: rest ∧
      startMatch b0.preds e = true ∧ (p.singleton = false ∨ be = true) ∧
      r' = { run := newRun (c.idOf k) p b0.group e, pat := p } ∧
      (startOf c e ph p be k).runs = [r'] ∧ (startOf c e ph p be k).upd = [r'.ser ph] ∧
      (startOf c e ph p be k).hc = [] := by
  unfold startOf
  cases hb : p.blocks with
  | nil => simp
  | cons b0 rest =>
    simp only
    by_cases hm : startMatch b0.preds e = true
    · simp only [hm, if_true]
      cases rest with
      | nil => simp
      | cons b1 rest' =>
        simp only [List.isEmpty_cons, Bool.false_eq_true, if_false]
        by_cases hg : (!p.singleton || be) = true
        · simp only [hg, if_true]
          intro r' hr'
          simp only [List.mem_singleton] at hr'
          subst hr'
          refine ⟨b0, b1, rest', rfl, hm, ?_, rfl, rfl, rfl, trivial⟩
          cases hsg : p.singleton <;> simp_all
        · simp [hg]
    · simp [hm]

theorem filter_patKey_self (l : List (Rec ε)) (ph pa : String) (h : ∀ x ∈ l, x.phen = ph ∧ x.pat = pa) :
    l.filter (patKey ph pa) = l := by
  rw [List.filter_eq_self]
  intro x hx
  obtain ⟨h1, h2⟩ := h x hx
  simp [patKey, h1, h2]

theorem filter_patKey_other (l : List (Rec ε)) (ph pa ph0 pa0 : String) (h : ∀ x ∈ l, x.phen = ph0 ∧ x.pat = pa0)
    (hne : ¬ (ph = ph0 ∧ pa = pa0)) : l.filter (patKey ph pa) = [] := by
  rw [List.filter_eq_nil_iff]
  intro x hx hk
  obtain ⟨h1, h2⟩ := h x hx
  simp only [patKey, Bool.and_eq_true, beq_iff_eq] at hk
  exact hne ⟨by rw [← hk.1, h1], by rw [← hk.2, h2]⟩

/-! ### the patterns phase as one loop over the flattened pattern list -/

theorem foldlM'_append {α β} (f : β → α → Option β) (l1 l2 : List α) (b : β) :
    foldlM' f b (l1 ++ l2) = (foldlM' f b l1).bind (fun b' => foldlM' f b' l2) := by
  induction l1 generalizing b with
  | nil => simp [foldlM']
  | cons a rest ih =>
    simp only [List.cons_append, foldlM']
    cases f b a with
    | none => simp
    | some b1 => simp [ih]

theorem foldlM'_map {α γ β} (f : β → α → Option β) (g : γ → α) (l : List γ) (b : β) :
    foldlM' f b (l.map g) = foldlM' (fun b x => f b (g x)) b l := by
  induction l generalizing b with
  | nil => simp [foldlM']
  | cons a rest ih =>
    simp only [List.map_cons, foldlM']
    cases f b (g a) with
    | none => simp
    | some b1 => simp [ih]

theorem checkAgainstPatterns_flat (c : Cfg ε) (e : ε) (t : Table ε) (n : Nat) :
    checkAgainstPatterns c e t n =
      foldlM' (fun acc (x : String × Pattern ε) => checkPattern c e x.1 acc x.2) { table := t, nextId := n } c.flatPats := by
  unfold checkAgainstPatterns Cfg.flatPats
  generalize ({ table := t, nextId := n } : PatAcc ε) = a
  induction c.phenomena generalizing a with
  | nil => simp [foldlM']
  | cons P rest ih =>
    simp only [List.flatMap_cons, foldlM', foldlM'_append, foldlM'_map]
    cases foldlM' (fun b x => checkPattern c e P.name b x) a P.patterns with
    | none => simp
    | some a1 => simp [ih]

/-- membership in the flattened list. -/
theorem mem_flatPats (c : Cfg ε) (P : Phen ε) (hP : P ∈ c.phenomena) (p : Pattern ε) (hp : p ∈ P.patterns) :
    (P.name, p) ∈ c.flatPats := by
  unfold Cfg.flatPats
  exact List.mem_flatMap.mpr ⟨P, hP, List.mem_map.mpr ⟨p, hp, rfl⟩⟩

theorem of_mem_flatPats (c : Cfg ε) (ph : String) (p : Pattern ε) (h : (ph, p) ∈ c.flatPats) :
    ∃ P ∈ c.phenomena, P.name = ph ∧ p ∈ P.patterns := by
  unfold Cfg.flatPats at h
  obtain ⟨P, hP, hm⟩ := List.mem_flatMap.mp h
  obtain ⟨q, hq, he⟩ := List.mem_map.mp hm
  simp only [Prod.mk.injEq] at he
  obtain ⟨e1, e2⟩ := he
  subst e2
  exact ⟨P, hP, e1, hq⟩

/-- **any stretch of `_check_against_patterns`**: identifiers only go up; the completed and updated lists
are appended to, with records carrying identifiers of this stretch; every bucket is appended to, and only
with freshly started runs (index 1, history `[e]` in the first block's group) of patterns whose first block
accepts the event, each announced in the updated list. -/
theorem foldPats_news (c : Cfg ε) (e : ε) (l : List (String × Pattern ε)) (a b : PatAcc ε)
    (h : foldlM' (fun acc (x : String × Pattern ε) => checkPattern c e x.1 acc x.2) a l = some b) :
    a.nextId ≤ b.nextId ∧
    ∃ dh du, b.hc = a.hc ++ dh ∧ b.upd = a.upd ++ du ∧
      (∀ x ∈ dh ++ du, ∃ k, a.nextId ≤ k ∧ k < b.nextId ∧ x.id = c.idOf k) ∧
      ∀ ph pa, ∃ news, b.table.runsFrom ph pa = a.table.runsFrom ph pa ++ news ∧
        ∀ r' ∈ news, ∃ k p b0 b1 rest, a.nextId ≤ k ∧ k < b.nextId ∧ (ph, p) ∈ l ∧ p.name = pa ∧
          p.blocks = b0 :: b1 :: rest ∧ startMatch b0.preds e = true ∧
          r' = { run := newRun (c.idOf k) p b0.group e, pat := p } ∧ r'.ser ph ∈ du := by
  induction l generalizing a with
  | nil =>
    simp only [foldlM', Option.some.injEq] at h
    subst h
    exact ⟨Nat.le_refl _, [], [], by simp, by simp, by simp, fun ph pa => ⟨[], by simp, by simp⟩⟩
  | cons x rest ih =>
    simp only [foldlM'] at h
    cases hx : checkPattern c e x.1 a x.2 with
    | none => simp [hx] at h
    | some a1 =>
      simp only [hx] at h
      obtain ⟨hn1, hn2, hn3, hhc, hupd, hruns⟩ := checkPattern_spec c e x.1 a a1 x.2 hx
      obtain ⟨ihn, dh, du, ihc, iupd, irange, iruns⟩ := ih a1 h
      have hrec := startOf_recs c e x.1 x.2 (a.table.runsFrom x.1 x.2.name).isEmpty a.nextId
      have hrn := startOf_runs c e x.1 x.2 (a.table.runsFrom x.1 x.2.name).isEmpty a.nextId
      generalize startOf c e x.1 x.2 (a.table.runsFrom x.1 x.2.name).isEmpty a.nextId = st at hn3 hhc hupd hruns hrec hrn
      refine ⟨Nat.le_trans hn1 ihn, st.hc ++ dh, st.upd ++ du, by rw [ihc, hhc, List.append_assoc],
        by rw [iupd, hupd, List.append_assoc], ?_, ?_⟩
      · intro y hy
        have hy' : y ∈ st.hc ++ st.upd ∨ y ∈ dh ++ du := by
          simp only [List.mem_append] at hy ⊢
          rcases hy with (h1 | h1) | (h1 | h1)
          · exact .inl (.inl h1)
          · exact .inr (.inl h1)
          · exact .inl (.inr h1)
          · exact .inr (.inr h1)
        rcases hy' with h1 | h1
        · have hne : st.hc ++ st.upd ≠ [] := List.ne_nil_of_mem h1
          have := hn3 hne
          exact ⟨a.nextId, Nat.le_refl _, by omega, (hrec y h1).1⟩
        · obtain ⟨k, k1, k2, k3⟩ := irange y h1
          exact ⟨k, by omega, k2, k3⟩
      · intro ph pa
        obtain ⟨news, hnews, hall⟩ := iruns ph pa
        refine ⟨(if ph = x.1 ∧ pa = x.2.name then st.runs else []) ++ news, ?_, ?_⟩
        · rw [hnews, hruns ph pa, List.append_assoc]
        · intro r' hr'
          rcases List.mem_append.mp hr' with h1 | h1
          · split at h1
            · rename_i hk
              obtain ⟨b0, b1, rs, hb, hm, _, hre, _, hu, _⟩ := hrn r' h1
              have hne : st.hc ++ st.upd ≠ [] := by rw [hu]; simp
              have := hn3 hne
              refine ⟨a.nextId, x.2, b0, b1, rs, Nat.le_refl _, by omega, ?_, hk.2.symm, hb, hm, hre, ?_⟩
              · rw [hk.1]; exact List.mem_cons_self ..
              · rw [hu, hk.1]; simp
            · simp at h1
          · obtain ⟨k, p, b0, b1, rs, k1, k2, hm, hpn, hb, hsm, hre, hin⟩ := hall r' h1
            exact ⟨k, p, b0, b1, rs, by omega, k2, List.mem_cons_of_mem _ hm, hpn, hb, hsm, hre,
              List.mem_append.mpr (.inr hin)⟩

/-- **the whole patterns phase, one configured pattern, exactly** (pairwise different keys): the bucket of
every visited pattern ends as it started plus what `startOf` says — decided on the bucket as it was when the
stretch began —, and the completed / updated records appended for that bucket are exactly `startOf`'s;
buckets of other keys are not touched. -/
theorem foldPats_spec (c : Cfg ε) (e : ε) (l : List (String × Pattern ε))
    (hnd : (l.map (fun x => (x.1, x.2.name))).Nodup) (a b : PatAcc ε)
    (h : foldlM' (fun acc (x : String × Pattern ε) => checkPattern c e x.1 acc x.2) a l = some b) :
    a.nextId ≤ b.nextId ∧
    ∃ dh du, b.hc = a.hc ++ dh ∧ b.upd = a.upd ++ du ∧
      (∀ ph pa, (ph, pa) ∉ l.map (fun x => (x.1, x.2.name)) →
        b.table.runsFrom ph pa = a.table.runsFrom ph pa ∧ dh.filter (patKey ph pa) = [] ∧
        du.filter (patKey ph pa) = []) ∧
      (∀ x ∈ l, ∃ k, a.nextId ≤ k ∧ k ≤ b.nextId ∧
        ((startOf c e x.1 x.2 (a.table.runsFrom x.1 x.2.name).isEmpty k).hc ++
          (startOf c e x.1 x.2 (a.table.runsFrom x.1 x.2.name).isEmpty k).upd ≠ [] → k < b.nextId) ∧
        b.table.runsFrom x.1 x.2.name = a.table.runsFrom x.1 x.2.name ++
          (startOf c e x.1 x.2 (a.table.runsFrom x.1 x.2.name).isEmpty k).runs ∧
        dh.filter (patKey x.1 x.2.name) = (startOf c e x.1 x.2 (a.table.runsFrom x.1 x.2.name).isEmpty k).hc ∧
        du.filter (patKey x.1 x.2.name) = (startOf c e x.1 x.2 (a.table.runsFrom x.1 x.2.name).isEmpty k).upd) := by
  induction l generalizing a with
  | nil =>
    simp only [foldlM', Option.some.injEq] at h
    subst h
    exact ⟨Nat.le_refl _, [], [], by simp, by simp, fun _ _ _ => ⟨rfl, rfl, rfl⟩, by simp⟩
  | cons x rest ih =>
    simp only [foldlM'] at h
    simp only [List.map_cons, List.nodup_cons] at hnd
    cases hx : checkPattern c e x.1 a x.2 with
    | none => simp [hx] at h
    | some a1 =>
      simp only [hx] at h
      obtain ⟨hn1, hn2, hn3, hhc, hupd, hruns⟩ := checkPattern_spec c e x.1 a a1 x.2 hx
      obtain ⟨ihn, dh, du, ihc, iupd, iframe, ielem⟩ := ih hnd.2 a1 h
      have hrec := startOf_recs c e x.1 x.2 (a.table.runsFrom x.1 x.2.name).isEmpty a.nextId
      have hrecH : ∀ y ∈ (startOf c e x.1 x.2 (a.table.runsFrom x.1 x.2.name).isEmpty a.nextId).hc,
          y.phen = x.1 ∧ y.pat = x.2.name := fun y hy => (hrec y (List.mem_append.mpr (.inl hy))).2
      have hrecU : ∀ y ∈ (startOf c e x.1 x.2 (a.table.runsFrom x.1 x.2.name).isEmpty a.nextId).upd,
          y.phen = x.1 ∧ y.pat = x.2.name := fun y hy => (hrec y (List.mem_append.mpr (.inr hy))).2
      refine ⟨Nat.le_trans hn1 ihn,
        (startOf c e x.1 x.2 (a.table.runsFrom x.1 x.2.name).isEmpty a.nextId).hc ++ dh,
        (startOf c e x.1 x.2 (a.table.runsFrom x.1 x.2.name).isEmpty a.nextId).upd ++ du,
        by rw [ihc, hhc, List.append_assoc], by rw [iupd, hupd, List.append_assoc], ?_, ?_⟩
      · intro ph pa hnot
        simp only [List.map_cons, List.mem_cons, not_or] at hnot
        obtain ⟨hne, hnr⟩ := hnot
        have hne' : ¬ (ph = x.1 ∧ pa = x.2.name) := fun hk => hne (by rw [hk.1, hk.2])
        obtain ⟨f1, f2, f3⟩ := iframe ph pa hnr
        refine ⟨?_, ?_, ?_⟩
        · rw [f1, hruns ph pa]; simp [hne']
        · rw [List.filter_append, f2, filter_patKey_other _ ph pa x.1 x.2.name hrecH hne']; rfl
        · rw [List.filter_append, f3, filter_patKey_other _ ph pa x.1 x.2.name hrecU hne']; rfl
      · intro y hy
        rcases List.mem_cons.mp hy with e1 | hyr
        · subst e1
          obtain ⟨f1, f2, f3⟩ := iframe y.1 y.2.name hnd.1
          refine ⟨a.nextId, Nat.le_refl _, Nat.le_trans hn1 ihn, ?_, ?_, ?_, ?_⟩
          · intro hne; have := hn3 hne; omega
          · rw [f1, hruns y.1 y.2.name]; simp
          · rw [List.filter_append, f2, filter_patKey_self _ y.1 y.2.name hrecH, List.append_nil]
          · rw [List.filter_append, f3, filter_patKey_self _ y.1 y.2.name hrecU, List.append_nil]
        · have hne' : ¬ (y.1 = x.1 ∧ y.2.name = x.2.name) := by
            intro hk
            apply hnd.1
            exact List.mem_map.mpr ⟨y, hyr, by rw [hk.1, hk.2]⟩
          have hbk : a1.table.runsFrom y.1 y.2.name = a.table.runsFrom y.1 y.2.name := by
            rw [hruns y.1 y.2.name]; simp [hne']
          obtain ⟨k, k1, k2, k3, k4, k5, k6⟩ := ielem y hyr
          rw [hbk] at k3 k4 k5 k6
          refine ⟨k, by omega, k2, k3, k4, ?_, ?_⟩
          · rw [List.filter_append, k5, filter_patKey_other _ y.1 y.2.name x.1 x.2.name hrecH hne']; rfl
          · rw [List.filter_append, k6, filter_patKey_other _ y.1 y.2.name x.1 x.2.name hrecU hne']; rfl


/-! ### one stored run: what `process` alone decides -/

/-- how `_check_against_runs` classifies what `process` did to a run. -/
inductive Fate where
  | kept        -- not changed (no effect, or a predicate raised): stays as it is, nothing announced
  | advanced    -- changed and still live: stays, announced as updated
  | completed   -- changed, finished and complete: leaves the table, announced as completed
  | halted      -- changed, finished and not complete: leaves the table, announced as halted
deriving DecidableEq, Repr

/-- the classification of stored run `r` on event `e` — a function of `process r.pat r.run e` only. -/
def fate (e : ε) (r : LRun ε) : Fate :=
  match (process r.pat r.run e).1 with
  | .ok true =>
    if (process r.pat r.run e).2.halted then
      if (process r.pat r.run e).2.isComplete r.pat.blocks.length then .completed else .halted
    else .advanced
  | _ => .kept

/-- the stored run after it has been offered the event (once). -/
def offered (e : ε) (r : LRun ε) : LRun ε := { r with run := (process r.pat r.run e).2 }

theorem contrib_by_fate (e : ε) (ph : String) (r : LRun ε) :
    contrib e ph r =
      match fate e r with
      | .kept => { keep := [offered e r], hc := [], hi := [], upd := [] }
      | .advanced => { keep := [offered e r], hc := [], hi := [], upd := [(offered e r).ser ph] }
      | .completed => { keep := [], hc := [(offered e r).ser ph], hi := [], upd := [] }
      | .halted => { keep := [], hc := [], hi := [(offered e r).ser ph], upd := [] } := by
  unfold contrib checkRun fate offered
  cases hp : process r.pat r.run e with
  | mk out run' =>
    cases out with
    | ok b =>
      cases b
      · simp
      · simp only
        by_cases hh : run'.halted = true
        · simp only [hh, if_true]
          by_cases hc : run'.isComplete r.pat.blocks.length = true
          · simp [hc]
          · simp [hc]
        · simp [hh]
    | raised => simp
    | indexError => simp

/-- a run classified as kept is exactly as it was. -/
theorem fate_kept_unchanged (e : ε) (r : LRun ε) (h : fate e r = .kept) : offered e r = r := by
  unfold fate at h
  unfold offered
  have : (process r.pat r.run e).2 = r.run := by
    cases hp : (process r.pat r.run e).1 with
    | ok b =>
      cases b
      · exact ok_false_unchanged r.pat r.run e hp
      · rw [hp] at h
        simp only at h
        split at h
        · split at h <;> cases h
        · cases h
    | raised => exact raise_leaves_run r.pat r.run e hp
    | indexError => exact index_error_leaves_run r.pat r.run e hp
  rw [this]

/-- identifiers the generator has not handed out yet are not in the table. -/
def FreshIds (c : Cfg ε) (s : DState ε) : Prop :=
  ∀ k, s.nextId ≤ k → ∀ ph pa, s.table.runAt ph pa (c.idOf k) = none

/-- no identifier is stored under two keys. -/
def OneKey (t : Table ε) : Prop :=
  ∀ ph pa ph' pa' id r r', t.runAt ph pa id = some r → t.runAt ph' pa' id = some r' → ph = ph' ∧ pa = pa'

/-! ### `localStep` taken apart -/

theorem localStep_decomp (c : Cfg ε) (s s' : DState ε) (e : ε) (nt : Notif ε) (ch : Bool)
    (hstep : localStep c s e = some (s', nt, ch)) :
    ∃ acc, checkAgainstPatterns c e (checkAgainstRuns e s.table).1 s.nextId = some acc ∧
      s'.table = acc.table ∧ s'.nextId = acc.nextId ∧
      nt.completed = (checkAgainstRuns e s.table).2.1 ++ acc.hc ∧
      nt.halted = (checkAgainstRuns e s.table).2.2.1 ∧
      nt.updated = (checkAgainstRuns e s.table).2.2.2 ++ acc.upd := by
  unfold localStep at hstep
  generalize checkAgainstRuns e s.table = car at hstep ⊢
  obtain ⟨t1, rhc, rhi, rupd⟩ := car
  simp only at hstep ⊢
  cases hcp : checkAgainstPatterns c e t1 s.nextId with
  | none => simp [hcp] at hstep
  | some acc =>
    simp only [hcp, Option.some.injEq, Prod.mk.injEq] at hstep
    obtain ⟨hs', hnt, _⟩ := hstep
    subst hs' hnt
    exact ⟨acc, rfl, by rw [maybeCache_table], by rw [maybeCache_nextId], rfl, rfl, rfl⟩

/-- **buckets after `update()`**: what `_check_against_runs` kept, followed by runs freshly started by this
event (`_check_against_patterns` never touches, re-offers or removes a run). -/
theorem localStep_bucket (c : Cfg ε) (s s' : DState ε) (e : ε) (nt : Notif ε) (ch : Bool)
    (hstep : localStep c s e = some (s', nt, ch)) (ph pa : String) :
    ∃ news, s'.table.runsFrom ph pa = (checkAgainstRuns e s.table).1.runsFrom ph pa ++ news ∧
      ∀ r' ∈ news, ∃ k p b0 b1 rest, s.nextId ≤ k ∧ k < s'.nextId ∧ (ph, p) ∈ c.flatPats ∧ p.name = pa ∧
        p.blocks = b0 :: b1 :: rest ∧ startMatch b0.preds e = true ∧
        r' = { run := newRun (c.idOf k) p b0.group e, pat := p } ∧ r'.ser ph ∈ nt.updated := by
  obtain ⟨acc, hcp, ht, hn, _, _, hu⟩ := localStep_decomp c s s' e nt ch hstep
  rw [checkAgainstPatterns_flat] at hcp
  obtain ⟨_, dh, du, _, hdu, _, hruns⟩ := foldPats_news c e c.flatPats _ acc hcp
  simp only [List.nil_append] at hdu
  obtain ⟨news, h1, h2⟩ := hruns ph pa
  refine ⟨news, by rw [ht, h1], ?_⟩
  intro r' hr'
  obtain ⟨k, p, b0, b1, rest, k1, k2, k3, k4, k5, k6, k7, k8⟩ := h2 r' hr'
  exact ⟨k, p, b0, b1, rest, k1, by rw [hn]; exact k2, k3, k4, k5, k6, k7,
    by rw [hu, hdu]; exact List.mem_append.mpr (.inr k8)⟩

/-- **where the records of a notification come from**: a record names a run the table held (runs phase) or
carries an identifier handed out in this step (patterns phase). -/
theorem localStep_record_origin (c : Cfg ε) (s s' : DState ε) (e : ε) (nt : Notif ε) (ch : Bool)
    (hwf : TableWF s.table) (hstep : localStep c s e = some (s', nt, ch)) :
    ∀ x ∈ nt.completed ++ nt.halted ++ nt.updated,
      (s.table.runAt x.phen x.pat x.id).isSome = true ∨ ∃ k, s.nextId ≤ k ∧ k < s'.nextId ∧ x.id = c.idOf k := by
  obtain ⟨acc, hcp, ht, hn, hc, hh, hu⟩ := localStep_decomp c s s' e nt ch hstep
  rw [checkAgainstPatterns_flat] at hcp
  obtain ⟨_, dh, du, hdh, hdu, hrange, _⟩ := foldPats_news c e c.flatPats _ acc hcp
  simp only [List.nil_append] at hdh hdu hrange
  have hprov := checkAgainstRuns_provenance e s.table hwf
  intro x hx
  rw [hc, hh, hu, hdh, hdu] at hx
  simp only [List.mem_append] at hx hprov
  rcases hx with ((h | h) | h) | (h | h)
  · exact .inl (hprov x (.inl (.inl h)))
  · obtain ⟨k, k1, k2, k3⟩ := hrange x (List.mem_append.mpr (.inl h))
    exact .inr ⟨k, k1, by rw [hn]; exact k2, k3⟩
  · exact .inl (hprov x (.inl (.inr h)))
  · exact .inl (hprov x (.inr h))
  · obtain ⟨k, k1, k2, k3⟩ := hrange x (List.mem_append.mpr (.inr h))
    exact .inr ⟨k, k1, by rw [hn]; exact k2, k3⟩

theorem find_news_none (news : List (LRun ε)) (id : String) (h : ∀ r' ∈ news, r'.run.id ≠ id) :
    news.find? (fun r => r.run.id == id) = none := by
  rw [List.find?_eq_none]
  intro x hx
  simpa using h x hx

/-- **one stored run, by key**: after `update()` the key holds what the run's own contribution keeps, and the
records of the notification naming the key are that run's own — whatever the other runs and the patterns
phase do. -/
theorem localStep_old_run_key (c : Cfg ε) (s s' : DState ε) (e : ε) (nt : Notif ε) (ch : Bool)
    (hwf : TableWF s.table) (hfresh : FreshIds c s) (hstep : localStep c s e = some (s', nt, ch))
    (ph pa id : String) (r : LRun ε) (hr : s.table.runAt ph pa id = some r) :
    s'.table.runAt ph pa id = (contrib e ph r).keep.head? ∧
    nt.completed.filter (keyMatch ph pa id) = (contrib e ph r).hc ∧
    nt.halted.filter (keyMatch ph pa id) = (contrib e ph r).hi ∧
    nt.updated.filter (keyMatch ph pa id) = (contrib e ph r).upd := by
  have hne : ∀ k, s.nextId ≤ k → c.idOf k ≠ id := by
    intro k hk heq
    have := hfresh k hk ph pa
    rw [heq, hr] at this
    cases this
  obtain ⟨p1, p2, p3, p4⟩ := checkAgainstRuns_perkey e s.table hwf ph pa id
  rw [hr] at p1 p2 p3 p4
  simp only [contribOf] at p1 p2 p3 p4
  obtain ⟨acc, hcp, ht, hn, hc, hh, hu⟩ := localStep_decomp c s s' e nt ch hstep
  rw [checkAgainstPatterns_flat] at hcp
  obtain ⟨_, dh, du, hdh, hdu, hrange, hruns⟩ := foldPats_news c e c.flatPats _ acc hcp
  simp only [List.nil_append] at hdh hdu hrange hruns
  have hnone : ∀ l : List (Rec ε), (∀ x ∈ l, x ∈ dh ++ du) → l.filter (keyMatch ph pa id) = [] := by
    intro l hl
    rw [List.filter_eq_nil_iff]
    intro x hx hk
    obtain ⟨k, k1, _, k3⟩ := hrange x (hl x hx)
    exact hne k k1 (by rw [← k3]; exact ((keyMatch_iff ph pa id x).mp hk).2.2.symm)
  refine ⟨?_, ?_, ?_, ?_⟩
  · obtain ⟨news, h1, h2⟩ := hruns ph pa
    rw [ht, runAt_def, h1, List.find?_append, ← runAt_def, p1]
    rw [find_news_none news id]
    · simp
    · intro r' hr' heq
      obtain ⟨k, p, b0, b1, rest, k1, _, _, _, _, _, k7, _⟩ := h2 r' hr'
      rw [k7] at heq
      exact hne k k1 heq
  · rw [hc, List.filter_append, p2, hdh, hnone dh (fun x hx => List.mem_append.mpr (.inl hx)), List.append_nil]
  · rw [hh, p3]
  · rw [hu, List.filter_append, p4, hdu, hnone du (fun x hx => List.mem_append.mpr (.inr hx)), List.append_nil]

/-- with one key per identifier, a record of the notification carrying the identifier of a stored run names
that run's key. -/
theorem localStep_id_names_key (c : Cfg ε) (s s' : DState ε) (e : ε) (nt : Notif ε) (ch : Bool)
    (hwf : TableWF s.table) (huniq : OneKey s.table) (hfresh : FreshIds c s)
    (hstep : localStep c s e = some (s', nt, ch))
    (ph pa id : String) (r : LRun ε) (hr : s.table.runAt ph pa id = some r) :
    ∀ x ∈ nt.completed ++ nt.halted ++ nt.updated, (x.id == id) = keyMatch ph pa id x := by
  intro x hx
  by_cases hid : x.id = id
  · have hk : keyMatch ph pa id x = true := by
      rcases localStep_record_origin c s s' e nt ch hwf hstep x hx with h | ⟨k, k1, _, k3⟩
      · obtain ⟨rx, hrx⟩ := (isSome_iff_exists _).mp h
        rw [hid] at hrx
        obtain ⟨e1, e2⟩ := huniq _ _ _ _ _ _ _ hr hrx
        exact (keyMatch_iff ph pa id x).mpr ⟨e1, e2, hid.symm⟩
      · exfalso
        have := hfresh k k1 ph pa
        rw [← k3, hid, hr] at this
        cases this
    rw [hk]; simpa using hid
  · have h1 : (x.id == id) = false := by simpa using hid
    rw [h1]
    cases hk : keyMatch ph pa id x with
    | false => rfl
    | true => exact absurd ((keyMatch_iff ph pa id x).mp hk).2.2.symm hid

theorem filter_congr_mem {α} (l : List α) (f g : α → Bool) (h : ∀ x ∈ l, f x = g x) : l.filter f = l.filter g := by
  induction l with
  | nil => rfl
  | cons a rest ih =>
    simp only [List.filter_cons, h a (List.mem_cons_self ..)]
    rw [ih (fun x hx => h x (List.mem_cons_of_mem _ hx))]

/-- **one stored run, by identifier.** -/
theorem localStep_old_run_id (c : Cfg ε) (s s' : DState ε) (e : ε) (nt : Notif ε) (ch : Bool)
    (hwf : TableWF s.table) (huniq : OneKey s.table) (hfresh : FreshIds c s)
    (hstep : localStep c s e = some (s', nt, ch))
    (ph pa id : String) (r : LRun ε) (hr : s.table.runAt ph pa id = some r) :
    s'.table.runAt ph pa id = (contrib e ph r).keep.head? ∧
    nt.completed.filter (fun x => x.id == id) = (contrib e ph r).hc ∧
    nt.halted.filter (fun x => x.id == id) = (contrib e ph r).hi ∧
    nt.updated.filter (fun x => x.id == id) = (contrib e ph r).upd := by
  obtain ⟨q1, q2, q3, q4⟩ := localStep_old_run_key c s s' e nt ch hwf hfresh hstep ph pa id r hr
  have hk := localStep_id_names_key c s s' e nt ch hwf huniq hfresh hstep ph pa id r hr
  refine ⟨q1, ?_, ?_, ?_⟩
  · rw [← q2]; exact filter_congr_mem _ _ _ (fun x hx => hk x (by simp [hx]))
  · rw [← q3]; exact filter_congr_mem _ _ _ (fun x hx => hk x (by simp [hx]))
  · rw [← q4]; exact filter_congr_mem _ _ _ (fun x hx => hk x (by simp [hx]))

/-- **one configured pattern, exactly** (pairwise different pattern keys): the pattern's bucket after
`update()` is what `_check_against_runs` left in it plus what `startOf` says, DECIDED ON THE BUCKET AS
`_check_against_runs` LEFT IT; likewise the completed / updated records of that bucket. -/
theorem localStep_pattern_exact (c : Cfg ε) (hnd : PatKeysNodup c) (s s' : DState ε) (e : ε) (nt : Notif ε)
    (ch : Bool) (hstep : localStep c s e = some (s', nt, ch))
    (P : Phen ε) (hP : P ∈ c.phenomena) (p : Pattern ε) (hp : p ∈ P.patterns) :
    ∃ k, s.nextId ≤ k ∧ k ≤ s'.nextId ∧
      ((startOf c e P.name p ((checkAgainstRuns e s.table).1.runsFrom P.name p.name).isEmpty k).hc ++
        (startOf c e P.name p ((checkAgainstRuns e s.table).1.runsFrom P.name p.name).isEmpty k).upd ≠ [] →
          k < s'.nextId) ∧
      s'.table.runsFrom P.name p.name = (checkAgainstRuns e s.table).1.runsFrom P.name p.name ++
        (startOf c e P.name p ((checkAgainstRuns e s.table).1.runsFrom P.name p.name).isEmpty k).runs ∧
      nt.completed.filter (patKey P.name p.name) =
        (checkAgainstRuns e s.table).2.1.filter (patKey P.name p.name) ++
          (startOf c e P.name p ((checkAgainstRuns e s.table).1.runsFrom P.name p.name).isEmpty k).hc ∧
      nt.updated.filter (patKey P.name p.name) =
        (checkAgainstRuns e s.table).2.2.2.filter (patKey P.name p.name) ++
          (startOf c e P.name p ((checkAgainstRuns e s.table).1.runsFrom P.name p.name).isEmpty k).upd := by
  obtain ⟨acc, hcp, ht, hn, hc, hh, hu⟩ := localStep_decomp c s s' e nt ch hstep
  rw [checkAgainstPatterns_flat] at hcp
  obtain ⟨_, dh, du, hdh, hdu, _, helem⟩ := foldPats_spec c e c.flatPats hnd _ acc hcp
  simp only [List.nil_append] at hdh hdu
  obtain ⟨k, k1, k2, k3, k4, k5, k6⟩ := helem (P.name, p) (mem_flatPats c P hP p hp)
  simp only at k1 k2 k3 k4 k5 k6
  refine ⟨k, k1, by rw [hn]; exact k2, by rw [hn]; exact k3, by rw [ht]; exact k4, ?_, ?_⟩
  · rw [hc, List.filter_append, hdh, k5]
  · rw [hu, List.filter_append, hdu, k6]


/-! ### further packaging -/

/-- the records of a list that carry identifier `id`. -/
def mentions (l : List (Rec ε)) (id : String) : List (Rec ε) := l.filter (fun x => x.id == id)

theorem fate_advanced (e : ε) (r : LRun ε) (h : fate e r = .advanced) :
    (process r.pat r.run e).1 = .ok true ∧ (offered e r).run.halted = false := by
  unfold fate at h
  unfold offered
  cases hp : (process r.pat r.run e).1 with
  | ok b =>
    cases b
    · rw [hp] at h; cases h
    · rw [hp] at h
      simp only at h
      split at h
      · split at h <;> cases h
      · rename_i hh; exact ⟨rfl, by simpa using hh⟩
  | raised => rw [hp] at h; cases h
  | indexError => rw [hp] at h; cases h

theorem fate_completed (e : ε) (r : LRun ε) (h : fate e r = .completed) :
    (process r.pat r.run e).1 = .ok true ∧ (offered e r).run.halted = true ∧
      (offered e r).run.isComplete r.pat.blocks.length = true := by
  unfold fate at h
  unfold offered
  cases hp : (process r.pat r.run e).1 with
  | ok b =>
    cases b
    · rw [hp] at h; cases h
    · rw [hp] at h
      simp only at h
      split at h
      · rename_i hh
        split at h
        · rename_i hc; exact ⟨rfl, hh, hc⟩
        · cases h
      · cases h
  | raised => rw [hp] at h; cases h
  | indexError => rw [hp] at h; cases h

theorem fate_halted (e : ε) (r : LRun ε) (h : fate e r = .halted) :
    (process r.pat r.run e).1 = .ok true ∧ (offered e r).run.halted = true ∧
      (offered e r).run.isComplete r.pat.blocks.length = false := by
  unfold fate at h
  unfold offered
  cases hp : (process r.pat r.run e).1 with
  | ok b =>
    cases b
    · rw [hp] at h; cases h
    · rw [hp] at h
      simp only at h
      split at h
      · rename_i hh
        split at h
        · cases h
        · rename_i hc; exact ⟨rfl, hh, by simpa using hc⟩
      · cases h
  | raised => rw [hp] at h; cases h
  | indexError => rw [hp] at h; cases h

/-- whatever a key holds after `update()` was held under that key before, or carries an identifier handed
out in this step. -/
theorem localStep_key_origin (c : Cfg ε) (s s' : DState ε) (e : ε) (nt : Notif ε) (ch : Bool)
    (hwf : TableWF s.table) (hstep : localStep c s e = some (s', nt, ch))
    (ph pa id : String) (r' : LRun ε) (h : s'.table.runAt ph pa id = some r') :
    (s.table.runAt ph pa id).isSome = true ∨ ∃ k, s.nextId ≤ k ∧ k < s'.nextId ∧ id = c.idOf k := by
  obtain ⟨news, h1, h2⟩ := localStep_bucket c s s' e nt ch hstep ph pa
  rw [runAt_def, h1, List.find?_append] at h
  cases hf : ((checkAgainstRuns e s.table).1.runsFrom ph pa).find? (fun r => r.run.id == id) with
  | some r1 => exact .inl (checkAgainstRuns_kept_old e s.table hwf ph pa id r1 (by rw [runAt_def]; exact hf))
  | none =>
    rw [hf] at h
    simp only [Option.none_or] at h
    have hm := List.mem_of_find?_eq_some h
    have hid : r'.run.id = id := by simpa using List.find?_some h
    obtain ⟨k, p, b0, b1, rest, k1, k2, _, _, _, _, k7, _⟩ := h2 r' hm
    exact .inr ⟨k, k1, k2, by rw [← hid, k7]; rfl⟩

/-- with memory enabled and nothing evicted, the finished records of the step are appended to the memory. -/
theorem localStep_caches (c : Cfg ε) (hc : c.caching = true) (s s' : DState ε) (e : ε) (nt : Notif ε) (ch : Bool)
    (hstep : localStep c s e = some (s', nt, ch))
    (hevC : s.cacheC.length + nt.completed.length ≤ c.maxCache)
    (hevH : s.cacheH.length + nt.halted.length ≤ c.maxCache) :
    s'.cacheC = s.cacheC ++ nt.completed ∧ s'.cacheH = s.cacheH ++ nt.halted := by
  unfold localStep at hstep
  generalize checkAgainstRuns e s.table = car at hstep
  obtain ⟨t1, rhc, rhi, rupd⟩ := car
  simp only at hstep
  cases hcp : checkAgainstPatterns c e t1 s.nextId with
  | none => simp [hcp] at hstep
  | some acc =>
    simp only [hcp, Option.some.injEq, Prod.mk.injEq] at hstep
    obtain ⟨hs', hnt, _⟩ := hstep
    subst hnt
    simp only at hevC hevH
    rw [maybeCache_noevict c hc _ _ _ (by simpa using hevC) (by simpa using hevH)] at hs'
    subst hs'
    exact ⟨rfl, rfl⟩


/-- the run keys of a table, in iteration order. -/
def Table.keys (t : Table ε) : List (String × String × String) :=
  t.buckets.flatMap (fun b => b.2.2.map (fun r => (b.1, b.2.1, r.run.id)))

/-- a key that holds a run is one of the table's keys (to check `OneKey` / `FreshIds` on a concrete table). -/
theorem runAt_mem_keys (t : Table ε) (ph pa id : String) (r : LRun ε) (h : t.runAt ph pa id = some r) :
    (ph, pa, id) ∈ t.keys := by
  rw [runAt_def] at h
  have hm := List.mem_of_find?_eq_some h
  have hid : r.run.id = id := by simpa using List.find?_some h
  have hne : t.runsFrom ph pa ≠ [] := List.ne_nil_of_mem hm
  have hb := buckets_of_runsFrom_ne_nil t ph pa hne
  unfold Table.keys
  exact List.mem_flatMap.mpr ⟨_, hb, List.mem_map.mpr ⟨r, hm, by rw [hid]⟩⟩

theorem oneKey_of_keys (t : Table ε) (h : (t.keys.map (·.2.2)).Nodup) : OneKey t := by
  intro ph pa ph' pa' id r r' h1 h2
  have m1 := runAt_mem_keys t ph pa id r h1
  have m2 := runAt_mem_keys t ph' pa' id r' h2
  have := eq_of_nodup_map t.keys (·.2.2) h _ m1 _ m2 rfl
  simp only [Prod.mk.injEq] at this
  exact ⟨this.1, this.2.1⟩

theorem freshIds_of_keys (c : Cfg ε) (s : DState ε)
    (h : ∀ k, s.nextId ≤ k → c.idOf k ∉ s.table.keys.map (·.2.2)) : FreshIds c s := by
  intro k hk ph pa
  cases hr : s.table.runAt ph pa (c.idOf k) with
  | none => rfl
  | some r =>
    exact absurd (List.mem_map.mpr ⟨_, runAt_mem_keys _ _ _ _ r hr, rfl⟩) (h k hk)

end Bobo.Decider
