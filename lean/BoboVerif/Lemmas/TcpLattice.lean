import BoboVerif.Lemmas.Lattice
import BoboVerif.Lemmas.Net
import BoboVerif.Lemmas.TcpRun
/-!
The outgoing-loop model (`Bobo.Tcp`, Model/Tcp.lean) connected with the status lattice
(Lemmas/Lattice.lean) for ONE run key, ONE sender and ONE receiver `j`: records are statuses, the
meaning of a message is the join of its records, the receiver applies a message by joining its
meaning into what it knows.

`Pair` = the sender's `TState Status` + ghosts (`own`: join of everything the sender announced,
`missing`: the accounting ghost of Lemmas/TcpRun.lean) + the sender's knowledge `knowS` + the
receiver's knowledge `knowJ` + `wire`: payloads whose send to `j` was reported successful and that `j`
has not applied yet.

Invariant `PInv` (inductive over every step sequence with monotone decision clocks, `pinv_run`):
the accounting invariant `Acct`, `own ≤ knowS`, and
  `j` is in the resync period at every clock `≥ L`   ∨   `own ≤ knowJ ⊔ ⨆ wire ⊔ ⨆ missing`.
The headline theorem `idle_pair_knows_everything` is in the last section of Props/C06.lean.
-/
namespace Bobo.Tcp
open Bobo.Lattice
open Bobo.Net (le_joinAll_of_mem joinAll_le join_mono joinAll_eraseIdx_le)

/-! ### two more facts about one pass, for any record type -/
section
variable {Rec : Type}

/-- a RESYNC on the wire carries exactly the snapshot given to the pass. -/
theorem wire_resync_payload (s : TState Rec) (now : Int) (snap : Msg Rec) (outcome : Nat → Nat × Int) (j : Nat)
    (w : Wire Rec) (hw : (outIter s now snap outcome).2.find? (fun w => w.peer == j) = some w)
    (ht : w.typ = .resync) : w.payload = snap := by
  rw [outIter_wire] at hw
  cases he : s.peers[j]? with
  | none => rw [he] at hw; cases hw
  | some e =>
    rw [he] at hw
    simp only [Option.bind_some] at hw
    cases hd : decideEntry s.cfg s.self now s.queue.isEmpty e with
    | none => rw [hd] at hw; cases hw
    | some ts =>
      rw [hd] at hw
      simp only [Option.map_some, Option.some.injEq] at hw
      subst hw
      simp only [wireOf] at ht ⊢
      rw [ht]; rfl

/-- a device in the resync period at the decision: either its `last_comms` is unchanged by the pass
(nothing sent, or a send reported failed), or a RESYNC carrying the snapshot was reported delivered. -/
theorem resync_pass (s : TState Rec) (now : Int) (snap : Msg Rec) (outcome : Nat → Nat × Int)
    (j : Nat) (urn : String) (p : Peer Rec) (he : s.peers[j]? = some (urn, p)) (hself : urn ≠ s.self)
    (hres : now - p.lastComms ≥ s.cfg.periodResync) :
    (∃ p', (outIter s now snap outcome).1.peers[j]? = some (urn, p') ∧ p'.lastComms = p.lastComms ∧
      ((outIter s now snap outcome).2.find? (fun w => w.peer == j) = none ∨ (outcome j).1 ≠ 0)) ∨
    (∃ w, (outIter s now snap outcome).2.find? (fun w => w.peer == j) = some w ∧ w.typ = .resync ∧
      w.payload = snap ∧ (outcome j).1 = 0) := by
  obtain ⟨hw, hp⟩ := outIter_device s now snap outcome j (urn, p) he hself
  simp only at hw hp
  have hdec : decideOne s.cfg now s.queue.isEmpty p
      = if now - p.lastAttempt ≥ s.cfg.attemptResync then some .resync else none := by
    unfold decideOne; exact resync_only _ _ _ _ _ hres
  by_cases ha : now - p.lastAttempt ≥ s.cfg.attemptResync
  · rw [hdec, if_pos ha] at hw hp
    simp only [Option.map_some] at hw
    by_cases herr : (outcome j).1 = 0
    · exact Or.inr ⟨_, hw, rfl, rfl, herr⟩
    · refine Or.inl ⟨_, hp, ?_, Or.inr herr⟩
      exact (book_failure .resync p.resets snap (cacheOf s.queue) _ herr (outcome j).2 p).1
  · rw [hdec, if_neg ha] at hw hp
    simp only [Option.map_none] at hw
    exact Or.inl ⟨p, hp, rfl, Or.inl hw⟩

end

/-! ### lattice lemmas -/

theorem joinAll_nil : joinAll [] = bot := rfl

theorem joinAll_singleton (x : Status) : joinAll [x] = x := by
  rw [joinAll_cons, joinAll_nil, join_bot_right]

/-- what a successful SYNC removes from the ghost is below the meaning of its payload. -/
theorem joinAll_filter_le (l r : List Status) :
    joinAll l ≤ join (joinAll (l.filter (fun x => x ∉ r))) (joinAll r) := by
  apply joinAll_le
  intro x hx
  by_cases hr : x ∈ r
  · exact le_trans (le_joinAll_of_mem hr) (le_join_right _ _)
  · exact le_trans (le_joinAll_of_mem (List.mem_filter.mpr ⟨hx, by simpa using hr⟩)) (le_join_left _ _)

theorem joinAll_map_eraseIdx_le {α : Type} (f : α → Status) (l : List α) (k : Nat) (m : α) (h : l[k]? = some m) :
    joinAll (l.map f) ≤ join (f m) (joinAll ((l.eraseIdx k).map f)) := by
  induction l generalizing k with
  | nil => simp at h
  | cons y rest ih =>
    cases k with
    | zero =>
      simp at h; subst h
      simp only [List.eraseIdx_cons_zero, List.map_cons]
      rw [joinAll_cons]; exact le_refl _
    | succ k =>
      simp only [List.getElem?_cons_succ] at h
      simp only [List.eraseIdx_cons_succ, List.map_cons]
      rw [joinAll_cons, joinAll_cons]
      refine join_le ?_ ?_
      · exact le_trans (le_join_left _ _) (le_join_right _ _)
      · exact le_trans (ih k h) (join_mono (le_refl _) (le_join_right _ _))

/-- `a ≤ (x ⊔ y) ⊔ z` is monotone in `x`, `y`, `z`. -/
theorem le_join3_mono {a x y z x' y' z' : Status} (h : a ≤ join (join x y) z)
    (hx : x ≤ x') (hy : y ≤ y') (hz : z ≤ z') : a ≤ join (join x' y') z' :=
  le_trans h (join_mono (join_mono hx hy) hz)

/-! ### the pair -/

/-- what a message means to the receiver: the join of the statuses it carries. -/
def meaning (m : Msg Status) : Status := joinAll (recs m)

/-- the join of what is on the wire. -/
def wireJoin (wire : List (Msg Status)) : Status := joinAll (wire.map meaning)

theorem wireJoin_append (w : List (Msg Status)) (m : Msg Status) :
    wireJoin (w ++ [m]) = join (wireJoin w) (meaning m) := by
  simp only [wireJoin, List.map_append, List.map_cons, List.map_nil]
  rw [joinAll_append, joinAll_singleton]

/-- one sender, one receiver `j`, one run key. -/
structure Pair where
  t       : TState Status          -- the sender's transport state
  own     : Status                 -- ghost: join of everything the sender announced
  knowS   : Status                 -- what the sender knows (its own changes and what it learnt from others)
  knowJ   : Status                 -- what the receiver knows
  wire    : List (Msg Status)      -- sent to `j` with success reported, not yet applied by `j`
  missing : List Status            -- the accounting ghost (`missStep`)

inductive PStep where
  /-- a local change: announced (`own`), known (`knowS`), queued (`push m`). -/
  | say (m : Msg Status)
  /-- the sender learns something from another peer. -/
  | learn (d : Status)
  /-- one pass of the outgoing loop; the snapshot is the sender's whole knowledge for this key. -/
  | pass (now : Int) (outcome : Nat → Nat × Int)
  /-- `j` applies the `k`-th message on the wire, which is removed. -/
  | deliver (k : Nat)
  /-- `j` applies the `k`-th message on the wire, which stays there (duplicate delivery). -/
  | redeliver (k : Nat)
  /-- the sender's listener handles a message from device `i` with flags `flags`. -/
  | incoming (i flags : Nat)
  /-- `j` loses its state and says so (RESET); what is on the wire survives or not. -/
  | restartJ (keep : Bool)

/-- the snapshot of a pass: one `updated` record with everything the sender knows. -/
def snapOf (P : Pair) : Msg Status := ⟨[], [], [P.knowS]⟩

/-- the wire after a pass: the payload handed to the network for `j`, if its send was reported successful. -/
def wireAfter (j : Nat) (wire : List (Msg Status)) (wires : List (Wire Status)) (outcome : Nat → Nat × Int) :
    List (Msg Status) :=
  match wires.find? (fun w => w.peer == j) with
  | some w => if (outcome j).1 = 0 then wire ++ [w.payload] else wire
  | none => wire

def pstep (j : Nat) (P : Pair) : PStep → Pair
  | .say m =>
    { P with t := push P.t m, own := join P.own (meaning m), knowS := join P.knowS (meaning m),
             missing := missStep j P.t P.missing (.push m) }
  | .learn d => { P with knowS := join P.knowS d }
  | .pass now outcome =>
    { P with t := (outIter P.t now (snapOf P) outcome).1,
             wire := wireAfter j P.wire (outIter P.t now (snapOf P) outcome).2 outcome,
             missing := missStep j P.t P.missing (.pass now (snapOf P) outcome) }
  | .deliver k =>
    match P.wire[k]? with
    | some m => { P with knowJ := join P.knowJ (meaning m), wire := P.wire.eraseIdx k }
    | none => P
  | .redeliver k =>
    match P.wire[k]? with
    | some m => { P with knowJ := join P.knowJ (meaning m) }
    | none => P
  | .incoming i flags => { P with t := incoming P.t i flags }
  | .restartJ keep =>
    { P with t := incoming P.t j FLAG_RESET, knowJ := bot, wire := if keep then P.wire else [] }

def prun (j : Nat) (P : Pair) : List PStep → Pair
  | [] => P
  | x :: xs => prun j (pstep j P x) xs

/-- the decision clock of the last pass (`L0`: a clock reading taken before the run). -/
def pLastNow (L0 : Int) : List PStep → Int
  | [] => L0
  | .pass now _ :: xs => pLastNow now xs
  | .say _ :: xs => pLastNow L0 xs
  | .learn _ :: xs => pLastNow L0 xs
  | .deliver _ :: xs => pLastNow L0 xs
  | .redeliver _ :: xs => pLastNow L0 xs
  | .incoming _ _ :: xs => pLastNow L0 xs
  | .restartJ _ :: xs => pLastNow L0 xs

/-- the decision clocks of the passes never go backwards and start at or after `L0`. -/
def PMono (L0 : Int) : List PStep → Prop
  | [] => True
  | .pass now _ :: xs => L0 ≤ now ∧ PMono now xs
  | .say _ :: xs => PMono L0 xs
  | .learn _ :: xs => PMono L0 xs
  | .deliver _ :: xs => PMono L0 xs
  | .redeliver _ :: xs => PMono L0 xs
  | .incoming _ _ :: xs => PMono L0 xs
  | .restartJ _ :: xs => PMono L0 xs

instance decPMono : (L0 : Int) → (steps : List PStep) → Decidable (PMono L0 steps)
  | _, [] => isTrue trivial
  | L0, .pass now _ :: xs =>
    have := decPMono now xs
    inferInstanceAs (Decidable (L0 ≤ now ∧ PMono now xs))
  | L0, .say _ :: xs => decPMono L0 xs
  | L0, .learn _ :: xs => decPMono L0 xs
  | L0, .deliver _ :: xs => decPMono L0 xs
  | L0, .redeliver _ :: xs => decPMono L0 xs
  | L0, .incoming _ _ :: xs => decPMono L0 xs
  | L0, .restartJ _ :: xs => decPMono L0 xs

theorem pLastNow_ge (steps : List PStep) : ∀ L0, PMono L0 steps → L0 ≤ pLastNow L0 steps := by
  induction steps with
  | nil => intro L0 _; exact Int.le_refl _
  | cons x xs ih =>
    intro L0 h
    cases x with
    | pass now outcome => exact Int.le_trans h.1 (ih now h.2)
    | say m => exact ih L0 h
    | learn d => exact ih L0 h
    | deliver k => exact ih L0 h
    | redeliver k => exact ih L0 h
    | incoming i f => exact ih L0 h
    | restartJ keep => exact ih L0 h

/-! ### the invariant -/

/-- `j` is in the resync period at every clock `≥ L`. -/
def ResyncFrom (j : Nat) (t : TState Status) (L : Int) : Prop :=
  ∃ e, t.peers[j]? = some e ∧ ∀ now', now' ≥ L → now' - e.2.lastComms ≥ t.cfg.periodResync

/-- J1 with the flight decomposed: everything the sender announced is known to `j`, on the wire to
`j`, or still counted as missing by the accounting ghost. -/
def Flow (P : Pair) : Prop := P.own ≤ join (join P.knowJ (wireJoin P.wire)) (joinAll P.missing)

structure PInv (j : Nat) (urn : String) (P : Pair) (L : Int) : Prop where
  /-- realistic clocks: the last clock reading is at least `period_resync` (seconds since 1970). -/
  epoch : P.t.cfg.periodResync ≤ L
  /-- the sender knows what it announced. -/
  ownS  : P.own ≤ P.knowS
  /-- the accounting invariant of Lemmas/TcpRun.lean. -/
  acct  : Acct j urn P.t P.missing L
  flow  : ResyncFrom j P.t L ∨ Flow P

theorem resyncFrom_mono {j : Nat} {t : TState Status} {L L' : Int} (h : L ≤ L') (hr : ResyncFrom j t L) :
    ResyncFrom j t L' := by
  obtain ⟨e, he, hA⟩ := hr
  exact ⟨e, he, fun now' hn => hA now' (by omega)⟩

theorem pinv_mono {j : Nat} {urn : String} {P : Pair} {L L' : Int} (h : L ≤ L') (hi : PInv j urn P L) :
    PInv j urn P L' :=
  ⟨Int.le_trans hi.epoch h, hi.ownS, acct_mono h hi.acct, hi.flow.imp (resyncFrom_mono h) id⟩

/-- after a RESET from `j` the device is in the resync period at every realistic clock. -/
theorem resyncFrom_reset (j : Nat) (urn : String) (t : TState Status) (p : Peer Status) (L : Int)
    (he : t.peers[j]? = some (urn, p)) (hep : t.cfg.periodResync ≤ L) :
    ResyncFrom j (incoming t j FLAG_RESET) L := by
  refine ⟨(urn, onIncomingFlags FLAG_RESET p), ?_, ?_⟩
  · simp only [incoming]; rw [incomingPeers_self, he]; rfl
  · intro now' hn
    have h0 : (onIncomingFlags FLAG_RESET p).lastComms = 0 := by
      simp [onIncomingFlags, FLAG_RESET, Peer.clearLast]
    show now' - (onIncomingFlags FLAG_RESET p).lastComms ≥ t.cfg.periodResync
    rw [h0]; omega

/-- a listener step keeps `j` in the resync period (realistic clocks). -/
theorem resyncFrom_incoming (j : Nat) (t : TState Status) (L : Int) (i flags : Nat)
    (hep : t.cfg.periodResync ≤ L) (hr : ResyncFrom j t L) : ResyncFrom j (incoming t i flags) L := by
  obtain ⟨e, he, hA⟩ := hr
  by_cases hij : i = j
  · subst hij
    refine ⟨(e.1, onIncomingFlags flags e.2), ?_, ?_⟩
    · simp only [incoming]; rw [incomingPeers_self, he]; rfl
    · intro now' hn
      by_cases hf : flags &&& FLAG_RESET = FLAG_RESET
      · have h0 : (onIncomingFlags flags e.2).lastComms = 0 := by simp [onIncomingFlags, hf, Peer.clearLast]
        show now' - (onIncomingFlags flags e.2).lastComms ≥ t.cfg.periodResync
        rw [h0]; omega
      · have h0 : onIncomingFlags flags e.2 = e.2 := by simp [onIncomingFlags, hf]
        show now' - (onIncomingFlags flags e.2).lastComms ≥ t.cfg.periodResync
        rw [h0]; exact hA now' hn
  · refine ⟨e, ?_, hA⟩
    simp only [incoming]; rw [incomingPeers_ne _ _ _ _ hij]; exact he

/-- the pass, lattice side: a RESYNC reported delivered re-establishes `Flow` from `own ≤ knowS` alone. -/
theorem flow_pass_resync (j : Nat) (P : Pair) (now : Int) (outcome : Nat → Nat × Int) (w : Wire Status)
    (hown : P.own ≤ P.knowS)
    (hw : (outIter P.t now (snapOf P) outcome).2.find? (fun w => w.peer == j) = some w)
    (ht : w.typ = .resync) (herr : (outcome j).1 = 0) :
    Flow (pstep j P (.pass now outcome)) := by
  have hpay := wire_resync_payload P.t now (snapOf P) outcome j w hw ht
  have hwire : (pstep j P (.pass now outcome)).wire = P.wire ++ [snapOf P] := by
    simp only [pstep, wireAfter, hw, herr, if_true, hpay]
  have hmean : meaning (snapOf P) = P.knowS := by
    simp [meaning, snapOf, recs, joinAll_singleton]
  unfold Flow
  rw [hwire, wireJoin_append, hmean]
  have : (pstep j P (.pass now outcome)).own = P.own := rfl
  rw [this]
  exact le_trans hown (le_trans (le_trans (le_join_right _ _) (le_join_right _ _)) (le_join_left _ _))

/-- the pass, lattice side: `Flow` is preserved whatever the pass does for `j`. -/
theorem flow_pass (j : Nat) (P : Pair) (now : Int) (outcome : Nat → Nat × Int)
    (hown : P.own ≤ P.knowS) (hf : Flow P) : Flow (pstep j P (.pass now outcome)) := by
  cases hw : (outIter P.t now (snapOf P) outcome).2.find? (fun w => w.peer == j) with
  | none =>
    have h1 : (pstep j P (.pass now outcome)).wire = P.wire := by simp only [pstep, wireAfter, hw]
    have h2 : (pstep j P (.pass now outcome)).missing = P.missing := by simp only [pstep, missStep, hw]
    unfold Flow; rw [h1, h2]; exact hf
  | some w =>
    by_cases herr : (outcome j).1 = 0
    · have h1 : (pstep j P (.pass now outcome)).wire = P.wire ++ [w.payload] := by
        simp only [pstep, wireAfter, hw, herr, if_true]
      cases ht : w.typ with
      | resync => exact flow_pass_resync j P now outcome w hown hw ht herr
      | sync =>
        have h2 : (pstep j P (.pass now outcome)).missing
            = P.missing.filter (fun x => x ∉ recs w.payload) := by
          simp [pstep, missStep, hw, herr, ht]
        unfold Flow; rw [h1, h2, wireJoin_append]
        refine le_trans hf (join_le (join_le ?_ ?_) ?_)
        · exact le_trans (le_join_left _ _) (le_join_left _ _)
        · exact le_trans (le_trans (le_join_left _ _) (le_join_right _ _)) (le_join_left _ _)
        · refine le_trans (joinAll_filter_le P.missing (recs w.payload)) (join_le (le_join_right _ _) ?_)
          exact le_trans (le_trans (le_join_right _ _) (le_join_right _ _)) (le_join_left _ _)
      | ping =>
        have h2 : (pstep j P (.pass now outcome)).missing = P.missing := by
          simp [pstep, missStep, hw, ht]
        unfold Flow; rw [h1, h2, wireJoin_append]
        exact le_join3_mono hf (le_refl _) (le_join_left _ _) (le_refl _)
    · have h1 : (pstep j P (.pass now outcome)).wire = P.wire := by
        simp only [pstep, wireAfter, hw, herr, if_false]
      have h2 : (pstep j P (.pass now outcome)).missing = P.missing := by
        simp [pstep, missStep, hw, herr]
      unfold Flow; rw [h1, h2]; exact hf

/-- the last decision clock after one more step. -/
def nextL (L : Int) : PStep → Int
  | .pass now _ => now
  | _ => L

/-- one step of the pair preserves the invariant, with the new last clock made explicit (`nextL`). -/
theorem pinv_step' (j : Nat) (urn : String) (P : Pair) (L : Int) (x : PStep) (xs : List PStep)
    (hm : PMono L (x :: xs)) (h : PInv j urn P L) :
    PInv j urn (pstep j P x) (nextL L x) ∧ PMono (nextL L x) xs ∧
      pLastNow L (x :: xs) = pLastNow (nextL L x) xs := by
  obtain ⟨hep, hown, hacct, hflow⟩ := h
  cases x with
  | say m =>
    refine ⟨⟨hep, ?_, acct_push m hacct, ?_⟩, hm, rfl⟩
    · exact join_mono hown (le_refl _)
    · rcases hflow with hr | hf
      · exact Or.inl hr
      · right
        show join P.own (meaning m) ≤ join (join P.knowJ (wireJoin P.wire)) (joinAll (P.missing ++ recs m))
        rw [joinAll_append]
        exact join_le (le_trans hf (join_mono (le_refl _) (le_join_left _ _)))
          (le_trans (le_join_right _ _) (le_join_right _ _))
  | learn d =>
    exact ⟨⟨hep, le_trans hown (le_join_left _ _), hacct, hflow⟩, hm, rfl⟩
  | deliver k =>
    refine ⟨?_, hm, rfl⟩
    cases hk : P.wire[k]? with
    | none =>
      have : pstep j P (.deliver k) = P := by simp only [pstep, hk]
      rw [this]; exact ⟨hep, hown, hacct, hflow⟩
    | some m =>
      have : pstep j P (.deliver k) = { P with knowJ := join P.knowJ (meaning m), wire := P.wire.eraseIdx k } := by
        simp only [pstep, hk]
      rw [this]
      refine ⟨hep, hown, hacct, hflow.imp id ?_⟩
      intro hf
      refine le_trans hf (join_le (join_le ?_ ?_) (le_join_right _ _))
      · exact le_trans (le_trans (le_join_left _ _) (le_join_left _ _)) (le_join_left _ _)
      · refine le_trans (joinAll_map_eraseIdx_le meaning P.wire k m hk) ?_
        refine le_trans ?_ (le_join_left _ _)
        exact join_le (le_trans (le_join_right _ _) (le_join_left _ _)) (le_join_right _ _)
  | redeliver k =>
    refine ⟨?_, hm, rfl⟩
    cases hk : P.wire[k]? with
    | none =>
      have : pstep j P (.redeliver k) = P := by simp only [pstep, hk]
      rw [this]; exact ⟨hep, hown, hacct, hflow⟩
    | some m =>
      have : pstep j P (.redeliver k) = { P with knowJ := join P.knowJ (meaning m) } := by
        simp only [pstep, hk]
      rw [this]
      refine ⟨hep, hown, hacct, hflow.imp id ?_⟩
      intro hf
      exact le_join3_mono hf (le_join_left _ _) (le_refl _) (le_refl _)
  | incoming i flags =>
    refine ⟨⟨hep, hown, acct_incoming i flags hacct, ?_⟩, hm, rfl⟩
    rcases hflow with hr | hf
    · exact Or.inl (resyncFrom_incoming j P.t L i flags hep hr)
    · exact Or.inr hf
  | restartJ keep =>
    have hacct' := hacct
    obtain ⟨p, he, _, _, _⟩ := hacct'
    exact ⟨⟨hep, hown, acct_incoming j FLAG_RESET hacct, Or.inl (resyncFrom_reset j urn P.t p L he hep)⟩, hm, rfl⟩
  | pass now outcome =>
    obtain ⟨hLn, hm'⟩ := hm
    refine ⟨⟨Int.le_trans hep hLn, hown, acct_pass now (snapOf P) outcome hLn hacct, ?_⟩, hm', rfl⟩
    rcases hflow with hr | hf
    · obtain ⟨p, he, hself, _, _⟩ := hacct
      obtain ⟨e, he', hA⟩ := hr
      rw [he] at he'; cases he'
      rcases resync_pass P.t now (snapOf P) outcome j urn p he hself (hA now hLn) with
        ⟨p', hp', hlc', _⟩ | ⟨w, hw, ht, _, herr⟩
      · left
        refine ⟨(urn, p'), hp', ?_⟩
        intro now' hn
        have hn' : now' ≥ now := hn
        have := hA now hLn
        show now' - p'.lastComms ≥ P.t.cfg.periodResync
        rw [hlc']; simp only at this; omega
      · exact Or.inr (flow_pass_resync j P now outcome w hown hw ht herr)
    · exact Or.inr (flow_pass j P now outcome hown hf)

/-- **one step of the pair preserves the invariant** (`L'`: the decision clock if the step is a pass). -/
theorem pinv_step (j : Nat) (urn : String) (P : Pair) (L : Int) (x : PStep) (xs : List PStep)
    (hm : PMono L (x :: xs)) (h : PInv j urn P L) :
    ∃ L', PInv j urn (pstep j P x) L' ∧ PMono L' xs ∧ pLastNow L (x :: xs) = pLastNow L' xs :=
  ⟨nextL L x, pinv_step' j urn P L x xs hm h⟩

/-- **the invariant holds after every run of the pair with monotone decision clocks.** -/
theorem pinv_run (j : Nat) (urn : String) (steps : List PStep) :
    ∀ (P : Pair) (L : Int), PMono L steps → PInv j urn P L → PInv j urn (prun j P steps) (pLastNow L steps) := by
  induction steps with
  | nil => intro P L _ h; exact h
  | cons x xs ih =>
    intro P L hm h
    obtain ⟨L', hinv, hm', hl⟩ := pinv_step j urn P L x xs hm h
    rw [hl]
    exact ih _ L' hm' hinv

/-- the invariant at the start: nothing announced yet, nothing counted as missing. -/
theorem pinv_init (j : Nat) (P0 : Pair) (e0 : String × Peer Status) (L0 : Int)
    (he0 : P0.t.peers[j]? = some e0) (hself : e0.1 ≠ P0.t.self) (hlc : 0 ≤ e0.2.lastComms)
    (hown : P0.own = bot) (hmiss : P0.missing = []) (hepoch : P0.t.cfg.periodResync ≤ L0) :
    PInv j e0.1 P0 L0 := by
  refine ⟨hepoch, by rw [hown]; exact bot_le _, ⟨e0.2, he0, hself, hlc, Or.inr ?_⟩, Or.inr ?_⟩
  · rw [hmiss]; intro x hx; cases hx
  · unfold Flow; rw [hown]; exact bot_le _

/-- what an idle link means: not in the resync period, nothing in the backlog, the queue or on the wire. -/
theorem pinv_idle (j : Nat) (urn : String) (P : Pair) (L : Int) (h : PInv j urn P L)
    (e : String × Peer Status) (he : P.t.peers[j]? = some e)
    (hidle : ¬ (L - e.2.lastComms ≥ P.t.cfg.periodResync))
    (h1 : e.2.stashC = []) (h2 : e.2.stashH = []) (h3 : e.2.stashU = [])
    (hq : P.t.queue = []) (hw : P.wire = []) : P.missing = [] ∧ P.own ≤ P.knowJ := by
  obtain ⟨_, _, ⟨p, hp, _, _, hd⟩, hflow⟩ := h
  rw [he] at hp; cases hp
  have hmiss : P.missing = [] := by
    rcases hd with hA | hB
    · exact absurd (hA L (Int.le_refl L)) hidle
    · apply List.eq_nil_iff_forall_not_mem.mpr
      intro x hx
      rcases hB x hx with h | ⟨m, hm, _⟩
      · simp only [stashAll] at h
        rw [h1, h2, h3] at h; cases h
      · rw [hq] at hm; cases hm
  refine ⟨hmiss, ?_⟩
  rcases hflow with ⟨e', he', hA⟩ | hf
  · rw [he] at he'; cases he'
    exact absurd (hA L (Int.le_refl L)) hidle
  · unfold Flow at hf
    rw [hmiss, hw] at hf
    simpa [wireJoin, joinAll_nil, join_bot_right] using hf

end Bobo.Tcp
