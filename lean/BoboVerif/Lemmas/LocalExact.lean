import BoboVerif.Lemmas.LocalStarts
import BoboVerif.Lemmas.RemoteExact
/-!
Exact (run-level) effect of `_check_against_runs` on one run key.
-/
namespace Bobo.Decider
open Bobo.Run Bobo.Lattice
set_option linter.unusedSimpArgs false
variable {ε : Type}

theorem flatMap_nil_of_keys {α β} (l : List (String × α)) (k : String) (F : α → List β)
    (h : ∀ kv ∈ l, kv.1 ≠ k) : l.flatMap (fun kv => if kv.1 = k then F kv.2 else []) = [] := by
  induction l with
  | nil => rfl
  | cons kv rest ih =>
    simp only [List.flatMap_cons, h kv (List.mem_cons_self ..), if_false, List.nil_append]
    exact ih (fun x hx => h x (List.mem_cons_of_mem _ hx))

def optL {α β} (F : α → List β) : Option α → List β
  | some v => F v
  | none => []

theorem flatMap_key {α β} (l : List (String × α)) (hn : KeysNodup l) (k : String) (F : α → List β) :
    l.flatMap (fun kv => if kv.1 = k then F kv.2 else []) = optL F (lookup k l) := by
  induction l with
  | nil => rfl
  | cons kv rest ih =>
    obtain ⟨a, v⟩ := kv
    simp only [KeysNodup, List.map_cons, List.nodup_cons] at hn
    simp only [List.flatMap_cons, lookup_cons]
    by_cases e : a = k
    · subst e
      simp only [if_true, optL]
      rw [flatMap_nil_of_keys rest a F]
      · simp
      · intro x hx e2
        exact hn.1 (List.mem_map.mpr ⟨x, hx, e2⟩)
    · simp only [e, if_false, List.nil_append]
      exact ih hn.2

theorem flatMap_congr' {α β} (l : List α) (f g : α → List β) (h : ∀ x ∈ l, f x = g x) :
    l.flatMap f = l.flatMap g := by
  induction l with
  | nil => rfl
  | cons a rest ih =>
    simp only [List.flatMap_cons]
    rw [h a (List.mem_cons_self ..), ih (fun x hx => h x (List.mem_cons_of_mem _ hx))]

/-- only THE bucket (ph, pa) contributes to a key-guarded traversal of all buckets. -/
theorem buckets_flatMap_key {β} (t : Table ε) (h : TableWF t) (ph pa : String) (F : List (LRun ε) → List β)
    (hF : F [] = []) :
    t.buckets.flatMap (fun b => if b.1 = ph ∧ b.2.1 = pa then F b.2.2 else []) = F (t.runsFrom ph pa) := by
  unfold Table.buckets
  rw [List.flatMap_assoc]
  have h1 : ∀ phe ∈ t, (List.map (fun pe => (phe.1, pe.1, pe.2)) phe.2).flatMap
        (fun b => if b.1 = ph ∧ b.2.1 = pa then F b.2.2 else []) =
      (fun (phe : String × List (String × List (LRun ε))) =>
        if phe.1 = ph then optL (fun pats => optL F (lookup pa pats)) (some phe.2) else []) phe := by
    intro phe hphe
    rw [List.flatMap_map]
    by_cases e : phe.1 = ph
    · simp only [e, true_and, if_true, optL]
      exact flatMap_key phe.2 (h.k2 phe.1 phe.2 hphe) pa F
    · simp only [e, false_and, if_false]
      induction phe.2 with
      | nil => rfl
      | cons x xs ihx => simp [ihx]
  rw [flatMap_congr' t _ _ h1]
  have := flatMap_key t h.k1 ph (fun pats => optL F (lookup pa pats))
  refine Eq.trans this ?_
  rw [runsFrom_def]
  cases lookup ph t with
  | none => simp [optL, hF]
  | some pats =>
    simp only [Option.bind_some, optL]
    cases lookup pa pats <;> simp [optL, hF]

/-- records announced as completed / halted by a bucket carry that bucket's key, too. -/
theorem hc_hi_keys (e : ε) (ph pa : String) (rs : List (LRun ε)) (hnames : ∀ r ∈ rs, r.pat.name = pa) :
    (∀ x ∈ (procBucket e ph rs).hc, x.phen = ph ∧ x.pat = pa) ∧
    (∀ x ∈ (procBucket e ph rs).hi, x.phen = ph ∧ x.pat = pa) := by
  induction rs with
  | nil => simp [procBucket_nil]
  | cons r rest ih =>
    obtain ⟨ih1, ih2⟩ := ih (fun x hx => hnames x (List.mem_cons_of_mem _ hx))
    rw [procBucket_cons]
    have hs := contrib_shape e ph r
    have hpn := hnames r (List.mem_cons_self ..)
    -- the processed run keeps its pattern
    have hkeep : ∀ r' : LRun ε, r'.pat = r.pat → (r'.ser ph).phen = ph ∧ (r'.ser ph).pat = pa := by
      intro r' hp; exact ⟨rfl, by simp only [LRun.ser]; rw [hp]; exact hpn⟩
    generalize contrib e ph r = cr at hs
    cases hs with
    | completed r' hid hpat0 =>
      refine ⟨?_, by simpa [RunsAcc.append] using ih2⟩
      intro x hx
      simp only [RunsAcc.append, List.singleton_append, List.mem_cons] at hx
      rcases hx with e1 | e1
      · subst e1; exact hkeep r' hpat0
      · exact ih1 x e1
    | halted r' hid hpat0 =>
      refine ⟨by simpa [RunsAcc.append] using ih1, ?_⟩
      intro x hx
      simp only [RunsAcc.append, List.singleton_append, List.mem_cons] at hx
      rcases hx with e1 | e1
      · subst e1; exact hkeep r' hpat0
      · exact ih2 x e1
    | updated r' hid hpat hle => exact ⟨by simpa [RunsAcc.append] using ih1, by simpa [RunsAcc.append] using ih2⟩
    | same => exact ⟨by simpa [RunsAcc.append] using ih1, by simpa [RunsAcc.append] using ih2⟩

end Bobo.Decider

namespace Bobo.Decider
open Bobo.Run Bobo.Lattice
set_option linter.unusedSimpArgs false
variable {ε : Type}

def contribOf (e : ε) (ph : String) : Option (LRun ε) → RunsAcc ε
  | some r => contrib e ph r
  | none => {}

/-- **one bucket, one key, exactly**: what the loop keeps under the key and which records of the three
lists name the key are those of the single run stored under it. -/
theorem procBucket_exact (e : ε) (ph pa id : String) (rs : List (LRun ε))
    (hids : (rs.map (·.run.id)).Nodup) (hnames : ∀ r ∈ rs, r.pat.name = pa) :
    (procBucket e ph rs).keep.find? (fun r => r.run.id == id) =
        (contribOf e ph (rs.find? (fun r => r.run.id == id))).keep.head? ∧
    (procBucket e ph rs).upd.filter (keyMatch ph pa id) = (contribOf e ph (rs.find? (fun r => r.run.id == id))).upd ∧
    (procBucket e ph rs).hc.filter (keyMatch ph pa id) = (contribOf e ph (rs.find? (fun r => r.run.id == id))).hc ∧
    (procBucket e ph rs).hi.filter (keyMatch ph pa id) = (contribOf e ph (rs.find? (fun r => r.run.id == id))).hi := by
  induction rs with
  | nil => simp [procBucket_nil, contribOf]
  | cons r rest ih =>
    simp only [List.map_cons, List.nodup_cons] at hids
    have hnames' : ∀ x ∈ rest, x.pat.name = pa := fun x hx => hnames x (List.mem_cons_of_mem _ hx)
    have hpn := hnames r (List.mem_cons_self ..)
    rw [procBucket_cons]
    by_cases hr : r.run.id = id
    · have hno : ∀ x ∈ rest, x.run.id ≠ id := by
        intro x hx e1
        exact hids.1 (List.mem_map.mpr ⟨x, hx, by rw [e1, hr]⟩)
      obtain ⟨h1, h2, h3, h4⟩ := procBucket_other_ids e ph rest id hno
      have hf2 := filter_none_of_ids _ ph pa id h2
      have hf3 := filter_none_of_ids _ ph pa id h3
      have hf4 := filter_none_of_ids _ ph pa id h4
      have hfind : (r.run.id == id) = true := by simpa using hr
      simp only [List.find?_cons, hfind, contribOf]
      have hs := contrib_shape e ph r
      generalize contrib e ph r = cr at hs
      have hkm : ∀ r' : LRun ε, r'.run.id = r.run.id → r'.pat = r.pat → keyMatch ph pa id (r'.ser ph) = true := by
        intro r' h1' h2'
        exact (keyMatch_ser ph pa id ph r').mpr ⟨rfl, by rw [h2']; exact hpn, by rw [h1', hr]⟩
      cases hs with
      | completed r' hid hpat0 =>
        simp [RunsAcc.append, h1, hf2, hf3, hf4, List.filter_cons, hkm r' hid hpat0]
      | halted r' hid hpat0 =>
        simp [RunsAcc.append, h1, hf2, hf3, hf4, List.filter_cons, hkm r' hid hpat0]
      | updated r' hid hpat hle =>
        have hf' : (r'.run.id == id) = true := by simp only [beq_iff_eq]; rw [hid, hr]
        simp [RunsAcc.append, hf', hf2, hf3, hf4, List.filter_cons, hkm r' hid hpat]
      | same =>
        simp [RunsAcc.append, hfind, hf2, hf3, hf4]
    · have hfind : (r.run.id == id) = false := by simpa using hr
      obtain ⟨i1, i2, i3, i4⟩ := ih hids.2 hnames'
      simp only [List.find?_cons, hfind]
      have hs := contrib_shape e ph r
      generalize contrib e ph r = cr at hs
      have hkm : ∀ r' : LRun ε, r'.run.id = r.run.id → keyMatch ph pa id (r'.ser ph) = false := by
        intro r' h1'
        cases hk : keyMatch ph pa id (r'.ser ph) with
        | false => rfl
        | true => exact absurd ((keyMatch_ser ph pa id ph r').mp hk).2.2 (by rw [h1']; exact hr)
      cases hs with
      | completed r' hid hpat0 =>
        simp only [RunsAcc.append, List.nil_append, List.singleton_append, List.filter_cons, hkm r' hid,
          Bool.false_eq_true, if_false]
        exact ⟨i1, i2, i3, i4⟩
      | halted r' hid hpat0 =>
        simp only [RunsAcc.append, List.nil_append, List.singleton_append, List.filter_cons, hkm r' hid,
          Bool.false_eq_true, if_false]
        exact ⟨i1, i2, i3, i4⟩
      | updated r' hid hpat hle =>
        have hf' : (r'.run.id == id) = false := by simp only [beq_eq_false_iff_ne, ne_eq]; rw [hid]; exact hr
        simp only [RunsAcc.append, List.nil_append, List.singleton_append, List.filter_cons, hkm r' hid,
          Bool.false_eq_true, if_false, List.find?_cons, hf']
        exact ⟨i1, i2, i3, i4⟩
      | same =>
        simp only [RunsAcc.append, List.nil_append, List.singleton_append, List.find?_cons, hfind]
        exact ⟨i1, i2, i3, i4⟩

end Bobo.Decider
