import BoboVerif.Lemmas.LocalStarts
import BoboVerif.Lemmas.RemoteExact
/-!
Exact (run-level) effect of `_check_against_runs` on one run key.
-/
namespace Bobo.Decider
open Bobo.Run Bobo.Lattice
set_option linter.unusedSimpArgs false
variable {ε : Type}

theorem flatMap_nil_of_keys {α β} (l : List (String × α)) (k : String) (F : α → List β)
    (h : ∀ kv ∈ l, kv.1 ≠ k) : l.flatMap (fun kv => if kv.1 = k then F kv.2 else []) = [] := by
  induction l with
  | nil => rfl
  | cons kv rest ih =>
    simp only [List.flatMap_cons, h kv (List.mem_cons_self ..), if_false, List.nil_append]
    exact ih (fun x hx => h x (List.mem_cons_of_mem _ hx))

def optL {α β} (F : α → List β) : Option α → List β
  | some v => F v
  | none => []

theorem flatMap_key {α β} (l : List (String × α)) (hn : KeysNodup l) (k : String) (F : α → List β) :
    l.flatMap (fun kv => if kv.1 = k then F kv.2 else []) = optL F (lookup k l) := by
  induction l with
  | nil => rfl
  | cons kv rest ih =>
    obtain ⟨a, v⟩ := kv
    simp only [KeysNodup, List.map_cons, List.nodup_cons] at hn
    simp only [List.flatMap_cons, lookup_cons]
    by_cases e : a = k
    · subst e
      simp only [if_true, optL]
      rw [flatMap_nil_of_keys rest a F]
      · simp
      · intro x hx e2
        exact hn.1 (List.mem_map.mpr ⟨x, hx, e2⟩)
    · simp only [e, if_false, List.nil_append]
      exact ih hn.2

theorem flatMap_congr' {α β} (l : List α) (f g : α → List β) (h : ∀ x ∈ l, f x = g x) :
    l.flatMap f = l.flatMap g := by
  induction l with
  | nil => rfl
  | cons a rest ih =>
    simp only [List.flatMap_cons]
    rw [h a (List.mem_cons_self ..), ih (fun x hx => h x (List.mem_cons_of_mem _ hx))]

/-- only THE bucket (ph, pa) contributes to a key-guarded traversal of all buckets. -/
theorem buckets_flatMap_key {β} (t : Table ε) (h : TableWF t) (ph pa : String) (F : List (LRun ε) → List β)
    (hF : F [] = []) :
    t.buckets.flatMap (fun b => if b.1 = ph ∧ b.2.1 = pa then F b.2.2 else []) = F (t.runsFrom ph pa) := by
  unfold Table.buckets
  rw [List.flatMap_assoc]
  have h1 : ∀ phe ∈ t, (List.map (fun pe => (phe.1, pe.1, pe.2)) phe.2).flatMap
        (fun b => if b.1 = ph ∧ b.2.1 = pa then F b.2.2 else []) =
      (fun (phe : String × List (String × List (LRun ε))) =>
        if phe.1 = ph then optL (fun pats => optL F (lookup pa pats)) (some phe.2) else []) phe := by
    intro phe hphe
    rw [List.flatMap_map]
    by_cases e : phe.1 = ph
    · simp only [e, true_and, if_true, optL]
      exact flatMap_key phe.2 (h.k2 phe.1 phe.2 hphe) pa F
    · simp only [e, false_and, if_false]
      induction phe.2 with
      | nil => rfl
      | cons x xs ihx => simp [ihx]
  rw [flatMap_congr' t _ _ h1]
  have := flatMap_key t h.k1 ph (fun pats => optL F (lookup pa pats))
  refine Eq.trans this ?_
  rw [runsFrom_def]
  cases lookup ph t with
  | none => simp [optL, hF]
  | some pats =>
    simp only [Option.bind_some, optL]
    cases lookup pa pats <;> simp [optL, hF]

/-- records announced as completed / halted by a bucket carry that bucket's key, too. -/
theorem hc_hi_keys (e : ε) (ph pa : String) (rs : List (LRun ε)) (hnames : ∀ r ∈ rs, r.pat.name = pa) :
    (∀ x ∈ (procBucket e ph rs).hc, x.phen = ph ∧ x.pat = pa) ∧
    (∀ x ∈ (procBucket e ph rs).hi, x.phen = ph ∧ x.pat = pa) := by
  induction rs with
  | nil => simp [procBucket_nil]
  | cons r rest ih =>
    obtain ⟨ih1, ih2⟩ := ih (fun x hx => hnames x (List.mem_cons_of_mem _ hx))
    rw [procBucket_cons]
    have hs := contrib_shape e ph r
    have hpn := hnames r (List.mem_cons_self ..)
    -- the processed run keeps its pattern
    have hkeep : ∀ r' : LRun ε, r'.pat = r.pat → (r'.ser ph).phen = ph ∧ (r'.ser ph).pat = pa := by
      intro r' hp; exact ⟨rfl, by simp only [LRun.ser]; rw [hp]; exact hpn⟩
    generalize contrib e ph r = cr at hs
    cases hs with
    | completed r' hid hpat0 =>
      refine ⟨?_, by simpa [RunsAcc.append] using ih2⟩
      intro x hx
      simp only [RunsAcc.append, List.singleton_append, List.mem_cons] at hx
      rcases hx with e1 | e1
      · subst e1; exact hkeep r' hpat0
      · exact ih1 x e1
    | halted r' hid hpat0 =>
      refine ⟨by simpa [RunsAcc.append] using ih1, ?_⟩
      intro x hx
      simp only [RunsAcc.append, List.singleton_append, List.mem_cons] at hx
      rcases hx with e1 | e1
      · subst e1; exact hkeep r' hpat0
      · exact ih2 x e1
    | updated r' hid hpat hle => exact ⟨by simpa [RunsAcc.append] using ih1, by simpa [RunsAcc.append] using ih2⟩
    | same => exact ⟨by simpa [RunsAcc.append] using ih1, by simpa [RunsAcc.append] using ih2⟩

end Bobo.Decider

namespace Bobo.Decider
open Bobo.Run Bobo.Lattice
set_option linter.unusedSimpArgs false
variable {ε : Type}

def contribOf (e : ε) (ph : String) : Option (LRun ε) → RunsAcc ε
  | some r => contrib e ph r
  | none => {}

/-- **one bucket, one key, exactly**: what the loop keeps under the key and which records of the three
lists name the key are those of the single run stored under it. -/
theorem procBucket_exact (e : ε) (ph pa id : String) (rs : List (LRun ε))
    (hids : (rs.map (·.run.id)).Nodup) (hnames : ∀ r ∈ rs, r.pat.name = pa) :
    (procBucket e ph rs).keep.find? (fun r => r.run.id == id) =
        (contribOf e ph (rs.find? (fun r => r.run.id == id))).keep.head? ∧
    (procBucket e ph rs).upd.filter (keyMatch ph pa id) = (contribOf e ph (rs.find? (fun r => r.run.id == id))).upd ∧
    (procBucket e ph rs).hc.filter (keyMatch ph pa id) = (contribOf e ph (rs.find? (fun r => r.run.id == id))).hc ∧
    (procBucket e ph rs).hi.filter (keyMatch ph pa id) = (contribOf e ph (rs.find? (fun r => r.run.id == id))).hi := by
  induction rs with
  | nil => simp [procBucket_nil, contribOf]
  | cons r rest ih =>
    simp only [List.map_cons, List.nodup_cons] at hids
    have hnames' : ∀ x ∈ rest, x.pat.name = pa := fun x hx => hnames x (List.mem_cons_of_mem _ hx)
    have hpn := hnames r (List.mem_cons_self ..)
    rw [procBucket_cons]
    by_cases hr : r.run.id = id
    · have hno : ∀ x ∈ rest, x.run.id ≠ id := by
        intro x hx e1
        exact hids.1 (List.mem_map.mpr ⟨x, hx, by rw [e1, hr]⟩)
      obtain ⟨h1, h2, h3, h4⟩ := procBucket_other_ids e ph rest id hno
      have hf2 := filter_none_of_ids _ ph pa id h2
      have hf3 := filter_none_of_ids _ ph pa id h3
      have hf4 := filter_none_of_ids _ ph pa id h4
      have hfind : (r.run.id == id) = true := by simpa using hr
      simp only [List.find?_cons, hfind, contribOf]
      have hs := contrib_shape e ph r
      generalize contrib e ph r = cr at hs
      have hkm : ∀ r' : LRun ε, r'.run.id = r.run.id → r'.pat = r.pat → keyMatch ph pa id (r'.ser ph) = true := by
        intro r' h1' h2'
        exact (keyMatch_ser ph pa id ph r').mpr ⟨rfl, by rw [h2']; exact hpn, by rw [h1', hr]⟩
      cases hs with
      | completed r' hid hpat0 =>
        simp [RunsAcc.append, h1, hf2, hf3, hf4, List.filter_cons, hkm r' hid hpat0]
      | halted r' hid hpat0 =>
        simp [RunsAcc.append, h1, hf2, hf3, hf4, List.filter_cons, hkm r' hid hpat0]
      | updated r' hid hpat hle =>
        have hf' : (r'.run.id == id) = true := by simp only [beq_iff_eq]; rw [hid, hr]
        simp [RunsAcc.append, hf', hf2, hf3, hf4, List.filter_cons, hkm r' hid hpat]
      | same =>
        simp [RunsAcc.append, hfind, hf2, hf3, hf4]
    · have hfind : (r.run.id == id) = false := by simpa using hr
      obtain ⟨i1, i2, i3, i4⟩ := ih hids.2 hnames'
      simp only [List.find?_cons, hfind]
      have hs := contrib_shape e ph r
      generalize contrib e ph r = cr at hs
      have hkm : ∀ r' : LRun ε, r'.run.id = r.run.id → keyMatch ph pa id (r'.ser ph) = false := by
        intro r' h1'
        cases hk : keyMatch ph pa id (r'.ser ph) with
        | false => rfl
        | true => exact absurd ((keyMatch_ser ph pa id ph r').mp hk).2.2 (by rw [h1']; exact hr)
      cases hs with
      | completed r' hid hpat0 =>
        simp only [RunsAcc.append, List.nil_append, List.singleton_append, List.filter_cons, hkm r' hid,
          Bool.false_eq_true, if_false]
        exact ⟨i1, i2, i3, i4⟩
      | halted r' hid hpat0 =>
        simp only [RunsAcc.append, List.nil_append, List.singleton_append, List.filter_cons, hkm r' hid,
          Bool.false_eq_true, if_false]
        exact ⟨i1, i2, i3, i4⟩
      | updated r' hid hpat hle =>
        have hf' : (r'.run.id == id) = false := by simp only [beq_eq_false_iff_ne, ne_eq]; rw [hid]; exact hr
        simp only [RunsAcc.append, List.nil_append, List.singleton_append, List.filter_cons, hkm r' hid,
          Bool.false_eq_true, if_false, List.find?_cons, hf']
        exact ⟨i1, i2, i3, i4⟩
      | same =>
        simp only [RunsAcc.append, List.nil_append, List.singleton_append, List.find?_cons, hfind]
        exact ⟨i1, i2, i3, i4⟩

end Bobo.Decider

namespace Bobo.Decider
open Bobo.Run Bobo.Lattice
set_option linter.unusedSimpArgs false
variable {ε : Type}

theorem any_eq_filter {α} (l : List α) (f : α → Bool) : l.any f = !(l.filter f).isEmpty := by
  induction l with
  | nil => rfl
  | cons a rest ih =>
    simp only [List.any_cons, List.filter_cons]
    cases hf : f a <;> simp [ih]

/-- a per-bucket list whose records carry the bucket's key, filtered by one key: only THE bucket matters. -/
theorem buckets_filter_key (t : Table ε) (h : TableWF t) (ph pa id : String)
    (G : String → List (LRun ε) → List (Rec ε)) (hG0 : G ph [] = [])
    (hkeys : ∀ bph bpa brs, (∀ r ∈ brs, r.pat.name = bpa) → ∀ x ∈ G bph brs, x.phen = bph ∧ x.pat = bpa) :
    (t.buckets.flatMap (fun b => G b.1 b.2.2)).filter (keyMatch ph pa id) =
      (G ph (t.runsFrom ph pa)).filter (keyMatch ph pa id) := by
  rw [List.filter_flatMap]
  have hcongr : ∀ b ∈ t.buckets, (G b.1 b.2.2).filter (keyMatch ph pa id) =
      (fun (b : String × String × List (LRun ε)) =>
        if b.1 = ph ∧ b.2.1 = pa then (fun rs => (G ph rs).filter (keyMatch ph pa id)) b.2.2 else []) b := by
    intro b hb
    obtain ⟨bph, bpa, brs⟩ := b
    have hrs := mem_buckets t h bph bpa brs hb
    by_cases hk : bph = ph ∧ bpa = pa
    · obtain ⟨e1, e2⟩ := hk; subst e1 e2
      simp only [and_self, if_true]
    · simp only [hk, if_false]
      rw [List.filter_eq_nil_iff]
      intro x hx hkm
      have hxk := hkeys bph bpa brs (by rw [← hrs]; exact h.names bph bpa) x hx
      obtain ⟨k1, k2, _⟩ := (keyMatch_iff ph pa id x).mp hkm
      exact hk ⟨by rw [k1]; exact hxk.1.symm, by rw [k2]; exact hxk.2.symm⟩
  rw [flatMap_congr' _ _ _ hcongr]
  exact buckets_flatMap_key t h ph pa (fun rs => (G ph rs).filter (keyMatch ph pa id)) (by simp [hG0])

/-- **`_check_against_runs`, one key, exactly.**  Either the key's run finished on this event — then a
completed / halted record names the key, the table no longer holds it and no `updated` record names it — or
no finished record names it and the run stored afterwards is what applying, in order, the `updated` records
naming the key to the run stored before gives (`applyRec`: what the receiving side does with them). -/
theorem checkAgainstRuns_exact (e : ε) (t : Table ε) (h : TableWF t) (ph pa id : String)
    (hlive : ∀ r, t.runAt ph pa id = some r → r.run.halted = false) (p : Pattern ε) :
    (((checkAgainstRuns e t).2.1 ++ (checkAgainstRuns e t).2.2.1).any (keyMatch ph pa id) = true ∧
      (checkAgainstRuns e t).1.runAt ph pa id = none ∧
      (checkAgainstRuns e t).2.2.2.filter (keyMatch ph pa id) = []) ∨
    (((checkAgainstRuns e t).2.1 ++ (checkAgainstRuns e t).2.2.1).any (keyMatch ph pa id) = false ∧
      (checkAgainstRuns e t).1.runAt ph pa id =
        ((checkAgainstRuns e t).2.2.2.filter (keyMatch ph pa id)).foldl (applyRec p) (t.runAt ph pa id)) := by
  obtain ⟨hl1, hl2, hl3⟩ := checkAgainstRuns_lists e t
  have f1 := buckets_filter_key t h ph pa id (fun bph brs => (procBucket e bph brs).hc) (by simp [procBucket_nil])
    (fun bph bpa brs hn => (hc_hi_keys e bph bpa brs hn).1)
  have f2 := buckets_filter_key t h ph pa id (fun bph brs => (procBucket e bph brs).hi) (by simp [procBucket_nil])
    (fun bph bpa brs hn => (hc_hi_keys e bph bpa brs hn).2)
  have f3 := buckets_filter_key t h ph pa id (fun bph brs => (procBucket e bph brs).upd) (by simp [procBucket_nil])
    (fun bph bpa brs hn => upd_keys e bph bpa brs hn)
  obtain ⟨x1, x2, x3, x4⟩ := procBucket_exact e ph pa id (t.runsFrom ph pa) (h.ids ph pa) (h.names ph pa)
  rw [any_eq_filter, List.filter_append, hl1, hl2, hl3, f1, f2, f3, x2, x3, x4, runAt_def,
    runsFrom_checkAgainstRuns, x1, runAt_def]
  cases hfind : (t.runsFrom ph pa).find? (fun r => r.run.id == id) with
  | none => right; simp [contribOf]
  | some r =>
    have hrl : r.run.halted = false := hlive r (by rw [runAt_def]; exact hfind)
    simp only [contribOf]
    have hs := contrib_shape e ph r
    generalize contrib e ph r = cr at hs
    cases hs with
    | completed r' hid hpat0 => left; simp
    | halted r' hid hpat0 => left; simp
    | updated r' hid hpat hle hah hlv =>
      right
      simp only [List.append_nil, List.isEmpty_nil, Bool.not_true, List.head?_cons, List.foldl_cons, List.foldl_nil,
        applyRec, hah, if_true, true_and, Option.some.injEq]
      obtain ⟨⟨rid, ridx, rh, rhal⟩, rpat⟩ := r'
      obtain ⟨⟨sid, sidx, sh, shal⟩, spat⟩ := r
      simp only [LRun.ser] at hid hpat hlv hrl ⊢
      subst hid hpat hlv hrl
      rfl
    | same => right; simp

/-- pattern names resolve to the patterns themselves (no two patterns of one phenomenon, and no two phenomena,
share a name — `BoboDecider.__init__` keys its tables by these names). -/
def CfgWF (c : Cfg ε) : Prop :=
  ∀ P ∈ c.phenomena, ∀ p ∈ P.patterns, c.getPattern P.name p.name = some p

/-- what a stretch of `_check_against_patterns` does, exactly: each key ends at what applying the appended
`updated` records naming it gives. -/
def PatExact (c : Cfg ε) (a b : PatAcc ε) : Prop :=
  ∃ d, b.upd = a.upd ++ d ∧
    ∀ ph pa id p, c.getPattern ph pa = some p →
      b.table.runAt ph pa id = (d.filter (keyMatch ph pa id)).foldl (applyRec p) (a.table.runAt ph pa id)

theorem PatExact.refl (c : Cfg ε) (a : PatAcc ε) : PatExact c a a :=
  ⟨[], by simp, fun _ _ _ _ _ => rfl⟩

theorem PatExact.trans {c : Cfg ε} {a b d : PatAcc ε} (h1 : PatExact c a b) (h2 : PatExact c b d) : PatExact c a d := by
  obtain ⟨u1, f1, g1⟩ := h1
  obtain ⟨u2, f2, g2⟩ := h2
  refine ⟨u1 ++ u2, by rw [f2, f1, List.append_assoc], ?_⟩
  intro ph pa id p hp
  rw [g2 ph pa id p hp, g1 ph pa id p hp, List.filter_append, List.foldl_append]

theorem checkPattern_exact (c : Cfg ε) (e : ε) (ph0 : String) (acc acc' : PatAcc ε) (p : Pattern ε)
    (hres : c.getPattern ph0 p.name = some p)
    (hs : checkPattern c e ph0 acc p = some acc') : PatExact c acc acc' := by
  unfold checkPattern at hs
  cases hb : p.blocks with
  | nil => simp [hb] at hs
  | cons b0 rest =>
    simp only [hb] at hs
    by_cases hm : startMatch b0.preds e = true
    · simp only [hm, if_true] at hs
      split at hs
      · simp only [Option.some.injEq] at hs; subst hs
        exact ⟨[], by simp, fun _ _ _ _ _ => rfl⟩
      · split at hs
        · cases hadd : acc.table.add ph0 p.name { run := newRun (c.idOf acc.nextId) p b0.group e, pat := p } with
          | none => simp [hadd] at hs
          | some t' =>
            simp only [hadd, Option.some.injEq] at hs
            subst hs
            refine ⟨[_], rfl, ?_⟩
            intro ph pa id p' hp'
            simp only
            rw [runAt_add _ _ _ _ _ hadd]
            have hnone : acc.table.runAt ph0 p.name (c.idOf acc.nextId) = none := by
              unfold Table.add at hadd
              cases hx : acc.table.runAt ph0 p.name (newRun (c.idOf acc.nextId) p b0.group e).id with
              | none => exact hx
              | some v => simp [hx] at hadd
            by_cases hk : ph = ph0 ∧ pa = p.name ∧ id = (newRun (c.idOf acc.nextId) p b0.group e).id
            · obtain ⟨e1, e2, e3⟩ := hk
              subst e1 e2 e3
              have hpp : p' = p := by rw [hres] at hp'; exact (Option.some.inj hp').symm
              subst hpp
              have hkm : keyMatch ph p'.name (newRun (c.idOf acc.nextId) p' b0.group e).id
                  (LRun.ser ph { run := newRun (c.idOf acc.nextId) p' b0.group e, pat := p' }) = true :=
                (keyMatch_ser _ _ _ _ _).mpr ⟨rfl, rfl, rfl⟩
              have hn2 : acc.table.runAt ph p'.name (newRun (c.idOf acc.nextId) p' b0.group e).id = none := hnone
              simp only [and_self, if_true, List.filter_cons, hkm, List.filter_nil, List.foldl_cons, List.foldl_nil]
              rw [hn2]
              simp only [applyRec, newRun, LRun.ser]
            · have hkm : keyMatch ph pa id
                  (LRun.ser ph0 { run := newRun (c.idOf acc.nextId) p b0.group e, pat := p }) = false := by
                cases hq : keyMatch ph pa id (LRun.ser ph0 { run := newRun (c.idOf acc.nextId) p b0.group e, pat := p }) with
                | false => rfl
                | true =>
                  have := (keyMatch_ser ph pa id ph0 _).mp hq
                  exact absurd ⟨this.1.symm, this.2.1.symm, this.2.2.symm⟩ hk
              simp [hk, List.filter_cons, hkm]
        · simp only [Option.some.injEq] at hs; subst hs
          exact PatExact.refl c _
    · simp only [hm, Bool.false_eq_true, if_false, Option.some.injEq] at hs
      subst hs; exact PatExact.refl c _

theorem foldlM'_rel_mem {α β} (Rel : β → β → Prop) (hrefl : ∀ b, Rel b b) (htrans : ∀ a b c, Rel a b → Rel b c → Rel a c)
    (f : β → α → Option β) (l : List α) (h : ∀ b a b', a ∈ l → f b a = some b' → Rel b b') :
    ∀ b b', foldlM' f b l = some b' → Rel b b' :=
  foldlM'_rel Rel hrefl htrans f l h

theorem checkAgainstPatterns_exact (c : Cfg ε) (hcw : CfgWF c) (e : ε) (t : Table ε) (n : Nat) (acc : PatAcc ε)
    (hs : checkAgainstPatterns c e t n = some acc) : PatExact c { table := t, nextId := n } acc := by
  unfold checkAgainstPatterns at hs
  refine foldlM'_rel (PatExact c) (PatExact.refl c) (fun _ _ _ => PatExact.trans) _ c.phenomena ?_ _ _ hs
  intro b P b' hP hf
  exact foldlM'_rel (PatExact c) (PatExact.refl c) (fun _ _ _ => PatExact.trans) _ P.patterns
    (fun b1 p b1' hp hf1 => checkPattern_exact c e P.name b1 b1' p (hcw P hP p hp) hf1) _ _ hf

end Bobo.Decider

namespace Bobo.Decider
open Bobo.Run Bobo.Lattice
set_option linter.unusedSimpArgs false
variable {ε : Type}

/-- **`update()`, one key, exactly**: unless a completed / halted record of the notification names the key,
the run stored under it afterwards is what applying, in order, the notification's `updated` records naming it
to the run stored before gives — which is what a replica does with them. -/
theorem local_exact (c : Cfg ε) (hcw : CfgWF c) (s s' : DState ε) (e : ε) (nt : Notif ε) (ch : Bool)
    (hwf : TableWF s.table)
    (hstep : localStep c s e = some (s', nt, ch))
    (ph pa id : String) (p : Pattern ε) (hp : c.getPattern ph pa = some p)
    (hlive : ∀ r, s.table.runAt ph pa id = some r → r.run.halted = false) :
    (nt.completed ++ nt.halted).any (keyMatch ph pa id) = true ∨
    s'.table.runAt ph pa id = (nt.updated.filter (keyMatch ph pa id)).foldl (applyRec p) (s.table.runAt ph pa id) := by
  unfold localStep at hstep
  have hex := checkAgainstRuns_exact e s.table hwf ph pa id hlive p
  generalize hcar : checkAgainstRuns e s.table = car at hstep hex
  obtain ⟨t1, rhc, rhi, rupd⟩ := car
  simp only at hstep hex
  cases hcp : checkAgainstPatterns c e t1 s.nextId with
  | none => simp [hcp] at hstep
  | some acc =>
    simp only [hcp, Option.some.injEq, Prod.mk.injEq] at hstep
    obtain ⟨hs', hnt, _⟩ := hstep
    obtain ⟨d, hd, hpat⟩ := checkAgainstPatterns_exact c hcw e t1 s.nextId acc hcp
    simp only [List.nil_append] at hd hpat
    subst hnt hs'
    simp only [maybeCache_table]
    rcases hex with ⟨hany, _, _⟩ | ⟨_, hrun⟩
    · left
      rw [List.any_append] at hany
      simp only [List.any_append]
      rcases Bool.or_eq_true _ _ |>.mp hany with h1 | h1
      · simp [h1]
      · simp [h1]
    · right
      rw [hpat ph pa id p hp, hrun, hd, List.filter_append, List.foldl_append]

end Bobo.Decider

namespace Bobo.Decider
open Bobo.Run Bobo.Lattice
set_option linter.unusedSimpArgs false
variable {ε : Type}

/-- a stretch of `_check_against_patterns` stores only live runs. -/
def PatLive (a b : PatAcc ε) : Prop :=
  ∀ ph pa id, (∀ r, a.table.runAt ph pa id = some r → r.run.halted = false) →
    ∀ r, b.table.runAt ph pa id = some r → r.run.halted = false

theorem checkPattern_live (c : Cfg ε) (e : ε) (ph0 : String) (acc acc' : PatAcc ε) (p : Pattern ε)
    (hs : checkPattern c e ph0 acc p = some acc') : PatLive acc acc' := by
  unfold checkPattern at hs
  cases hb : p.blocks with
  | nil => simp [hb] at hs
  | cons b0 rest =>
    simp only [hb] at hs
    by_cases hm : startMatch b0.preds e = true
    · simp only [hm, if_true] at hs
      split at hs
      · simp only [Option.some.injEq] at hs; subst hs
        exact fun _ _ _ h => h
      · rename_i hnc
        split at hs
        · cases hadd : acc.table.add ph0 p.name { run := newRun (c.idOf acc.nextId) p b0.group e, pat := p } with
          | none => simp [hadd] at hs
          | some t' =>
            simp only [hadd, Option.some.injEq] at hs
            subst hs
            intro ph pa id hl r hr
            simp only at hr
            rw [runAt_add _ _ _ _ _ hadd] at hr
            split at hr
            · simp only [Option.some.injEq] at hr
              subst hr
              simp only [newRun, Run.isComplete, Bool.and_self, hb] at hnc ⊢
              simpa using hnc
            · exact hl r hr
        · simp only [Option.some.injEq] at hs; subst hs
          exact fun _ _ _ h => h
    · simp only [hm, Bool.false_eq_true, if_false, Option.some.injEq] at hs
      subst hs; exact fun _ _ _ h => h

theorem checkAgainstPatterns_live (c : Cfg ε) (e : ε) (t : Table ε) (n : Nat) (acc : PatAcc ε)
    (hs : checkAgainstPatterns c e t n = some acc) : PatLive { table := t, nextId := n } acc := by
  unfold checkAgainstPatterns at hs
  refine foldlM'_rel PatLive (fun _ _ _ _ h => h) (fun _ _ _ h1 h2 ph pa id hl => h2 ph pa id (h1 ph pa id hl))
    _ c.phenomena ?_ _ _ hs
  intro b P b' _ hf
  exact foldlM'_rel PatLive (fun _ _ _ _ h => h) (fun _ _ _ h1 h2 ph pa id hl => h2 ph pa id (h1 ph pa id hl))
    _ P.patterns (fun b1 p b1' _ hf1 => checkPattern_live c e P.name b1 b1' p hf1) _ _ hf

/-- **finished runs leave the table** (whole `update()`, one key): if the run stored under a key was live
before the event, whatever is stored under it afterwards is live. -/
theorem local_live (c : Cfg ε) (s s' : DState ε) (e : ε) (nt : Notif ε) (ch : Bool)
    (hwf : TableWF s.table) (hstep : localStep c s e = some (s', nt, ch)) (ph pa id : String)
    (hlive : ∀ r, s.table.runAt ph pa id = some r → r.run.halted = false) :
    ∀ r, s'.table.runAt ph pa id = some r → r.run.halted = false := by
  unfold localStep at hstep
  obtain ⟨x1, _, _, _⟩ := procBucket_exact e ph pa id (s.table.runsFrom ph pa) (hwf.ids ph pa) (hwf.names ph pa)
  have h1 : ∀ r, (checkAgainstRuns e s.table).1.runAt ph pa id = some r → r.run.halted = false := by
    intro r hr
    rw [runAt_def, runsFrom_checkAgainstRuns, x1] at hr
    cases hfind : (s.table.runsFrom ph pa).find? (fun r => r.run.id == id) with
    | none => simp [hfind, contribOf] at hr
    | some r0 =>
      rw [hfind] at hr
      simp only [contribOf] at hr
      have hs := contrib_shape e ph r0
      generalize contrib e ph r0 = cr at hs hr
      cases hs with
      | completed r' hid hpat0 => simp at hr
      | halted r' hid hpat0 => simp at hr
      | updated r' hid hpat hle hah hlv => simp only [List.head?_cons, Option.some.injEq] at hr; subst hr; exact hlv
      | same =>
        simp only [List.head?_cons, Option.some.injEq] at hr; subst hr
        exact hlive r0 (by rw [runAt_def]; exact hfind)
  generalize hcar : checkAgainstRuns e s.table = car at hstep h1
  obtain ⟨t1, rhc, rhi, rupd⟩ := car
  simp only at hstep h1
  cases hcp : checkAgainstPatterns c e t1 s.nextId with
  | none => simp [hcp] at hstep
  | some acc =>
    simp only [hcp, Option.some.injEq, Prod.mk.injEq] at hstep
    obtain ⟨hs', _, _⟩ := hstep
    subst hs'
    simp only [maybeCache_table]
    exact checkAgainstPatterns_live c e t1 s.nextId acc hcp ph pa id h1


/-- **`_check_against_runs`, one key**: what is kept under the key and which announced records name it are
those of the single run stored under it. -/
theorem checkAgainstRuns_perkey (e : ε) (t : Table ε) (h : TableWF t) (ph pa id : String) :
    (checkAgainstRuns e t).1.runAt ph pa id = (contribOf e ph (t.runAt ph pa id)).keep.head? ∧
    (checkAgainstRuns e t).2.1.filter (keyMatch ph pa id) = (contribOf e ph (t.runAt ph pa id)).hc ∧
    (checkAgainstRuns e t).2.2.1.filter (keyMatch ph pa id) = (contribOf e ph (t.runAt ph pa id)).hi ∧
    (checkAgainstRuns e t).2.2.2.filter (keyMatch ph pa id) = (contribOf e ph (t.runAt ph pa id)).upd := by
  obtain ⟨hl1, hl2, hl3⟩ := checkAgainstRuns_lists e t
  have f1 := buckets_filter_key t h ph pa id (fun bph brs => (procBucket e bph brs).hc) (by simp [procBucket_nil])
    (fun bph bpa brs hn => (hc_hi_keys e bph bpa brs hn).1)
  have f2 := buckets_filter_key t h ph pa id (fun bph brs => (procBucket e bph brs).hi) (by simp [procBucket_nil])
    (fun bph bpa brs hn => (hc_hi_keys e bph bpa brs hn).2)
  have f3 := buckets_filter_key t h ph pa id (fun bph brs => (procBucket e bph brs).upd) (by simp [procBucket_nil])
    (fun bph bpa brs hn => upd_keys e bph bpa brs hn)
  obtain ⟨x1, x2, x3, x4⟩ := procBucket_exact e ph pa id (t.runsFrom ph pa) (h.ids ph pa) (h.names ph pa)
  refine ⟨?_, ?_, ?_, ?_⟩
  · rw [runAt_def, runsFrom_checkAgainstRuns, x1, runAt_def]
  · rw [hl1, f1, x3, runAt_def]
  · rw [hl2, f2, x4, runAt_def]
  · rw [hl3, f3, x2, runAt_def]


/-- one run contributes at most one finished record. -/
theorem contribOf_finished_le_one (e : ε) (ph : String) (o : Option (LRun ε)) :
    (contribOf e ph o).hc.length + (contribOf e ph o).hi.length ≤ 1 := by
  cases o with
  | none => simp [contribOf]
  | some r =>
    simp only [contribOf]
    have hs := contrib_shape e ph r
    generalize contrib e ph r = cr at hs
    cases hs <;> simp

/-- a list of records in which no key is named twice and equal identifiers mean equal keys has distinct identifiers. -/
theorem nodup_ids_of_key_unique (l : List (Rec ε))
    (hlen : ∀ ph pa id, (l.filter (keyMatch ph pa id)).length ≤ 1)
    (hkey : ∀ x ∈ l, ∀ y ∈ l, x.id = y.id → x.phen = y.phen ∧ x.pat = y.pat) : (l.map (·.id)).Nodup := by
  induction l with
  | nil => simp
  | cons x rest ih =>
    simp only [List.map_cons, List.nodup_cons]
    refine ⟨?_, ih ?_ ?_⟩
    · intro hm
      obtain ⟨y, hy, hye⟩ := List.mem_map.mp hm
      obtain ⟨k1, k2⟩ := hkey x (List.mem_cons_self ..) y (List.mem_cons_of_mem _ hy) hye.symm
      have hkx : keyMatch x.phen x.pat x.id x = true := (keyMatch_iff _ _ _ x).mpr ⟨rfl, rfl, rfl⟩
      have hky : keyMatch x.phen x.pat x.id y = true := (keyMatch_iff _ _ _ y).mpr ⟨k1, k2, hye.symm⟩
      have := hlen x.phen x.pat x.id
      simp only [List.filter_cons, hkx, if_true, List.length_cons] at this
      have hpos : 0 < (rest.filter (keyMatch x.phen x.pat x.id)).length :=
        List.length_pos_of_mem (List.mem_filter.mpr ⟨hy, hky⟩)
      omega
    · intro ph pa id
      have := hlen ph pa id
      simp only [List.filter_cons] at this
      split at this
      · simp only [List.length_cons] at this; omega
      · exact this
    · exact fun a ha b hb => hkey a (List.mem_cons_of_mem _ ha) b (List.mem_cons_of_mem _ hb)

end Bobo.Decider
