import BoboVerif.Lemmas.RemoteJoin
/-!
Exact (run-level, not only status-level) effect of the loops of
`on_distributed_update` on one run key, for configurations without singletons.
-/
namespace Bobo.Decider
open Bobo.Run Bobo.Lattice
set_option linter.unusedSimpArgs false
variable {ε : Type}

def known (c : Cfg ε) (rr : Rec ε) : Bool := (c.getPattern rr.phen rr.pat).isSome

/-- the completed / halted loops remove exactly the keys they name (for known patterns). -/
theorem fold_removeOne_exact (c : Cfg ε) (hns : NoSing c) (b : Bool) (rs : List (Rec ε)) :
    ∀ (s : DState ε) (out : List (Rec ε)) (ph pa id : String),
      (rs.foldl (removeOne c b) (s, out)).1.table.runAt ph pa id =
        if rs.any (fun rr => known c rr && keyMatch ph pa id rr) then none else s.table.runAt ph pa id := by
  induction rs with
  | nil => intro s out ph pa id; simp
  | cons rr rest ih =>
    intro s out ph pa id
    simp only [List.foldl_cons, List.any_cons]
    rw [removeOne_nosing c hns]
    cases hp : c.getPattern rr.phen rr.pat with
    | none =>
      simp only [known, hp, Option.isSome_none, Bool.false_and, Bool.false_or]
      exact ih s out ph pa id
    | some p =>
      have hkn : known c rr = true := by simp [known, hp]
      simp only [hkn, Bool.true_and]
      rw [ih]
      simp only
      rw [runAt_remove]
      by_cases hk : keyMatch ph pa id rr = true
      · have hkey := (keyMatch_iff ph pa id rr).mp hk
        rw [if_pos hkey]
        simp only [hk, Bool.true_or, if_true]
        split <;> rfl
      · have hk' : keyMatch ph pa id rr = false := by simpa using hk
        have hnk : ¬ (ph = rr.phen ∧ pa = rr.pat ∧ id = rr.id) := fun h => hk ((keyMatch_iff ph pa id rr).mpr h)
        rw [if_neg hnk]
        simp only [hk', Bool.false_or]

/-- what one `updated` record does to the run stored under its key. -/
def applyRec (p : Pattern ε) (o : Option (LRun ε)) (rr : Rec ε) : Option (LRun ε) :=
  match o with
  | some rl => some (if ahead rr rl.run then { rl with run := { rl.run with idx := rr.idx, hist := rr.hist } } else rl)
  | none => some { run := { id := rr.id, idx := rr.idx, hist := rr.hist, halted := completeAt p.blocks.length rr.idx }, pat := p }

theorem updateOne_exact (c : Cfg ε) (hns : NoSing c) (s : DState ε) (out : List (Rec ε)) (rr : Rec ε) :
    ∃ s' out', updateOne c ahead (s, out) rr = some (s', out') ∧
      s'.cacheC = s.cacheC ∧ s'.cacheH = s.cacheH ∧
      ∀ ph pa id, s'.table.runAt ph pa id =
        match c.getPattern rr.phen rr.pat with
        | some p => if keyMatch ph pa id rr then applyRec p (s.table.runAt ph pa id) rr else s.table.runAt ph pa id
        | none => s.table.runAt ph pa id := by
  unfold updateOne
  cases hp : c.getPattern rr.phen rr.pat with
  | none => exact ⟨s, out, rfl, rfl, rfl, fun _ _ _ => rfl⟩
  | some p =>
    have hsg := hns _ _ p hp
    simp only [hsg, Bool.false_eq_true, if_false, Bool.false_and]
    cases hl : s.table.runAt rr.phen rr.pat rr.id with
    | some rl =>
      have hid : rl.run.id = rr.id := by
        have := List.find?_some (by rw [runAt_def] at hl; exact hl)
        simpa using this
      simp only
      refine ⟨_, _, rfl, rfl, rfl, fun ph pa id => ?_⟩
      by_cases hk : keyMatch ph pa id rr = true
      · obtain ⟨h1, h2, h3⟩ := (keyMatch_iff ph pa id rr).mp hk
        subst h1 h2 h3
        simp only [hk, if_true, hl, applyRec]
        by_cases ha : ahead rr rl.run = true
        · simp only [ha, if_true]
          rw [runAt_setBlock, hid]
          simp [hl, hid]
        · simp only [ha, Bool.false_eq_true, if_false]; exact hl
      · have hk' : keyMatch ph pa id rr = false := by simpa using hk
        simp only [hk', Bool.false_eq_true, if_false]
        by_cases ha : ahead rr rl.run = true
        · simp only [ha, if_true]
          rw [runAt_setBlock]
          have : ¬ (ph = rr.phen ∧ pa = rr.pat ∧ id = rl.run.id) := by
            rw [hid]; exact fun h => hk ((keyMatch_iff ph pa id rr).mpr h)
          simp [this]
        · simp only [ha, Bool.false_eq_true, if_false]
    | none =>
      simp only
      obtain ⟨t', ht'⟩ := add_isSome_of_runAt_none s.table rr.phen rr.pat
        { run := { id := rr.id, idx := rr.idx, hist := rr.hist, halted := completeAt p.blocks.length rr.idx }, pat := p } hl
      simp only [ht']
      refine ⟨_, _, rfl, rfl, rfl, fun ph pa id => ?_⟩
      simp only
      rw [runAt_add _ _ _ _ _ ht']
      by_cases hk : keyMatch ph pa id rr = true
      · obtain ⟨h1, h2, h3⟩ := (keyMatch_iff ph pa id rr).mp hk
        subst h1 h2 h3
        simp [hk, hl, applyRec]
      · have hk' : keyMatch ph pa id rr = false := by simpa using hk
        have : ¬ (ph = rr.phen ∧ pa = rr.pat ∧ id = rr.id) := fun h => hk ((keyMatch_iff ph pa id rr).mpr h)
        simp [hk', this]

/-- the `updated` loop, one key: the records naming the key are applied to it in order. -/
theorem fold_updateOne_exact (c : Cfg ε) (hns : NoSing c) (rs : List (Rec ε)) :
    ∀ (s : DState ε) (out : List (Rec ε)),
      ∃ s' out', foldlM' (updateOne c ahead) (s, out) rs = some (s', out') ∧
        s'.cacheC = s.cacheC ∧ s'.cacheH = s.cacheH ∧
        ∀ ph pa id (p : Pattern ε), c.getPattern ph pa = some p →
          s'.table.runAt ph pa id = (rs.filter (keyMatch ph pa id)).foldl (applyRec p) (s.table.runAt ph pa id) := by
  induction rs with
  | nil => intro s out; exact ⟨s, out, rfl, rfl, rfl, fun _ _ _ _ _ => rfl⟩
  | cons rr rest ih =>
    intro s out
    obtain ⟨s1, out1, hstep, hc1, hh1, hst1⟩ := updateOne_exact c hns s out rr
    obtain ⟨s2, out2, hfold, hc2, hh2, hst2⟩ := ih s1 out1
    refine ⟨s2, out2, by simp only [foldlM', hstep, hfold], hc2.trans hc1, hh2.trans hh1, ?_⟩
    intro ph pa id p hp
    rw [hst2 ph pa id p hp, hst1 ph pa id]
    by_cases hk : keyMatch ph pa id rr = true
    · obtain ⟨h1, h2, _⟩ := (keyMatch_iff ph pa id rr).mp hk
      have : c.getPattern rr.phen rr.pat = some p := by rw [← h1, ← h2]; exact hp
      simp only [this, hk, if_true, List.filter_cons, List.foldl_cons]
    · have hk' : keyMatch ph pa id rr = false := by simpa using hk
      cases hq : c.getPattern rr.phen rr.pat <;> simp [hk', List.filter_cons]

end Bobo.Decider

namespace Bobo.Decider
open Bobo.Run Bobo.Lattice
set_option linter.unusedSimpArgs false
variable {ε : Type}

theorem any_known_key (c : Cfg ε) (ph pa id : String) (p : Pattern ε) (hp : c.getPattern ph pa = some p)
    (l : List (Rec ε)) : l.any (fun rr => known c rr && keyMatch ph pa id rr) = l.any (keyMatch ph pa id) := by
  induction l with
  | nil => rfl
  | cons rr rest ih =>
    simp only [List.any_cons, ih]
    by_cases hk : keyMatch ph pa id rr = true
    · obtain ⟨h1, h2, _⟩ := (keyMatch_iff ph pa id rr).mp hk
      have : known c rr = true := by simp [known, ← h1, ← h2, hp]
      simp [this, hk]
    · have hk' : keyMatch ph pa id rr = false := by simpa using hk
      simp [hk']

/-- **`on_distributed_update`, one key, exactly** (non-singleton configuration, memory enabled and not
evicting, the message names no run this instance remembers as finished and does not name one run both as
finished and as updated): the key named by a completed / halted record is dropped, any other key ends at
what applying the `updated` records naming it, in order, gives; the memories grow by the two lists. -/
theorem remote_exact (c : Cfg ε) (hc : c.caching = true) (hns : NoSing c) (s : DState ε)
    (comp halt upd : List (Rec ε))
    (hevC : s.cacheC.length + comp.length ≤ c.maxCache)
    (hevH : s.cacheH.length + halt.length ≤ c.maxCache)
    (hmem : ∀ x ∈ comp ++ halt ++ upd, inCache s.cacheC x.id = false ∧ inCache s.cacheH x.id = false)
    (hsep : ∀ u ∈ upd, ∀ f ∈ comp ++ halt, u.id ≠ f.id) :
    ∃ s' n, remoteStep c s comp halt upd = some (s', n) ∧
      s'.cacheC = s.cacheC ++ comp ∧ s'.cacheH = s.cacheH ++ halt ∧
      ∀ ph pa id p, c.getPattern ph pa = some p →
        s'.table.runAt ph pa id = (upd.filter (keyMatch ph pa id)).foldl (applyRec p)
          (if (comp ++ halt).any (keyMatch ph pa id) then none else s.table.runAt ph pa id) := by
  unfold remoteStep remoteStepG
  simp only [checkAgainstCache, hc, if_true]
  have hcomp1 : comp.filter (fun r => !inCache s.cacheC r.id) = comp := by
    rw [List.filter_eq_self]; intro x hx
    simp [(hmem x (List.mem_append.mpr (.inl (List.mem_append.mpr (.inl hx))))).1]
  have hhalt1 : halt.filter (fun r => !inCache s.cacheC r.id && !inCache s.cacheH r.id) = halt := by
    rw [List.filter_eq_self]; intro x hx
    have := hmem x (List.mem_append.mpr (.inl (List.mem_append.mpr (.inr hx))))
    simp [this.1, this.2]
  have hupd1 : upd.filter (fun r => !inCache s.cacheC r.id && !inCache s.cacheH r.id) = upd := by
    rw [List.filter_eq_self]; intro x hx
    have := hmem x (List.mem_append.mpr (.inr hx))
    simp [this.1, this.2]
  rw [hcomp1, hhalt1, hupd1, maybeCache_noevict c hc s comp halt hevC hevH]
  generalize hs1 : ({ s with cacheC := s.cacheC ++ comp, cacheH := s.cacheH ++ halt } : DState ε) = s1
  obtain ⟨hC2, hH2, _⟩ := fold_removeOne c hns true comp s1 []
  have hT2 := fold_removeOne_exact c hns true comp s1 []
  generalize hf2 : comp.foldl (removeOne c true) (s1, []) = st2 at hC2 hH2 hT2
  obtain ⟨s2, compOut⟩ := st2
  simp only at hC2 hH2 hT2 ⊢
  obtain ⟨hC3, hH3, _⟩ := fold_removeOne c hns false halt s2 []
  have hT3 := fold_removeOne_exact c hns false halt s2 []
  generalize hf3 : halt.foldl (removeOne c false) (s2, []) = st3 at hC3 hH3 hT3
  obtain ⟨s3, haltOut⟩ := st3
  simp only at hC3 hH3 hT3 ⊢
  have hC3' : s3.cacheC = s.cacheC ++ comp := by rw [hC3, hC2, ← hs1]
  have hH3' : s3.cacheH = s.cacheH ++ halt := by rw [hH3, hH2, ← hs1]
  have hupd2 : upd.filter (fun r => !inCache s3.cacheC r.id && !inCache s3.cacheH r.id) = upd := by
    rw [List.filter_eq_self]; intro x hx
    have hm := hmem x (List.mem_append.mpr (.inr hx))
    have h1 : comp.any (·.id == x.id) = false := by
      rw [List.any_eq_false]; intro f hf
      have := hsep x hx f (List.mem_append.mpr (.inl hf))
      simpa using fun e => this e.symm
    have h2 : halt.any (·.id == x.id) = false := by
      rw [List.any_eq_false]; intro f hf
      have := hsep x hx f (List.mem_append.mpr (.inr hf))
      simpa using fun e => this e.symm
    simp [hC3', hH3', inCache_append, hm.1, hm.2, h1, h2]
  rw [hupd2]
  obtain ⟨s4, updOut, hfold, hC4, hH4, hT4⟩ := fold_updateOne_exact c hns upd s3 []
  simp only [hfold]
  refine ⟨_, _, rfl, by rw [hC4, hC3'], by rw [hH4, hH3'], fun ph pa id p hp => ?_⟩
  rw [hT4 ph pa id p hp, hT3 ph pa id, hT2 ph pa id, any_known_key c ph pa id p hp, any_known_key c ph pa id p hp,
    List.any_append, ← hs1]
  cases comp.any (keyMatch ph pa id) <;> cases halt.any (keyMatch ph pa id) <;> simp

end Bobo.Decider
