import BoboVerif.Lemmas.Remote
/-!
Exact (run-level, not only status-level) effect of the loops of
`on_distributed_update` on one run key, for configurations without singletons.
-/
namespace Bobo.Decider
open Bobo.Run Bobo.Lattice
set_option linter.unusedSimpArgs false
variable {ε : Type}

def known (c : Cfg ε) (rr : Rec ε) : Bool := (c.getPattern rr.phen rr.pat).isSome

/-- the completed / halted loops remove exactly the keys they name (for known patterns). -/
theorem fold_removeOne_exact (c : Cfg ε) (hns : NoSing c) (b : Bool) (rs : List (Rec ε)) :
    ∀ (s : DState ε) (out : List (Rec ε)) (ph pa id : String),
      (rs.foldl (removeOne c b) (s, out)).1.table.runAt ph pa id =
        if rs.any (fun rr => known c rr && keyMatch ph pa id rr) then none else s.table.runAt ph pa id := by
  induction rs with
  | nil => intro s out ph pa id; simp
  | cons rr rest ih =>
    intro s out ph pa id
    simp only [List.foldl_cons, List.any_cons]
    rw [removeOne_nosing c hns]
    cases hp : c.getPattern rr.phen rr.pat with
    | none =>
      simp only [known, hp, Option.isSome_none, Bool.false_and, Bool.false_or]
      exact ih s out ph pa id
    | some p =>
      have hkn : known c rr = true := by simp [known, hp]
      simp only [hkn, Bool.true_and]
      rw [ih]
      simp only
      rw [runAt_remove]
      by_cases hk : keyMatch ph pa id rr = true
      · have hkey := (keyMatch_iff ph pa id rr).mp hk
        rw [if_pos hkey]
        simp only [hk, Bool.true_or, if_true]
        split <;> rfl
      · have hk' : keyMatch ph pa id rr = false := by simpa using hk
        have hnk : ¬ (ph = rr.phen ∧ pa = rr.pat ∧ id = rr.id) := fun h => hk ((keyMatch_iff ph pa id rr).mpr h)
        rw [if_neg hnk]
        simp only [hk', Bool.false_or]

/-- what one `updated` record does to the run stored under its key. -/
def applyRec (p : Pattern ε) (o : Option (LRun ε)) (rr : Rec ε) : Option (LRun ε) :=
  match o with
  | some rl => some (if ahead rr rl.run then { rl with run := { rl.run with idx := rr.idx, hist := rr.hist } } else rl)
  | none => some { run := { id := rr.id, idx := rr.idx, hist := rr.hist, halted := completeAt p.blocks.length rr.idx }, pat := p }

theorem updateOne_exact (c : Cfg ε) (hns : NoSing c) (s : DState ε) (out : List (Rec ε)) (rr : Rec ε) :
    ∃ s' out', updateOne c ahead (s, out) rr = some (s', out') ∧
      s'.cacheC = s.cacheC ∧ s'.cacheH = s.cacheH ∧
      ∀ ph pa id, s'.table.runAt ph pa id =
        match c.getPattern rr.phen rr.pat with
        | some p => if keyMatch ph pa id rr then applyRec p (s.table.runAt ph pa id) rr else s.table.runAt ph pa id
        | none => s.table.runAt ph pa id := by
  unfold updateOne
  cases hp : c.getPattern rr.phen rr.pat with
  | none => exact ⟨s, out, rfl, rfl, rfl, fun _ _ _ => rfl⟩
  | some p =>
    have hsg := hns _ _ p hp
    simp only [hsg, Bool.false_eq_true, if_false, Bool.false_and]
    cases hl : s.table.runAt rr.phen rr.pat rr.id with
    | some rl =>
      have hid : rl.run.id = rr.id := by
        have := List.find?_some (by rw [runAt_def] at hl; exact hl)
        simpa using this
      simp only
      refine ⟨_, _, rfl, rfl, rfl, fun ph pa id => ?_⟩
      by_cases hk : keyMatch ph pa id rr = true
      · obtain ⟨h1, h2, h3⟩ := (keyMatch_iff ph pa id rr).mp hk
        subst h1 h2 h3
        simp only [hk, if_true, hl, applyRec]
        by_cases ha : ahead rr rl.run = true
        · simp only [ha, if_true]
          rw [runAt_setBlock, hid]
          simp [hl, hid]
        · simp only [ha, Bool.false_eq_true, if_false]; exact hl
      · have hk' : keyMatch ph pa id rr = false := by simpa using hk
        simp only [hk', Bool.false_eq_true, if_false]
        by_cases ha : ahead rr rl.run = true
        · simp only [ha, if_true]
          rw [runAt_setBlock]
          have : ¬ (ph = rr.phen ∧ pa = rr.pat ∧ id = rl.run.id) := by
            rw [hid]; exact fun h => hk ((keyMatch_iff ph pa id rr).mpr h)
          simp [this]
        · simp only [ha, Bool.false_eq_true, if_false]
    | none =>
      simp only
      obtain ⟨t', ht'⟩ := add_isSome_of_runAt_none s.table rr.phen rr.pat
        { run := { id := rr.id, idx := rr.idx, hist := rr.hist, halted := completeAt p.blocks.length rr.idx }, pat := p } hl
      simp only [ht']
      refine ⟨_, _, rfl, rfl, rfl, fun ph pa id => ?_⟩
      simp only
      rw [runAt_add _ _ _ _ _ ht']
      by_cases hk : keyMatch ph pa id rr = true
      · obtain ⟨h1, h2, h3⟩ := (keyMatch_iff ph pa id rr).mp hk
        subst h1 h2 h3
        simp [hk, hl, applyRec]
      · have hk' : keyMatch ph pa id rr = false := by simpa using hk
        have : ¬ (ph = rr.phen ∧ pa = rr.pat ∧ id = rr.id) := fun h => hk ((keyMatch_iff ph pa id rr).mpr h)
        simp [hk', this]

/-- the `updated` loop, one key: the records naming the key are applied to it in order. -/
theorem fold_updateOne_exact (c : Cfg ε) (hns : NoSing c) (rs : List (Rec ε)) :
    ∀ (s : DState ε) (out : List (Rec ε)),
      ∃ s' out', foldlM' (updateOne c ahead) (s, out) rs = some (s', out') ∧
        s'.cacheC = s.cacheC ∧ s'.cacheH = s.cacheH ∧
        ∀ ph pa id (p : Pattern ε), c.getPattern ph pa = some p →
          s'.table.runAt ph pa id = (rs.filter (keyMatch ph pa id)).foldl (applyRec p) (s.table.runAt ph pa id) := by
  induction rs with
  | nil => intro s out; exact ⟨s, out, rfl, rfl, rfl, fun _ _ _ _ _ => rfl⟩
  | cons rr rest ih =>
    intro s out
    obtain ⟨s1, out1, hstep, hc1, hh1, hst1⟩ := updateOne_exact c hns s out rr
    obtain ⟨s2, out2, hfold, hc2, hh2, hst2⟩ := ih s1 out1
    refine ⟨s2, out2, by simp only [foldlM', hstep, hfold], hc2.trans hc1, hh2.trans hh1, ?_⟩
    intro ph pa id p hp
    rw [hst2 ph pa id p hp, hst1 ph pa id]
    by_cases hk : keyMatch ph pa id rr = true
    · obtain ⟨h1, h2, _⟩ := (keyMatch_iff ph pa id rr).mp hk
      have : c.getPattern rr.phen rr.pat = some p := by rw [← h1, ← h2]; exact hp
      simp only [this, hk, if_true, List.filter_cons, List.foldl_cons]
    · have hk' : keyMatch ph pa id rr = false := by simpa using hk
      cases hq : c.getPattern rr.phen rr.pat <;> simp [hk', List.filter_cons]

end Bobo.Decider
