import BoboVerif.Model.Run
/-!
Helper lemmas about M-Run shared by Props/C01, C12, C14, C19.
-/
namespace Bobo.Run
set_option linter.unusedSimpArgs false

variable {ε : Type}

/-- the walk only ever hands back the run it was given, possibly with an event added,
the index moved, or the halted flag set — classified by what changed. -/
inductive WalkRes (n : Nat) (e : ε) (r : Run ε) : Out × Run ε → Prop
  | index : WalkRes n e r (.indexError, r)
  | raised : WalkRes n e r (.raised, r)
  | wait : WalkRes n e r (.ok false, r)
  | halt : WalkRes n e r (.ok true, halt r)
  | record (g : String) : WalkRes n e r (.ok true, { r with hist := addEvent r.hist g e })
  | advance (g : String) (j : Nat) : WalkRes n e r (.ok true,
      { r with hist := addEvent r.hist g e, idx := j + 1, halted := completeAt n (j + 1) })

theorem walk_res (n : Nat) (e : ε) (bs : List (Block ε)) : ∀ (i : Nat) (r : Run ε),
    WalkRes n e r (walk n e bs i r) := by
  induction bs with
  | nil => intro i r; exact .index
  | cons b rest ih =>
    intro i r
    unfold walk
    cases hm : isMatch b.preds e r.hist with
    | none => exact .raised
    | some m =>
      simp only
      by_cases hl : b.loop = true
      · simp only [hl, if_true]
        cases m
        · simp only [Bool.false_eq_true, if_false]
          by_cases hs : b.strict = true
          · simp only [hs, if_true]; exact .halt
          · simp only [hs, if_false]; exact ih _ _
        · simp only [if_true]; exact .record _
      · simp only [hl, if_false]
        by_cases hn : b.negated = true
        · simp only [hn, if_true]
          cases m
          · simp only [Bool.false_eq_true, if_false]; exact .advance _ _
          · simp only [if_true]
            by_cases hs : b.strict = true
            · simp only [hs, if_true]; exact .halt
            · simp only [hs, if_false]; exact .wait
        · simp only [hn, if_false]
          by_cases ho : b.optional = true
          · simp only [ho, if_true]
            cases m
            · simp only [Bool.false_eq_true, if_false]; exact ih _ _
            · simp only [if_true]; exact .advance _ _
          · simp only [ho, if_false]
            cases m
            · simp only [Bool.false_eq_true, if_false]
              by_cases hs : b.strict = true
              · simp only [hs, if_true]; exact .halt
              · simp only [hs, if_false]; exact .wait
            · simp only [if_true]; exact .advance _ _

/-- index reached by an advance is past the starting index: the walk only looks forward. -/
theorem walk_idx_ge (n : Nat) (e : ε) (bs : List (Block ε)) : ∀ (i : Nat) (r : Run ε),
    r.idx ≤ i → r.idx ≤ (walk n e bs i r).2.idx := by
  induction bs with
  | nil => intro i r h; simp [walk]
  | cons b rest ih =>
    intro i r h
    unfold walk
    cases hm : isMatch b.preds e r.hist with
    | none => simp
    | some m =>
      simp only
      split
      · split
        · simp
        · split
          · simp [halt]
          · exact ih _ _ (by omega)
      · split
        · split
          · split <;> simp [halt]
          · simp [moveForward]; omega
        · split
          · split
            · simp [moveForward]; omega
            · exact ih _ _ (by omega)
          · split
            · simp [moveForward]; omega
            · split <;> simp [halt]

/-- suffix whose last block neither loops nor is optional: the walk cannot run off the end. -/
def EndsPlain : List (Block ε) → Prop
  | [] => False
  | [b] => b.loop = false ∧ b.optional = false
  | _ :: b :: rest => EndsPlain (b :: rest)

theorem walk_no_index_error (n : Nat) (e : ε) (bs : List (Block ε)) :
    EndsPlain bs → ∀ (i : Nat) (r : Run ε), (walk n e bs i r).1 ≠ .indexError := by
  induction bs with
  | nil => intro h; exact absurd h (by simp [EndsPlain])
  | cons b rest ih =>
    intro h i r
    unfold walk
    cases hm : isMatch b.preds e r.hist with
    | none => simp
    | some m =>
      simp only
      cases rest with
      | nil =>
        have h1 : b.loop = false := h.1
        have h2 : b.optional = false := h.2
        cases m <;> by_cases hn : b.negated = true <;> by_cases hs : b.strict = true <;> simp [h1, h2, hn, hs]
      | cons b' rest' =>
        have h' : EndsPlain (b' :: rest') := h
        have := ih h' (i + 1) r
        cases m <;> by_cases hl : b.loop = true <;> by_cases hn : b.negated = true <;>
          by_cases ho : b.optional = true <;> by_cases hs : b.strict = true <;>
          simp [hl, hn, ho, hs] <;> exact this

theorem endsPlain_drop (bs : List (Block ε)) (i : Nat) (hi : i < bs.length)
    (h : EndsPlain bs) : EndsPlain (bs.drop i) := by
  induction bs generalizing i with
  | nil => simp at hi
  | cons b rest ih =>
    cases i with
    | zero => simpa using h
    | succ k =>
      simp only [List.drop_succ_cons]
      cases rest with
      | nil => simp at hi
      | cons b' rest' =>
        exact ih k (by simpa using hi) h

theorem size_cons (kv : String × List ε) (h : Hist ε) : Hist.size (kv :: h) = kv.2.length + Hist.size h := by
  simp [Hist.size]

theorem size_map_ge (g : String) (e : ε) (h : Hist ε) :
    Hist.size h ≤ Hist.size (h.map (fun kv => if kv.1 == g then (kv.1, kv.2 ++ [e]) else kv)) := by
  induction h with
  | nil => simp
  | cons kv rest ih =>
    rw [List.map_cons, size_cons, size_cons]
    by_cases hk : (kv.1 == g) = true
    · simp only [hk, if_true, List.length_append, List.length_cons, List.length_nil]; omega
    · simp only [hk, Bool.false_eq_true, if_false]; omega

/-- `addEvent` never loses an event: the history grows by at least the event offered
(exactly one when group names are unique, as in a Python dict). -/
theorem addEvent_size_ge (h : Hist ε) (g : String) (e : ε) : Hist.size h + 1 ≤ Hist.size (addEvent h g e) := by
  unfold addEvent
  split
  · rename_i hany
    induction h with
    | nil => simp at hany
    | cons kv rest ih =>
      rw [List.map_cons, size_cons, size_cons]
      by_cases hk : (kv.1 == g) = true
      · have := size_map_ge g e rest
        simp only [hk, if_true, List.length_append, List.length_cons, List.length_nil]; omega
      · have hany' : rest.any (·.1 == g) = true := by
          simp only [List.any_cons, Bool.or_eq_true] at hany
          rcases hany with h1 | h1
          · exact absurd h1 hk
          · exact h1
        have := ih hany'
        simp only [hk, Bool.false_eq_true, if_false]; omega
  · simp [Hist.size]

end Bobo.Run
