import BoboVerif.Model.IdGen
import Std.Data.String.ToNat
import Std.Data.String.ToInt
/-!
Injectivity of the id formatter `Bobo.IdGen.fmt` (C16): the decimal renderings of
the second and of the counter contain no `'_'`, so the last two underscores of an
id delimit them, whatever the prefix contains (underscores and digits allowed).
-/
namespace Bobo.IdGen

/-- splitting at the FIRST occurrence of `a` is unique. -/
theorem split_first {α : Type} {a : α} : ∀ {l₁ l₂ r₁ r₂ : List α},
    a ∉ l₁ → a ∉ l₂ → l₁ ++ a :: r₁ = l₂ ++ a :: r₂ → l₁ = l₂ ∧ r₁ = r₂
  | [], [], _, _, _, _, h => by simpa using h
  | [], y :: l₂, _, _, _, h₂, h => by
    simp only [List.nil_append, List.cons_append, List.cons.injEq] at h
    exact absurd (h.1 ▸ List.mem_cons_self) h₂
  | x :: l₁, [], _, _, h₁, _, h => by
    simp only [List.nil_append, List.cons_append, List.cons.injEq] at h
    exact absurd (h.1 ▸ List.mem_cons_self) h₁
  | x :: l₁, y :: l₂, _, _, h₁, h₂, h => by
    simp only [List.cons_append, List.cons.injEq] at h
    have := split_first (fun m => h₁ (List.mem_cons_of_mem _ m)) (fun m => h₂ (List.mem_cons_of_mem _ m)) h.2
    exact ⟨by rw [h.1, this.1], this.2⟩

/-- splitting at the LAST occurrence of `a` is unique. -/
theorem split_last {α : Type} {a : α} {l₁ l₂ r₁ r₂ : List α}
    (h₁ : a ∉ r₁) (h₂ : a ∉ r₂) (h : l₁ ++ a :: r₁ = l₂ ++ a :: r₂) : l₁ = l₂ ∧ r₁ = r₂ := by
  have h' := congrArg List.reverse h
  simp only [List.reverse_append, List.reverse_cons, List.append_assoc, List.singleton_append] at h'
  have := split_first (a := a) (by simpa using h₁) (by simpa using h₂) h'
  exact ⟨List.reverse_inj.mp this.2, List.reverse_inj.mp this.1⟩

theorem underscore_not_in_natRepr (n : Nat) : '_' ∉ (toString n).toList := by
  show '_' ∉ (Nat.repr n).toList
  simp [Nat.repr]

theorem underscore_not_in_intRepr (a : Int) : '_' ∉ (toString a).toList := by
  rw [Int.toString_eq_repr, Int.repr_eq_if]
  split
  · exact underscore_not_in_natRepr _
  · rw [String.toList_append]
    intro h
    rcases List.mem_append.mp h with h | h
    · revert h; decide
    · exact underscore_not_in_natRepr _ h

/-- the characters of the two renderings joined by `'_'`. -/
def body (o : Out) : List Char := (toString o.1).toList ++ '_' :: (toString o.2).toList

theorem fmt_none_toList (o : Out) : (fmt none o).toList = body o := by
  simp [fmt, body, String.toList_append]

theorem fmt_some_toList (u : String) (o : Out) : (fmt (some u) o).toList = u.toList ++ '_' :: body o := by
  simp [fmt, body, String.toList_append]

theorem out_eq_of_reprs {o₁ o₂ : Out} (h1 : (toString o₁.1).toList = (toString o₂.1).toList)
    (h2 : (toString o₁.2).toList = (toString o₂.2).toList) : o₁ = o₂ := by
  have e1 : o₁.1 = o₂.1 := Int.repr_injective (String.toList_inj.mp h1)
  have e2 : o₁.2 = o₂.2 := Nat.repr_injective (String.toList_inj.mp h2)
  exact Prod.ext e1 e2

/-- with a common (possibly empty) list in front: the body determines the pair, provided what
is in front ends the same way — used with `p = q = []` and with `p = u ++ "_"`. -/
theorem body_injective {o₁ o₂ : Out} (h : body o₁ = body o₂) : o₁ = o₂ := by
  unfold body at h
  have := split_last (underscore_not_in_natRepr _) (underscore_not_in_natRepr _) h
  exact out_eq_of_reprs this.1 this.2

theorem fmt_some_injective {u₁ u₂ : String} {o₁ o₂ : Out}
    (h : fmt (some u₁) o₁ = fmt (some u₂) o₂) : u₁ = u₂ ∧ o₁ = o₂ := by
  have hl := congrArg String.toList h
  rw [fmt_some_toList, fmt_some_toList] at hl
  unfold body at hl
  -- last underscore
  have a : ∀ (u : String) (o : Out), u.toList ++ '_' :: ((toString o.1).toList ++ '_' :: (toString o.2).toList)
      = (u.toList ++ '_' :: (toString o.1).toList) ++ '_' :: (toString o.2).toList := by
    intro u o; simp
  rw [a, a] at hl
  have s1 := split_last (underscore_not_in_natRepr _) (underscore_not_in_natRepr _) hl
  have s2 := split_last (underscore_not_in_intRepr _) (underscore_not_in_intRepr _) s1.1
  exact ⟨String.toList_inj.mp s2.1, out_eq_of_reprs s2.2 s1.2⟩

theorem fmt_none_ne_some (u : String) (o₁ o₂ : Out) : fmt none o₁ ≠ fmt (some u) o₂ := by
  intro h
  have hl := congrArg String.toList h
  rw [fmt_none_toList, fmt_some_toList] at hl
  unfold body at hl
  have a : u.toList ++ '_' :: ((toString o₂.1).toList ++ '_' :: (toString o₂.2).toList)
      = (u.toList ++ '_' :: (toString o₂.1).toList) ++ '_' :: (toString o₂.2).toList := by simp
  rw [a] at hl
  have s1 := split_last (underscore_not_in_natRepr _) (underscore_not_in_natRepr _) hl
  have : '_' ∈ (toString o₁.1).toList := by rw [s1.1]; simp
  exact underscore_not_in_intRepr _ this

/-- **`fmt` is injective** in (prefix, second, counter), for every prefix string. -/
theorem fmt_inj {p₁ p₂ : Option String} {o₁ o₂ : Out} (h : fmt p₁ o₁ = fmt p₂ o₂) : p₁ = p₂ ∧ o₁ = o₂ := by
  cases p₁ with
  | none =>
    cases p₂ with
    | none =>
      have hl := congrArg String.toList h
      rw [fmt_none_toList, fmt_none_toList] at hl
      exact ⟨rfl, body_injective hl⟩
    | some u => exact absurd h (fmt_none_ne_some u o₁ o₂)
  | some u₁ =>
    cases p₂ with
    | none => exact absurd h.symm (fmt_none_ne_some u₁ o₂ o₁)
    | some u₂ =>
      have := fmt_some_injective h
      exact ⟨by rw [this.1], this.2⟩

end Bobo.IdGen
