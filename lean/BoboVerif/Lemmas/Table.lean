import BoboVerif.Model.Decider
/-!
API lemmas for the run table (nested insertion-ordered dicts): every model
function reads the table through `runsFrom` / `runAt`, and `Table.modify`
changes exactly one bucket.
-/
namespace Bobo.Decider
open Bobo.Run
variable {ε : Type}

theorem lookup_cons {α} (k a : String) (v : α) (l : List (String × α)) :
    lookup k ((a, v) :: l) = if a = k then some v else lookup k l := by
  simp [lookup]

theorem lookup_map_other {α} (k k' : String) (f : α → α) (l : List (String × α)) (h : k' ≠ k) :
    lookup k' (l.map (fun kv => if kv.1 == k then (kv.1, f kv.2) else kv)) = lookup k' l := by
  induction l with
  | nil => rfl
  | cons kv rest ih =>
    obtain ⟨a, v⟩ := kv
    simp only [List.map_cons]
    by_cases hak : a = k
    · subst hak
      have h' : ¬ a = k' := fun e => h e.symm
      simp only [beq_self_eq_true, if_true, lookup_cons, h', if_false, ih]
    · have hk : (a == k) = false := by simpa using hak
      simp only [hk, Bool.false_eq_true, if_false, lookup_cons, ih]

theorem lookup_map_same {α} (k : String) (f : α → α) (l : List (String × α)) :
    lookup k (l.map (fun kv => if kv.1 == k then (kv.1, f kv.2) else kv)) = (lookup k l).map f := by
  induction l with
  | nil => rfl
  | cons kv rest ih =>
    obtain ⟨a, v⟩ := kv
    simp only [List.map_cons]
    by_cases hak : a = k
    · subst hak; simp only [beq_self_eq_true, if_true, lookup_cons, Option.map_some]
    · have hk : (a == k) = false := by simpa using hak
      simp only [hk, Bool.false_eq_true, if_false, lookup_cons, hak, ih]

theorem lookup_none_of_not_any {α} (k : String) (l : List (String × α)) (h : l.any (·.1 == k) = false) :
    lookup k l = none := by
  induction l with
  | nil => rfl
  | cons kv rest ih =>
    obtain ⟨a, v⟩ := kv
    simp only [List.any_cons, Bool.or_eq_false_iff] at h
    have : ¬ a = k := by simpa using h.1
    simp only [lookup_cons, this, if_false, ih h.2]

theorem lookup_isSome_of_any {α} (k : String) (l : List (String × α)) (h : l.any (·.1 == k) = true) :
    (lookup k l).isSome = true := by
  induction l with
  | nil => simp at h
  | cons kv rest ih =>
    obtain ⟨a, v⟩ := kv
    simp only [List.any_cons, Bool.or_eq_true] at h
    by_cases hk : a = k
    · simp only [lookup_cons, hk, if_true, Option.isSome_some]
    · have : (a == k) = false := by simpa using hk
      simp only [this, Bool.false_eq_true, false_or] at h
      simp only [lookup_cons, hk, if_false, ih h]

theorem lookup_append_new {α} (k k' : String) (v : α) (l : List (String × α)) (h : lookup k l = none) :
    lookup k' (l ++ [(k, v)]) = if k' = k then some v else lookup k' l := by
  induction l with
  | nil =>
    simp only [List.nil_append, lookup_cons]
    by_cases e : k' = k
    · subst e; simp
    · have : ¬ k = k' := fun x => e x.symm
      simp only [this, e, if_false]
  | cons kv rest ih =>
    obtain ⟨a, w⟩ := kv
    simp only [List.cons_append, lookup_cons] at h ⊢
    by_cases hak : a = k
    · subst hak; simp at h
    · simp only [hak, if_false] at h
      by_cases hak' : a = k'
      · subst hak'; simp only [if_true, hak, if_false]
      · simp only [hak', if_false, ih h]

/-- `amod` changes exactly the entry under `k`. -/
theorem lookup_amod {α} (k k' : String) (create : Bool) (f : α → α) (dflt : α) (l : List (String × α)) :
    lookup k' (amod k create f dflt l) =
      if k' = k then
        (match lookup k l with
         | some v => some (f v)
         | none => if create then some (f dflt) else none)
      else lookup k' l := by
  unfold amod
  by_cases hany : l.any (·.1 == k) = true
  · simp only [hany, if_true]
    by_cases e : k' = k
    · subst e
      have := lookup_isSome_of_any k' l hany
      simp only [if_true, lookup_map_same]
      cases hl : lookup k' l with
      | none => simp [hl] at this
      | some v => simp
    · simp only [e, if_false, lookup_map_other k k' f l e]
  · have hany' : l.any (·.1 == k) = false := Bool.eq_false_iff.mpr hany
    have hn := lookup_none_of_not_any k l hany'
    simp only [hany', Bool.false_eq_true, if_false]
    cases create
    · by_cases e : k' = k
      · subst e; simp [hn]
      · simp [e]
    · simp only [if_true, lookup_append_new k k' (f dflt) l hn, hn]

theorem runsFrom_def (t : Table ε) (ph pa : String) :
    t.runsFrom ph pa = ((lookup ph t).bind (lookup pa)).getD [] := by
  unfold Table.runsFrom
  cases lookup ph t <;> simp

/-- `modify` rewrites exactly one bucket (for `f` with `f [] = []`, or when creating). -/
theorem runsFrom_modify (t : Table ε) (ph pa ph' pa' : String) (create : Bool)
    (f : List (LRun ε) → List (LRun ε)) (hf : create = true ∨ f [] = []) :
    (t.modify ph pa create f).runsFrom ph' pa' =
      if ph' = ph ∧ pa' = pa then f (t.runsFrom ph pa) else t.runsFrom ph' pa' := by
  simp only [runsFrom_def, Table.modify, lookup_amod]
  by_cases e1 : ph' = ph
  · subst e1
    simp only [if_true, true_and]
    cases hl : lookup ph' t with
    | some pats =>
      simp only [Option.bind_some, lookup_amod]
      by_cases e2 : pa' = pa
      · subst e2
        simp only [if_true]
        cases hl2 : lookup pa' pats with
        | some rs => simp
        | none =>
          cases create
          · simp at hf; simp [hf]
          · simp
      · simp [e2]
    | none =>
      cases create
      · simp only [Bool.false_eq_true, if_false, Option.bind_none, Option.getD_none]
        by_cases e2 : pa' = pa
        · simp at hf; simp [e2, hf]
        · simp [e2]
      · simp only [if_true, Option.bind_some, lookup_amod]
        by_cases e2 : pa' = pa
        · subst e2; simp [lookup]
        · simp [e2, lookup]
  · simp [e1]
end Bobo.Decider

namespace Bobo.Decider
variable {ε : Type}
theorem runAt_def (t : Table ε) (ph pa id : String) :
    t.runAt ph pa id = (t.runsFrom ph pa).find? (fun r => r.run.id == id) := rfl
end Bobo.Decider
