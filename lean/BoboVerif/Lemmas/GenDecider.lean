import BoboVerif.Model.Decider
import BoboVerif.Gen.DeciderFrag
/-!
The fragments of `decider.py` regenerated on every run (translate/deciderfrag.py) are what the hand-written
decider model uses: the forward-only test, the three filters against the finished-run memory, and the order
of the steps of `on_distributed_update`, `update()` and `_process_event`.
-/
namespace Bobo.Decider
open Bobo.Run
variable {ε : Type}

/-- the generated forward-only test is the model's `ahead`. -/
theorem gen_ahead_eq (rr : Rec ε) (l : Run ε) :
    Bobo.Gen.DeciderFrag.ahead rr.idx rr.hist.size l.idx l.hist.size = ahead rr l := by
  simp only [Bobo.Gen.DeciderFrag.ahead, ahead, gt_iff_lt]
  by_cases h : rr.idx = l.idx <;> simp [h]

/-- the generated filters are the model's `checkAgainstCache` (finished-run memory enabled). -/
theorem gen_filters_eq (c : Cfg ε) (hc : c.caching = true) (s : DState ε) (comp halt upd : List (Rec ε)) :
    checkAgainstCache c s comp halt upd =
      (comp.filter (fun r => Bobo.Gen.DeciderFrag.keepCompleted (inCache s.cacheC r.id) (inCache s.cacheH r.id)),
       halt.filter (fun r => Bobo.Gen.DeciderFrag.keepHalted (inCache s.cacheC r.id) (inCache s.cacheH r.id)),
       upd.filter (fun r => Bobo.Gen.DeciderFrag.keepUpdated (inCache s.cacheC r.id) (inCache s.cacheH r.id))) := by
  simp [checkAgainstCache, hc, Bobo.Gen.DeciderFrag.keepCompleted, Bobo.Gen.DeciderFrag.keepHalted,
    Bobo.Gen.DeciderFrag.keepUpdated]

/-- the order of the steps of `on_distributed_update` the model `remoteStepG` follows (its `let` sequence):
filter against the memory, memorise, removal loops, second filter (refilter = true), update loop; unknown
patterns are dropped inside the loop bodies of the model, outputs de-duplicated at the end. -/
def remoteOrderModel : List String :=
  ["closed?", "filter", "memorise", "remove", "refilter", "update", "drop-unknown", "dedup", "notify"]

theorem gen_remoteOrder_eq : Bobo.Gen.DeciderFrag.remoteOrder = remoteOrderModel := by decide

/-- the order of the steps of `update()` the model `localStep` follows. -/
def localOrderModel : List String :=
  ["closed?", "process", "serialise:completed", "serialise:halted", "serialise:updated", "memorise", "changed?",
   "notify-if-changed", "return-changed", "return-false"]

theorem gen_localOrder_eq : Bobo.Gen.DeciderFrag.localOrder = localOrderModel := by decide

/-- `_process_event` returns (runs' completed ++ patterns' completed, runs' halted, runs' updated ++ patterns'
updated), as `localStep` assembles them. -/
theorem gen_processEventLists_eq :
    Bobo.Gen.DeciderFrag.processEventLists = "r_halt_com+p_halt_com,r_halt_incom,r_upd+p_upd" := by decide

end Bobo.Decider
