import BoboVerif.Model.Decider
import BoboVerif.Gen.DeciderFrag
/-!
The fragments of `decider.py` regenerated on every run (translate/deciderfrag.py) are what the hand-written
decider model uses: the forward-only test, the three filters against the finished-run memory, and the order
of the steps of `on_distributed_update`, `update()` and `_process_event`.
-/
namespace Bobo.Decider
open Bobo.Run
variable {ε : Type}

/-- the generated forward-only test is the model's `ahead`. -/
theorem gen_ahead_eq (rr : Rec ε) (l : Run ε) :
    Bobo.Gen.DeciderFrag.ahead rr.idx rr.hist.size l.idx l.hist.size = ahead rr l := by
  simp only [Bobo.Gen.DeciderFrag.ahead, ahead, gt_iff_lt]
  by_cases h : rr.idx = l.idx <;> simp [h]

/-- the generated filters are the model's `checkAgainstCache` (finished-run memory enabled). -/
theorem gen_filters_eq (c : Cfg ε) (hc : c.caching = true) (s : DState ε) (comp halt upd : List (Rec ε)) :
    checkAgainstCache c s comp halt upd =
      (comp.filter (fun r => Bobo.Gen.DeciderFrag.keepCompleted (inCache s.cacheC r.id) (inCache s.cacheH r.id)),
       halt.filter (fun r => Bobo.Gen.DeciderFrag.keepHalted (inCache s.cacheC r.id) (inCache s.cacheH r.id)),
       upd.filter (fun r => Bobo.Gen.DeciderFrag.keepUpdated (inCache s.cacheC r.id) (inCache s.cacheH r.id))) := by
  simp [checkAgainstCache, hc, Bobo.Gen.DeciderFrag.keepCompleted, Bobo.Gen.DeciderFrag.keepHalted,
    Bobo.Gen.DeciderFrag.keepUpdated]

/-- the order of the steps of `on_distributed_update` the model `remoteStepG` follows (its `let` sequence):
filter against the memory, memorise, removal loops, second filter (refilter = true), update loop; unknown
patterns are dropped inside the loop bodies of the model, outputs de-duplicated at the end. -/
def remoteOrderModel : List String :=
  ["closed?", "filter", "memorise", "remove", "refilter", "update", "drop-unknown", "dedup", "notify"]

theorem gen_remoteOrder_eq : Bobo.Gen.DeciderFrag.remoteOrder = remoteOrderModel := by decide

/-- the order of the steps of `update()` the model `localStep` follows. -/
def localOrderModel : List String :=
  ["closed?", "process", "serialise:completed", "serialise:halted", "serialise:updated", "memorise", "changed?",
   "notify-if-changed", "return-changed", "return-false"]

theorem gen_localOrder_eq : Bobo.Gen.DeciderFrag.localOrder = localOrderModel := by decide

/-- `_process_event` returns (runs' completed ++ patterns' completed, runs' halted, runs' updated ++ patterns'
updated), as `localStep` assembles them. -/
theorem gen_processEventLists_eq :
    Bobo.Gen.DeciderFrag.processEventLists = "r_halt_com+p_halt_com,r_halt_incom,r_upd+p_upd" := by decide


/-! ### the local path -/

open Bobo.Gen.DeciderFrag in
/-- what each class of the generated table means for the bucket accumulator of the model. -/
def applyCls (ph : String) (acc : RunsAcc ε) (r' : LRun ε) : RunCls → RunsAcc ε
  | .completedRemoved => { acc with hc := acc.hc ++ [r'.ser ph] }
  | .haltedRemoved => { acc with hi := acc.hi ++ [r'.ser ph] }
  | .updated => { acc with keep := acc.keep ++ [r'], upd := acc.upd ++ [r'.ser ph] }
  | .same => { acc with keep := acc.keep ++ [r'] }
  | .completed => acc       -- (not produced by the source: a finished run is always removed)
  | .halted => acc

/-- **the model's per-run step of `_check_against_runs` is the source's**: `process` is the only thing inside
the `try` (a raising run is kept unchanged and the loop goes on), then the run is classified by the generated
table on (changed, halted, complete). -/
theorem gen_checkRun_eq (e : ε) (ph : String) (acc : RunsAcc ε) (r : LRun ε) :
    checkRun e ph acc r =
      match (process r.pat r.run e).1 with
      | .ok changed =>
        applyCls ph acc { r with run := (process r.pat r.run e).2 }
          (Bobo.Gen.DeciderFrag.classify changed (process r.pat r.run e).2.halted
            ((process r.pat r.run e).2.isComplete r.pat.blocks.length))
      | _ => { acc with keep := acc.keep ++ [{ r with run := (process r.pat r.run e).2 }] } := by
  unfold checkRun
  cases hp : process r.pat r.run e with
  | mk out run' =>
    cases out with
    | ok b =>
      cases b <;> simp only [Bobo.Gen.DeciderFrag.classify, applyCls] <;>
        cases run'.halted <;> cases run'.isComplete r.pat.blocks.length <;> rfl
    | raised => rfl
    | indexError => rfl

theorem gen_runsShape_eq : Bobo.Gen.DeciderFrag.runsShape =
    ["per-run:try-process-only;classify", "remove-finished-after-all-runs", "return:completed,halted,updated"] := by decide

/-- **the model's decision for a freshly started run is the source's** (`checkPattern`): completed at once /
stored (non-singleton, or singleton without an active run) / dropped. -/
theorem gen_startDecision_eq (haltedNew completeNew singleton noRuns : Bool) :
    Bobo.Gen.DeciderFrag.startDecision haltedNew completeNew singleton noRuns =
      (if haltedNew && completeNew then .completeAtOnce
       else if !singleton || noRuns then .store else .skip) := by
  cases haltedNew <;> cases completeNew <;> cases singleton <;> cases noRuns <;> rfl

theorem gen_patternsShape_eq : Bobo.Gen.DeciderFrag.patternsShape =
    ["first-block:any-predicate,raise-counts-as-no,empty-history", "new-run:index-1,history-{group0:[event]},fresh-id",
     "return:completed,updated"] := by decide


/-- `_maybe_cache` appends each record to its bounded memory (`maybeCache` = `dqExtend` = repeated `dqAppend` on a
`deque(maxlen = max_cache)`), memorising is enabled iff `max_cache > 0` (`Cfg.caching`), and `_get_pattern` is the first
pattern of that name among the named phenomenon's own patterns (`Cfg.getPattern`). -/
theorem gen_memoriseShape_eq : Bobo.Gen.DeciderFrag.memoriseShape =
    ["completed->completed-memory:append-each", "halted->halted-memory:append-each", "caching:=max_cache>0",
     "memories:deque(maxlen=max_cache)", "get_pattern:first-of-that-name-in-the-named-phenomenon"] := by decide

end Bobo.Decider
