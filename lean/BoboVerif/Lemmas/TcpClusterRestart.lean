import BoboVerif.Lemmas.TcpCluster
import BoboVerif.Lemmas.TcpRestart
/-!
The cluster model of Lemmas/TcpCluster.lean (one run key, `n` instances, every instance runs the outgoing loop
against every other one) EXTENDED WITH RESTARTS of instances.  Nothing of TcpCluster.lean is changed: the new
steps are a wrapper (`RStep n` = a `CStep n` or `restart r keep`) over a wrapper state (`RCluster n` = a
`Cluster n` + ghosts).

`restart r keep` (`restartC`):
  * `know r := bot` (the decider of `r` comes back empty);
  * `t r := freshT (t r)`: the transport state as constructed on start-up — same urn, same periods, same device
    dict keys, EMPTY queue, every device manager `Peer.init true` (`last_comms = last_attempt = 0`, no reset
    counted, `flag_reset = True`, empty backlogs) — the state `restart_announces` (Props/C07.lean) starts from;
  * `wire a r` (what was handed to the network FOR `r` and not applied yet) survives (`keep = true`) or is lost;
  * `wire r b` (what `r` had handed to the network) stays;
  * every OTHER instance `a` handles `r`'s RESET at the same moment: `t a := incoming (t a) r FLAG_RESET`
    — exactly what the pair step `restartJ keep` does to the one sender of the pair model, so that for every
    pair `(a, r)`, `a ≠ r`, the cluster step `restart r keep` IS the pair step `restartJ keep`
    (`proj_restart_receiver`), and for every pair `(a, b)` with `r ∉ {a, b}` it is the pair step
    `incoming r FLAG_RESET` (`proj_restart_other`).  (A RESET handled later than the restart would leave, in
    between, a sender that believes `r` still holds what it lost: the pair invariant `PInv` — "in the resync
    period, or `own ≤ knowJ ⊔ wire ⊔ missing`" — is false there, and the wires of this model carry no flags, so
    a later delivery could not trigger the RESET handling.  That the announcement is sent with every message until
    one is delivered, and that its handling survives every interleaving of the survivor's threads, is the
    transport part of Props/C07.lean.)
  * ghosts: `own r := bot` — so `own` is "announced SINCE the last restart" (`ownSince`); `said` (never reset:
    everything ever announced); `lost r ⊔= own r` (everything announced before the last restart);
    `heard a r := bot` (what `r` applied from `a`'s wire is gone with `r`'s state);
    `owed a r := know a` (the `base` ghost of Lemmas/TcpRestart.lean for the pair `(a, r)`: what `a` knew when
    `r` restarted), `owed r b := bot` (`r` as a sender starts again with nothing owed).

For the pairs `(r, b)` whose SENDER restarts there is no pair step: the pair run ends and a new one starts from
an initial pair state (`pinv_init`: nothing announced, nothing counted as missing, `last_comms = 0 ≥ 0`; the
epoch-clock condition is inherited from the old pair invariant because the wall clock keeps running).

Invariant `RInv` (`rinv_step`, `rinv_run`): for every ordered pair `i ≠ j` the pair invariants `PInv` and `BInv`
(with `base := owed i j`) hold of the projection `proj C i j ms`; `heard i j ≤ know j`;
`said i = lost i ⊔ own i`.
-/
namespace Bobo.Tcp
open Bobo.Lattice
open Bobo.Net (join_mono)

/-! ### the restart of an instance -/

/-- the transport state of an instance that has just been started: same urn, periods and device dict keys; empty
queue; every device manager as constructed with `flag_reset = True`. -/
def freshT (t : TState Status) : TState Status :=
  { t with queue := [], peers := t.peers.map (fun e => (e.1, Peer.init true)) }

/-- instance `r` restarts (see the header). -/
def restartC {n : Nat} (C : Cluster n) (r : Fin n) (keep : Bool) : Cluster n :=
  { t := fun a => if a = r then freshT (C.t r) else incoming (C.t a) r.val FLAG_RESET,
    own := upd C.own r bot,
    know := upd C.know r bot,
    heard := fun a b => if b = r then bot else C.heard a b,
    wire := fun a b => if b = r then (if keep then C.wire a b else []) else C.wire a b }

/-- the cluster with the ghosts of the restarts. -/
structure RCluster (n : Nat) where
  c    : Cluster n
  /-- ghost: join of everything the instance EVER announced (never reset). -/
  said : Fin n → Status
  /-- ghost: join of everything the instance had announced before its last restart. -/
  lost : Fin n → Status
  /-- ghost: `owed i r` = what `i` knew when `r` last restarted (`bot` if `r` never restarted, or if `i` itself
  restarted since). -/
  owed : Fin n → Fin n → Status

/-- what an instance announced since its last restart (the field `own` is reset by `restart`). -/
def RCluster.ownSince {n : Nat} (R : RCluster n) (i : Fin n) : Status := R.c.own i

inductive RStep (n : Nat) where
  /-- a step of the cluster model without restarts. -/
  | step (x : CStep n)
  /-- instance `r` loses its state and comes back. -/
  | restart (r : Fin n) (keep : Bool)

def saidStep {n : Nat} (said : Fin n → Status) : CStep n → Fin n → Status
  | .say i m => upd said i (join (said i) (meaning m))
  | _ => said

def rstep {n : Nat} (R : RCluster n) : RStep n → RCluster n
  | .step x => { R with c := cstep R.c x, said := saidStep R.said x }
  | .restart r keep =>
    { c := restartC R.c r keep,
      said := R.said,
      lost := upd R.lost r (join (R.lost r) (R.c.own r)),
      owed := fun a b => if a = r then bot else if b = r then R.c.know a else R.owed a b }

def rrun {n : Nat} (R : RCluster n) : List (RStep n) → RCluster n
  | [] => R
  | x :: xs => rrun (rstep R x) xs

theorem rrun_append {n : Nat} (xs ys : List (RStep n)) : ∀ R, rrun R (xs ++ ys) = rrun (rrun R xs) ys := by
  induction xs with
  | nil => intro R; rfl
  | cons x xs ih => intro R; exact ih _

/-- was instance `i` restarted during these steps? -/
def wasRestarted {n : Nat} (i : Fin n) : List (RStep n) → Bool
  | [] => false
  | .restart r _ :: xs => decide (r = i) || wasRestarted i xs
  | .step _ :: xs => wasRestarted i xs

/-! ### clocks: a restarted instance's clock keeps running (wall clock) -/

def rClock {n : Nat} (L : Fin n → Int) : RStep n → Fin n → Int
  | .step x => cClock L x
  | .restart _ _ => L

def rClockOk {n : Nat} (L : Fin n → Int) : RStep n → Prop
  | .step x => cClockOk L x
  | .restart _ _ => True

instance {n : Nat} (L : Fin n → Int) (x : RStep n) : Decidable (rClockOk L x) := by
  cases x <;> unfold rClockOk <;> exact inferInstance

/-- per instance, the decision clocks of its passes never go backwards — across its restarts too. -/
def RMono {n : Nat} (L : Fin n → Int) : List (RStep n) → Prop
  | [] => True
  | x :: xs => rClockOk L x ∧ RMono (rClock L x) xs

instance decRMono {n : Nat} : (L : Fin n → Int) → (steps : List (RStep n)) → Decidable (RMono L steps)
  | _, [] => isTrue trivial
  | L, x :: xs =>
    have := decRMono (rClock L x) xs
    inferInstanceAs (Decidable (rClockOk L x ∧ RMono (rClock L x) xs))

def rLastNow {n : Nat} (L : Fin n → Int) : List (RStep n) → Fin n → Int
  | [] => L
  | x :: xs => rLastNow (rClock L x) xs

/-! ### projection onto the pair `(i, j)` -/

/-- what the pair `(i, j)` sees of one step: a restart of the receiver is `restartJ`; a restart of a third
instance is its RESET handled by `i`'s listener; a restart of the SENDER `i` ends the pair run (no pair step:
`[]`, and the lemmas below exclude it). -/
def rprojStep {n : Nat} (i j : Fin n) (R : RCluster n) : RStep n → List PStep
  | .step x => projStep i j R.c x
  | .restart r keep =>
    if r = j then [.restartJ keep] else if r = i then [] else [.incoming r.val FLAG_RESET]

def rprojSteps {n : Nat} (i j : Fin n) : RCluster n → List (RStep n) → List PStep
  | _, [] => []
  | R, x :: xs => rprojStep i j R x ++ rprojSteps i j (rstep R x) xs

/-- the restart of the receiver of the pair `(i, j)` is the pair step `restartJ`. -/
theorem proj_restart_receiver {n : Nat} (C : Cluster n) (i j : Fin n) (hij : i ≠ j) (keep : Bool) (ms : List Status) :
    proj (restartC C j keep) i j ms = pstep j.val (proj C i j ms) (.restartJ keep) := by
  simp [proj, restartC, pstep, hij, upd_ne _ _ _ hij]

/-- the restart of a third instance is, for the pair `(i, j)`, its RESET handled by `i`'s listener. -/
theorem proj_restart_other {n : Nat} (C : Cluster n) (i j r : Fin n) (hri : r ≠ i) (hrj : r ≠ j) (keep : Bool)
    (ms : List Status) :
    proj (restartC C r keep) i j ms = pstep j.val (proj C i j ms) (.incoming r.val FLAG_RESET) := by
  have hir : i ≠ r := fun e => hri e.symm
  have hjr : j ≠ r := fun e => hrj e.symm
  simp [proj, restartC, pstep, hir, hjr, upd_ne _ _ _ hir]

/-- the restart of the SENDER of the pair `(i, j)`: the pair is back in an initial state (nothing announced,
nothing known, fresh transport state); what it had handed to the network for `j` is still on the wire. -/
theorem proj_restart_sender {n : Nat} (C : Cluster n) (i j : Fin n) (hij : i ≠ j) (keep : Bool) (ms : List Status) :
    proj (restartC C i keep) i j ms =
      { t := freshT (C.t i), own := bot, knowS := bot, knowJ := C.heard i j, wire := C.wire i j, missing := ms } := by
  have hji : j ≠ i := fun e => hij e.symm
  simp [proj, restartC, hji, upd_self]

/-- **one step is a (possibly empty) run of the pair `(i, j)`** — unless it is a restart of the sender `i`. -/
theorem rproj_step {n : Nat} (R : RCluster n) (i j : Fin n) (hij : i ≠ j) (x : RStep n)
    (hx : ∀ keep, x ≠ .restart i keep) (ms : List Status) :
    prun j.val (proj R.c i j ms) (rprojStep i j R x) =
      proj (rstep R x).c i j (prun j.val (proj R.c i j ms) (rprojStep i j R x)).missing := by
  cases x with
  | step x => exact proj_step R.c i j hij x ms
  | restart r keep =>
    have hri : r ≠ i := fun e => hx keep (by rw [e])
    by_cases hrj : r = j
    · subst hrj
      simp only [rprojStep, if_true, prun, rstep]
      rw [proj_restart_receiver R.c i r hij keep]
      rfl
    · simp only [rprojStep, hrj, hri, if_false, prun, rstep]
      rw [proj_restart_other R.c i j r hri hrj keep]
      rfl

theorem baseAfter_append (j : Nat) (xs ys : List PStep) :
    ∀ (P : Pair) (b : Status), baseAfter j P b (xs ++ ys) = baseAfter j (prun j P xs) (baseAfter j P b xs) ys := by
  induction xs with
  | nil => intro P b; rfl
  | cons x xs ih => intro P b; exact ih _ _

theorem baseAfter_projStep {n : Nat} (i j : Fin n) (C : Cluster n) (x : CStep n) (P : Pair) (b : Status) :
    baseAfter j.val P b (projStep i j C x) = b := by
  cases x with
  | say a m => by_cases h : a = i <;> simp [projStep, h, baseAfter, baseStep]
  | pass a now outcome => by_cases h : a = i <;> simp [projStep, h, baseAfter, baseStep]
  | incoming a frm flags => by_cases h : a = i <;> simp [projStep, h, baseAfter, baseStep]
  | deliver a b' k =>
    simp only [projStep]
    split
    · rfl
    · split
      · unfold learnOf; split <;> rfl
      · rfl
  | redeliver a b' k =>
    simp only [projStep]
    split
    · rfl
    · split
      · unfold learnOf; split <;> rfl
      · rfl

/-- the ghost `owed i j` is the ghost `base` of the pair run. -/
theorem rproj_base {n : Nat} (R : RCluster n) (i j : Fin n) (hij : i ≠ j) (x : RStep n)
    (hx : ∀ keep, x ≠ .restart i keep) (ms : List Status) :
    baseAfter j.val (proj R.c i j ms) (R.owed i j) (rprojStep i j R x) = (rstep R x).owed i j := by
  cases x with
  | step x => exact baseAfter_projStep i j R.c x _ _
  | restart r keep =>
    have hri : r ≠ i := fun e => hx keep (by rw [e])
    have hir : i ≠ r := fun e => hri e.symm
    by_cases hrj : r = j
    · subst hrj
      simp [rprojStep, baseAfter, baseStep, rstep, hir, proj]
    · have hjr : j ≠ r := fun e => hrj e.symm
      simp [rprojStep, hrj, hri, baseAfter, baseStep, rstep, hir, hjr]

theorem rproj_clock_step {n : Nat} (i j : Fin n) (R : RCluster n) (L : Fin n → Int) (x : RStep n) (rest : List PStep)
    (hok : rClockOk L x) (hrest : PMono (rClock L x i) rest) :
    PMono (L i) (rprojStep i j R x ++ rest) ∧
      pLastNow (L i) (rprojStep i j R x ++ rest) = pLastNow (rClock L x i) rest := by
  cases x with
  | step x => exact proj_clock_step i j R.c L x rest hok hrest
  | restart r keep =>
    simp only [rClock] at hrest
    simp only [rprojStep, rClock]
    split
    · exact ⟨hrest, rfl⟩
    · split
      · exact ⟨hrest, rfl⟩
      · exact ⟨hrest, rfl⟩

/-- **projection of a whole run, for a sender that is never restarted**: the run with restarts (of `j`, of third
instances) is the run `rprojSteps i j R steps` of the pair model — restarts of `j` are `restartJ` — and the
ghost `owed i j` is the pair ghost `base`. -/
theorem rcluster_projects {n : Nat} (i j : Fin n) (hij : i ≠ j) (steps : List (RStep n)) :
    ∀ (R : RCluster n) (ms : List Status), wasRestarted i steps = false →
      (∃ ms', prun j.val (proj R.c i j ms) (rprojSteps i j R steps) = proj (rrun R steps).c i j ms') ∧
      baseAfter j.val (proj R.c i j ms) (R.owed i j) (rprojSteps i j R steps) = (rrun R steps).owed i j := by
  induction steps with
  | nil => intro R ms _; exact ⟨⟨ms, rfl⟩, rfl⟩
  | cons x xs ih =>
    intro R ms hnr
    have hx : ∀ keep, x ≠ .restart i keep := by
      intro keep e
      subst e
      simp [wasRestarted] at hnr
    have hxs : wasRestarted i xs = false := by
      cases x with
      | step y => exact hnr
      | restart r keep =>
        simp only [wasRestarted, Bool.or_eq_false_iff] at hnr
        exact hnr.2
    simp only [rprojSteps, rrun]
    rw [prun_append, baseAfter_append, rproj_step R i j hij x hx ms, rproj_base R i j hij x hx ms]
    exact ih _ _ hxs

theorem rproj_clocks {n : Nat} (i j : Fin n) (steps : List (RStep n)) :
    ∀ (R : RCluster n) (L : Fin n → Int), RMono L steps →
      PMono (L i) (rprojSteps i j R steps) ∧ pLastNow (L i) (rprojSteps i j R steps) = rLastNow L steps i := by
  induction steps with
  | nil => intro R L _; exact ⟨trivial, rfl⟩
  | cons x xs ih =>
    intro R L hm
    obtain ⟨h1, h2⟩ := ih (rstep R x) (rClock L x) hm.2
    obtain ⟨h3, h4⟩ := rproj_clock_step i j R L x (rprojSteps i j (rstep R x) xs) hm.1 h1
    exact ⟨h3, by rw [rprojSteps, h4, h2]; rfl⟩

/-! ### the invariant -/

/-- what `j` applied from `i`'s wire is part of what `j` knows: preserved by the steps without restart … -/
theorem heardK_cstep {n : Nat} (C : Cluster n) (h : ∀ i j, C.heard i j ≤ C.know j) (x : CStep n) :
    ∀ i j, (cstep C x).heard i j ≤ (cstep C x).know j := by
  have happly : ∀ (a b : Fin n) (m : Msg Status) (i j : Fin n),
      upd C.heard a (upd (C.heard a) b (join (C.heard a b) (meaning m))) i j
        ≤ upd C.know b (join (C.know b) (meaning m)) j := by
    intro a b m i j
    by_cases hab : a = i ∧ b = j
    · obtain ⟨rfl, rfl⟩ := hab
      rw [upd2_self, upd_self]
      exact join_mono (h a b) (le_refl _)
    · rw [upd2_ne _ _ _ _ hab]
      exact le_trans (h i j) (le_upd_join C.know b (meaning m) j)
  cases x with
  | say a m => intro i j; exact le_trans (h i j) (le_upd_join C.know a (meaning m) j)
  | pass a now outcome => exact h
  | incoming a frm flags => exact h
  | deliver a b k =>
    cases hk : (C.wire a b)[k]? with
    | none =>
      have : cstep C (.deliver a b k) = C := by simp only [cstep, hk]
      rw [this]; exact h
    | some m =>
      rw [cstep_deliver_some C a b k m hk]
      exact happly a b m
  | redeliver a b k =>
    cases hk : (C.wire a b)[k]? with
    | none =>
      have : cstep C (.redeliver a b k) = C := by simp only [cstep, hk]
      rw [this]; exact h
    | some m =>
      rw [cstep_redeliver_some C a b k m hk]
      exact happly a b m

/-- … and by a restart. -/
theorem heardK_restart {n : Nat} (C : Cluster n) (h : ∀ i j, C.heard i j ≤ C.know j) (r : Fin n) (keep : Bool) :
    ∀ i j, (restartC C r keep).heard i j ≤ (restartC C r keep).know j := by
  intro i j
  show (if j = r then bot else C.heard i j) ≤ upd C.know r bot j
  by_cases hj : j = r
  · rw [if_pos hj]; exact bot_le _
  · rw [if_neg hj, upd_ne _ _ _ hj]; exact h i j

structure RInv {n : Nat} (R : RCluster n) (L : Fin n → Int) : Prop where
  /-- what `j` applied from `i`'s wire is part of what `j` knows. -/
  heardK : ∀ i j, R.c.heard i j ≤ R.c.know j
  /-- the two pair invariants hold of every projection. -/
  pair   : ∀ i j, i ≠ j → ∃ urn ms,
    PInv j.val urn (proj R.c i j ms) (L i) ∧ BInv j.val (proj R.c i j ms) (R.owed i j) (L i)
  /-- everything ever announced = what was announced before the last restart ⊔ what was announced since. -/
  saidEq : ∀ i, R.said i = join (R.lost i) (R.c.own i)

theorem saidEq_step {n : Nat} (R : RCluster n) (h : ∀ i, R.said i = join (R.lost i) (R.c.own i)) (x : RStep n) :
    ∀ i, (rstep R x).said i = join ((rstep R x).lost i) ((rstep R x).c.own i) := by
  intro i
  cases x with
  | restart r keep =>
    show R.said i = join (upd R.lost r (join (R.lost r) (R.c.own r)) i) (upd R.c.own r bot i)
    by_cases hi : i = r
    · subst hi; rw [upd_self, upd_self, join_bot_right]; exact h i
    · rw [upd_ne _ _ _ hi, upd_ne _ _ _ hi]; exact h i
  | step y =>
    cases y with
    | say a m =>
      show upd R.said a (join (R.said a) (meaning m)) i = join (R.lost i) (upd R.c.own a (join (R.c.own a) (meaning m)) i)
      by_cases hi : i = a
      · subst hi; rw [upd_self, upd_self, h i, join_assoc]
      · rw [upd_ne _ _ _ hi, upd_ne _ _ _ hi]; exact h i
    | pass a now outcome => exact h i
    | incoming a frm flags => exact h i
    | deliver a b k =>
      show R.said i = join (R.lost i) ((cstep R.c (.deliver a b k)).own i)
      have : (cstep R.c (.deliver a b k)).own = R.c.own := by
        simp only [cstep]; split <;> rfl
      rw [this]; exact h i
    | redeliver a b k =>
      show R.said i = join (R.lost i) ((cstep R.c (.redeliver a b k)).own i)
      have : (cstep R.c (.redeliver a b k)).own = R.c.own := by
        simp only [cstep]; split <;> rfl
      rw [this]; exact h i

theorem freshT_peer (t : TState Status) (j : Nat) (urn : String) (p : Peer Status) (he : t.peers[j]? = some (urn, p)) :
    (freshT t).peers[j]? = some (urn, Peer.init true) := by
  simp [freshT, List.getElem?_map, he]

/-- **one step preserves the invariant.** -/
theorem rinv_step {n : Nat} (R : RCluster n) (L : Fin n → Int) (x : RStep n) (hok : rClockOk L x)
    (h : RInv R L) : RInv (rstep R x) (rClock L x) := by
  refine ⟨?_, ?_, saidEq_step R h.saidEq x⟩
  · cases x with
    | step y => exact heardK_cstep R.c h.heardK y
    | restart r keep => exact heardK_restart R.c h.heardK r keep
  · intro i j hij
    obtain ⟨urn, ms, hp, hb⟩ := h.pair i j hij
    by_cases hx : ∀ keep, x ≠ .restart i keep
    · -- the step is a (possibly empty) run of the pair `(i, j)`
      obtain ⟨hm, hl⟩ := rproj_clock_step i j R L x [] hok trivial
      rw [List.append_nil] at hm hl
      obtain ⟨hp', hb'⟩ := binv_run j.val urn (rprojStep i j R x) _ _ _ hm hp hb
      rw [rproj_step R i j hij x hx ms, hl] at hp'
      rw [rproj_step R i j hij x hx ms, rproj_base R i j hij x hx ms, hl] at hb'
      exact ⟨urn, _, hp', hb'⟩
    · -- the sender of the pair restarts: a new pair run starts
      have hx' : ∃ keep, x = .restart i keep := by
        cases x with
        | step y => exact absurd (fun keep e => by cases e) hx
        | restart r keep =>
          by_cases hr : r = i
          · exact ⟨keep, by rw [hr]⟩
          · exact absurd (fun keep' e => by cases e; exact hr rfl) hx
      obtain ⟨keep, rfl⟩ := hx'
      obtain ⟨hep, _, ⟨p, he, hself, _, _⟩, _⟩ := hp
      have he' : (proj R.c i j ms).t.peers[j.val]? = some (urn, p) := he
      refine ⟨urn, [], ?_, ?_⟩
      · show PInv j.val urn (proj (restartC R.c i keep) i j []) (L i)
        rw [proj_restart_sender R.c i j hij keep]
        exact pinv_init j.val _ (urn, Peer.init true) (L i) (freshT_peer (R.c.t i) j.val urn p he') hself
          (Int.le_refl 0) rfl rfl hep
      · have ho : (rstep R (.restart i keep)).owed i j = bot := by simp [rstep]
        rw [ho]
        exact binv_init j.val _ (L i)

/-- **the invariant holds after every run with per-instance monotone decision clocks.** -/
theorem rinv_run {n : Nat} (steps : List (RStep n)) :
    ∀ (R : RCluster n) (L : Fin n → Int), RMono L steps → RInv R L → RInv (rrun R steps) (rLastNow L steps) := by
  induction steps with
  | nil => intro R L _ h; exact h
  | cons x xs ih => intro R L hm h; exact ih _ _ hm.2 (rinv_step R L x hm.1 h)

/-- the start: a cluster as in `CInit`, no ghost of a restart. -/
structure RInit {n : Nat} (R : RCluster n) (L0 : Fin n → Int) : Prop where
  cinit : CInit R.c L0
  said0 : ∀ i, R.said i = bot
  lost0 : ∀ i, R.lost i = bot
  owed0 : ∀ i j, R.owed i j = bot

theorem rinv_init {n : Nat} (R : RCluster n) (L0 : Fin n → Int) (h : RInit R L0) : RInv R L0 := by
  refine ⟨?_, ?_, ?_⟩
  · intro i j; rw [h.cinit.heard0]; exact bot_le _
  · intro i j hij
    obtain ⟨e0, he0, hself, hlc⟩ := h.cinit.peer0 i j hij
    refine ⟨e0.1, [], pinv_init j.val (proj R.c i j []) e0 (L0 i) he0 hself hlc (h.cinit.own0 i) rfl (h.cinit.epoch i), ?_⟩
    rw [h.owed0]
    exact binv_init j.val _ (L0 i)
  · intro i; rw [h.said0, h.lost0, h.cinit.own0]; rfl

/-! ### what an idle link means -/

/-- on an idle link `i → j` (at a clock `L' ≥` the last decision clock of `i`): `j` knows everything `i` announced
since `i`'s last restart, and everything `i` knew when `j` last restarted (if `i` was not restarted since). -/
theorem rinv_idle {n : Nat} (R : RCluster n) (L : Fin n → Int) (h : RInv R L) (i j : Fin n) (hij : i ≠ j)
    (L' : Int) (hL : L i ≤ L')
    (e : String × Peer Status) (he : (R.c.t i).peers[j.val]? = some e)
    (hidle : ¬ (L' - e.2.lastComms ≥ (R.c.t i).cfg.periodResync))
    (h1 : e.2.stashC = []) (h2 : e.2.stashH = []) (h3 : e.2.stashU = [])
    (hq : (R.c.t i).queue = []) (hw : R.c.wire i j = []) :
    R.c.own i ≤ R.c.know j ∧ R.owed i j ≤ R.c.know j := by
  obtain ⟨urn, ms, hp, hb⟩ := h.pair i j hij
  refine ⟨le_trans ?_ (h.heardK i j), le_trans ?_ (h.heardK i j)⟩
  · exact (pinv_idle j.val urn _ L' (pinv_mono hL hp) e he hidle h1 h2 h3 hq hw).2
  · exact binv_idle j.val _ _ L' (binv_mono hL hb) e he hidle hw

/-- what is owed is still known by the one who owes it (its knowledge only grows while it is not restarted). -/
theorem rinv_owed_le_know {n : Nat} (R : RCluster n) (L : Fin n → Int) (h : RInv R L) (i j : Fin n) (hij : i ≠ j) :
    R.owed i j ≤ R.c.know i := by
  obtain ⟨_, _, _, hb⟩ := h.pair i j hij
  exact hb.baseS

/-- an instance knows what it announced since its last restart. -/
theorem rinv_own_le_know {n : Nat} (R : RCluster n) (L : Fin n → Int) (h : RInv R L) (i j : Fin n) (hij : i ≠ j) :
    R.c.own i ≤ R.c.know i := by
  obtain ⟨_, _, hp, _⟩ := h.pair i j hij
  exact hp.ownS

/-! ### the ghosts, in terms of the run -/

theorem wasRestarted_cons_false {n : Nat} {i : Fin n} {x : RStep n} {xs : List (RStep n)}
    (h : wasRestarted i (x :: xs) = false) : (∀ keep, x ≠ .restart i keep) ∧ wasRestarted i xs = false := by
  cases x with
  | step y => exact ⟨fun keep e => (by cases e), h⟩
  | restart r keep =>
    simp only [wasRestarted, Bool.or_eq_false_iff, decide_eq_false_iff_not] at h
    exact ⟨fun keep' e => (by cases e; exact h.1 rfl), h.2⟩

/-- `lost i` does not change while `i` is not restarted. -/
theorem lost_unchanged {n : Nat} (i : Fin n) (steps : List (RStep n)) :
    ∀ (R : RCluster n), wasRestarted i steps = false → (rrun R steps).lost i = R.lost i := by
  induction steps with
  | nil => intro R _; rfl
  | cons x xs ih =>
    intro R h
    obtain ⟨hx, hxs⟩ := wasRestarted_cons_false h
    rw [rrun, ih _ hxs]
    cases x with
    | step y => rfl
    | restart r keep =>
      have hir : i ≠ r := fun e => hx keep (by rw [e])
      show upd R.lost r _ i = R.lost i
      exact upd_ne _ _ _ hir

/-- `owed i r` does not change while neither `i` nor `r` is restarted. -/
theorem owed_unchanged {n : Nat} (i r : Fin n) (steps : List (RStep n)) :
    ∀ (R : RCluster n), wasRestarted i steps = false → wasRestarted r steps = false →
      (rrun R steps).owed i r = R.owed i r := by
  induction steps with
  | nil => intro R _ _; rfl
  | cons x xs ih =>
    intro R hi hr
    obtain ⟨hxi, hxsi⟩ := wasRestarted_cons_false hi
    obtain ⟨hxr, hxsr⟩ := wasRestarted_cons_false hr
    rw [rrun, ih _ hxsi hxsr]
    cases x with
    | step y => rfl
    | restart a keep =>
      have hia : i ≠ a := fun e => hxi keep (by rw [e])
      have hra : r ≠ a := fun e => hxr keep (by rw [e])
      simp [rstep, hia, hra]

/-- **`owed i r` is what `i` knew when `r` last restarted**, for an `i` that was not restarted since. -/
theorem owed_spec {n : Nat} (R0 : RCluster n) (pre post : List (RStep n)) (r i : Fin n) (keep : Bool) (hir : i ≠ r)
    (hi : wasRestarted i post = false) (hr : wasRestarted r post = false) :
    (rrun R0 (pre ++ .restart r keep :: post)).owed i r = (rrun R0 pre).c.know i := by
  rw [rrun_append, rrun, owed_unchanged i r post _ hi hr]
  simp [rstep, hir]

/-- **`lost r` is what `r` had announced (ever) when it last restarted.** -/
theorem lost_spec {n : Nat} (R0 : RCluster n) (L0 : Fin n → Int) (hinv : RInv R0 L0) (pre post : List (RStep n))
    (hmono : RMono L0 pre) (r : Fin n) (keep : Bool) (hr : wasRestarted r post = false) :
    (rrun R0 (pre ++ .restart r keep :: post)).lost r = (rrun R0 pre).said r := by
  rw [rrun_append, rrun, lost_unchanged r post _ hr]
  show upd (rrun R0 pre).lost r _ r = _
  rw [upd_self]
  exact ((rinv_run pre R0 L0 hmono hinv).saidEq r).symm

/-- for an instance that was never restarted, "announced since the last restart" is "ever announced". -/
theorem said_eq_own_of_never {n : Nat} (R0 : RCluster n) (L0 : Fin n → Int) (hinit : RInit R0 L0)
    (steps : List (RStep n)) (hmono : RMono L0 steps) (i : Fin n) (hi : wasRestarted i steps = false) :
    (rrun R0 steps).said i = (rrun R0 steps).c.own i := by
  rw [(rinv_run steps R0 L0 hmono (rinv_init R0 L0 hinit)).saidEq i, lost_unchanged i steps R0 hi, hinit.lost0,
    join_bot_left]

end Bobo.Tcp
