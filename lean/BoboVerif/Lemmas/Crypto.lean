import BoboVerif.Model.Crypto
/-!
Helper lemmas for C17 (M-Crypto): concrete UTF-8 facts, Python-slice facts,
`rstrip`, and a toy AEAD instance used by the non-vacuity examples.
-/
namespace Bobo.Crypto

/-! ### UTF-8 (concrete: Lean's `String.toUTF8` / `String.fromUTF8?`) -/

theorem decode_utf8 (s : String) : decodeUtf8 (utf8 s) = some s := by
  unfold decodeUtf8 utf8
  simp [String.fromUTF8?, String.fromUTF8, s.isValidUTF8]

theorem utf8_append (s t : String) : utf8 (s ++ t) = utf8 s ++ utf8 t := by
  simp [utf8, String.toByteArray_append]

theorem utf8_eq_flatMap (s : String) : utf8 s = s.toList.flatMap String.utf8EncodeChar := by
  unfold utf8
  rw [String.toUTF8_eq_toByteArray, ← String.utf8Encode_toList]
  simp [List.utf8Encode]

theorem length_le_flatMap (l : List Char) : l.length ≤ (l.flatMap String.utf8EncodeChar).length := by
  induction l with
  | nil => simp
  | cons c l ih =>
    have := c.utf8Size_pos
    simp only [List.flatMap_cons, List.length_append, String.length_utf8EncodeChar]
    simp only [List.length_cons]
    omega

/-- a text has at least as many UTF-8 bytes as characters. -/
theorem utf8_length_ge (s : String) : s.length ≤ (utf8 s).length := by
  rw [utf8_eq_flatMap, ← String.length_toList]; exact length_le_flatMap _

theorem utf8_empty : utf8 "" = [] := by simp [utf8]

/-- the pad character is one 0 byte in UTF-8. -/
theorem utf8_replicate_nul (k : Nat) :
    utf8 (String.ofList (List.replicate k padChar)) = List.replicate k 0 := by
  rw [utf8_eq_flatMap, String.toList_ofList]
  have h : String.utf8EncodeChar padChar = [0] := by decide
  induction k with
  | zero => simp
  | succ k ih => simp [List.replicate_succ, ih, h]

/-! ### slices of a laid-out message -/

theorem slices_layout (ν τ : Nat) (ct n tag : Bytes) (hn : n.length = ν) (ht : tag.length = τ) :
    slices ν τ (layout ct n tag) = ⟨ct, n, tag⟩ := by
  subst hn ht
  have he : endBytes.length = 4 := rfl
  simp only [slices, layout, pyslice, normIdx, lenEndBytes, List.length_append, he]
  have h1 : (-( (n.length : Int) + (tag.length : Int) + ((4 : Nat) : Int)) < 0) := by omega
  have h2 : (-( (tag.length : Int) + ((4 : Nat) : Int)) < 0) := by omega
  have h3 : (-(((4 : Nat) : Int)) < 0) := by omega
  simp only [h1, h2, h3, if_true]
  have e1 : (-( (n.length : Int) + (tag.length : Int) + ((4 : Nat) : Int))
      + ((ct.length + n.length + tag.length + 4 : Nat) : Int)).toNat = ct.length := by omega
  have e2 : (-( (tag.length : Int) + ((4 : Nat) : Int))
      + ((ct.length + n.length + tag.length + 4 : Nat) : Int)).toNat = ct.length + n.length := by omega
  have e3 : (-(((4 : Nat) : Int))
      + ((ct.length + n.length + tag.length + 4 : Nat) : Int)).toNat = ct.length + n.length + tag.length := by omega
  rw [e1, e2, e3]
  simp [List.take_append, List.drop_append, List.append_assoc]

/-- for any message long enough, the three slices tile everything but the last four bytes. -/
theorem slices_concat (ν τ : Nat) (b : Bytes) (h : ν + τ + 4 ≤ b.length) :
    (slices ν τ b).ct ++ (slices ν τ b).nonce ++ (slices ν τ b).tag = b.take (b.length - 4) := by
  simp only [slices, pyslice, normIdx, lenEndBytes]
  have h1 : (-( (ν : Int) + (τ : Int) + ((4 : Nat) : Int)) < 0) := by omega
  have h2 : (-( (τ : Int) + ((4 : Nat) : Int)) < 0) := by omega
  have h3 : (-(((4 : Nat) : Int)) < 0) := by omega
  simp only [h1, h2, h3, if_true]
  have e1 : (-( (ν : Int) + (τ : Int) + ((4 : Nat) : Int)) + (b.length : Int)).toNat = b.length - (ν + τ + 4) := by omega
  have e2 : (-( (τ : Int) + ((4 : Nat) : Int)) + (b.length : Int)).toNat = b.length - (τ + 4) := by omega
  have e3 : (-(((4 : Nat) : Int)) + (b.length : Int)).toNat = b.length - 4 := by omega
  rw [e1, e2, e3]
  have a1 : b.length - (τ + 4) - (b.length - (ν + τ + 4)) = ν := by omega
  have a2 : b.length - 4 - (b.length - (τ + 4)) = τ := by omega
  rw [a1, a2, List.drop_zero, Nat.sub_zero]
  have d1 : b.length - (τ + 4) = (b.length - (ν + τ + 4)) + ν := by omega
  have d2 : b.length - 4 = (b.length - (ν + τ + 4)) + ν + τ := by omega
  rw [d2, d1, List.take_add, List.take_add]
theorem layout_length (ct n tag : Bytes) :
    (layout ct n tag).length = ct.length + n.length + tag.length + 4 := by
  simp [layout, endBytes]; omega

/-! ### rstrip -/

theorem rstripList_append_replicate (c : Char) (l : List Char) (k : Nat) :
    rstripList c (l ++ List.replicate k c) = rstripList c l := by
  unfold rstripList
  rw [List.reverse_append, List.reverse_replicate]
  congr 1
  induction k with
  | zero => simp
  | succ k ih => simp [List.replicate_succ, ih]

theorem rstripList_of_not_ends (c : Char) (l : List Char) (h : l.getLast? ≠ some c) :
    rstripList c l = l := by
  unfold rstripList
  cases hr : l.reverse with
  | nil => simp_all
  | cons x xs =>
    have : l.getLast? = some x := by
      rw [List.getLast?_eq_head?_reverse, hr]; rfl
    have hx : x ≠ c := by intro e; subst e; exact h this
    rw [List.dropWhile_cons]
    simp [hx, ← hr]

theorem rstripList_length_lt (c : Char) (l : List Char) (h : l.getLast? = some c) :
    (rstripList c l).length < l.length := by
  unfold rstripList
  cases hr : l.reverse with
  | nil => simp_all
  | cons x xs =>
    have hx : l.getLast? = some x := by
      rw [List.getLast?_eq_head?_reverse, hr]; rfl
    have : x = c := by simpa [hx] using h
    subst this
    have hl : l.length = xs.length + 1 := by
      have := congrArg List.length hr; simpa using this
    rw [List.dropWhile_cons]
    simp only [beq_self_eq_true, if_true, List.length_reverse]
    have := (List.dropWhile_sublist (l := xs) (fun y => y == x)).length_le
    omega

/-- the text ends in the pad character U+0000. -/
def EndsNul (t : String) : Prop := t.toList.getLast? = some padChar

instance (t : String) : Decidable (EndsNul t) := by unfold EndsNul; exact inferInstance

theorem rstripNul_pad (t : String) : rstripNul (pad t) = rstripNul t := by
  unfold rstripNul pad
  rw [String.toList_append, String.toList_ofList, rstripList_append_replicate]

theorem rstripNul_of_not_endsNul (t : String) (h : ¬ EndsNul t) : rstripNul t = t := by
  unfold rstripNul
  rw [rstripList_of_not_ends _ _ h, String.ofList_toList]

theorem rstripNul_ne_of_endsNul (t : String) (h : EndsNul t) : rstripNul t ≠ t := by
  intro e
  have := rstripList_length_lt _ _ h
  have e' := congrArg String.length e
  unfold rstripNul at e'
  rw [String.length_ofList, ← String.length_toList] at e'
  omega

theorem pad_length (t : String) : (pad t).length = t.length + padCount t.length := by
  simp [pad, String.length_ofList]

theorem pad_length_ge (t : String) (h : t ≠ "") : padModulo ≤ (pad t).length := by
  rw [pad_length]
  have : t.length ≠ 0 := by
    intro e; apply h
    have : t.toList = [] := by
      apply List.eq_nil_of_length_eq_zero; rw [String.length_toList]; exact e
    rw [← String.ofList_toList (s := t), this]
  unfold padCount padModulo
  split <;> omega

theorem pad_empty : pad "" = "" := by
  simp [pad, padCount, padModulo]

/-! ### configuration validity and the shape of an output -/

variable {σ : Type}

/-- supported configuration: key of 16/24/32 bytes, nonce length ≥ 1, tag length 4…16. -/
def Cfg.Valid (c : Cfg) : Prop :=
  (c.key.length = 16 ∨ c.key.length = 24 ∨ c.key.length = 32) ∧ 1 ≤ c.nonceLen ∧ 4 ≤ c.macLen ∧ c.macLen ≤ 16

instance (c : Cfg) : Decidable c.Valid := by unfold Cfg.Valid; exact inferInstance

/-- the nonce source returns as many bytes as it is asked for (`get_random_bytes(n)`). -/
def DrawLen {σ : Type} (draw : Draw σ) : Prop := ∀ n s, ((draw n s).1).length = n

theorem validParams_of (c : Cfg) (hv : c.Valid) (draw : Draw σ) (hd : DrawLen draw) (s : σ) :
    ValidParams c.key (draw c.nonceLen s).1 c.macLen := by
  obtain ⟨hk, hn, h4, h16⟩ := hv
  refine ⟨hk, ?_, h4, h16⟩
  intro e
  have := hd c.nonceLen s
  rw [e] at this; simp at this; omega

/-- what `encrypt` returns, in terms of the cipher's answer. -/
theorem encrypt_eq (C : Cipher) (c : Cfg) (draw : Draw σ) (s : σ) (t : String) :
    (encrypt C c draw s t).1 =
      layout (C.sealFn c.key (draw c.nonceLen s).1 c.macLen (utf8 (pad t))).1 (draw c.nonceLen s).1
             (C.sealFn c.key (draw c.nonceLen s).1 c.macLen (utf8 (pad t))).2 := rfl

/-- the (ciphertext, nonce, tag) slots of an output are what the cipher and the nonce source returned. -/
theorem slices_encrypt (A : AEAD) (c : Cfg) (hv : c.Valid) (draw : Draw σ) (hd : DrawLen draw) (s : σ) (t : String) :
    slices c.nonceLen c.macLen (encrypt A.toCipher c draw s t).1 =
      ⟨(A.sealFn c.key (draw c.nonceLen s).1 c.macLen (utf8 (pad t))).1, (draw c.nonceLen s).1,
       (A.sealFn c.key (draw c.nonceLen s).1 c.macLen (utf8 (pad t))).2⟩ := by
  rw [encrypt_eq]
  exact slices_layout _ _ _ _ _ (hd _ _) (A.seal_tag_len _ _ _ _ (validParams_of c hv draw hd s))

theorem encrypt_length (A : AEAD) (c : Cfg) (hv : c.Valid) (draw : Draw σ) (hd : DrawLen draw) (s : σ) (t : String) :
    (encrypt A.toCipher c draw s t).1.length = (utf8 (pad t)).length + c.nonceLen + c.macLen + lenEndBytes := by
  rw [encrypt_eq, layout_length, A.seal_ct_len, hd, A.seal_tag_len _ _ _ _ (validParams_of c hv draw hd s)]
  rfl

/-! ### a toy AEAD (identity "encryption", additive checksum as tag): shows that the assumed
laws are jointly satisfiable; used only by the `example`s. -/

namespace Toy

def sum (l : Bytes) : UInt8 := l.foldl (· + ·) 0

def tagOf (k n : Bytes) (τ : Nat) (pt : Bytes) : Bytes :=
  List.replicate τ (sum k + sum n + sum pt + 1)

def cipher : Cipher where
  sealFn k n τ pt := (pt, tagOf k n τ pt)
  openFn k n τ ct tag := if tag = tagOf k n τ ct then some ct else none

def aead : AEAD where
  toCipher := cipher
  open_seal := by intro k n τ pt _; simp [cipher]
  open_modified_none := by
    intro k n τ ct tag h
    have := h ct
    simp only [cipher, ne_eq, Prod.mk.injEq, true_and] at this
    simp only [cipher]
    rw [if_neg (fun e => this e.symm)]
  open_taglen_none := by
    intro k n τ ct tag h
    simp only [cipher]
    rw [if_neg]
    intro e; apply h; rw [e]; simp [tagOf]
  seal_ct_len := by intro k n τ pt; simp [cipher]
  seal_tag_len := by intro k n τ pt _; simp [cipher, tagOf]

/-- a counter as nonce source: the `k`-th draw of `n` bytes is `k` written in `n` base-256 digits. -/
def digits : Nat → Nat → Bytes
  | 0, _ => []
  | n + 1, v => UInt8.ofNat (v % 256) :: digits n (v / 256)

def draw : Draw Nat := fun n s => (digits n s, s + 1)

theorem digits_length (n v : Nat) : (digits n v).length = n := by
  induction n generalizing v with
  | zero => rfl
  | succ n ih => simp [digits, ih]

def cfg : Cfg := ⟨List.replicate 16 7, 12, 12⟩

end Toy

end Bobo.Crypto
