import BoboVerif.Model.Tcp
import BoboVerif.Lemmas.Tcp
import BoboVerif.Props.C15
/-!
Helper lemmas for the accounting theorems of C06 (appended section of Props/C06.lean):
exactly when one pass of the outgoing loop pops the queue, and the generalisation of C15's
`resync_aux` from "last_comms = 0" to "last_comms ≤ L with every pass clock ≥ L + period_resync"
(an outage instead of a received RESET).
-/
namespace Bobo.Tcp
variable {Rec : Type}

/-- state of `cache_sync` / the queue during the send phase, tied to the wire log: either nothing
was fetched yet and no SYNC is on the wire, or the head was popped (once) and a SYNC is on the wire. -/
def PopInv (q0 : List (Msg Rec)) (st : SendSt Rec) : Prop :=
  (st.cache = none ∧ st.queue = q0 ∧ ∀ w ∈ st.wires, w.typ ≠ .sync) ∨
  (st.cache = some (cacheOf q0) ∧ st.queue = q0.tail ∧ ∃ w ∈ st.wires, w.typ = .sync)

theorem sendOne_popInv (snap : Msg Rec) (outcome : Nat → Nat × Int) (q0 : List (Msg Rec)) (st : SendSt Rec)
    (it : Nat × MsgType × Nat) (h : PopInv q0 st) : PopInv q0 (sendOne snap outcome st it) := by
  cases he : st.peers[it.1]? with
  | none => rw [sendOne_none _ _ _ _ he]; exact h
  | some e =>
    obtain ⟨i, t, seen⟩ := it
    simp only [sendOne, he]
    rcases h with ⟨hc, hq, hw⟩ | ⟨hc, hq, w, hw, hwt⟩
    · cases t
      · right
        refine ⟨?_, ?_, ⟨_, List.mem_append_right _ (List.mem_singleton.mpr rfl), rfl⟩⟩
        · cases q0 <;> simp [fetch, hc, hq, cacheOf]
        · cases q0 <;> simp [fetch, hc, hq]
      all_goals
        left
        refine ⟨by simp [fetch, hc], by simp [fetch, hq], ?_⟩
        intro w hw'
        rcases List.mem_append.mp hw' with h1 | h1
        · exact hw w h1
        · rw [List.mem_singleton.mp h1]; simp
    · right
      refine ⟨?_, ?_, ⟨w, List.mem_append_left _ hw, hwt⟩⟩
      · cases t <;> simp [fetch, hc]
      · cases t <;> simp [fetch, hc, hq]

theorem sendPhase_popInv (snap : Msg Rec) (outcome : Nat → Nat × Int) (q0 : List (Msg Rec)) :
    ∀ (ol : List (Nat × MsgType × Nat)) (st : SendSt Rec), PopInv q0 st → PopInv q0 (sendPhase snap outcome st ol) := by
  intro ol
  induction ol with
  | nil => intro st h; exact h
  | cons it rest ih =>
    intro st h
    simp only [sendPhase, List.foldl_cons]
    exact ih _ (sendOne_popInv snap outcome q0 st it h)

/-- the queue after one pass: its head is popped iff a SYNC was handed to the wire in this pass. -/
theorem outIter_queue_exact (s : TState Rec) (now : Int) (snap : Msg Rec) (outcome : Nat → Nat × Int) :
    ((∀ w ∈ (outIter s now snap outcome).2, w.typ ≠ .sync) ∧ (outIter s now snap outcome).1.queue = s.queue) ∨
    ((∃ w ∈ (outIter s now snap outcome).2, w.typ = .sync) ∧ (outIter s now snap outcome).1.queue = s.queue.tail) := by
  have := sendPhase_popInv snap outcome s.queue (decidePhase s.cfg s.self now s.queue.isEmpty s.peers)
    ⟨s.peers, s.queue, none, []⟩ (Or.inl ⟨rfl, rfl, by intro w hw; cases hw⟩)
  rcases this with ⟨_, hq, hw⟩ | ⟨_, hq, hw⟩
  · exact Or.inl ⟨hw, hq⟩
  · exact Or.inr ⟨hw, hq⟩

/-- a wire found for device `j` is in the wire log. -/
theorem mem_of_find_wire {l : List (Wire Rec)} {j : Nat} {w : Wire Rec}
    (h : l.find? (fun w => w.peer == j) = some w) : w ∈ l := List.mem_of_find?_eq_some h

/-- every wire of a pass is the wire found for its device. -/
theorem outIter_wire_of_mem (s : TState Rec) (now : Int) (snap : Msg Rec) (outcome : Nat → Nat × Int)
    (w : Wire Rec) (hw : w ∈ (outIter s now snap outcome).2) :
    ∃ e ts, s.peers[w.peer]? = some e ∧ decideEntry s.cfg s.self now s.queue.isEmpty e = some ts ∧
      w = wireOf snap s.queue w.peer ts e := by
  simp only [outIter] at hw
  rw [sendPhase_wires snap outcome s.queue _ _ (decidePhase_sorted ..) (Or.inl ⟨rfl, rfl⟩)] at hw
  simp only [List.nil_append, List.mem_filterMap] at hw
  obtain ⟨it, hit, hsome⟩ := hw
  cases he : s.peers[it.1]? with
  | none => simp [he] at hsome
  | some e =>
    simp only [he, Option.map_some, Option.some.injEq] at hsome
    have hl : (decidePhase s.cfg s.self now s.queue.isEmpty s.peers).lookup it.1 = some it.2 := by
      have hs := decidePhase_sorted s.cfg s.self now s.queue.isEmpty s.peers
      generalize decidePhase s.cfg s.self now s.queue.isEmpty s.peers = ol at hit hs
      induction ol with
      | nil => cases hit
      | cons a ol ih =>
        obtain ⟨hhead, hrest⟩ := List.pairwise_cons.mp hs
        rcases List.mem_cons.mp hit with heq | hin
        · rw [← heq]
          cases hit' : it with
          | mk i ts => simp
        · have := hhead it hin
          have hb : (it.1 == a.1) = false := by simp; omega
          rw [List.lookup_cons, hb]
          exact ih hin hrest
    rw [decidePhase_lookup, he] at hl
    simp only [Option.bind_some] at hl
    have hp : w.peer = it.1 := by rw [← hsome]; rfl
    refine ⟨e, it.2, by rw [hp]; exact he, hl, ?_⟩
    rw [hp]; exact hsome.symm

/-! ### an outage instead of a RESET: `last_comms ≤ L`, every pass clock `≥ L + period_resync` -/

def ClocksPast (cfg : Periods) (L : Int) (steps : List (Step Rec)) : Prop :=
  ∀ now snap outcome, Step.pass now snap outcome ∈ steps → now - L ≥ cfg.periodResync

theorem outage_aux (j : Nat) (L : Int) (hL : 0 ≤ L) (steps : List (Step Rec)) :
    ∀ (s : TState Rec) (pending : Bool), ClocksPast s.cfg L steps →
      (pending = true → ∀ e, s.peers[j]? = some e → e.2.lastComms ≤ L) →
      ResyncFirst pending (jlog j (run s steps)) := by
  induction steps with
  | nil => intro s f _ _; cases f <;> simp [run, jlog, ResyncFirst]
  | cons x xs ih =>
    intro s pend hcl hinv
    simp only [run, jlog]
    have hcfg := step_cfg s x
    have hcl' : ClocksPast (step s x).1.cfg L xs := by
      rw [hcfg]; intro now snap oc hm; exact hcl now snap oc (List.mem_cons_of_mem _ hm)
    rcases step_j s x j with ⟨hev, hp⟩ | ⟨hev, hp⟩ | ⟨now, snap, outcome, e, t, rfl, he, hd, hev, hp⟩
    · rw [hev, List.nil_append]
      exact ih _ pend hcl' (by intro hpd e he; rw [hp] at he; exact hinv hpd e he)
    · rw [hev]
      have : ResyncFirst true (jlog j (run (step s x).1 xs)) := by
        apply ih _ true hcl'
        intro _ e he
        rw [hp] at he
        cases h0 : s.peers[j]? with
        | none => rw [h0] at he; cases he
        | some e0 => rw [h0] at he; cases he; simpa [Peer.clearLast] using hL
      cases pend <;> simpa [ResyncFirst] using this
    · rw [hev]
      cases pend with
      | false =>
        simp only [List.singleton_append, ResyncFirst]
        exact ih _ false hcl' (by intro h; cases h)
      | true =>
        simp only [List.singleton_append, ResyncFirst]
        have hlc := hinv rfl e he
        have hnow := hcl now snap outcome (List.mem_cons_self ..)
        have ht : t = .resync := by
          unfold decideOne at hd
          rw [resync_only _ _ _ _ _ (by omega)] at hd
          split at hd
          · cases hd; rfl
          · cases hd
        refine ⟨ht, ?_⟩
        apply ih _ _ hcl'
        intro herr e' he'
        rw [hp] at he'; cases he'
        have herr' : (outcome j).1 ≠ 0 := by simpa using herr
        simp only [entryAfter]
        rw [(book_failure t _ snap _ _ herr' _ e.2).1]; exact hlc

end Bobo.Tcp
