import BoboVerif.Model.ClusterD
import BoboVerif.Lemmas.RemoteJoin
import BoboVerif.Lemmas.Net
import BoboVerif.Lemmas.LocalStarts
/-!
The decider-level cluster refines, per run key, the abstract replication
network of Lemmas/Net.lean: an input is a `say` (given that local processing is
a join with its own notification — `LocalIsJoin`), a delivery is a `deliver`
(by `remote_is_join`).  Hence the network invariant and the convergence theorem
transfer to clusters of decider states.
-/
namespace Bobo.ClusterD
open Bobo.Run Bobo.Decider Bobo.Lattice
set_option linter.unusedSimpArgs false
variable {ε : Type}

/-- local processing announces exactly what it changes: the status of every key of a known pattern after
`update()` is the join of its status before with what the notification says about it. -/
def LocalIsJoin (c : Cfg ε) : Prop :=
  ∀ (s s' : DState ε) (e : ε) (nt : Notif ε) (ch : Bool),
    localStep c s e = some (s', nt, ch) → roomFor c s nt.completed nt.halted = true →
    ∀ ph pa id, (c.getPattern ph pa).isSome = true →
      abs s' ph pa id = join (abs s ph pa id) (absMsg nt.completed nt.halted nt.updated ph pa id)

theorem absMsg_nil (ph pa id : String) : absMsg ([] : List (Rec ε)) [] [] ph pa id = bot := by
  simp [absMsg, joinAll, join_bot_left]

theorem not_changed_lists_empty (c : Cfg ε) (s s' : DState ε) (e : ε) (nt : Notif ε)
    (h : localStep c s e = some (s', nt, false)) : nt.completed = [] ∧ nt.halted = [] ∧ nt.updated = [] := by
  unfold localStep at h
  simp only at h
  split at h
  · simp at h
  · simp only [Option.some.injEq, Prod.mk.injEq] at h
    obtain ⟨_, hn, hch⟩ := h
    subst hn
    simp only [Bool.not_eq_false', Bool.and_eq_true, List.isEmpty_iff] at hch
    exact ⟨hch.1.1, hch.1.2, hch.2⟩

theorem map_eraseIdx' {α β} (f : α → β) (l : List α) (k : Nat) :
    (l.map f).eraseIdx k = (l.eraseIdx k).map f := by
  induction l generalizing k with
  | nil => simp
  | cons x rest ih =>
    cases k with
    | zero => simp
    | succ k => simp [ih]

def msgSt (ph pa id : String) (m : Msg ε) : Status := absMsg m.comp m.halt m.upd ph pa id

/-- simulation relation for the key (ph, pa, id). -/
structure R {n : Nat} (ph pa id : String) (cs : CState n ε) (ns : Bobo.Net.St n) : Prop where
  know : ∀ i, ns.know i = abs (cs.node i) ph pa id
  flight : ∀ i j, ns.flight i j = (cs.flight i j).map (msgSt ph pa id)
  pending : ∀ i j, ns.pending i j = false
  wf : ∀ i, TableWF (cs.node i).table

theorem sim_step {n : Nat} (c : Cfg ε) (hc : c.caching = true) (hns : NoSing c)
    (ph pa id : String) (hk : (c.getPattern ph pa).isSome = true)
    (cs cs' : CState n ε) (ns : Bobo.Net.St n) (hR : R ph pa id cs ns) (hI : Bobo.Net.Inv ns)
    (st : CStep n ε) (hstep : cstep c cs st = some cs') :
    ∃ ns', R ph pa id cs' ns' ∧ Bobo.Net.Inv ns' := by
  cases st with
  | input i e =>
    simp only [cstep] at hstep
    cases hl : localStep c (cs.node i) e with
    | none => simp [hl] at hstep
    | some r =>
      obtain ⟨s', nt, ch⟩ := r
      simp only [hl] at hstep
      by_cases hroom : roomFor c (cs.node i) nt.completed nt.halted = true
      · simp only [hroom, Bool.not_true, Bool.false_eq_true, if_false] at hstep
        have hroom' := hroom
        simp only [roomFor, Bool.and_eq_true, decide_eq_true_eq] at hroom'
        obtain ⟨hwf', habsAll⟩ := local_is_join c hc _ _ _ _ _ (hR.wf i) hl hroom'.1 hroom'.2
        have habs := habsAll ph pa id
        have hwfset : ∀ k, TableWF (setNode cs.node i s' k).table := by
          intro k; simp only [setNode]; split
          · exact hwf'
          · exact hR.wf k
        cases ch
        · -- nothing changed: stutter
          simp only [Bool.false_eq_true, if_false, Option.some.injEq] at hstep
          subst hstep
          obtain ⟨h1, h2, h3⟩ := not_changed_lists_empty c _ _ _ _ hl
          rw [h1, h2, h3, absMsg_nil, join_bot_right] at habs
          refine ⟨ns, ⟨fun k => ?_, hR.flight, hR.pending, hwfset⟩, hI⟩
          rw [hR.know k]
          simp only [setNode]
          split
          · rename_i e1; subst e1; exact habs.symm
          · rfl
        · simp only [if_true, Option.some.injEq] at hstep
          subst hstep
          refine ⟨Bobo.Net.step ns (.say i (absMsg nt.completed nt.halted nt.updated ph pa id)), ⟨?_, ?_, ?_, hwfset⟩,
            Bobo.Net.inv_step ns hI _⟩
          · intro k
            simp only [Bobo.Net.step, Bobo.Net.upd, setNode]
            split
            · rename_i e1; subst e1; rw [hR.know k]; exact habs.symm
            · exact hR.know k
          · intro a b
            simp only [Bobo.Net.step]
            split
            · rw [hR.flight a b]; simp [msgSt]
            · exact hR.flight a b
          · intro a b; simp only [Bobo.Net.step]; exact hR.pending a b
      · simp [hroom] at hstep
  | deliver i j k remove =>
    simp only [cstep] at hstep
    cases hm : (cs.flight i j)[k]? with
    | none =>
      simp only [hm, Option.some.injEq] at hstep
      subst hstep
      exact ⟨ns, hR, hI⟩
    | some m =>
      simp only [hm] at hstep
      by_cases hroom : roomFor c (cs.node j) m.comp m.halt = true
      · simp only [hroom, Bool.not_true, Bool.false_eq_true, if_false] at hstep
        cases hr : remoteStep c (cs.node j) m.comp m.halt m.upd with
        | none => simp [hr] at hstep
        | some r =>
          obtain ⟨s', nt⟩ := r
          simp only [hr, Option.some.injEq] at hstep
          subst hstep
          simp only [roomFor, Bool.and_eq_true, decide_eq_true_eq] at hroom
          have habs := remote_abs_after c hc hns (cs.node j) s' nt m.comp m.halt m.upd hroom.1 hroom.2 hr ph pa id hk
          have hget : (ns.flight i j)[k]? = some (msgSt ph pa id m) := by
            rw [hR.flight i j, List.getElem?_map, hm]; rfl
          have hwfset : ∀ a, TableWF (setNode cs.node j s' a).table := by
            intro a; simp only [setNode]; split
            · exact wf_remoteStep ahead true c _ _ _ _ _ _ (hR.wf j) hr
            · exact hR.wf a
          refine ⟨Bobo.Net.step ns (.deliver i j k remove), ⟨?_, ?_, ?_, hwfset⟩, Bobo.Net.inv_step ns hI _⟩
          · intro a
            simp only [Bobo.Net.step, hget, Bobo.Net.upd, setNode]
            split
            · rename_i e1; subst e1; rw [hR.know a]; exact habs.symm
            · exact hR.know a
          · intro a b
            simp only [Bobo.Net.step, hget]
            cases remove
            · simp only [Bool.false_eq_true, if_false]; exact hR.flight a b
            · simp only [if_true, Bobo.Net.upd2]
              split
              · rename_i e1; obtain ⟨e1, e2⟩ := e1; subst e1 e2
                rw [hR.flight a b, map_eraseIdx']
              · exact hR.flight a b
          · intro a b; simp only [Bobo.Net.step, hget]; exact hR.pending a b
      · simp [hroom] at hstep

theorem sim_init {n : Nat} (ph pa id : String) : R ph pa id (cinit n ε) (Bobo.Net.init n) where
  know := fun _ => by simp [Bobo.Net.init, cinit, abs, inCache, Table.runAt, Table.runsFrom, lookup, stOf]
  flight := fun _ _ => by simp [Bobo.Net.init, cinit]
  pending := fun _ _ => rfl
  wf := fun _ => wf_empty

theorem sim_run {n : Nat} (c : Cfg ε) (hc : c.caching = true) (hns : NoSing c)
    (ph pa id : String) (hk : (c.getPattern ph pa).isSome = true) (steps : List (CStep n ε)) :
    ∀ (cs cs' : CState n ε) (ns : Bobo.Net.St n), R ph pa id cs ns → Bobo.Net.Inv ns →
      crun c cs steps = some cs' → ∃ ns', R ph pa id cs' ns' ∧ Bobo.Net.Inv ns' := by
  induction steps with
  | nil => intro cs cs' ns hR hI h; simp [crun] at h; subst h; exact ⟨ns, hR, hI⟩
  | cons st rest ih =>
    intro cs cs' ns hR hI h
    simp only [crun] at h
    cases hs : cstep c cs st with
    | none => simp [hs] at h
    | some cs1 =>
      simp only [hs] at h
      obtain ⟨ns1, hR1, hI1⟩ := sim_step c hc hns ph pa id hk cs cs1 ns hR hI st hs
      exact ih cs1 cs' ns1 hR1 hI1 h

end Bobo.ClusterD
