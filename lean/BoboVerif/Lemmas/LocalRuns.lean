import BoboVerif.Lemmas.TableWF
import BoboVerif.Lemmas.RemoteJoin
import BoboVerif.Lemmas.RunChange
/-!
`_check_against_runs` on a well-formed table, seen from one run key.
-/
namespace Bobo.Decider
open Bobo.Run Bobo.Lattice
set_option linter.unusedSimpArgs false
variable {ε : Type}

/-- all buckets of the table with their keys, in iteration order. -/
def Table.buckets (t : Table ε) : List (String × String × List (LRun ε)) :=
  t.flatMap (fun phe => phe.2.map (fun pe => (phe.1, pe.1, pe.2)))

theorem mem_buckets (t : Table ε) (h : TableWF t) (ph pa : String) (rs : List (LRun ε))
    (hm : (ph, pa, rs) ∈ t.buckets) : t.runsFrom ph pa = rs := by
  unfold Table.buckets at hm
  simp only [List.mem_flatMap, List.mem_map] at hm
  obtain ⟨phe, hphe, pe, hpe, heq⟩ := hm
  simp only [Prod.mk.injEq] at heq
  obtain ⟨e1, e2, e3⟩ := heq
  subst e1 e2 e3
  rw [runsFrom_def, lookup_of_mem t h.k1 phe.1 phe.2 hphe]
  simp only [Option.bind_some]
  rw [lookup_of_mem phe.2 (h.k2 phe.1 phe.2 hphe) pe.1 pe.2 hpe]
  rfl

theorem buckets_of_runsFrom_ne_nil (t : Table ε) (ph pa : String) (hne : t.runsFrom ph pa ≠ []) :
    (ph, pa, t.runsFrom ph pa) ∈ t.buckets := by
  rw [runsFrom_def] at hne ⊢
  cases h1 : lookup ph t with
  | none => simp [h1] at hne
  | some pats =>
    simp only [h1, Option.bind_some] at hne ⊢
    cases h2 : lookup pa pats with
    | none => simp [h2] at hne
    | some rs =>
      simp only [h2, Option.getD_some]
      unfold Table.buckets
      simp only [List.mem_flatMap, List.mem_map]
      exact ⟨(ph, pats), mem_of_lookup t ph pats h1, (pa, rs), mem_of_lookup pats pa rs h2, rfl⟩

/-- the three result lists of `_check_against_runs`, bucket by bucket. -/
theorem checkAgainstRuns_lists (e : ε) (t : Table ε) :
    (checkAgainstRuns e t).2.1 = t.buckets.flatMap (fun b => (procBucket e b.1 b.2.2).hc) ∧
    (checkAgainstRuns e t).2.2.1 = t.buckets.flatMap (fun b => (procBucket e b.1 b.2.2).hi) ∧
    (checkAgainstRuns e t).2.2.2 = t.buckets.flatMap (fun b => (procBucket e b.1 b.2.2).upd) := by
  unfold checkAgainstRuns bucketAccs Table.buckets
  simp only [List.flatMap_map, List.map_map, List.flatMap_assoc, Function.comp_def, List.map_flatMap]
  exact ⟨trivial, trivial, trivial⟩

theorem wf_checkAgainstRuns (e : ε) (t : Table ε) (h : TableWF t) : TableWF (checkAgainstRuns e t).1 := by
  refine ⟨?_, ?_, ?_, ?_⟩
  · unfold checkAgainstRuns bucketAccs KeysNodup
    simp only [List.map_map, Function.comp_def]
    exact h.k1
  · intro ph pats hm
    unfold checkAgainstRuns bucketAccs at hm
    simp only [List.map_map, Function.comp_def, List.mem_map] at hm
    obtain ⟨phe, hphe, heq⟩ := hm
    simp only [Prod.mk.injEq] at heq
    obtain ⟨e1, e2⟩ := heq
    subst e1 e2
    unfold KeysNodup
    simp only [List.map_map, Function.comp_def]
    exact h.k2 phe.1 phe.2 hphe
  · intro ph pa
    rw [runsFrom_checkAgainstRuns]
    exact ids_unique_local e ph _ (h.ids ph pa)
  · intro ph pa r hr
    rw [runsFrom_checkAgainstRuns, procBucket_keep] at hr
    simp only [List.mem_flatMap] at hr
    obtain ⟨r0, hr0, hmem⟩ := hr
    rcases contrib_keep_sub e ph r0 with hk | ⟨hk, _⟩
    · simp [hk] at hmem
    · simp only [hk, List.mem_singleton] at hmem
      subst hmem
      exact h.names ph pa r0 hr0

end Bobo.Decider

namespace Bobo.Decider
open Bobo.Run Bobo.Lattice
set_option linter.unusedSimpArgs false
variable {ε : Type}

theorem RunsAcc.ext' (a b : RunsAcc ε) (h1 : a.keep = b.keep) (h2 : a.hc = b.hc) (h3 : a.hi = b.hi) (h4 : a.upd = b.upd) :
    a = b := by
  cases a; cases b; simp_all

theorem RunsAcc.append_assoc (a b c : RunsAcc ε) : (a.append b).append c = a.append (b.append c) := by
  apply RunsAcc.ext' <;> simp [RunsAcc.append, List.append_assoc]

theorem RunsAcc.empty_append (a : RunsAcc ε) : ({} : RunsAcc ε).append a = a := by
  apply RunsAcc.ext' <;> simp [RunsAcc.append]

theorem foldl_contrib_acc (e : ε) (ph : String) (rs : List (LRun ε)) (acc : RunsAcc ε) :
    rs.foldl (fun a r => a.append (contrib e ph r)) acc =
      acc.append (rs.foldl (fun a r => a.append (contrib e ph r)) {}) := by
  induction rs generalizing acc with
  | nil => apply RunsAcc.ext' <;> simp [RunsAcc.append]
  | cons r rest ih =>
    simp only [List.foldl_cons]
    rw [ih (acc.append (contrib e ph r)), ih (({} : RunsAcc ε).append (contrib e ph r)),
      RunsAcc.empty_append, RunsAcc.append_assoc]

theorem procBucket_cons (e : ε) (ph : String) (r : LRun ε) (rest : List (LRun ε)) :
    procBucket e ph (r :: rest) = (contrib e ph r).append (procBucket e ph rest) := by
  unfold procBucket
  rw [runs_processed_independently, runs_processed_independently]
  simp only [List.foldl_cons]
  rw [foldl_contrib_acc, RunsAcc.empty_append]

theorem procBucket_nil (e : ε) (ph : String) : procBucket e ph ([] : List (LRun ε)) = {} := rfl

theorem process_id (p : Pattern ε) (x : Run ε) (ev : ε) : (process p x ev).2.id = x.id := by
  unfold process
  by_cases hh : x.halted = true
  · simp [hh]
  · simp only [hh, if_false]
    cases hg : gate p ev x.hist with
    | none => simp
    | some b =>
      cases b
      · simp [halt]
      · have hr := walk_res p.blocks.length ev (p.blocks.drop x.idx) x.idx x
        generalize walk p.blocks.length ev (p.blocks.drop x.idx) x.idx x = w at hr
        cases hr <;> simp [halt]

/-- the four shapes of one run's contribution. -/
inductive ContribShape (e : ε) (ph : String) (r : LRun ε) : RunsAcc ε → Prop
  | completed (r' : LRun ε) (hid : r'.run.id = r.run.id) (hpat : r'.pat = r.pat) :
      ContribShape e ph r { keep := [], hc := [r'.ser ph], hi := [], upd := [] }
  | halted (r' : LRun ε) (hid : r'.run.id = r.run.id) (hpat : r'.pat = r.pat) :
      ContribShape e ph r { keep := [], hc := [], hi := [r'.ser ph], upd := [] }
  | updated (r' : LRun ε) (hid : r'.run.id = r.run.id) (hpat : r'.pat = r.pat)
      (hle : active r.run.idx r.run.hist.size ≤ active r'.run.idx r'.run.hist.size)
      (hah : ahead (r'.ser ph) r.run = true) (hlv : r'.run.halted = false) :
      ContribShape e ph r { keep := [r'], hc := [], hi := [], upd := [r'.ser ph] }
  | same : ContribShape e ph r { keep := [r], hc := [], hi := [], upd := [] }

theorem contrib_shape (e : ε) (ph : String) (r : LRun ε) : ContribShape e ph r (contrib e ph r) := by
  unfold contrib checkRun
  cases hp : process r.pat r.run e with
  | mk out run' =>
    have hid : run'.id = r.run.id := by have := process_id r.pat r.run e; rw [hp] at this; exact this
    cases out with
    | ok b =>
      cases b
      · have := ok_false_unchanged r.pat r.run e (by rw [hp])
        rw [hp] at this; simp at this; subst this
        simp only; exact .same
      · by_cases hh : run'.halted = true
        · simp only [hh, if_true]
          split
          · exact .completed { r with run := run' } hid rfl
          · exact .halted { r with run := run' } hid rfl
        · simp only [hh, Bool.false_eq_true, if_false]
          have hlive : (process r.pat r.run e).2.halted = false := by rw [hp]; simpa using hh
          obtain ⟨⟨g, hg⟩, hidx⟩ := changed_live_records r.pat r.run e (by rw [hp]) hlive
          rw [hp] at hg hidx
          simp only at hg hidx
          have := addEvent_size_ge r.run.hist g e
          rw [← hg] at this
          refine .updated { r with run := run' } hid rfl ?_ ?_ (by simpa using hh)
          · rw [le_def]
            simp only [active, Nat.lt_irrefl, false_or, true_and]
            omega
          · simp only [ahead, LRun.ser, gt_iff_lt, Bool.or_eq_true, decide_eq_true_eq, Bool.and_eq_true, beq_iff_eq]
            omega
    | raised =>
      have := raise_leaves_run r.pat r.run e (by rw [hp])
      rw [hp] at this; simp at this; subst this
      simp only; exact .same
    | indexError =>
      have := index_error_leaves_run r.pat r.run e (by rw [hp])
      rw [hp] at this; simp at this; subst this
      simp only; exact .same

end Bobo.Decider

namespace Bobo.Decider
open Bobo.Run Bobo.Lattice
set_option linter.unusedSimpArgs false
variable {ε : Type}

theorem ser_id (ph : String) (r : LRun ε) : (r.ser ph).id = r.run.id := rfl

theorem keyMatch_ser (ph pa id ph' : String) (r : LRun ε) :
    keyMatch ph pa id (r.ser ph') = true ↔ (ph' = ph ∧ r.pat.name = pa ∧ r.run.id = id) := by
  unfold keyMatch LRun.ser
  simp [Bool.and_eq_true, and_assoc]

/-- nothing of a bucket whose runs all have other ids concerns `id`. -/
theorem procBucket_other_ids (e : ε) (ph : String) (rs : List (LRun ε)) (id : String)
    (hno : ∀ r ∈ rs, r.run.id ≠ id) :
    (procBucket e ph rs).keep.find? (fun r => r.run.id == id) = none ∧
    (∀ x ∈ (procBucket e ph rs).hc, x.id ≠ id) ∧ (∀ x ∈ (procBucket e ph rs).hi, x.id ≠ id) ∧
    (∀ x ∈ (procBucket e ph rs).upd, x.id ≠ id) := by
  induction rs with
  | nil => simp [procBucket_nil]
  | cons r rest ih =>
    obtain ⟨h1, h2, h3, h4⟩ := ih (fun x hx => hno x (List.mem_cons_of_mem _ hx))
    have hr : r.run.id ≠ id := hno r (List.mem_cons_self ..)
    rw [procBucket_cons]
    have hs := contrib_shape e ph r
    generalize contrib e ph r = cr at hs
    cases hs with
    | completed r' hid hpat0 =>
      simp only [RunsAcc.append, List.nil_append, List.singleton_append]
      refine ⟨h1, ?_, h3, h4⟩
      intro x hx
      rcases List.mem_cons.mp hx with e1 | e1
      · subst e1; rw [ser_id, hid]; exact hr
      · exact h2 x e1
    | halted r' hid hpat0 =>
      simp only [RunsAcc.append, List.nil_append, List.singleton_append]
      refine ⟨h1, h2, ?_, h4⟩
      intro x hx
      rcases List.mem_cons.mp hx with e1 | e1
      · subst e1; rw [ser_id, hid]; exact hr
      · exact h3 x e1
    | updated r' hid hpat hle =>
      simp only [RunsAcc.append, List.nil_append, List.singleton_append]
      refine ⟨?_, h2, h3, ?_⟩
      · have : (r'.run.id == id) = false := by simp only [beq_eq_false_iff_ne, ne_eq]; rw [hid]; exact hr
        simp only [List.find?_cons, this]; exact h1
      · intro x hx
        rcases List.mem_cons.mp hx with e1 | e1
        · subst e1; rw [ser_id, hid]; exact hr
        · exact h4 x e1
    | same =>
      simp only [RunsAcc.append, List.nil_append, List.singleton_append]
      refine ⟨?_, h2, h3, h4⟩
      have : (r.run.id == id) = false := by simp only [beq_eq_false_iff_ne, ne_eq]; exact hr
      simp only [List.find?_cons, this]; exact h1

theorem filter_none_of_ids (l : List (Rec ε)) (ph pa id : String) (h : ∀ x ∈ l, x.id ≠ id) :
    l.filter (keyMatch ph pa id) = [] := by
  rw [List.filter_eq_nil_iff]
  intro x hx hk
  exact h x hx ((keyMatch_iff ph pa id x).mp hk).2.2.symm

/-- **one bucket, one key**: unless the run with this id finished on the event (then its record is in
the completed or halted list), the key's position afterwards is the join of its position before with
what the `updated` list says about it. -/
theorem procBucket_key (e : ε) (ph pa id : String) (rs : List (LRun ε))
    (hids : (rs.map (·.run.id)).Nodup) (hnames : ∀ r ∈ rs, r.pat.name = pa) :
    (∃ x ∈ (procBucket e ph rs).hc ++ (procBucket e ph rs).hi, x.id = id) ∨
    stOf ((procBucket e ph rs).keep.find? (fun r => r.run.id == id)) =
      join (stOf (rs.find? (fun r => r.run.id == id)))
        (joinAll (((procBucket e ph rs).upd.filter (keyMatch ph pa id)).map recSt)) := by
  induction rs with
  | nil => right; simp [procBucket_nil, stOf, joinAll, join_bot_left]
  | cons r rest ih =>
    simp only [List.map_cons, List.nodup_cons] at hids
    have hnames' : ∀ x ∈ rest, x.pat.name = pa := fun x hx => hnames x (List.mem_cons_of_mem _ hx)
    by_cases hr : r.run.id = id
    · -- this is the run: the rest of the bucket does not concern `id`
      have hno : ∀ x ∈ rest, x.run.id ≠ id := by
        intro x hx e1
        exact hids.1 (List.mem_map.mpr ⟨x, hx, by rw [e1, hr]⟩)
      obtain ⟨h1, h2, h3, h4⟩ := procBucket_other_ids e ph rest id hno
      have hf4 := filter_none_of_ids _ ph pa id h4
      rw [procBucket_cons]
      have hs := contrib_shape e ph r
      generalize contrib e ph r = cr at hs
      have hfind : (r.run.id == id) = true := by simpa using hr
      cases hs with
      | completed r' hid hpat0 =>
        left
        exact ⟨r'.ser ph, by simp [RunsAcc.append], by rw [ser_id, hid, hr]⟩
      | halted r' hid hpat0 =>
        left
        exact ⟨r'.ser ph, by simp [RunsAcc.append], by rw [ser_id, hid, hr]⟩
      | updated r' hid hpat hle =>
        right
        have hf' : (r'.run.id == id) = true := by simp only [beq_iff_eq]; rw [hid, hr]
        have hkm : keyMatch ph pa id (r'.ser ph) = true :=
          (keyMatch_ser ph pa id ph r').mpr ⟨rfl, by rw [hpat]; exact hnames r (List.mem_cons_self ..), by rw [hid, hr]⟩
        simp only [RunsAcc.append, List.singleton_append, List.nil_append, List.find?_cons, hf', hfind,
          List.filter_cons, hkm, if_true, hf4, List.map_cons, List.map_nil, stOf]
        rw [joinAll_cons]
        simp only [joinAll, List.foldl_nil, join_bot_right]
        show _ = join _ (active r'.run.idx r'.run.hist.size)
        rw [join_eq_right hle]
      | same =>
        right
        simp only [RunsAcc.append, List.singleton_append, List.nil_append, List.find?_cons, hfind, hf4,
          List.map_nil, joinAll, List.foldl_nil, join_bot_right]
    · -- another run: it contributes nothing about `id`
      have hfind : (r.run.id == id) = false := by simpa using hr
      rw [procBucket_cons]
      have hs := contrib_shape e ph r
      generalize contrib e ph r = cr at hs
      rcases ih hids.2 hnames' with ⟨x, hx, hxid⟩ | heq
      · left
        refine ⟨x, ?_, hxid⟩
        rcases List.mem_append.mp hx with h | h
        · cases hs <;> simp [RunsAcc.append, h]
        · cases hs <;> simp [RunsAcc.append, h]
      · cases hs with
        | completed r' hid hpat0 =>
          right
          simp only [RunsAcc.append, List.nil_append, List.find?_cons, hfind]; exact heq
        | halted r' hid hpat0 =>
          right
          simp only [RunsAcc.append, List.nil_append, List.find?_cons, hfind]; exact heq
        | updated r' hid hpat hle =>
          right
          have hf' : (r'.run.id == id) = false := by simp only [beq_eq_false_iff_ne, ne_eq]; rw [hid]; exact hr
          have hkm : keyMatch ph pa id (r'.ser ph) = false := by
            cases hk : keyMatch ph pa id (r'.ser ph) with
            | false => rfl
            | true => exact absurd ((keyMatch_ser ph pa id ph r').mp hk).2.2 (by rw [hid]; exact hr)
          simp only [RunsAcc.append, List.singleton_append, List.find?_cons, hf', hfind, List.filter_cons, hkm,
            Bool.false_eq_true, if_false]
          exact heq
        | same =>
          right
          simp only [RunsAcc.append, List.singleton_append, List.nil_append, List.find?_cons, hfind]
          exact heq

end Bobo.Decider

namespace Bobo.Decider
open Bobo.Run Bobo.Lattice
set_option linter.unusedSimpArgs false
variable {ε : Type}

/-- records announced as updated by a bucket carry that bucket's key. -/
theorem upd_keys (e : ε) (ph pa : String) (rs : List (LRun ε)) (hnames : ∀ r ∈ rs, r.pat.name = pa) :
    ∀ x ∈ (procBucket e ph rs).upd, x.phen = ph ∧ x.pat = pa := by
  induction rs with
  | nil => simp [procBucket_nil]
  | cons r rest ih =>
    have ih' := ih (fun x hx => hnames x (List.mem_cons_of_mem _ hx))
    rw [procBucket_cons]
    have hs := contrib_shape e ph r
    generalize contrib e ph r = cr at hs
    cases hs with
    | completed r' hid hpat0 => simpa [RunsAcc.append] using ih'
    | halted r' hid hpat0 => simpa [RunsAcc.append] using ih'
    | updated r' hid hpat hle =>
      intro x hx
      simp only [RunsAcc.append, List.singleton_append, List.mem_cons] at hx
      rcases hx with e1 | e1
      · subst e1
        exact ⟨rfl, by simp only [LRun.ser]; rw [hpat]; exact hnames r (List.mem_cons_self ..)⟩
      · exact ih' x e1
    | same => simpa [RunsAcc.append] using ih'

theorem joinAll_map_flatMap {α} (l : List α) (f : α → List Status) :
    joinAll (l.flatMap f) = joinAll (l.map (fun a => joinAll (f a))) := by
  induction l with
  | nil => rfl
  | cons a rest ih => rw [List.flatMap_cons, joinAll_append, List.map_cons, joinAll_cons, ih]

theorem joinAll_const_or_bot {α} (l : List α) (p : α → Prop) [DecidablePred p] (X : Status) :
    joinAll (l.map (fun a => if p a then X else bot)) = if (∃ a ∈ l, p a) then X else bot := by
  induction l with
  | nil => simp [joinAll]
  | cons a rest ih =>
    rw [List.map_cons, joinAll_cons, ih]
    by_cases ha : p a
    · simp only [ha, if_true]
      have : (∃ b ∈ a :: rest, p b) := ⟨a, List.mem_cons_self .., ha⟩
      simp only [this, if_true]
      split
      · exact join_idem X
      · exact join_bot_right X
    · simp only [ha, if_false, join_bot_left]
      by_cases hr : ∃ b ∈ rest, p b
      · obtain ⟨b, hb, hpb⟩ := hr
        have : (∃ c ∈ a :: rest, p c) := ⟨b, List.mem_cons_of_mem _ hb, hpb⟩
        rw [if_pos (⟨b, hb, hpb⟩ : ∃ b ∈ rest, p b), if_pos this]
      · have : ¬ (∃ c ∈ a :: rest, p c) := by
          rintro ⟨c, hc, hpc⟩
          rcases List.mem_cons.mp hc with e1 | e1
          · subst e1; exact ha hpc
          · exact hr ⟨c, e1, hpc⟩
        rw [if_neg hr, if_neg this]

/-- **`_check_against_runs`, one key**: unless the run finished on this event (then its record is in the
completed or halted list of the notification), the key's position after the loop is the join of its position
before with what the `updated` list says about it. -/
theorem checkAgainstRuns_key (e : ε) (t : Table ε) (h : TableWF t) (ph pa id : String) :
    (∃ x ∈ (checkAgainstRuns e t).2.1 ++ (checkAgainstRuns e t).2.2.1, x.id = id) ∨
    stOf ((checkAgainstRuns e t).1.runAt ph pa id) =
      join (stOf (t.runAt ph pa id))
        (joinAll (((checkAgainstRuns e t).2.2.2.filter (keyMatch ph pa id)).map recSt)) := by
  obtain ⟨hl1, hl2, hl3⟩ := checkAgainstRuns_lists e t
  rcases procBucket_key e ph pa id (t.runsFrom ph pa) (h.ids ph pa) (h.names ph pa) with ⟨x, hx, hxid⟩ | heq
  · left
    -- the bucket is non-empty, hence one of the table's buckets
    have hne : t.runsFrom ph pa ≠ [] := by
      intro e0; rw [e0] at hx; simp [procBucket_nil] at hx
    have hb := buckets_of_runsFrom_ne_nil t ph pa hne
    refine ⟨x, ?_, hxid⟩
    rw [hl1, hl2]
    rcases List.mem_append.mp hx with hh | hh
    · exact List.mem_append.mpr (.inl (List.mem_flatMap.mpr ⟨_, hb, hh⟩))
    · exact List.mem_append.mpr (.inr (List.mem_flatMap.mpr ⟨_, hb, hh⟩))
  · right
    rw [runAt_def, runsFrom_checkAgainstRuns, heq, runAt_def]
    congr 1
    rw [hl3, List.filter_flatMap, List.map_flatMap, joinAll_map_flatMap]
    -- every bucket contributes either the value of THE bucket (ph, pa) or nothing
    have hper : ∀ b ∈ t.buckets,
        joinAll (((procBucket e b.1 b.2.2).upd.filter (keyMatch ph pa id)).map recSt) =
          if (b.1 = ph ∧ b.2.1 = pa) then
            joinAll (((procBucket e ph (t.runsFrom ph pa)).upd.filter (keyMatch ph pa id)).map recSt)
          else bot := by
      intro b hb
      obtain ⟨bph, bpa, brs⟩ := b
      have hrs := mem_buckets t h bph bpa brs hb
      by_cases hk : bph = ph ∧ bpa = pa
      · obtain ⟨e1, e2⟩ := hk; subst e1 e2
        simp only [and_self, if_true, hrs]
      · simp only [hk, if_false]
        have : (procBucket e bph brs).upd.filter (keyMatch ph pa id) = [] := by
          rw [List.filter_eq_nil_iff]
          intro x hx hkm
          have hkeys := upd_keys e bph bpa brs (by rw [← hrs]; exact h.names bph bpa) x hx
          have := (keyMatch_iff ph pa id x).mp hkm
          exact hk ⟨hkeys.1.symm.trans this.1.symm, hkeys.2.symm.trans this.2.1.symm⟩
        simp [this, joinAll]
    rw [List.map_congr_left hper, joinAll_const_or_bot]
    split
    · rfl
    · rename_i hno
      -- no bucket (ph, pa): it is empty, so it says nothing
      have : t.runsFrom ph pa = [] := by
        cases hr : t.runsFrom ph pa with
        | nil => rfl
        | cons a l =>
          exact absurd ⟨(ph, pa, t.runsFrom ph pa), buckets_of_runsFrom_ne_nil t ph pa (by rw [hr]; simp), rfl, rfl⟩ hno
      simp [this, procBucket_nil, joinAll]

end Bobo.Decider
