import BoboVerif.Model.Run
import BoboVerif.Model.Builder
/-!
Helper lemmas about M-Builder used by Props/C19.lean: the iteration-by-iteration loop of a builder
method against its declarative contribution (`blocksOf`), what raises, and the link between the
pattern-constructor check of the builder model (`ctorOk`) and C01's `Pattern.legal`.
-/
namespace Bobo.Builder
open Bobo.Run
set_option linter.unusedSimpArgs false

variable {ε : Type}

theorem copies_pos (t : Int) : 1 ≤ copies t := by unfold copies; omega

theorem appendCopies_legal (b : Block ε) (hb : b.legal = true) :
    ∀ (n : Nat) (bs : List (Block ε)), appendCopies b n bs = (bs ++ List.replicate n b, none)
  | 0, bs => by simp [appendCopies]
  | n + 1, bs => by
    simp only [appendCopies, hb, if_true]
    rw [appendCopies_legal b hb n (bs ++ [b])]
    simp [List.replicate_succ, List.append_assoc]

theorem appendCopies_illegal (b : Block ε) (hb : b.legal = false) (n : Nat) (bs : List (Block ε)) :
    appendCopies b (n + 1) bs = (bs, some .block) := by
  simp [appendCopies, hb]

theorem mem_blocksOf (c : Call ε) (b : Block ε) (h : b ∈ blocksOf c) : b = blockOf c := by
  unfold blocksOf at h
  split at h
  · split at h
    · exact (List.mem_replicate.mp h).2
    · simp at h
  · simp at h

theorem blocksOf_legal (c : Call ε) (b : Block ε) (h : b ∈ blocksOf c) : b.legal = true := by
  have hb := mem_blocksOf c b h
  unfold blocksOf at h
  split at h
  · split at h
    · next hl => rw [hb]; exact hl
    · simp at h
  · simp at h

theorem applyCall_blocks (s : St ε) (c : Call ε) : (applyCall s c).1.blocks = s.blocks ++ blocksOf c := by
  unfold applyCall blocksOf
  cases hk : c.method.kind with
  | pre => simp
  | halt => simp
  | block =>
    simp only
    by_cases hl : (blockOf c).legal = true
    · simp [appendCopies_legal _ hl, hl]
    · have hl' : (blockOf c).legal = false := by simpa using hl
      obtain ⟨n, hn⟩ : ∃ n, copies c.times = n + 1 := ⟨copies c.times - 1, by have := copies_pos c.times; omega⟩
      simp [hn, appendCopies_illegal _ hl', hl']

theorem applyCall_pre (s : St ε) (c : Call ε) : (applyCall s c).1.pre = s.pre ++ presOf c := by
  unfold applyCall presOf
  cases hk : c.method.kind <;> simp

theorem applyCall_halt (s : St ε) (c : Call ε) : (applyCall s c).1.halt = s.halt ++ haltsOf c := by
  unfold applyCall haltsOf
  cases hk : c.method.kind <;> simp

theorem applyCall_name (s : St ε) (c : Call ε) : (applyCall s c).1.name = s.name := by
  unfold applyCall
  cases hk : c.method.kind <;> simp

theorem applyCall_singleton (s : St ε) (c : Call ε) : (applyCall s c).1.singleton = s.singleton := by
  unfold applyCall
  cases hk : c.method.kind <;> simp

theorem applyCall_err (s : St ε) (c : Call ε) :
    (applyCall s c).2 = if c.method.kind = .block ∧ (blockOf c).legal = false then some .block else none := by
  unfold applyCall
  cases hk : c.method.kind with
  | pre => simp
  | halt => simp
  | block =>
    simp only
    by_cases hl : (blockOf c).legal = true
    · simp [appendCopies_legal _ hl, hl]
    · have hl' : (blockOf c).legal = false := by simpa using hl
      obtain ⟨n, hn⟩ : ∃ n, copies c.times = n + 1 := ⟨copies c.times - 1, by have := copies_pos c.times; omega⟩
      simp [hn, appendCopies_illegal _ hl', hl']

theorem applyCall_err_iff (s : St ε) (c : Call ε) :
    (applyCall s c).2 = some .block ↔ (c.method.kind = .block ∧ (blockOf c).legal = false) := by
  rw [applyCall_err]; split <;> simp_all

theorem applyCall_err_cases (s : St ε) (c : Call ε) :
    (applyCall s c).2 = none ∨ (applyCall s c).2 = some .block := by
  rw [applyCall_err]; split <;> simp

theorem applyCall_raise_unchanged (s : St ε) (c : Call ε) (h : (applyCall s c).2 ≠ none) :
    (applyCall s c).1 = s := by
  rw [applyCall_err] at h
  split at h
  · next hc =>
    obtain ⟨hk, hl⟩ := hc
    obtain ⟨n, hn⟩ : ∃ n, copies c.times = n + 1 := ⟨copies c.times - 1, by have := copies_pos c.times; omega⟩
    unfold applyCall
    simp [hk, hn, appendCopies_illegal _ hl]
  · exact absurd rfl h

theorem call_illegal_iff (c : Call ε) (hk : c.method.kind = .block) :
    (blockOf c).legal = false ↔
      ((c.method.usesList = true ∧ c.preds = []) ∨
       ((c.method = .followedBy ∨ c.method = .followedByAny) ∧ c.loop = true ∧ c.optional = true)) := by
  unfold blockOf Block.legal predsOf
  cases hm : c.method <;> simp [hm, Method.kind] at hk <;>
    cases hlp : c.loop <;> cases hop : c.optional <;> cases hp : c.preds <;>
    simp [flagsOf, Method.usesList]

/-- `Pattern.legal` (C01) = the pattern-constructor check + every block went through the block constructor. -/
theorem legal_of_ctorOk (p : Pattern ε) (hc : ctorOk p = true) (hb : p.blocks.all Block.legal = true) :
    p.legal = true := by
  unfold ctorOk at hc
  unfold Pattern.legal
  simp only [Bool.and_eq_true] at hc ⊢
  exact ⟨⟨hc.1, hb⟩, hc.2⟩

theorem ctorOk_of_legal (p : Pattern ε) (h : p.legal = true) :
    ctorOk p = true ∧ p.blocks.all Block.legal = true := by
  unfold Pattern.legal at h
  unfold ctorOk
  simp only [Bool.and_eq_true] at h ⊢
  exact ⟨⟨h.1.1, h.2⟩, h.1.2⟩

end Bobo.Builder
