import BoboVerif.Lemmas.IdDiscipline
import BoboVerif.Lemmas.LocalRuns
/-!
`update()` never lets an exception escape (C14, "the engine keeps running"): whatever the predicates,
preconditions and haltconditions of the configuration do on the event — return, or raise at any evaluation —
`localStep` is defined, for every state whose table is well formed and holds none of the identifiers the
generator has still to hand out (the only other way `_check_against_patterns` can raise is `_add_run` on an
identifier already stored; C16 is the reason it never is).  Both conditions are preserved by the step, so the
statement lifts to every stream.
-/
namespace Bobo.Decider
open Bobo.Run
variable {ε : Type}

/-- none of the identifiers still to be handed out is stored. -/
def FutureFree (c : Cfg ε) (t : Table ε) (n : Nat) : Prop :=
  ∀ k, n ≤ k → ∀ ph pa, t.runAt ph pa (c.idOf k) = none

theorem FutureFree.mono {c : Cfg ε} {t : Table ε} {n m : Nat} (h : FutureFree c t n) (hnm : n ≤ m) : FutureFree c t m :=
  fun k hk ph pa => h k (Nat.le_trans hnm hk) ph pa

theorem foldlM'_total {α β} (f : β → α → Option β) (I : β → Prop) :
    ∀ (l : List α) (b : β), I b → (∀ b a, a ∈ l → I b → ∃ b', f b a = some b' ∧ I b') →
      ∃ b', foldlM' f b l = some b' ∧ I b' := by
  intro l
  induction l with
  | nil => intro b hb _; exact ⟨b, rfl, hb⟩
  | cons a rest ih =>
    intro b hb hstep
    obtain ⟨b1, h1, hI1⟩ := hstep b a (List.mem_cons_self ..) hb
    obtain ⟨b2, h2, hI2⟩ := ih b1 hI1 (fun b a ha hI => hstep b a (List.mem_cons_of_mem _ ha) hI)
    exact ⟨b2, by simp only [foldlM', h1, h2], hI2⟩

/-- the invariant of the patterns phase. -/
def PatOK (c : Cfg ε) (acc : PatAcc ε) : Prop := TableWF acc.table ∧ FutureFree c acc.table acc.nextId

theorem newRun_id (id : String) (p : Pattern ε) (g : String) (e : ε) : (newRun id p g e).id = id := rfl

/-- one pattern of `_check_against_patterns`: never raises, keeps the invariant. -/
theorem checkPattern_total_inv (c : Cfg ε) (hinj : ∀ i j, c.idOf i = c.idOf j → i = j) (e : ε) (ph : String)
    (acc : PatAcc ε) (p : Pattern ε) (hb : p.blocks ≠ []) (hI : PatOK c acc) :
    ∃ acc', checkPattern c e ph acc p = some acc' ∧ PatOK c acc' := by
  obtain ⟨hwf, hfree⟩ := hI
  unfold checkPattern
  cases hbl : p.blocks with
  | nil => exact absurd hbl hb
  | cons b0 rest =>
    simp only
    split
    · split
      · exact ⟨_, rfl, hwf, hfree.mono (Nat.le_succ _)⟩
      · split
        · -- the run is stored: its identifier is not in the table
          have hnone : acc.table.runAt ph p.name (c.idOf acc.nextId) = none := hfree acc.nextId (Nat.le_refl _) ph p.name
          cases hadd : acc.table.add ph p.name { run := newRun (c.idOf acc.nextId) p b0.group e, pat := p } with
          | none =>
            exfalso
            unfold Table.add at hadd
            simp [newRun_id, hnone] at hadd
          | some t' =>
            refine ⟨_, rfl, wf_add _ _ hwf ph p.name _ rfl hadd, ?_⟩
            intro k hk ph' pa'
            have hk0 : acc.nextId + 1 ≤ k := hk
            have hk' : acc.nextId ≤ k := Nat.le_of_succ_le hk0
            have hne : c.idOf acc.nextId ≠ c.idOf k := by
              intro h; have := hinj _ _ h; omega
            unfold Table.add at hadd
            simp only [newRun_id, hnone, Option.isSome_none, Bool.false_eq_true, if_false, Option.some.injEq] at hadd
            subst hadd
            have hold := hfree k hk' ph' pa'
            rw [runAt_def] at hold ⊢
            rw [runsFrom_modify _ _ _ _ _ true _ (.inl rfl)]
            split
            · rename_i hkey
              obtain ⟨e1, e2⟩ := hkey
              subst e1; subst e2
              rw [List.find?_append, hold]
              simp only [Option.none_or, List.find?_cons, List.find?_nil, newRun_id]
              have : (c.idOf acc.nextId == c.idOf k) = false := by
                simp only [beq_eq_false_iff_ne, ne_eq]; exact hne
              rw [this]
            · exact hold
        · exact ⟨_, rfl, hwf, hfree.mono (Nat.le_succ _)⟩
    · exact ⟨acc, rfl, hwf, hfree⟩

/-- `_check_against_patterns` never raises. -/
theorem checkAgainstPatterns_total (c : Cfg ε) (hinj : ∀ i j, c.idOf i = c.idOf j → i = j)
    (hblocks : ∀ P ∈ c.phenomena, ∀ p ∈ P.patterns, p.blocks ≠ [])
    (e : ε) (t : Table ε) (n : Nat) (hwf : TableWF t) (hfree : FutureFree c t n) :
    ∃ acc, checkAgainstPatterns c e t n = some acc ∧ PatOK c acc := by
  unfold checkAgainstPatterns
  refine foldlM'_total _ (PatOK c) c.phenomena _ ⟨hwf, hfree⟩ ?_
  intro b P hP hI
  refine foldlM'_total _ (PatOK c) P.patterns b hI ?_
  intro b1 p hp hI1
  exact checkPattern_total_inv c hinj e P.name b1 p (hblocks P hP p hp) hI1

theorem maybeCache_nextId'' (c : Cfg ε) (s : DState ε) (a b : List (Rec ε)) : (maybeCache c s a b).nextId = s.nextId := by
  unfold maybeCache; split <;> rfl

/-- **`update()` never raises**, and leaves a state of which the same can be said. -/
theorem localStep_total (c : Cfg ε) (hinj : ∀ i j, c.idOf i = c.idOf j → i = j)
    (hblocks : ∀ P ∈ c.phenomena, ∀ p ∈ P.patterns, p.blocks ≠ [])
    (s : DState ε) (e : ε) (hwf : TableWF s.table) (hfree : FutureFree c s.table s.nextId) :
    ∃ s' nt ch, localStep c s e = some (s', nt, ch) ∧ TableWF s'.table ∧ FutureFree c s'.table s'.nextId := by
  have hwf1 := wf_checkAgainstRuns e s.table hwf
  have hfree1 : FutureFree c (checkAgainstRuns e s.table).1 s.nextId := by
    intro k hk ph pa
    cases h1 : (checkAgainstRuns e s.table).1.runAt ph pa (c.idOf k) with
    | none => rfl
    | some r1 =>
      have := checkAgainstRuns_kept_old e s.table hwf ph pa (c.idOf k) r1 h1
      rw [hfree k hk ph pa] at this
      simp at this
  unfold localStep
  generalize hcar : checkAgainstRuns e s.table = car at hwf1 hfree1
  obtain ⟨t1, rhc, rhi, rupd⟩ := car
  simp only at hwf1 hfree1 ⊢
  obtain ⟨acc, hacc, hwf2, hfree2⟩ := checkAgainstPatterns_total c hinj hblocks e t1 s.nextId hwf1 hfree1
  simp only [hacc]
  refine ⟨_, _, _, rfl, ?_, ?_⟩
  · rw [maybeCache_table]; exact hwf2
  · rw [maybeCache_table, maybeCache_nextId'']; exact hfree2

/-- a whole stream of events, handled one `update()` at a time; `none` = an exception escaped. -/
def localRun (c : Cfg ε) : DState ε → List ε → Option (DState ε × List (Notif ε))
  | s, [] => some (s, [])
  | s, e :: es =>
    match localStep c s e with
    | none => none
    | some (s', nt, _) =>
      match localRun c s' es with
      | none => none
      | some (s'', nts) => some (s'', nt :: nts)

/-- **for every stream**: the decider handles every event of every stream, whatever the predicates do. -/
theorem localRun_total (c : Cfg ε) (hinj : ∀ i j, c.idOf i = c.idOf j → i = j)
    (hblocks : ∀ P ∈ c.phenomena, ∀ p ∈ P.patterns, p.blocks ≠ [])
    (es : List ε) : ∀ (s : DState ε), TableWF s.table → FutureFree c s.table s.nextId →
      ∃ s' nts, localRun c s es = some (s', nts) ∧ nts.length = es.length := by
  induction es with
  | nil => intro s _ _; exact ⟨s, [], rfl, rfl⟩
  | cons e rest ih =>
    intro s hwf hfree
    obtain ⟨s1, nt, ch, h1, hwf1, hfree1⟩ := localStep_total c hinj hblocks s e hwf hfree
    obtain ⟨s2, nts, h2, hlen⟩ := ih s1 hwf1 hfree1
    exact ⟨s2, nt :: nts, by simp only [localRun, h1, h2], by simp [hlen]⟩

theorem futureFree_empty (c : Cfg ε) (n : Nat) : FutureFree c ([] : Table ε) n := by
  intro k _ ph pa; rfl

end Bobo.Decider
