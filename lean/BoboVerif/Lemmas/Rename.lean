import BoboVerif.Lemmas.IdDiscipline
/-!
Run identifiers are labels: the decider only ever compares them for equality.  Renaming every identifier of a
state (table, both finished-run memories), of the incoming records and of the generator's output by a map `ρ`
that is injective on the identifiers involved commutes with `update()` (`localStep_rename`) and with
`on_distributed_update` (`remoteStepG_rename`, `remoteStep_rename`).
-/
namespace Bobo.Decider
open Bobo.Run
set_option linter.unusedSimpArgs false
set_option linter.unusedVariables false
variable {ε : Type}

/-! ### the renaming maps -/

def renRec (ρ : String → String) (r : Rec ε) : Rec ε := { r with id := ρ r.id }

/-- rename the identifier of a bare run. -/
def renRun0 (ρ : String → String) (r : Run ε) : Run ε := { r with id := ρ r.id }

/-- rename the identifier of a stored run (the table is keyed by `run.id`, so this renames the key as well). -/
def renRun (ρ : String → String) (r : LRun ε) : LRun ε := { r with run := renRun0 ρ r.run }

/-- map the values of an insertion-ordered dict. -/
def kmap {α β} (f : α → β) (l : List (String × α)) : List (String × β) := l.map (fun kv => (kv.1, f kv.2))

def renTable (ρ : String → String) (t : Table ε) : Table ε := kmap (kmap (List.map (renRun ρ))) t

/-- table and both memories renamed; the counter is left alone. -/
def renState (ρ : String → String) (s : DState ε) : DState ε :=
  { table := renTable ρ s.table, cacheC := s.cacheC.map (renRec ρ), cacheH := s.cacheH.map (renRec ρ),
    nextId := s.nextId }

def renNotif (ρ : String → String) (n : Notif ε) : Notif ε :=
  { completed := n.completed.map (renRec ρ), halted := n.halted.map (renRec ρ),
    updated := n.updated.map (renRec ρ), loc := n.loc }

/-- `ρ` is injective on the identifiers satisfying `S`. -/
def InjOn (ρ : String → String) (S : String → Prop) : Prop := ∀ x y, S x → S y → ρ x = ρ y → x = y

def RecsIn (S : String → Prop) (l : List (Rec ε)) : Prop := ∀ r ∈ l, S r.id
def RunsIn (S : String → Prop) (l : List (LRun ε)) : Prop := ∀ r ∈ l, S r.run.id
def TableIn (S : String → Prop) (t : Table ε) : Prop := ∀ phe ∈ t, ∀ pe ∈ phe.2, RunsIn S pe.2
/-- every identifier occurring in the state (stored runs, both memories) satisfies `S`. -/
def StateIn (S : String → Prop) (s : DState ε) : Prop := TableIn S s.table ∧ RecsIn S s.cacheC ∧ RecsIn S s.cacheH
def NotifIn (S : String → Prop) (n : Notif ε) : Prop := RecsIn S n.completed ∧ RecsIn S n.halted ∧ RecsIn S n.updated

theorem InjOn.beq {ρ : String → String} {S : String → Prop} (h : InjOn ρ S) {a b : String} (ha : S a) (hb : S b) :
    (ρ a == ρ b) = (a == b) := by
  by_cases e : a = b
  · subst e; simp
  · have : ρ a ≠ ρ b := fun e' => e (h a b ha hb e')
    rw [beq_eq_false_iff_ne.mpr this, beq_eq_false_iff_ne.mpr e]

theorem RecsIn.nil {S : String → Prop} : RecsIn S ([] : List (Rec ε)) := fun _ h => by cases h
theorem RunsIn.nil {S : String → Prop} : RunsIn S ([] : List (LRun ε)) := fun _ h => by cases h
theorem RecsIn.append {S : String → Prop} {a b : List (Rec ε)} (ha : RecsIn S a) (hb : RecsIn S b) : RecsIn S (a ++ b) := by
  intro r hr
  rcases List.mem_append.mp hr with h | h
  · exact ha r h
  · exact hb r h
theorem RunsIn.append {S : String → Prop} {a b : List (LRun ε)} (ha : RunsIn S a) (hb : RunsIn S b) : RunsIn S (a ++ b) := by
  intro r hr
  rcases List.mem_append.mp hr with h | h
  · exact ha r h
  · exact hb r h
theorem RecsIn.single {S : String → Prop} {r : Rec ε} (h : S r.id) : RecsIn S [r] := by
  intro x hx; simp only [List.mem_singleton] at hx; subst hx; exact h
theorem RunsIn.single {S : String → Prop} {r : LRun ε} (h : S r.run.id) : RunsIn S [r] := by
  intro x hx; simp only [List.mem_singleton] at hx; subst hx; exact h
theorem RecsIn.sub {S : String → Prop} {a b : List (Rec ε)} (hb : RecsIn S b) (h : ∀ x ∈ a, x ∈ b) : RecsIn S a :=
  fun r hr => hb r (h r hr)
theorem RunsIn.sub {S : String → Prop} {a b : List (LRun ε)} (hb : RunsIn S b) (h : ∀ x ∈ a, x ∈ b) : RunsIn S a :=
  fun r hr => hb r (h r hr)

/-! ### dict operations -/

theorem kmap_nil {α β} (f : α → β) : kmap f [] = [] := rfl
theorem kmap_append {α β} (f : α → β) (a b : List (String × α)) : kmap f (a ++ b) = kmap f a ++ kmap f b := by
  simp [kmap]

theorem lookup_kmap {α β} (f : α → β) (k : String) (l : List (String × α)) :
    lookup k (kmap f l) = (lookup k l).map f := by
  induction l with
  | nil => rfl
  | cons kv rest ih =>
    obtain ⟨a, v⟩ := kv
    simp only [kmap, List.map_cons, lookup] at ih ⊢
    split
    · rfl
    · exact ih

theorem lookup_some_mem {α} (k : String) (l : List (String × α)) (v : α) (h : lookup k l = some v) :
    ∃ kv ∈ l, kv.2 = v := by
  induction l with
  | nil => simp [lookup] at h
  | cons kv rest ih =>
    obtain ⟨a, w⟩ := kv
    simp only [lookup] at h
    split at h
    · simp only [Option.some.injEq] at h
      exact ⟨(a, w), List.mem_cons_self .., h⟩
    · obtain ⟨kv', h1, h2⟩ := ih h
      exact ⟨kv', List.mem_cons_of_mem _ h1, h2⟩

theorem any_key_kmap {α β} (f : α → β) (k : String) (l : List (String × α)) :
    (kmap f l).any (·.1 == k) = l.any (·.1 == k) := by
  simp [kmap, List.any_map, Function.comp_def]

theorem amod_kmap {α β} (g : α → β) (k : String) (cr : Bool) (f : α → α) (f' : β → β) (d : α) (d' : β)
    (l : List (String × α)) (h : ∀ kv ∈ l, f' (g kv.2) = g (f kv.2)) (hd : f' d' = g (f d)) :
    amod k cr f' d' (kmap g l) = kmap g (amod k cr f d l) := by
  unfold amod
  rw [any_key_kmap]
  split
  · simp only [kmap, List.map_map]
    apply List.map_congr_left
    intro kv hkv
    simp only [Function.comp_def]
    split
    · simp only [h kv hkv]
    · rfl
  · split
    · rw [kmap_append]; simp only [kmap, List.map_cons, List.map_nil, hd]
    · rfl

theorem amod_vals {α} (P : α → Prop) (k : String) (cr : Bool) (f : α → α) (d : α) (l : List (String × α))
    (hl : ∀ kv ∈ l, P kv.2) (hf : ∀ kv ∈ l, P (f kv.2)) (hd : P (f d)) : ∀ kv ∈ amod k cr f d l, P kv.2 := by
  unfold amod
  split
  · intro kv hkv
    obtain ⟨kv0, h0, e0⟩ := List.mem_map.mp hkv
    subst e0
    split
    · exact hf kv0 h0
    · exact hl kv0 h0
  · split
    · intro kv hkv
      rcases List.mem_append.mp hkv with h1 | h1
      · exact hl kv h1
      · simp only [List.mem_singleton] at h1; subst h1; exact hd
    · exact hl

/-! ### `BoboRun.process` never looks at the identifier -/

theorem walk_ren (ρ : String → String) (n : Nat) (e : ε) (bs : List (Block ε)) (i : Nat) (r : Run ε) :
    walk n e bs i (renRun0 ρ r) = ((walk n e bs i r).1, renRun0 ρ (walk n e bs i r).2) := by
  induction bs generalizing i with
  | nil => rfl
  | cons b rest ih =>
    simp only [walk]
    have hh : (renRun0 ρ r).hist = r.hist := rfl
    rw [hh]
    cases isMatch b.preds e r.hist with
    | none => rfl
    | some m =>
      simp only
      repeat' split
      all_goals first | rfl | exact ih _

theorem process_ren (ρ : String → String) (p : Pattern ε) (r : Run ε) (e : ε) :
    process p (renRun0 ρ r) e = ((process p r e).1, renRun0 ρ (process p r e).2) := by
  unfold process
  have hh : (renRun0 ρ r).hist = r.hist := rfl
  have hi : (renRun0 ρ r).idx = r.idx := rfl
  have hd : (renRun0 ρ r).halted = r.halted := rfl
  rw [hh, hi, hd]
  split
  · rfl
  · cases gate p e r.hist with
    | none => rfl
    | some b =>
      cases b with
      | false => rfl
      | true => exact walk_ren ρ _ e _ _ r

/-! ### runs phase (no identifier is compared: any `ρ` will do) -/

def renAcc (ρ : String → String) (a : RunsAcc ε) : RunsAcc ε :=
  { keep := a.keep.map (renRun ρ), hc := a.hc.map (renRec ρ), hi := a.hi.map (renRec ρ), upd := a.upd.map (renRec ρ) }

theorem ser_ren (ρ : String → String) (ph : String) (r : LRun ε) : (renRun ρ r).ser ph = renRec ρ (r.ser ph) := rfl

theorem checkRun_ren (ρ : String → String) (e : ε) (ph : String) (acc : RunsAcc ε) (r : LRun ε) :
    checkRun e ph (renAcc ρ acc) (renRun ρ r) = renAcc ρ (checkRun e ph acc r) := by
  unfold checkRun
  have h1 : (renRun ρ r).pat = r.pat := rfl
  have h2 : (renRun ρ r).run = renRun0 ρ r.run := rfl
  rw [h1, h2, process_ren]
  generalize process r.pat r.run e = pr
  obtain ⟨out, run'⟩ := pr
  simp only
  cases out with
  | ok b =>
    cases b with
    | true =>
      simp only
      have hh : (renRun0 ρ run').halted = run'.halted := rfl
      have hc : (renRun0 ρ run').isComplete r.pat.blocks.length = run'.isComplete r.pat.blocks.length := rfl
      rw [hh, hc]
      split
      · split <;> simp [renAcc, LRun.ser, renRec, renRun, renRun0]
      · simp [renAcc, LRun.ser, renRec, renRun, renRun0]
    | false => simp [renAcc, LRun.ser, renRec, renRun, renRun0]
  | raised => simp [renAcc, LRun.ser, renRec, renRun, renRun0]
  | indexError => simp [renAcc, LRun.ser, renRec, renRun, renRun0]

theorem foldl_checkRun_ren (ρ : String → String) (e : ε) (ph : String) (rs : List (LRun ε)) (acc : RunsAcc ε) :
    (rs.map (renRun ρ)).foldl (checkRun e ph) (renAcc ρ acc) = renAcc ρ (rs.foldl (checkRun e ph) acc) := by
  induction rs generalizing acc with
  | nil => rfl
  | cons r rest ih => simp only [List.map_cons, List.foldl_cons, checkRun_ren, ih]

theorem procBucket_ren (ρ : String → String) (e : ε) (ph : String) (rs : List (LRun ε)) :
    procBucket e ph (rs.map (renRun ρ)) = renAcc ρ (procBucket e ph rs) := by
  unfold procBucket
  exact foldl_checkRun_ren ρ e ph rs {}

theorem checkAgainstRuns_ren (ρ : String → String) (e : ε) (t : Table ε) :
    checkAgainstRuns e (renTable ρ t) =
      (renTable ρ (checkAgainstRuns e t).1, (checkAgainstRuns e t).2.1.map (renRec ρ),
       (checkAgainstRuns e t).2.2.1.map (renRec ρ), (checkAgainstRuns e t).2.2.2.map (renRec ρ)) := by
  unfold checkAgainstRuns bucketAccs renTable kmap
  simp only [List.map_map, List.flatMap_map, List.map_flatMap, List.flatMap_assoc, Function.comp_def, procBucket_ren, renAcc]

/-- every identifier of the accumulator of `_check_against_runs` satisfies `S`. -/
def AccIn (S : String → Prop) (a : RunsAcc ε) : Prop :=
  RunsIn S a.keep ∧ RecsIn S a.hc ∧ RecsIn S a.hi ∧ RecsIn S a.upd

theorem checkRun_in {S : String → Prop} (e : ε) (ph : String) (acc : RunsAcc ε) (r : LRun ε) (h : AccIn S acc)
    (hr : S r.run.id) : AccIn S (checkRun e ph acc r) := by
  unfold checkRun
  have hid := process_id r.pat r.run e
  generalize process r.pat r.run e = pr at hid
  obtain ⟨out, run'⟩ := pr
  simp only at hid ⊢
  have hr' : S run'.id := by rw [hid]; exact hr
  have hk : RunsIn S [({ r with run := run' } : LRun ε)] := RunsIn.single hr'
  have hs : RecsIn S [({ r with run := run' } : LRun ε).ser ph] := RecsIn.single hr'
  obtain ⟨a1, a2, a3, a4⟩ := h
  repeat' split
  all_goals first
    | exact ⟨a1, a2.append hs, a3, a4⟩
    | exact ⟨a1, a2, a3.append hs, a4⟩
    | exact ⟨a1.append hk, a2, a3, a4.append hs⟩
    | exact ⟨a1.append hk, a2, a3, a4⟩

theorem procBucket_in {S : String → Prop} (e : ε) (ph : String) (rs : List (LRun ε)) (h : RunsIn S rs) :
    AccIn S (procBucket e ph rs) := by
  unfold procBucket
  exact foldl_inv (AccIn S) (checkRun e ph) rs (fun b a ha hb => checkRun_in e ph b a hb (h a ha)) {}
    ⟨RunsIn.nil, RecsIn.nil, RecsIn.nil, RecsIn.nil⟩

theorem checkAgainstRuns_in {S : String → Prop} (e : ε) (t : Table ε) (h : TableIn S t) :
    TableIn S (checkAgainstRuns e t).1 ∧ RecsIn S (checkAgainstRuns e t).2.1 ∧
    RecsIn S (checkAgainstRuns e t).2.2.1 ∧ RecsIn S (checkAgainstRuns e t).2.2.2 := by
  unfold checkAgainstRuns bucketAccs
  simp only [List.map_map, List.flatMap_map, List.flatMap_assoc, Function.comp_def]
  refine ⟨?_, ?_, ?_, ?_⟩
  · intro phe hphe pe hpe
    obtain ⟨phe0, h0, e0⟩ := List.mem_map.mp hphe
    subst e0
    obtain ⟨pe0, h1, e1⟩ := List.mem_map.mp hpe
    subst e1
    exact (procBucket_in e phe0.1 pe0.2 (h phe0 h0 pe0 h1)).1
  · intro x hx
    simp only [List.mem_flatMap] at hx
    obtain ⟨phe0, h0, pe0, h1, hx⟩ := hx
    exact (procBucket_in e phe0.1 pe0.2 (h phe0 h0 pe0 h1)).2.1 x hx
  · intro x hx
    simp only [List.mem_flatMap] at hx
    obtain ⟨phe0, h0, pe0, h1, hx⟩ := hx
    exact (procBucket_in e phe0.1 pe0.2 (h phe0 h0 pe0 h1)).2.2.1 x hx
  · intro x hx
    simp only [List.mem_flatMap] at hx
    obtain ⟨phe0, h0, pe0, h1, hx⟩ := hx
    exact (procBucket_in e phe0.1 pe0.2 (h phe0 h0 pe0 h1)).2.2.2 x hx

/-! ### table operations -/

theorem runsFrom_ren (ρ : String → String) (t : Table ε) (ph pa : String) :
    (renTable ρ t).runsFrom ph pa = (t.runsFrom ph pa).map (renRun ρ) := by
  unfold Table.runsFrom renTable
  rw [lookup_kmap]
  cases lookup ph t with
  | none => rfl
  | some pats =>
    simp only [Option.map_some]
    rw [lookup_kmap]
    cases lookup pa pats <;> rfl

theorem runsFrom_in {S : String → Prop} {t : Table ε} (h : TableIn S t) (ph pa : String) :
    RunsIn S (t.runsFrom ph pa) := by
  unfold Table.runsFrom
  cases h1 : lookup ph t with
  | none => exact RunsIn.nil
  | some pats =>
    simp only
    obtain ⟨phe, hphe, e1⟩ := lookup_some_mem ph t pats h1
    cases h2 : lookup pa pats with
    | none => exact RunsIn.nil
    | some rs =>
      obtain ⟨pe, hpe, e2⟩ := lookup_some_mem pa pats rs h2
      simp only [Option.getD_some]
      rw [← e2]
      exact h phe hphe pe (by rw [e1]; exact hpe)

theorem find_ren {ρ : String → String} {S : String → Prop} (hinj : InjOn ρ S) (rs : List (LRun ε)) (hrs : RunsIn S rs)
    (id : String) (hid : S id) :
    (rs.map (renRun ρ)).find? (fun r => r.run.id == ρ id) = (rs.find? (fun r => r.run.id == id)).map (renRun ρ) := by
  induction rs with
  | nil => rfl
  | cons r rest ih =>
    have hr : S r.run.id := hrs r (List.mem_cons_self ..)
    have hb : ((renRun ρ r).run.id == ρ id) = (r.run.id == id) := hinj.beq hr hid
    simp only [List.map_cons, List.find?_cons, hb]
    split
    · rfl
    · exact ih (fun x hx => hrs x (List.mem_cons_of_mem _ hx))

theorem runAt_ren {ρ : String → String} {S : String → Prop} (hinj : InjOn ρ S) (t : Table ε) (ht : TableIn S t)
    (ph pa id : String) (hid : S id) :
    (renTable ρ t).runAt ph pa (ρ id) = (t.runAt ph pa id).map (renRun ρ) := by
  unfold Table.runAt
  rw [runsFrom_ren]
  exact find_ren hinj _ (runsFrom_in ht ph pa) id hid

/-- `Table.modify` commutes with the renaming when the bucket operation does on buckets of identifiers in `S`. -/
theorem modify_ren (ρ : String → String) (S : String → Prop) (t : Table ε) (ht : TableIn S t) (ph pa : String)
    (cr : Bool) (f f' : List (LRun ε) → List (LRun ε))
    (h : ∀ rs, RunsIn S rs → f' (rs.map (renRun ρ)) = (f rs).map (renRun ρ)) :
    (renTable ρ t).modify ph pa cr f' = renTable ρ (t.modify ph pa cr f) := by
  unfold Table.modify renTable
  apply amod_kmap
  · intro phe hphe
    apply amod_kmap
    · intro pe hpe
      exact h pe.2 (ht phe hphe pe hpe)
    · exact h [] RunsIn.nil
  · exact amod_kmap (List.map (renRun ρ)) pa cr f f' [] [] [] (fun _ hkv => by cases hkv) (h [] RunsIn.nil)

theorem modify_in {S : String → Prop} {t : Table ε} (ht : TableIn S t) (ph pa : String) (cr : Bool)
    (f : List (LRun ε) → List (LRun ε)) (h : ∀ rs, RunsIn S rs → RunsIn S (f rs)) :
    TableIn S (t.modify ph pa cr f) := by
  unfold Table.modify
  have key : ∀ pats : List (String × List (LRun ε)), (∀ pe ∈ pats, RunsIn S pe.2) →
      ∀ pe ∈ amod pa cr f [] pats, RunsIn S pe.2 := by
    intro pats hp
    exact amod_vals (RunsIn S) pa cr f [] pats hp (fun kv hkv => h _ (hp kv hkv)) (h [] RunsIn.nil)
  exact amod_vals (fun pats : List (String × List (LRun ε)) => ∀ pe ∈ pats, RunsIn S pe.2) ph cr _ [] t ht
    (fun phe hphe => key phe.2 (ht phe hphe)) (key [] (fun _ hkv => by cases hkv))

theorem add_ren {ρ : String → String} {S : String → Prop} (hinj : InjOn ρ S) (t : Table ε) (ht : TableIn S t)
    (ph pa : String) (r : LRun ε) (hr : S r.run.id) :
    (renTable ρ t).add ph pa (renRun ρ r) = (t.add ph pa r).map (renTable ρ) := by
  unfold Table.add
  have h1 : (renRun ρ r).run.id = ρ r.run.id := rfl
  rw [h1, runAt_ren hinj t ht ph pa _ hr, Option.isSome_map]
  split
  · rfl
  · simp only [Option.map_some, Option.some.injEq]
    exact modify_ren ρ S t ht ph pa true _ _ (fun rs _ => by simp)

theorem add_in {S : String → Prop} {t t' : Table ε} (ht : TableIn S t) (ph pa : String) (r : LRun ε) (hr : S r.run.id)
    (h : t.add ph pa r = some t') : TableIn S t' := by
  unfold Table.add at h
  split at h
  · simp at h
  · simp only [Option.some.injEq] at h
    subst h
    exact modify_in ht ph pa true _ (fun rs hrs => hrs.append (RunsIn.single hr))

theorem remove_ren {ρ : String → String} {S : String → Prop} (hinj : InjOn ρ S) (t : Table ε) (ht : TableIn S t)
    (ph pa id : String) (hid : S id) :
    (renTable ρ t).remove ph pa (ρ id) = renTable ρ (t.remove ph pa id) := by
  unfold Table.remove
  apply modify_ren ρ S t ht
  intro rs hrs
  rw [List.filter_map]
  congr 1
  apply List.filter_congr
  intro r hr
  simp only [Function.comp_def]
  have : ((renRun ρ r).run.id == ρ id) = (r.run.id == id) := hinj.beq (hrs r hr) hid
  rw [this]

theorem remove_in {S : String → Prop} {t : Table ε} (ht : TableIn S t) (ph pa id : String) :
    TableIn S (t.remove ph pa id) := by
  unfold Table.remove
  exact modify_in ht ph pa false _ (fun rs hrs => hrs.sub (fun x hx => (List.mem_filter.mp hx).1))

theorem setBlock_ren {ρ : String → String} {S : String → Prop} (hinj : InjOn ρ S) (t : Table ε) (ht : TableIn S t)
    (ph pa id : String) (hid : S id) (idx : Nat) (h : Hist ε) :
    (renTable ρ t).setBlock ph pa (ρ id) idx h = renTable ρ (t.setBlock ph pa id idx h) := by
  unfold Table.setBlock
  apply modify_ren ρ S t ht
  intro rs hrs
  simp only [List.map_map]
  apply List.map_congr_left
  intro r hr
  simp only [Function.comp_def]
  have : ((renRun ρ r).run.id == ρ id) = (r.run.id == id) := hinj.beq (hrs r hr) hid
  rw [this]
  split <;> rfl

theorem setBlock_in {S : String → Prop} {t : Table ε} (ht : TableIn S t) (ph pa id : String) (idx : Nat) (h : Hist ε) :
    TableIn S (t.setBlock ph pa id idx h) := by
  unfold Table.setBlock
  apply modify_in ht
  intro rs hrs r hr
  obtain ⟨r0, h0, e0⟩ := List.mem_map.mp hr
  subst e0
  split
  · exact hrs r0 h0
  · exact hrs r0 h0

/-! ### patterns phase (here the generator enters) -/

/-- relation between the accumulators of two `_check_against_patterns` loops: the second runs on the renamed table
and has drawn as many identifiers (from `n2`) as the first (from `n1`). -/
structure RenPat (ρ : String → String) (S : String → Prop) (n1 n2 : Nat) (a b : PatAcc ε) : Prop where
  tbl : b.table = renTable ρ a.table
  hc : b.hc = a.hc.map (renRec ρ)
  upd : b.upd = a.upd.map (renRec ρ)
  next : ∃ k, a.nextId = n1 + k ∧ b.nextId = n2 + k
  tin : TableIn S a.table

/-- agreement of two partial results: both fail, or both succeed with related values. -/
def OptRel {α β} (R : α → β → Prop) : Option α → Option β → Prop
  | none, none => True
  | some x, some y => R x y
  | _, _ => False

theorem foldlM'_optRel {α β β'} (R : β → β' → Prop) (f : β → α → Option β) (f' : β' → α → Option β') (l : List α)
    (h : ∀ a ∈ l, ∀ b b', R b b' → OptRel R (f b a) (f' b' a)) :
    ∀ b b', R b b' → OptRel R (foldlM' f b l) (foldlM' f' b' l) := by
  induction l with
  | nil => intro b b' hb; exact hb
  | cons a rest ih =>
    intro b b' hb
    simp only [foldlM']
    have h1 := h a (List.mem_cons_self ..) b b' hb
    cases hf : f b a with
    | none =>
      cases hf' : f' b' a with
      | none => trivial
      | some y => rw [hf, hf'] at h1; exact h1.elim
    | some x =>
      cases hf' : f' b' a with
      | none => rw [hf, hf'] at h1; exact h1.elim
      | some y =>
        rw [hf, hf'] at h1
        exact ih (fun a' ha' => h a' (List.mem_cons_of_mem _ ha')) x y h1

theorem checkPattern_renRel (c : Cfg ε) {ρ : String → String} {S : String → Prop} (hinj : InjOn ρ S)
    (g1 g2 : Nat → String) (n1 n2 : Nat) (hS : ∀ k, S (g1 (n1 + k))) (hρ : ∀ k, ρ (g1 (n1 + k)) = g2 (n2 + k))
    (e : ε) (ph : String) (a b : PatAcc ε) (p : Pattern ε) (hrel : RenPat ρ S n1 n2 a b) :
    OptRel (RenPat ρ S n1 n2) (checkPattern (withIds c g1) e ph a p) (checkPattern (withIds c g2) e ph b p) := by
  obtain ⟨tb, nb, hcb, updb⟩ := b
  obtain ⟨h1, h2, h3, ⟨k, h4, h5⟩, h6⟩ := hrel
  simp only at h1 h2 h3 h4 h5
  subst h1 h2 h3 h5
  unfold checkPattern
  cases hb : p.blocks with
  | nil => trivial
  | cons b0 rest =>
    simp only [withIds, h4]
    have hnew : newRun (g2 (n2 + k)) p b0.group e = renRun0 ρ (newRun (g1 (n1 + k)) p b0.group e) := by
      simp only [newRun, renRun0, hρ k]
    have hh : (newRun (g2 (n2 + k)) p b0.group e).halted = (newRun (g1 (n1 + k)) p b0.group e).halted := rfl
    have hcpl : (newRun (g2 (n2 + k)) p b0.group e).isComplete (b0 :: rest).length
        = (newRun (g1 (n1 + k)) p b0.group e).isComplete (b0 :: rest).length := rfl
    have hlr : ({ run := newRun (g2 (n2 + k)) p b0.group e, pat := p } : LRun ε)
        = renRun ρ { run := newRun (g1 (n1 + k)) p b0.group e, pat := p } := by
      simp only [renRun, hnew]
    have hnext : ∃ k', n1 + k + 1 = n1 + k' ∧ n2 + k + 1 = n2 + k' := ⟨k + 1, by omega, by omega⟩
    split
    · simp only [hh, hcpl]
      split
      · refine ⟨rfl, ?_, rfl, hnext, h6⟩
        simp only [List.map_append, List.map_cons, List.map_nil, hlr, ser_ren]
      · rw [runsFrom_ren, List.length_map]
        split
        · rw [hlr, add_ren hinj a.table h6 ph p.name _ (hS k)]
          cases hadd : a.table.add ph p.name { run := newRun (g1 (n1 + k)) p b0.group e, pat := p } with
          | none => trivial
          | some t' =>
            refine ⟨rfl, rfl, ?_, hnext, add_in h6 ph p.name _ (hS k) hadd⟩
            simp only [List.map_append, List.map_cons, List.map_nil, ser_ren]
        · exact ⟨rfl, rfl, rfl, hnext, h6⟩
    · exact ⟨rfl, rfl, rfl, ⟨k, h4, rfl⟩, h6⟩

theorem checkAgainstPatterns_renRel (c : Cfg ε) {ρ : String → String} {S : String → Prop} (hinj : InjOn ρ S)
    (g1 g2 : Nat → String) (n1 n2 : Nat) (hS : ∀ k, S (g1 (n1 + k))) (hρ : ∀ k, ρ (g1 (n1 + k)) = g2 (n2 + k))
    (e : ε) (t : Table ε) (ht : TableIn S t) :
    OptRel (RenPat ρ S n1 n2) (checkAgainstPatterns (withIds c g1) e t n1)
      (checkAgainstPatterns (withIds c g2) e (renTable ρ t) n2) := by
  unfold checkAgainstPatterns
  have hph : (withIds c g2).phenomena = (withIds c g1).phenomena := rfl
  rw [hph]
  apply foldlM'_optRel
  · intro P _ b b' hb
    apply foldlM'_optRel
    · intro p _ b1 b1' hb1
      exact checkPattern_renRel c hinj g1 g2 n1 n2 hS hρ e P.name b1 b1' p hb1
    · exact hb
  · exact ⟨rfl, rfl, rfl, ⟨0, rfl, rfl⟩, ht⟩

/-! ### finished-run memory -/

theorem dqAppend_map {α β} (f : α → β) (m : Nat) (q : List α) (x : α) :
    dqAppend m (q.map f) (f x) = (dqAppend m q x).map f := by
  simp [dqAppend, List.map_drop]

theorem dqExtend_map {α β} (f : α → β) (m : Nat) (q xs : List α) :
    dqExtend m (q.map f) (xs.map f) = (dqExtend m q xs).map f := by
  unfold dqExtend
  induction xs generalizing q with
  | nil => rfl
  | cons x rest ih => simp only [List.map_cons, List.foldl_cons, dqAppend_map, ih]

theorem dqExtend_mem {α} (m : Nat) (q xs : List α) : ∀ y ∈ dqExtend m q xs, y ∈ q ∨ y ∈ xs := by
  unfold dqExtend
  induction xs generalizing q with
  | nil => intro y hy; exact .inl hy
  | cons x rest ih =>
    intro y hy
    simp only [List.foldl_cons] at hy
    rcases ih _ y hy with h | h
    · have := List.mem_of_mem_drop h
      rcases List.mem_append.mp this with h1 | h1
      · exact .inl h1
      · simp only [List.mem_singleton] at h1; subst h1; exact .inr (List.mem_cons_self ..)
    · exact .inr (List.mem_cons_of_mem _ h)

theorem maybeCache_ren (ρ : String → String) (c c' : Cfg ε) (hm : c'.maxCache = c.maxCache) (s : DState ε)
    (comp halt : List (Rec ε)) :
    maybeCache c' (renState ρ s) (comp.map (renRec ρ)) (halt.map (renRec ρ)) = renState ρ (maybeCache c s comp halt) := by
  unfold maybeCache Cfg.caching
  rw [hm]
  split
  · simp only [renState, dqExtend_map]
  · rfl

theorem maybeCache_in {S : String → Prop} (c : Cfg ε) (s : DState ε) (comp halt : List (Rec ε))
    (hs : StateIn S s) (hc : RecsIn S comp) (hh : RecsIn S halt) : StateIn S (maybeCache c s comp halt) := by
  unfold maybeCache
  split
  · refine ⟨hs.1, ?_, ?_⟩
    · intro r hr
      rcases dqExtend_mem _ _ _ r hr with h | h
      · exact hs.2.1 r h
      · exact hc r h
    · intro r hr
      rcases dqExtend_mem _ _ _ r hr with h | h
      · exact hs.2.2 r h
      · exact hh r h
  · exact hs

/-! ### `update()` -/

/-- **`update()` commutes with renaming run identifiers.**  `ρ` is injective on a set `S` that contains the
identifiers of the stored runs and the identifiers the first generator hands out from `n1` on, and maps the latter
to what the second generator hands out from `n2` on.  Then the step on the renamed state with the second generator
fails iff the original step fails, and otherwise yields the renamed table, the renamed memories, the renamed
notification, the same `changed` flag, and has drawn the same number of identifiers. -/
theorem localStep_rename (c : Cfg ε) {ρ : String → String} {S : String → Prop} (hinj : InjOn ρ S)
    (g1 g2 : Nat → String) (n1 n2 : Nat) (hS : ∀ k, S (g1 (n1 + k))) (hρ : ∀ k, ρ (g1 (n1 + k)) = g2 (n2 + k))
    (s : DState ε) (ht : TableIn S s.table) (e : ε) :
    localStep (withIds c g2) { renState ρ s with nextId := n2 } e =
      (localStep (withIds c g1) { s with nextId := n1 } e).map
        (fun r => ({ renState ρ r.1 with nextId := n2 + (r.1.nextId - n1) }, renNotif ρ r.2.1, r.2.2)) := by
  unfold localStep
  simp only [renState]
  rw [checkAgainstRuns_ren]
  have htin : TableIn S (checkAgainstRuns e s.table).1 := (checkAgainstRuns_in e s.table ht).1
  generalize checkAgainstRuns e s.table = car at htin
  obtain ⟨t1, rhc, rhi, rupd⟩ := car
  simp only at htin ⊢
  have hrel := checkAgainstPatterns_renRel c hinj g1 g2 n1 n2 hS hρ e t1 htin
  cases h1 : checkAgainstPatterns (withIds c g1) e t1 n1 with
  | none =>
    cases h2 : checkAgainstPatterns (withIds c g2) e (renTable ρ t1) n2 with
    | none => rfl
    | some acc2 => rw [h1, h2] at hrel; exact hrel.elim
  | some acc1 =>
    cases h2 : checkAgainstPatterns (withIds c g2) e (renTable ρ t1) n2 with
    | none => rw [h1, h2] at hrel; exact hrel.elim
    | some acc2 =>
      rw [h1, h2] at hrel
      obtain ⟨r1, r2, r3, ⟨k, r4, r5⟩, _⟩ := hrel
      simp only [Option.map_some, Option.some.injEq, Prod.mk.injEq]
      rw [r1, r2, r3, r5, ← List.map_append, ← List.map_append]
      refine ⟨?_, ?_, ?_⟩
      · have hm : (withIds c g2).caching = (withIds c g1).caching := rfl
        unfold maybeCache
        rw [hm]
        split
        · simp only [withIds, dqExtend_map, r4, Nat.add_sub_cancel_left]
        · simp only [r4, Nat.add_sub_cancel_left]
      · simp only [renNotif]
      · simp only [List.isEmpty_map]

/-! ### `update()` keeps the identifiers inside `S` -/

theorem checkPattern_in {S : String → Prop} (c : Cfg ε) (hS : ∀ k, S (c.idOf k)) (n0 : Nat) (e : ε) (ph : String)
    (a a' : PatAcc ε) (p : Pattern ε)
    (h : TableIn S a.table ∧ RecsIn S a.hc ∧ RecsIn S a.upd ∧ n0 ≤ a.nextId)
    (hs : checkPattern c e ph a p = some a') :
    TableIn S a'.table ∧ RecsIn S a'.hc ∧ RecsIn S a'.upd ∧ n0 ≤ a'.nextId := by
  obtain ⟨a1, a2, a3, a4⟩ := h
  unfold checkPattern at hs
  cases hb : p.blocks with
  | nil => simp [hb] at hs
  | cons b0 rest =>
    simp only [hb] at hs
    have hser : RecsIn S [({ run := newRun (c.idOf a.nextId) p b0.group e, pat := p } : LRun ε).ser ph] :=
      RecsIn.single (hS a.nextId)
    split at hs
    · split at hs
      · simp only [Option.some.injEq] at hs; subst hs
        exact ⟨a1, a2.append hser, a3, by simp only; omega⟩
      · split at hs
        · split at hs
          · simp at hs
          · rename_i t' hadd
            simp only [Option.some.injEq] at hs; subst hs
            exact ⟨add_in a1 ph p.name _ (hS a.nextId) hadd, a2, a3.append hser, by simp only; omega⟩
        · simp only [Option.some.injEq] at hs; subst hs
          exact ⟨a1, a2, a3, by simp only; omega⟩
    · simp only [Option.some.injEq] at hs; subst hs
      exact ⟨a1, a2, a3, a4⟩

theorem checkAgainstPatterns_in {S : String → Prop} (c : Cfg ε) (hS : ∀ k, S (c.idOf k)) (e : ε) (t : Table ε) (n : Nat)
    (acc : PatAcc ε) (ht : TableIn S t) (hs : checkAgainstPatterns c e t n = some acc) :
    TableIn S acc.table ∧ RecsIn S acc.hc ∧ RecsIn S acc.upd ∧ n ≤ acc.nextId := by
  unfold checkAgainstPatterns at hs
  refine foldlM'_inv (fun a : PatAcc ε => TableIn S a.table ∧ RecsIn S a.hc ∧ RecsIn S a.upd ∧ n ≤ a.nextId) _
    c.phenomena ?_ _ _ ⟨ht, RecsIn.nil, RecsIn.nil, Nat.le_refl _⟩ hs
  intro b P b' _ hb hf
  exact foldlM'_inv (fun a : PatAcc ε => TableIn S a.table ∧ RecsIn S a.hc ∧ RecsIn S a.upd ∧ n ≤ a.nextId) _
    P.patterns (fun b1 p b1' _ hb1 hf1 => checkPattern_in c hS n e P.name b1 b1' p hb1 hf1) _ _ hb hf

theorem maybeCache_nextId' (c : Cfg ε) (s : DState ε) (a b : List (Rec ε)) : (maybeCache c s a b).nextId = s.nextId := by
  unfold maybeCache; split <;> rfl

/-- `update()` stores and announces only identifiers it held before or drew from the generator, and never
decreases the counter. -/
theorem localStep_in {S : String → Prop} (c : Cfg ε) (hS : ∀ k, S (c.idOf k)) (s s' : DState ε) (e : ε) (nt : Notif ε)
    (ch : Bool) (hs : StateIn S s) (h : localStep c s e = some (s', nt, ch)) :
    StateIn S s' ∧ NotifIn S nt ∧ s.nextId ≤ s'.nextId := by
  unfold localStep at h
  obtain ⟨b1, b2, b3, b4⟩ := checkAgainstRuns_in e s.table hs.1
  generalize checkAgainstRuns e s.table = car at h b1 b2 b3 b4
  obtain ⟨t1, rhc, rhi, rupd⟩ := car
  simp only at h b1 b2 b3 b4
  cases hp : checkAgainstPatterns c e t1 s.nextId with
  | none => simp [hp] at h
  | some acc =>
    simp only [hp, Option.some.injEq, Prod.mk.injEq] at h
    obtain ⟨e1, e2, _⟩ := h
    obtain ⟨c1, c2, c3, c4⟩ := checkAgainstPatterns_in c hS e t1 s.nextId acc b1 hp
    subst e1 e2
    refine ⟨maybeCache_in c _ _ _ ⟨c1, hs.2.1, hs.2.2⟩ (b2.append c2) b3, ⟨b2.append c2, b3, b4.append c3⟩, ?_⟩
    rw [maybeCache_nextId']
    exact c4

/-! ### `on_distributed_update` -/

theorem inCache_ren {ρ : String → String} {S : String → Prop} (hinj : InjOn ρ S) (q : List (Rec ε)) (hq : RecsIn S q)
    (id : String) (hid : S id) : inCache (q.map (renRec ρ)) (ρ id) = inCache q id := by
  unfold inCache
  induction q with
  | nil => rfl
  | cons r rest ih =>
    have hb : ((renRec ρ r).id == ρ id) = (r.id == id) := hinj.beq (hq r (List.mem_cons_self ..)) hid
    simp only [List.map_cons, List.any_cons, hb, ih (fun x hx => hq x (List.mem_cons_of_mem _ hx))]

theorem filter_ren (ρ : String → String) (l : List (Rec ε)) (p p' : Rec ε → Bool)
    (h : ∀ r ∈ l, p' (renRec ρ r) = p r) : (l.map (renRec ρ)).filter p' = (l.filter p).map (renRec ρ) := by
  rw [List.filter_map]
  congr 1
  apply List.filter_congr
  intro r hr
  exact h r hr

theorem checkAgainstCache_ren {ρ : String → String} {S : String → Prop} (hinj : InjOn ρ S) (c : Cfg ε) (s : DState ε)
    (hs : StateIn S s) (comp halt upd : List (Rec ε)) (hc : RecsIn S comp) (hh : RecsIn S halt) (hu : RecsIn S upd) :
    checkAgainstCache c (renState ρ s) (comp.map (renRec ρ)) (halt.map (renRec ρ)) (upd.map (renRec ρ)) =
      ((checkAgainstCache c s comp halt upd).1.map (renRec ρ), (checkAgainstCache c s comp halt upd).2.1.map (renRec ρ),
       (checkAgainstCache c s comp halt upd).2.2.map (renRec ρ)) := by
  unfold checkAgainstCache
  split
  · simp only [renState, Prod.mk.injEq]
    refine ⟨?_, ?_, ?_⟩
    · apply filter_ren
      intro r hr
      have : (renRec ρ r).id = ρ r.id := rfl
      rw [this, inCache_ren hinj _ hs.2.1 _ (hc r hr)]
    · apply filter_ren
      intro r hr
      have : (renRec ρ r).id = ρ r.id := rfl
      rw [this, inCache_ren hinj _ hs.2.1 _ (hh r hr), inCache_ren hinj _ hs.2.2 _ (hh r hr)]
    · apply filter_ren
      intro r hr
      have : (renRec ρ r).id = ρ r.id := rfl
      rw [this, inCache_ren hinj _ hs.2.1 _ (hu r hr), inCache_ren hinj _ hs.2.2 _ (hu r hr)]
  · rfl

theorem checkAgainstCache_in {S : String → Prop} (c : Cfg ε) (s : DState ε)
    (comp halt upd : List (Rec ε)) (hc : RecsIn S comp) (hh : RecsIn S halt) (hu : RecsIn S upd) :
    RecsIn S (checkAgainstCache c s comp halt upd).1 ∧ RecsIn S (checkAgainstCache c s comp halt upd).2.1 ∧
    RecsIn S (checkAgainstCache c s comp halt upd).2.2 := by
  unfold checkAgainstCache
  split
  · exact ⟨hc.sub (fun x hx => (List.mem_filter.mp hx).1), hh.sub (fun x hx => (List.mem_filter.mp hx).1),
      hu.sub (fun x hx => (List.mem_filter.mp hx).1)⟩
  · exact ⟨hc, hh, hu⟩

/-- the renaming acting on the loop state of the completed / halted / updated loops. -/
def renLoop (ρ : String → String) (st : DState ε × List (Rec ε)) : DState ε × List (Rec ε) :=
  (renState ρ st.1, st.2.map (renRec ρ))

def LoopIn (S : String → Prop) (st : DState ε × List (Rec ε)) : Prop := StateIn S st.1 ∧ RecsIn S st.2

theorem head?_in {S : String → Prop} {rs : List (LRun ε)} (h : RunsIn S rs) (rl : LRun ε) (hrl : rs.head? = some rl) :
    S rl.run.id := by
  cases rs with
  | nil => simp at hrl
  | cons a rest =>
    simp only [List.head?_cons, Option.some.injEq] at hrl
    subst hrl
    exact h _ (List.mem_cons_self ..)

theorem removeOne_in {S : String → Prop} (c : Cfg ε) (b : Bool) (st : DState ε × List (Rec ε)) (rr : Rec ε)
    (hst : LoopIn S st) (hrr : S rr.id) : LoopIn S (removeOne c b st rr) := by
  obtain ⟨s, out⟩ := st
  obtain ⟨⟨h1, h2, h3⟩, h4⟩ := hst
  unfold removeOne
  simp only
  cases hp : c.getPattern rr.phen rr.pat with
  | none => exact ⟨⟨h1, h2, h3⟩, h4⟩
  | some p =>
    simp only
    cases horl : (if p.singleton then (s.table.runsFrom rr.phen rr.pat).head? else none) with
    | none => exact ⟨⟨remove_in h1 _ _ _, h2, h3⟩, h4.append (RecsIn.single hrr)⟩
    | some rl =>
      have hrl : S rl.run.id := by
        cases hsg : p.singleton with
        | false => simp [hsg] at horl
        | true =>
          simp only [hsg, if_true] at horl
          exact head?_in (runsFrom_in h1 _ _) rl horl
      have hser : RecsIn S [rl.ser rr.phen] := RecsIn.single hrl
      simp only
      split
      · refine ⟨maybeCache_in c _ _ _ ⟨remove_in h1 _ _ _, h2, h3⟩ ?_ ?_, h4.append hser⟩
        · split
          · exact hser
          · exact RecsIn.nil
        · split
          · exact RecsIn.nil
          · exact hser
      · exact ⟨⟨remove_in h1 _ _ _, h2, h3⟩, h4.append (RecsIn.single hrr)⟩

theorem bne_ren {ρ : String → String} {S : String → Prop} (hinj : InjOn ρ S) {a b : String} (ha : S a) (hb : S b) :
    (ρ a != ρ b) = (a != b) := by
  simp only [bne, hinj.beq ha hb]

theorem removeOne_ren {ρ : String → String} {S : String → Prop} (hinj : InjOn ρ S) (c : Cfg ε) (b : Bool)
    (st : DState ε × List (Rec ε)) (rr : Rec ε) (hst : LoopIn S st) (hrr : S rr.id) :
    removeOne c b (renLoop ρ st) (renRec ρ rr) = renLoop ρ (removeOne c b st rr) := by
  obtain ⟨s, out⟩ := st
  obtain ⟨⟨h1, h2, h3⟩, h4⟩ := hst
  unfold removeOne renLoop
  have e1 : (renRec ρ rr).phen = rr.phen := rfl
  have e2 : (renRec ρ rr).pat = rr.pat := rfl
  have e3 : (renRec ρ rr).id = ρ rr.id := rfl
  have e4 : (renState ρ s).table = renTable ρ s.table := rfl
  simp only [e1, e2, e3, e4]
  cases hp : c.getPattern rr.phen rr.pat with
  | none => rfl
  | some p =>
    simp only
    rw [runsFrom_ren]
    have hopt : (if p.singleton then ((s.table.runsFrom rr.phen rr.pat).map (renRun ρ)).head? else none)
        = (if p.singleton then (s.table.runsFrom rr.phen rr.pat).head? else none).map (renRun ρ) := by
      split
      · exact List.head?_map ..
      · rfl
    rw [hopt]
    cases horl : (if p.singleton then (s.table.runsFrom rr.phen rr.pat).head? else none) with
    | none =>
      simp only [Option.map_none]
      rw [remove_ren hinj s.table h1 _ _ _ hrr]
      simp only [renState, List.map_append, List.map_cons, List.map_nil]
    | some rl =>
      have hrl : S rl.run.id := by
        cases hsg : p.singleton with
        | false => simp [hsg] at horl
        | true =>
          simp only [hsg, if_true] at horl
          exact head?_in (runsFrom_in h1 _ _) rl horl
      have e5 : (renRun ρ rl).run.id = ρ rl.run.id := rfl
      simp only [Option.map_some, e5]
      rw [remove_ren hinj s.table h1 _ _ _ hrl, bne_ren hinj hrr hrl]
      split
      · have e6 : ({ renState ρ s with table := renTable ρ (s.table.remove rr.phen rr.pat rl.run.id) } : DState ε)
            = renState ρ { s with table := s.table.remove rr.phen rr.pat rl.run.id } := rfl
        have e7 : (if b then [(renRun ρ rl).ser rr.phen] else [])
            = (if b then [rl.ser rr.phen] else []).map (renRec ρ) := by
          split <;> rfl
        have e8 : (if b then [] else [(renRun ρ rl).ser rr.phen])
            = (if b then [] else [rl.ser rr.phen]).map (renRec ρ) := by
          split <;> rfl
        rw [e6, e7, e8, maybeCache_ren ρ c c rfl]
        simp only [List.map_append, List.map_cons, List.map_nil, ser_ren]
      · simp only [renState, List.map_append, List.map_cons, List.map_nil]

theorem foldl_ren {α α' β β'} (I : β → Prop) (φ : β → β') (ψ : α → α') (f : β → α → β) (f' : β' → α' → β')
    (l : List α) (h : ∀ b, I b → ∀ a ∈ l, f' (φ b) (ψ a) = φ (f b a) ∧ I (f b a)) :
    ∀ b, I b → (l.map ψ).foldl f' (φ b) = φ (l.foldl f b) ∧ I (l.foldl f b) := by
  induction l with
  | nil => intro b hb; exact ⟨rfl, hb⟩
  | cons a rest ih =>
    intro b hb
    obtain ⟨h1, h2⟩ := h b hb a (List.mem_cons_self ..)
    simp only [List.map_cons, List.foldl_cons, h1]
    exact ih (fun b' hb' a' ha' => h b' hb' a' (List.mem_cons_of_mem _ ha')) _ h2

theorem foldlM'_ren {α α' β β'} (I : β → Prop) (φ : β → β') (ψ : α → α') (f : β → α → Option β)
    (f' : β' → α' → Option β') (l : List α)
    (h : ∀ b, I b → ∀ a ∈ l, f' (φ b) (ψ a) = (f b a).map φ ∧ ∀ b', f b a = some b' → I b') :
    ∀ b, I b → foldlM' f' (φ b) (l.map ψ) = (foldlM' f b l).map φ ∧ ∀ b', foldlM' f b l = some b' → I b' := by
  induction l with
  | nil =>
    intro b hb
    refine ⟨rfl, ?_⟩
    intro b' hb'
    simp only [foldlM', Option.some.injEq] at hb'
    subst hb'; exact hb
  | cons a rest ih =>
    intro b hb
    obtain ⟨h1, h2⟩ := h b hb a (List.mem_cons_self ..)
    simp only [List.map_cons, foldlM', h1]
    cases hf : f b a with
    | none => simp
    | some b1 =>
      simp only [Option.map_some]
      exact ih (fun b' hb' a' ha' => h b' hb' a' (List.mem_cons_of_mem _ ha')) b1 (h2 b1 hf)

theorem runAt_in {S : String → Prop} {t : Table ε} (ht : TableIn S t) (ph pa id : String) (r : LRun ε)
    (h : t.runAt ph pa id = some r) : S r.run.id := by
  unfold Table.runAt at h
  exact runsFrom_in ht ph pa r (List.mem_of_find?_eq_some h)

/-- the local run `on_distributed_update` addresses for an `updated` record. -/
def runLocalOf (p : Pattern ε) (t : Table ε) (rr : Rec ε) : Option (LRun ε) :=
  if p.singleton then (t.runsFrom rr.phen rr.pat).head? else t.runAt rr.phen rr.pat rr.id

theorem runLocalOf_in {S : String → Prop} (p : Pattern ε) {t : Table ε} (ht : TableIn S t) (rr : Rec ε) (rl : LRun ε)
    (h : runLocalOf p t rr = some rl) : S rl.run.id := by
  unfold runLocalOf at h
  split at h
  · exact head?_in (runsFrom_in ht _ _) rl h
  · exact runAt_in ht _ _ _ rl h

theorem runLocalOf_ren {ρ : String → String} {S : String → Prop} (hinj : InjOn ρ S) (p : Pattern ε) (t : Table ε)
    (ht : TableIn S t) (rr : Rec ε) (hrr : S rr.id) :
    runLocalOf p (renTable ρ t) (renRec ρ rr) = (runLocalOf p t rr).map (renRun ρ) := by
  unfold runLocalOf
  have e1 : (renRec ρ rr).phen = rr.phen := rfl
  have e2 : (renRec ρ rr).pat = rr.pat := rfl
  have e3 : (renRec ρ rr).id = ρ rr.id := rfl
  rw [e1, e2, e3]
  split
  · rw [runsFrom_ren]; exact List.head?_map ..
  · exact runAt_ren hinj t ht _ _ _ hrr

theorem updateOne_in {S : String → Prop} (c : Cfg ε) (aheadF : Rec ε → Run ε → Bool)
    (st st' : DState ε × List (Rec ε)) (rr : Rec ε) (hst : LoopIn S st) (hrr : S rr.id)
    (h : updateOne c aheadF st rr = some st') : LoopIn S st' := by
  obtain ⟨s, out⟩ := st
  obtain ⟨⟨h1, h2, h3⟩, h4⟩ := hst
  unfold updateOne at h
  simp only at h
  cases hp : c.getPattern rr.phen rr.pat with
  | none => simp only [hp, Option.some.injEq] at h; subst h; exact ⟨⟨h1, h2, h3⟩, h4⟩
  | some p =>
    simp only [hp] at h
    have hfold : (if p.singleton then (s.table.runsFrom rr.phen rr.pat).head? else s.table.runAt rr.phen rr.pat rr.id)
        = runLocalOf p s.table rr := rfl
    rw [hfold] at h
    cases horl : runLocalOf p s.table rr with
    | some rl =>
      have hrl := runLocalOf_in p h1 rr rl horl
      simp only [horl] at h
      have ht' : TableIn S (if aheadF rr rl.run then s.table.setBlock rr.phen rr.pat rl.run.id rr.idx rr.hist else s.table) := by
        split
        · exact setBlock_in h1 _ _ _ _ _
        · exact h1
      split at h
      · simp only [Option.some.injEq] at h; subst h
        refine ⟨⟨ht', h2, h3⟩, h4.append (RecsIn.single ?_)⟩
        split <;> exact hrl
      · simp only [Option.some.injEq] at h; subst h
        exact ⟨⟨ht', h2, h3⟩, h4.append (RecsIn.single hrr)⟩
    | none =>
      simp only [horl] at h
      split at h
      · simp at h
      · rename_i t' hadd
        simp only [Option.some.injEq] at h; subst h
        exact ⟨⟨add_in h1 _ _ _ hrr hadd, h2, h3⟩, h4.append (RecsIn.single hrr)⟩

theorem updateOne_ren {ρ : String → String} {S : String → Prop} (hinj : InjOn ρ S) (c : Cfg ε)
    (aheadF : Rec ε → Run ε → Bool) (haf : ∀ rr loc, aheadF (renRec ρ rr) (renRun0 ρ loc) = aheadF rr loc)
    (st : DState ε × List (Rec ε)) (rr : Rec ε) (hst : LoopIn S st) (hrr : S rr.id) :
    updateOne c aheadF (renLoop ρ st) (renRec ρ rr) = (updateOne c aheadF st rr).map (renLoop ρ) := by
  obtain ⟨s, out⟩ := st
  obtain ⟨⟨h1, h2, h3⟩, h4⟩ := hst
  unfold updateOne renLoop
  have e1 : (renRec ρ rr).phen = rr.phen := rfl
  have e2 : (renRec ρ rr).pat = rr.pat := rfl
  have e4 : (renState ρ s).table = renTable ρ s.table := rfl
  simp only [e1, e2, e4]
  cases hp : c.getPattern rr.phen rr.pat with
  | none => rfl
  | some p =>
    simp only
    have hfold1 : (if p.singleton then ((renTable ρ s.table).runsFrom rr.phen rr.pat).head?
        else (renTable ρ s.table).runAt rr.phen rr.pat (renRec ρ rr).id) = runLocalOf p (renTable ρ s.table) (renRec ρ rr) := rfl
    have hfold2 : (if p.singleton then (s.table.runsFrom rr.phen rr.pat).head? else s.table.runAt rr.phen rr.pat rr.id)
        = runLocalOf p s.table rr := rfl
    rw [hfold1, hfold2, runLocalOf_ren hinj p s.table h1 rr hrr]
    cases horl : runLocalOf p s.table rr with
    | some rl =>
      have hrl := runLocalOf_in p h1 rr rl horl
      have e5 : (renRun ρ rl).run = renRun0 ρ rl.run := rfl
      have e6 : (renRun0 ρ rl.run).id = ρ rl.run.id := rfl
      have e3 : (renRec ρ rr).id = ρ rr.id := rfl
      have e7 : (renRec ρ rr).idx = rr.idx := rfl
      have e8 : (renRec ρ rr).hist = rr.hist := rfl
      simp only [Option.map_some, e5, haf, e6, e3, e7, e8, bne_ren hinj hrr hrl,
        setBlock_ren hinj s.table h1 _ _ _ hrl]
      cases aheadF rr rl.run <;> cases (p.singleton && rr.id != rl.run.id) <;>
        simp [renState, renRec, renRun, renRun0, LRun.ser]
    | none =>
      simp only [Option.map_none]
      have e9 : ({ run := { id := (renRec ρ rr).id, idx := (renRec ρ rr).idx, hist := (renRec ρ rr).hist, halted := completeAt p.blocks.length (renRec ρ rr).idx }, pat := p } : LRun ε)
          = renRun ρ { run := { id := rr.id, idx := rr.idx, hist := rr.hist, halted := completeAt p.blocks.length rr.idx }, pat := p } := rfl
      rw [e9, add_ren hinj s.table h1 _ _ _ hrr]
      cases s.table.add rr.phen rr.pat { run := { id := rr.id, idx := rr.idx, hist := rr.hist, halted := completeAt p.blocks.length rr.idx }, pat := p } with
      | none => rfl
      | some t' => simp [renState]

theorem dedupById_sub (l : List (Rec ε)) : ∀ x ∈ dedupById l, x ∈ l := by
  induction l with
  | nil => intro x hx; exact hx
  | cons r rest ih =>
    intro x hx
    simp only [dedupById, List.mem_cons, List.mem_filter] at hx ⊢
    rcases hx with h | h
    · exact .inl h
    · exact .inr (ih x h.1)

theorem dedupById_ren {ρ : String → String} {S : String → Prop} (hinj : InjOn ρ S) (l : List (Rec ε)) (hl : RecsIn S l) :
    dedupById (l.map (renRec ρ)) = (dedupById l).map (renRec ρ) := by
  induction l with
  | nil => rfl
  | cons r rest ih =>
    have hrest : RecsIn S rest := fun x hx => hl x (List.mem_cons_of_mem _ hx)
    simp only [List.map_cons, dedupById, ih hrest]
    congr 1
    apply filter_ren
    intro x hx
    have : ((renRec ρ x).id == (renRec ρ r).id) = (x.id == r.id) :=
      hinj.beq (hrest x (dedupById_sub rest x hx)) (hl r (List.mem_cons_self ..))
    rw [this]

theorem ahead_ren (ρ : String → String) (rr : Rec ε) (loc : Run ε) : ahead (renRec ρ rr) (renRun0 ρ loc) = ahead rr loc := rfl
theorem aheadOld_ren (ρ : String → String) (rr : Rec ε) (loc : Run ε) :
    aheadOld (renRec ρ rr) (renRun0 ρ loc) = aheadOld rr loc := rfl

theorem remoteStepG_rename_in {ρ : String → String} {S : String → Prop} (hinj : InjOn ρ S)
    (aheadF : Rec ε → Run ε → Bool) (haf : ∀ rr loc, aheadF (renRec ρ rr) (renRun0 ρ loc) = aheadF rr loc)
    (refilter : Bool) (c : Cfg ε) (s : DState ε) (hs : StateIn S s) (comp halt upd : List (Rec ε))
    (hc : RecsIn S comp) (hh : RecsIn S halt) (hu : RecsIn S upd) :
    remoteStepG aheadF refilter c (renState ρ s) (comp.map (renRec ρ)) (halt.map (renRec ρ)) (upd.map (renRec ρ))
      = (remoteStepG aheadF refilter c s comp halt upd).map (fun r => (renState ρ r.1, renNotif ρ r.2)) ∧
    ∀ s' n, remoteStepG aheadF refilter c s comp halt upd = some (s', n) → StateIn S s' ∧ NotifIn S n := by
  unfold remoteStepG
  simp only
  rw [checkAgainstCache_ren hinj c s hs comp halt upd hc hh hu]
  obtain ⟨k1, k2, k3⟩ := checkAgainstCache_in c s comp halt upd hc hh hu
  generalize checkAgainstCache c s comp halt upd = cac at k1 k2 k3
  obtain ⟨comp1, halt1, upd1⟩ := cac
  simp only at k1 k2 k3 ⊢
  rw [maybeCache_ren ρ c c rfl]
  have hs1 : StateIn S (maybeCache c s comp1 halt1) := maybeCache_in c s comp1 halt1 hs k1 k2
  generalize maybeCache c s comp1 halt1 = s1 at hs1
  -- completed loop
  have e0 : ∀ x : DState ε, (renState ρ x, ([] : List (Rec ε))) = renLoop ρ (x, []) := fun _ => rfl
  obtain ⟨f1, g1⟩ := foldl_ren (LoopIn S) (renLoop ρ) (renRec ρ) (removeOne c true) (removeOne c true) comp1
    (fun b hb a ha => ⟨removeOne_ren hinj c true b a hb (k1 a ha), removeOne_in c true b a hb (k1 a ha)⟩)
    (s1, []) ⟨hs1, RecsIn.nil⟩
  rw [e0, f1]
  generalize List.foldl (removeOne c true) (s1, []) comp1 = st2 at g1
  obtain ⟨s2, compOut⟩ := st2
  simp only [renLoop]
  -- halted loop
  obtain ⟨f2, g2⟩ := foldl_ren (LoopIn S) (renLoop ρ) (renRec ρ) (removeOne c false) (removeOne c false) halt1
    (fun b hb a ha => ⟨removeOne_ren hinj c false b a hb (k2 a ha), removeOne_in c false b a hb (k2 a ha)⟩)
    (s2, []) ⟨g1.1, RecsIn.nil⟩
  rw [e0, f2]
  generalize List.foldl (removeOne c false) (s2, []) halt1 = st3 at g2
  obtain ⟨s3, haltOut⟩ := st3
  simp only [renLoop]
  -- second filter of the updated list
  have hupd2 : (if refilter = true then (checkAgainstCache c (renState ρ s3) [] [] (List.map (renRec ρ) upd1)).2.2
      else List.map (renRec ρ) upd1)
      = (if refilter = true then (checkAgainstCache c s3 [] [] upd1).2.2 else upd1).map (renRec ρ) := by
    split
    · have := checkAgainstCache_ren hinj c s3 g2.1 [] [] upd1 RecsIn.nil RecsIn.nil k3
      simp only [List.map_nil] at this
      rw [this]
    · rfl
  have k4 : RecsIn S (if refilter = true then (checkAgainstCache c s3 [] [] upd1).2.2 else upd1) := by
    split
    · exact (checkAgainstCache_in c s3 [] [] upd1 RecsIn.nil RecsIn.nil k3).2.2
    · exact k3
  rw [hupd2]
  generalize (if refilter = true then (checkAgainstCache c s3 [] [] upd1).2.2 else upd1) = upd2 at k4
  -- updated loop
  obtain ⟨f3, g3⟩ := foldlM'_ren (LoopIn S) (renLoop ρ) (renRec ρ) (updateOne c aheadF) (updateOne c aheadF) upd2
    (fun b hb a ha => ⟨updateOne_ren hinj c aheadF haf b a hb (k4 a ha),
      fun b' hb' => updateOne_in c aheadF b b' a hb (k4 a ha) hb'⟩)
    (s3, []) ⟨g2.1, RecsIn.nil⟩
  rw [e0, f3]
  cases hf : foldlM' (updateOne c aheadF) (s3, []) upd2 with
  | none => exact ⟨rfl, fun _ _ h => by simp at h⟩
  | some st4 =>
    obtain ⟨s4, updOut⟩ := st4
    have g4 := g3 _ hf
    refine ⟨?_, ?_⟩
    · simp only [Option.map_some, renLoop, renNotif, dedupById_ren hinj _ g1.2, dedupById_ren hinj _ g2.2]
    · intro s' n h
      simp only [Option.some.injEq, Prod.mk.injEq] at h
      obtain ⟨e1, e2⟩ := h
      subst e1 e2
      exact ⟨g4.1, g1.2.sub (dedupById_sub _), g2.2.sub (dedupById_sub _), g4.2⟩

/-- **`on_distributed_update` commutes with renaming run identifiers** (general form: any identifier-blind
"ahead" test, with or without the second filter). -/
theorem remoteStepG_rename {ρ : String → String} {S : String → Prop} (hinj : InjOn ρ S)
    (aheadF : Rec ε → Run ε → Bool) (haf : ∀ rr loc, aheadF (renRec ρ rr) (renRun0 ρ loc) = aheadF rr loc)
    (refilter : Bool) (c : Cfg ε) (s : DState ε) (hs : StateIn S s) (comp halt upd : List (Rec ε))
    (hc : RecsIn S comp) (hh : RecsIn S halt) (hu : RecsIn S upd) :
    remoteStepG aheadF refilter c (renState ρ s) (comp.map (renRec ρ)) (halt.map (renRec ρ)) (upd.map (renRec ρ))
      = (remoteStepG aheadF refilter c s comp halt upd).map (fun r => (renState ρ r.1, renNotif ρ r.2)) :=
  (remoteStepG_rename_in hinj aheadF haf refilter c s hs comp halt upd hc hh hu).1

/-- **`on_distributed_update` commutes with renaming run identifiers**: for `ρ` injective on a set `S` containing
the identifiers of the state and of the incoming records, the step on the renamed state with the renamed records
fails iff the original fails and otherwise yields the renamed state and the renamed notification.  (The generator
plays no role in a remote step: `remoteStep_ids`.) -/
theorem remoteStep_rename {ρ : String → String} {S : String → Prop} (hinj : InjOn ρ S) (c : Cfg ε) (s : DState ε)
    (hs : StateIn S s) (comp halt upd : List (Rec ε)) (hc : RecsIn S comp) (hh : RecsIn S halt) (hu : RecsIn S upd) :
    remoteStep c (renState ρ s) (comp.map (renRec ρ)) (halt.map (renRec ρ)) (upd.map (renRec ρ))
      = (remoteStep c s comp halt upd).map (fun r => (renState ρ r.1, renNotif ρ r.2)) :=
  remoteStepG_rename hinj ahead (ahead_ren ρ) true c s hs comp halt upd hc hh hu

/-- `on_distributed_update` stores and announces only identifiers of the state or of the incoming records. -/
theorem remoteStep_in {S : String → Prop} (c : Cfg ε) (s s' : DState ε) (n : Notif ε)
    (hs : StateIn S s) (comp halt upd : List (Rec ε)) (hc : RecsIn S comp) (hh : RecsIn S halt) (hu : RecsIn S upd)
    (h : remoteStep c s comp halt upd = some (s', n)) : StateIn S s' ∧ NotifIn S n :=
  (remoteStepG_rename_in (ρ := id) (fun _ _ _ _ e => e) ahead (fun _ _ => rfl) true c s hs comp halt upd hc hh hu).2 s' n h

/-! ### whole runs of a single engine -/

/-- a single engine with generator `g` fed the stream `es`: final state and the notifications of all steps
(`none` if some `update()` lets an exception escape). -/
def runLocal (c : Cfg ε) (g : Nat → String) : DState ε → List ε → Option (DState ε × List (Notif ε))
  | s, [] => some (s, [])
  | s, e :: es =>
    match localStep (withIds c g) s e with
    | none => none
    | some (s', nt, _) =>
      match runLocal c g s' es with
      | none => none
      | some (s'', nts) => some (s'', nt :: nts)

/-- a whole run commutes with the renaming: `ρ` injective on a set `S` that contains the identifiers of the start
state and everything `g` can hand out, and `ρ ∘ g = h`. -/
theorem runLocal_rename (c : Cfg ε) {ρ : String → String} {S : String → Prop} (hinj : InjOn ρ S) (g h : Nat → String)
    (hS : ∀ k, S (g k)) (hρ : ∀ k, ρ (g k) = h k) (es : List ε) :
    ∀ s : DState ε, StateIn S s →
      runLocal c h (renState ρ s) es = (runLocal c g s es).map (fun r => (renState ρ r.1, r.2.map (renNotif ρ))) := by
  induction es with
  | nil => intro s _; rfl
  | cons e rest ih =>
    intro s hs
    have hstep := localStep_rename c hinj g h s.nextId s.nextId (fun k => hS _) (fun k => hρ _) s hs.1 e
    have e1 : ({ renState ρ s with nextId := s.nextId } : DState ε) = renState ρ s := rfl
    have e2 : ({ s with nextId := s.nextId } : DState ε) = s := rfl
    rw [e1, e2] at hstep
    simp only [runLocal, hstep]
    cases hl : localStep (withIds c g) s e with
    | none => rfl
    | some r =>
      obtain ⟨s', nt, ch⟩ := r
      obtain ⟨hs', _, hle⟩ := localStep_in (withIds c g) (fun k => hS k) s s' e nt ch hs hl
      have e3 : s.nextId + (s'.nextId - s.nextId) = s'.nextId := by omega
      have e4 : ({ renState ρ s' with nextId := s'.nextId } : DState ε) = renState ρ s' := rfl
      simp only [Option.map_some, e3, e4]
      rw [ih s' hs']
      cases runLocal c g s' rest with
      | none => rfl
      | some r' => rfl

/-- the renaming that turns the identifiers of generator `g` into those of generator `h` (identity elsewhere). -/
noncomputable def renOf (g h : Nat → String) (x : String) : String :=
  open Classical in if hx : ∃ k, g k = x then h (Classical.choose hx) else x

theorem renOf_gen (g h : Nat → String) (hg : ∀ i j, g i = g j → i = j) (k : Nat) : renOf g h (g k) = h k := by
  unfold renOf
  have hx : ∃ k', g k' = g k := ⟨k, rfl⟩
  rw [dif_pos hx]
  exact congrArg h (hg _ _ (Classical.choose_spec hx))

theorem renOf_injOn (g h : Nat → String) (hg : ∀ i j, g i = g j → i = j) (hh : ∀ i j, h i = h j → i = j) :
    InjOn (renOf g h) (fun x => ∃ k, g k = x) := by
  rintro x y ⟨i, rfl⟩ ⟨j, rfl⟩ hxy
  rw [renOf_gen g h hg, renOf_gen g h hg] at hxy
  rw [hh i j hxy]

theorem renState_empty (ρ : String → String) : renState ρ ({} : DState ε) = {} := rfl
theorem stateIn_empty (S : String → Prop) : StateIn S ({} : DState ε) :=
  ⟨fun _ h => (nomatch h), RecsIn.nil, RecsIn.nil⟩

/-! ### finer bookkeeping: which identifiers one `update()` adds; renamings that agree on the identifiers present -/

theorem RecsIn.mono {S S' : String → Prop} {l : List (Rec ε)} (h : RecsIn S l) (himp : ∀ x, S x → S' x) : RecsIn S' l :=
  fun r hr => himp _ (h r hr)
theorem TableIn.mono {S S' : String → Prop} {t : Table ε} (h : TableIn S t) (himp : ∀ x, S x → S' x) : TableIn S' t :=
  fun phe h1 pe h2 r h3 => himp _ (h phe h1 pe h2 r h3)
theorem StateIn.mono {S S' : String → Prop} {s : DState ε} (h : StateIn S s) (himp : ∀ x, S x → S' x) : StateIn S' s :=
  ⟨h.1.mono himp, h.2.1.mono himp, h.2.2.mono himp⟩
theorem NotifIn.mono {S S' : String → Prop} {n : Notif ε} (h : NotifIn S n) (himp : ∀ x, S x → S' x) : NotifIn S' n :=
  ⟨h.1.mono himp, h.2.1.mono himp, h.2.2.mono himp⟩

theorem checkPattern_next (c : Cfg ε) (e : ε) (ph : String) (a a' : PatAcc ε) (p : Pattern ε)
    (hs : checkPattern c e ph a p = some a') : a.nextId ≤ a'.nextId ∧ a'.nextId ≤ a.nextId + 1 := by
  unfold checkPattern at hs
  cases hb : p.blocks with
  | nil => simp [hb] at hs
  | cons b0 rest =>
    simp only [hb] at hs
    split at hs
    · split at hs
      · simp only [Option.some.injEq] at hs; subst hs; simp only; omega
      · split at hs
        · split at hs
          · simp at hs
          · simp only [Option.some.injEq] at hs; subst hs; simp only; omega
        · simp only [Option.some.injEq] at hs; subst hs; simp only; omega
    · simp only [Option.some.injEq] at hs; subst hs; omega

theorem checkPattern_step_in {S : String → Prop} (c : Cfg ε) (e : ε) (ph : String) (a a' : PatAcc ε) (p : Pattern ε)
    (h : TableIn S a.table ∧ RecsIn S a.hc ∧ RecsIn S a.upd)
    (hs : checkPattern c e ph a p = some a') (hS : a.nextId < a'.nextId → S (c.idOf a.nextId)) :
    TableIn S a'.table ∧ RecsIn S a'.hc ∧ RecsIn S a'.upd := by
  obtain ⟨a1, a2, a3⟩ := h
  unfold checkPattern at hs
  cases hb : p.blocks with
  | nil => simp [hb] at hs
  | cons b0 rest =>
    simp only [hb] at hs
    split at hs
    · split at hs
      · simp only [Option.some.injEq] at hs; subst hs
        have hid := hS (by simp only; omega)
        exact ⟨a1, a2.append (RecsIn.single hid), a3⟩
      · split at hs
        · split at hs
          · simp at hs
          · rename_i t' hadd
            simp only [Option.some.injEq] at hs; subst hs
            have hid := hS (by simp only; omega)
            exact ⟨add_in a1 ph p.name _ hid hadd, a2, a3.append (RecsIn.single hid)⟩
        · simp only [Option.some.injEq] at hs; subst hs
          exact ⟨a1, a2, a3⟩
    · simp only [Option.some.injEq] at hs; subst hs
      exact ⟨a1, a2, a3⟩

/-- the accumulator of `_check_against_patterns` holds only identifiers of `S` or drawn since `n0`. -/
def PatDrawn (c : Cfg ε) (S : String → Prop) (n0 : Nat) (a : PatAcc ε) : Prop :=
  n0 ≤ a.nextId ∧ ∀ S' : String → Prop, (∀ x, S x → S' x) → (∀ k, n0 ≤ k → k < a.nextId → S' (c.idOf k)) →
    TableIn S' a.table ∧ RecsIn S' a.hc ∧ RecsIn S' a.upd

theorem checkPattern_drawn {S : String → Prop} (c : Cfg ε) (n0 : Nat) (e : ε) (ph : String) (a a' : PatAcc ε)
    (p : Pattern ε) (h : PatDrawn c S n0 a) (hs : checkPattern c e ph a p = some a') : PatDrawn c S n0 a' := by
  obtain ⟨hle, hge⟩ := checkPattern_next c e ph a a' p hs
  refine ⟨Nat.le_trans h.1 hle, fun S' himp hdr => ?_⟩
  have ha := h.2 S' himp (fun k hk1 hk2 => hdr k hk1 (Nat.lt_of_lt_of_le hk2 hle))
  exact checkPattern_step_in c e ph a a' p ha hs (fun hlt => hdr _ h.1 hlt)

theorem checkAgainstPatterns_drawn {S : String → Prop} (c : Cfg ε) (e : ε) (t : Table ε) (n : Nat) (acc : PatAcc ε)
    (ht : TableIn S t) (hs : checkAgainstPatterns c e t n = some acc) : PatDrawn c S n acc := by
  unfold checkAgainstPatterns at hs
  refine foldlM'_inv (PatDrawn c S n) _ c.phenomena ?_ _ _
    ⟨Nat.le_refl _, fun S' himp _ => ⟨ht.mono himp, RecsIn.nil, RecsIn.nil⟩⟩ hs
  intro b P b' _ hb hf
  exact foldlM'_inv (PatDrawn c S n) _ P.patterns
    (fun b1 p b1' _ hb1 hf1 => checkPattern_drawn c n e P.name b1 b1' p hb1 hf1) _ _ hb hf

/-- after one `update()`, the state and the notification hold only identifiers that were in the state before or
were drawn during the step (counter values `s.nextId ≤ k < s'.nextId`). -/
theorem localStep_in_drawn {S : String → Prop} (c : Cfg ε) (s s' : DState ε) (e : ε) (nt : Notif ε)
    (ch : Bool) (hs : StateIn S s) (h : localStep c s e = some (s', nt, ch))
    (S' : String → Prop) (himp : ∀ x, S x → S' x) (hdr : ∀ k, s.nextId ≤ k → k < s'.nextId → S' (c.idOf k)) :
    StateIn S' s' ∧ NotifIn S' nt ∧ s.nextId ≤ s'.nextId := by
  unfold localStep at h
  obtain ⟨b1, b2, b3, b4⟩ := checkAgainstRuns_in e s.table hs.1
  generalize checkAgainstRuns e s.table = car at h b1 b2 b3 b4
  obtain ⟨t1, rhc, rhi, rupd⟩ := car
  simp only at h b1 b2 b3 b4
  cases hp : checkAgainstPatterns c e t1 s.nextId with
  | none => simp [hp] at h
  | some acc =>
    simp only [hp, Option.some.injEq, Prod.mk.injEq] at h
    obtain ⟨e1, e2, _⟩ := h
    obtain ⟨c4, hacc⟩ := checkAgainstPatterns_drawn c e t1 s.nextId acc b1 hp
    subst e1 e2
    rw [maybeCache_nextId'] at hdr ⊢
    obtain ⟨c1, c2, c3⟩ := hacc S' himp hdr
    have b2' := b2.mono himp
    have b3' := b3.mono himp
    have b4' := b4.mono himp
    exact ⟨maybeCache_in c _ _ _ ⟨c1, hs.2.1.mono himp, hs.2.2.mono himp⟩ (b2'.append c2) b3',
      ⟨b2'.append c2, b3', b4'.append c3⟩, c4⟩

theorem map_renRec_congr {ρ ρ' : String → String} {S : String → Prop} (hag : ∀ x, S x → ρ x = ρ' x)
    (l : List (Rec ε)) (hl : RecsIn S l) : l.map (renRec ρ) = l.map (renRec ρ') := by
  apply List.map_congr_left
  intro r hr
  simp only [renRec, hag _ (hl r hr)]

theorem renTable_congr {ρ ρ' : String → String} {S : String → Prop} (hag : ∀ x, S x → ρ x = ρ' x)
    (t : Table ε) (ht : TableIn S t) : renTable ρ t = renTable ρ' t := by
  unfold renTable kmap
  apply List.map_congr_left
  intro phe hphe
  congr 1
  apply List.map_congr_left
  intro pe hpe
  congr 1
  apply List.map_congr_left
  intro r hr
  simp only [renRun, renRun0, hag _ (ht phe hphe pe hpe r hr)]

theorem renState_congr {ρ ρ' : String → String} {S : String → Prop} (hag : ∀ x, S x → ρ x = ρ' x)
    (s : DState ε) (hs : StateIn S s) : renState ρ s = renState ρ' s := by
  simp only [renState, renTable_congr hag s.table hs.1, map_renRec_congr hag _ hs.2.1, map_renRec_congr hag _ hs.2.2]

theorem renNotif_congr {ρ ρ' : String → String} {S : String → Prop} (hag : ∀ x, S x → ρ x = ρ' x)
    (n : Notif ε) (hn : NotifIn S n) : renNotif ρ n = renNotif ρ' n := by
  simp only [renNotif, map_renRec_congr hag _ hn.1, map_renRec_congr hag _ hn.2.1, map_renRec_congr hag _ hn.2.2]

theorem runLocal_append (c : Cfg ε) (g : Nat → String) (e : ε) (es : List ε) :
    ∀ s : DState ε, runLocal c g s (es ++ [e]) =
      match runLocal c g s es with
      | none => none
      | some (s1, nts) =>
        match localStep (withIds c g) s1 e with
        | none => none
        | some (s2, nt, _) => some (s2, nts ++ [nt]) := by
  induction es with
  | nil =>
    intro s
    simp only [List.nil_append, runLocal]
  | cons e0 rest ih =>
    intro s
    simp only [List.cons_append, runLocal]
    cases localStep (withIds c g) s e0 with
    | none => rfl
    | some r =>
      obtain ⟨s0, nt0, ch0⟩ := r
      simp only [ih s0]
      cases runLocal c g s0 rest with
      | none => rfl
      | some r1 =>
        obtain ⟨s1, nts⟩ := r1
        simp only
        cases localStep (withIds c g) s1 e with
        | none => rfl
        | some r2 => rfl

/-- `ρ` extended: the identifiers `g (n + j)` go to `h (m + j)`, everything else as before. -/
noncomputable def extRen (ρ : String → String) (g : Nat → String) (n : Nat) (h : Nat → String) (m : Nat)
    (x : String) : String :=
  open Classical in if hx : ∃ j, g (n + j) = x then h (m + Classical.choose hx) else ρ x

theorem extRen_new (ρ : String → String) (g : Nat → String) (hg : ∀ i j, g i = g j → i = j) (n : Nat)
    (h : Nat → String) (m j : Nat) : extRen ρ g n h m (g (n + j)) = h (m + j) := by
  unfold extRen
  have hx : ∃ j', g (n + j') = g (n + j) := ⟨j, rfl⟩
  rw [dif_pos hx]
  have := hg _ _ (Classical.choose_spec hx)
  have : Classical.choose hx = j := by omega
  rw [this]

theorem extRen_old (ρ : String → String) (g : Nat → String) (n : Nat) (h : Nat → String) (m : Nat) (x : String)
    (hx : ¬ ∃ j, g (n + j) = x) : extRen ρ g n h m x = ρ x := by
  unfold extRen
  rw [dif_neg hx]

end Bobo.Decider
