import BoboVerif.Props.C12
/-! a local change that keeps a run active records the offered event. -/
namespace Bobo.Decider
open Bobo.Run
set_option linter.unusedSimpArgs false
variable {ε : Type}

/-- a change that keeps the run active recorded the event (and did not move backwards). -/
theorem changed_live_records (p : Pattern ε) (r : Run ε) (e : ε)
    (hch : (process p r e).1 = .ok true) (hlive : (process p r e).2.halted = false) :
    (∃ g, (process p r e).2.hist = addEvent r.hist g e) ∧ r.idx ≤ (process p r e).2.idx := by
  refine ⟨?_, idx_monotone p r e⟩
  unfold process at *
  by_cases hh : r.halted = true
  · simp [hh] at hch
  · simp only [hh, if_false] at hch hlive ⊢
    cases hg : gate p e r.hist with
    | none => simp [hg] at hch
    | some b =>
      cases b
      · simp [hg, halt] at hlive
      · simp only [hg] at hch hlive ⊢
        have hr := walk_res p.blocks.length e (p.blocks.drop r.idx) r.idx r
        generalize walk p.blocks.length e (p.blocks.drop r.idx) r.idx r = w at hr hch hlive
        cases hr with
        | index => simp at hch
        | raised => simp at hch
        | wait => simp at hch
        | halt => simp [halt] at hlive
        | record g => exact ⟨g, rfl⟩
        | advance g j => exact ⟨g, rfl⟩


end Bobo.Decider
