import BoboVerif.Lemmas.TcpLattice
/-!
C07 at the status-lattice level, in the pair model of Lemmas/TcpLattice.lean: a ghost `base` — what the
receiver `j` is owed out of the SURVIVOR's knowledge.  `base` is `bot` until `j` restarts; `restartJ` sets it
to the survivor's whole knowledge `knowS` at that moment (what it announced itself AND what it learnt from
others); no other step touches it.  It is a fold over the step list (`baseAfter`), like `missingAfter`, so
`Pair` and the theorems of C06 are untouched.

Invariant `BInv` (inductive together with `PInv`, `binv_step` / `binv_run`):
  `base ≤ knowS`   and   ( `j` is in the resync period at every clock `≥ L`  ∨  `base ≤ knowJ ⊔ ⨆ wire` ).
-/
namespace Bobo.Tcp
open Bobo.Lattice
open Bobo.Net (join_mono)

/-- one step of the ghost: a restart of `j` resets what it is owed to everything the survivor knows. -/
def baseStep (P : Pair) (base : Status) : PStep → Status
  | .restartJ _ => P.knowS
  | _ => base

/-- the ghost after a run. -/
def baseAfter (j : Nat) : Pair → Status → List PStep → Status
  | _, base, [] => base
  | P, base, x :: xs => baseAfter j (pstep j P x) (baseStep P base x) xs

/-- `j` has, or has on its way, everything it is owed. -/
def RFlow (P : Pair) (base : Status) : Prop := base ≤ join P.knowJ (wireJoin P.wire)

structure BInv (j : Nat) (P : Pair) (base : Status) (L : Int) : Prop where
  /-- the survivor still knows what it owes (its knowledge only grows). -/
  baseS : base ≤ P.knowS
  flow  : ResyncFrom j P.t L ∨ RFlow P base

/-! ### `knowS` only grows -/

theorem knowS_step (j : Nat) (P : Pair) (x : PStep) : P.knowS ≤ (pstep j P x).knowS := by
  cases x with
  | say m => exact le_join_left _ _
  | learn d => exact le_join_left _ _
  | pass now outcome => exact le_refl _
  | deliver k =>
    simp only [pstep]
    cases P.wire[k]? <;> exact le_refl _
  | redeliver k =>
    simp only [pstep]
    cases P.wire[k]? <;> exact le_refl _
  | incoming i flags => exact le_refl _
  | restartJ keep => exact le_refl _

/-- **`knowS_monotone`**: the survivor's knowledge never decreases along a run. -/
theorem knowS_monotone (j : Nat) (steps : List PStep) : ∀ (P : Pair), P.knowS ≤ (prun j P steps).knowS := by
  induction steps with
  | nil => intro P; exact le_refl _
  | cons x xs ih => intro P; exact le_trans (knowS_step j P x) (ih _)

/-! ### the invariant -/

theorem binv_mono {j : Nat} {P : Pair} {base : Status} {L L' : Int} (h : L ≤ L') (hi : BInv j P base L) :
    BInv j P base L' :=
  ⟨hi.baseS, hi.flow.imp (resyncFrom_mono h) id⟩

/-- queueing a message does not touch the device dict. -/
theorem resyncFrom_push (j : Nat) (t : TState Status) (L : Int) (m : Msg Status) (hr : ResyncFrom j t L) :
    ResyncFrom j (push t m) L := hr

/-- **one step preserves both invariants** (same new last clock `nextL L x` for both). -/
theorem binv_step (j : Nat) (urn : String) (P : Pair) (base : Status) (L : Int) (x : PStep) (xs : List PStep)
    (hm : PMono L (x :: xs)) (h : PInv j urn P L) (hb : BInv j P base L) :
    PInv j urn (pstep j P x) (nextL L x) ∧ BInv j (pstep j P x) (baseStep P base x) (nextL L x) ∧
      PMono (nextL L x) xs ∧ pLastNow L (x :: xs) = pLastNow (nextL L x) xs := by
  obtain ⟨hp', hm', hl⟩ := pinv_step' j urn P L x xs hm h
  refine ⟨hp', ?_, hm', hl⟩
  obtain ⟨hep, hown, hacct, _⟩ := h
  obtain ⟨hbS, hflow⟩ := hb
  cases x with
  | say m =>
    exact ⟨le_trans hbS (le_join_left _ _), hflow.imp (resyncFrom_push j P.t L m) id⟩
  | learn d =>
    exact ⟨le_trans hbS (le_join_left _ _), hflow⟩
  | deliver k =>
    cases hk : P.wire[k]? with
    | none =>
      have : pstep j P (.deliver k) = P := by simp only [pstep, hk]
      rw [this]; exact ⟨hbS, hflow⟩
    | some m =>
      have : pstep j P (.deliver k) = { P with knowJ := join P.knowJ (meaning m), wire := P.wire.eraseIdx k } := by
        simp only [pstep, hk]
      rw [this]
      refine ⟨hbS, hflow.imp id ?_⟩
      intro hf
      refine le_trans hf (join_le ?_ ?_)
      · exact le_trans (le_join_left _ _) (le_join_left _ _)
      · refine le_trans (joinAll_map_eraseIdx_le meaning P.wire k m hk) ?_
        exact join_le (le_trans (le_join_right _ _) (le_join_left _ _)) (le_join_right _ _)
  | redeliver k =>
    cases hk : P.wire[k]? with
    | none =>
      have : pstep j P (.redeliver k) = P := by simp only [pstep, hk]
      rw [this]; exact ⟨hbS, hflow⟩
    | some m =>
      have : pstep j P (.redeliver k) = { P with knowJ := join P.knowJ (meaning m) } := by
        simp only [pstep, hk]
      rw [this]
      refine ⟨hbS, hflow.imp id ?_⟩
      intro hf
      exact le_trans hf (join_mono (le_join_left _ _) (le_refl _))
  | incoming i flags =>
    refine ⟨hbS, ?_⟩
    rcases hflow with hr | hf
    · exact Or.inl (resyncFrom_incoming j P.t L i flags hep hr)
    · exact Or.inr hf
  | restartJ keep =>
    obtain ⟨p, he, _, _, _⟩ := hacct
    exact ⟨le_refl _, Or.inl (resyncFrom_reset j urn P.t p L he hep)⟩
  | pass now outcome =>
    have hLn : L ≤ now := hm.1
    refine ⟨hbS, ?_⟩
    -- a RESYNC reported delivered puts the survivor's whole knowledge on the wire
    have hres : ∀ w, (outIter P.t now (snapOf P) outcome).2.find? (fun w => w.peer == j) = some w →
        w.typ = .resync → (outcome j).1 = 0 → RFlow (pstep j P (.pass now outcome)) base := by
      intro w hw ht herr
      have hpay := wire_resync_payload P.t now (snapOf P) outcome j w hw ht
      have hwire : (pstep j P (.pass now outcome)).wire = P.wire ++ [snapOf P] := by
        simp only [pstep, wireAfter, hw, herr, if_true, hpay]
      have hmean : meaning (snapOf P) = P.knowS := by
        simp [meaning, snapOf, recs, joinAll_singleton]
      unfold RFlow
      rw [hwire, wireJoin_append, hmean]
      exact le_trans hbS (le_trans (le_join_right _ _) (le_join_right _ _))
    rcases hflow with hr | hf
    · obtain ⟨p, he, hself, _, _⟩ := hacct
      obtain ⟨e, he', hA⟩ := hr
      rw [he] at he'; cases he'
      rcases resync_pass P.t now (snapOf P) outcome j urn p he hself (hA now hLn) with
        ⟨p', hp', hlc', _⟩ | ⟨w, hw, ht, _, herr⟩
      · left
        refine ⟨(urn, p'), hp', ?_⟩
        intro now' hn
        have hn' : now' ≥ now := hn
        have := hA now hLn
        show now' - p'.lastComms ≥ P.t.cfg.periodResync
        rw [hlc']; simp only at this; omega
      · exact Or.inr (hres w hw ht herr)
    · -- the wire only grows in a pass
      right
      have hk : (pstep j P (.pass now outcome)).knowJ = P.knowJ := rfl
      unfold RFlow
      rw [hk]
      refine le_trans hf (join_mono (le_refl _) ?_)
      show wireJoin P.wire ≤ wireJoin (wireAfter j P.wire (outIter P.t now (snapOf P) outcome).2 outcome)
      unfold wireAfter
      split
      · split
        · rw [wireJoin_append]; exact le_join_left _ _
        · exact le_refl _
      · exact le_refl _

/-- **both invariants hold after every run with monotone decision clocks.** -/
theorem binv_run (j : Nat) (urn : String) (steps : List PStep) :
    ∀ (P : Pair) (base : Status) (L : Int), PMono L steps → PInv j urn P L → BInv j P base L →
      PInv j urn (prun j P steps) (pLastNow L steps) ∧
      BInv j (prun j P steps) (baseAfter j P base steps) (pLastNow L steps) := by
  induction steps with
  | nil => intro P base L _ h hb; exact ⟨h, hb⟩
  | cons x xs ih =>
    intro P base L hm h hb
    obtain ⟨hp', hb', hm', hl⟩ := binv_step j urn P base L x xs hm h hb
    rw [hl]
    exact ih _ _ _ hm' hp' hb'

/-- at the start nothing is owed. -/
theorem binv_init (j : Nat) (P0 : Pair) (L0 : Int) : BInv j P0 bot L0 :=
  ⟨bot_le _, Or.inr (bot_le _)⟩

/-- on an idle link (`j` not in the resync period, nothing on the wire) `j` holds what it is owed. -/
theorem binv_idle (j : Nat) (P : Pair) (base : Status) (L : Int) (h : BInv j P base L)
    (e : String × Peer Status) (he : P.t.peers[j]? = some e)
    (hidle : ¬ (L - e.2.lastComms ≥ P.t.cfg.periodResync)) (hw : P.wire = []) : base ≤ P.knowJ := by
  rcases h.flow with ⟨e', he', hA⟩ | hf
  · rw [he] at he'; cases he'
    exact absurd (hA L (Int.le_refl L)) hidle
  · unfold RFlow at hf
    rw [hw] at hf
    simpa [wireJoin, joinAll_nil, join_bot_right] using hf

end Bobo.Tcp
