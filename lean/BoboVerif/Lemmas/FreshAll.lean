import BoboVerif.Lemmas.IdInv
import BoboVerif.Lemmas.MixedRun
import BoboVerif.Props.C13
/-!
"A finished run stays out of the active set" for ALL patterns — singleton patterns included.

The step lemmas behind `Props/C05All.lean`.  No `NoSing` anywhere.  What is needed instead:

* `CfgWF c` (Lemmas/LocalExact.lean; a static property of the configuration — a pattern is found under its own
  name — already assumed by `local_ids`): WHY — `SingInv` bounds a bucket only when EVERY pattern stored under the
  key is singleton (`SingKey`), whereas `removeOne` looks at the FIRST pattern of that name only.  With two patterns
  of one name, one singleton and one not, a remote "completed" record would remove the head of the bucket and leave a
  second run with the record's very identifier stored AND memorised.  `CfgWF` rules that out
  (`singKey_of_cfgWF`).
* the second half of `KeyOK` (Lemmas/MixedRun.lean): the `updated` list names no identifier under two keys
  (`UpdOK`): WHY — otherwise one message stores one fresh identifier under two keys and `Uniq` is lost.
-/
namespace Bobo.Decider
open Bobo.Run
set_option linter.unusedSimpArgs false
set_option linter.unusedVariables false
variable {ε : Type}

/-! ### the predicates -/

/-- no stored run is remembered as finished -/
def Fresh (s : DState ε) : Prop :=
  ∀ ph pa id r, s.table.runAt ph pa id = some r → inCache s.cacheC id = false ∧ inCache s.cacheH id = false

/-- an identifier is stored under at most one key -/
def Uniq (s : DState ε) : Prop :=
  ∀ ph pa ph' pa' id r r', s.table.runAt ph pa id = some r → s.table.runAt ph' pa' id = some r' → ph = ph' ∧ pa = pa'

/-- only known keys are stored -/
def Known (c : Cfg ε) (s : DState ε) : Prop :=
  ∀ ph pa id r, s.table.runAt ph pa id = some r → (c.getPattern ph pa).isSome = true

/-- the records of a list name each identifier under the key it is (if at all) stored under — what holds in the
real system because a run identifier is issued once, for one (phenomenon, pattern).  (List form of the first half of
`KeyOK` of Lemmas/MixedRun.lean.) -/
def KeyOKL (s : DState ε) (l : List (Rec ε)) : Prop :=
  ∀ rr ∈ l, ∀ ph pa r, s.table.runAt ph pa rr.id = some r → ph = rr.phen ∧ pa = rr.pat

/-- the `updated` list names no identifier under two keys (second half of `KeyOK`). -/
def UpdOK (upd : List (Rec ε)) : Prop :=
  ∀ u ∈ upd, ∀ v ∈ upd, u.id = v.id → u.phen = v.phen ∧ u.pat = v.pat

theorem keyOK_iff (s : DState ε) (comp halt upd : List (Rec ε)) :
    KeyOK s comp halt upd ↔ (KeyOKL s (comp ++ halt ++ upd) ∧ UpdOK upd) := Iff.rfl

/-- `id` is in one of the two memories. -/
def Mem (s : DState ε) (id : String) : Prop := inCache s.cacheC id = true ∨ inCache s.cacheH id = true

theorem fresh_iff (s : DState ε) : Fresh s ↔ ∀ ph pa id r, s.table.runAt ph pa id = some r → ¬ Mem s id := by
  constructor
  · intro h ph pa id r hr hm
    obtain ⟨h1, h2⟩ := h ph pa id r hr
    rcases hm with hm | hm
    · rw [h1] at hm; exact absurd hm (by decide)
    · rw [h2] at hm; exact absurd hm (by decide)
  · intro h ph pa id r hr
    exact ⟨bool_false_of_not_true (fun x => h ph pa id r hr (.inl x)),
      bool_false_of_not_true (fun x => h ph pa id r hr (.inr x))⟩

/-! ### the bounded memories: what is in them afterwards was in them before or has just been appended -/

theorem mem_dqAppend {α} (m : Nat) (q : List α) (x y : α) (h : y ∈ dqAppend m q x) : y ∈ q ∨ y = x := by
  unfold dqAppend at h
  have := List.mem_of_mem_drop h
  simpa using this

theorem mem_dqExtend {α} (m : Nat) (xs : List α) : ∀ (q : List α) (y : α), y ∈ dqExtend m q xs → y ∈ q ∨ y ∈ xs := by
  induction xs with
  | nil => intro q y h; exact .inl h
  | cons x rest ih =>
    intro q y h
    unfold dqExtend at h
    simp only [List.foldl_cons] at h
    rcases ih (dqAppend m q x) y h with h1 | h1
    · rcases mem_dqAppend m q x y h1 with h2 | h2
      · exact .inl h2
      · exact .inr (by rw [h2]; exact List.mem_cons_self ..)
    · exact .inr (List.mem_cons_of_mem _ h1)

theorem inCache_dqExtend (m : Nat) (q xs : List (Rec ε)) (id : String)
    (h : inCache (dqExtend m q xs) id = true) : inCache q id = true ∨ ∃ x ∈ xs, x.id = id := by
  obtain ⟨r, hr, he⟩ := (inCache_true_iff _ _).mp h
  rcases mem_dqExtend m xs q r hr with h1 | h1
  · exact .inl ((inCache_true_iff _ _).mpr ⟨r, h1, he⟩)
  · exact .inr ⟨r, h1, he⟩

theorem maybeCache_memC (c : Cfg ε) (s : DState ε) (a b : List (Rec ε)) (id : String)
    (h : inCache (maybeCache c s a b).cacheC id = true) : inCache s.cacheC id = true ∨ ∃ x ∈ a, x.id = id := by
  unfold maybeCache at h
  split at h
  · exact inCache_dqExtend _ _ _ _ h
  · exact .inl h

theorem maybeCache_memH (c : Cfg ε) (s : DState ε) (a b : List (Rec ε)) (id : String)
    (h : inCache (maybeCache c s a b).cacheH id = true) : inCache s.cacheH id = true ∨ ∃ x ∈ b, x.id = id := by
  unfold maybeCache at h
  split at h
  · exact inCache_dqExtend _ _ _ _ h
  · exact .inl h

theorem maybeCache_mem (c : Cfg ε) (s : DState ε) (a b : List (Rec ε)) (id : String)
    (h : Mem (maybeCache c s a b) id) : Mem s id ∨ ∃ x ∈ a ++ b, x.id = id := by
  rcases h with h | h
  · rcases maybeCache_memC c s a b id h with h1 | ⟨x, hx, he⟩
    · exact .inl (.inl h1)
    · exact .inr ⟨x, List.mem_append.mpr (.inl hx), he⟩
  · rcases maybeCache_memH c s a b id h with h1 | ⟨x, hx, he⟩
    · exact .inl (.inr h1)
    · exact .inr ⟨x, List.mem_append.mpr (.inr hx), he⟩

/-! ### the configuration: a singleton pattern found under a key makes the key a singleton key -/

theorem singKey_of_cfgWF (c : Cfg ε) (hcw : CfgWF c) (ph pa : String) (p : Pattern ε)
    (hp : c.getPattern ph pa = some p) (hsg : p.singleton = true) : SingKey c ph pa := by
  intro P hP hPn p' hp' hp'n
  have := hcw P hP p' hp'
  rw [hPn, hp'n, hp] at this
  simp only [Option.some.injEq] at this
  rw [← this]; exact hsg

/-! ### one completed / halted record (`removeOne`) -/

/-- the three things `removeOne` can do to the state: nothing (unknown pattern); remove the record's own identifier
at the record's key; or (singleton pattern, the one local run has ANOTHER identifier) remove that local run and
memorise its record. -/
theorem removeOne_cases (c : Cfg ε) (b : Bool) (s : DState ε) (out : List (Rec ε)) (rr : Rec ε) :
    (c.getPattern rr.phen rr.pat = none ∧ (removeOne c b (s, out) rr).1 = s) ∨
    (∃ p, c.getPattern rr.phen rr.pat = some p ∧
      (removeOne c b (s, out) rr).1 = { s with table := s.table.remove rr.phen rr.pat rr.id }) ∨
    (∃ p rl, c.getPattern rr.phen rr.pat = some p ∧ p.singleton = true ∧
      (s.table.runsFrom rr.phen rr.pat).head? = some rl ∧ rr.id ≠ rl.run.id ∧
      (removeOne c b (s, out) rr).1 =
        maybeCache c { s with table := s.table.remove rr.phen rr.pat rl.run.id }
          (if b then [rl.ser rr.phen] else []) (if b then [] else [rl.ser rr.phen])) := by
  unfold removeOne
  cases hp : c.getPattern rr.phen rr.pat with
  | none => exact .inl ⟨rfl, rfl⟩
  | some p =>
    right
    simp only
    split
    · rename_i rl heq
      have hsg : p.singleton = true := by
        cases h : p.singleton with
        | true => rfl
        | false => simp [h] at heq
      simp only [hsg, if_true] at heq
      by_cases hid : rr.id = rl.run.id
      · left
        refine ⟨p, rfl, ?_⟩
        have : (rr.id != rl.run.id) = false := by simp [hid]
        simp only [this, Bool.false_eq_true, if_false]
        rw [hid]
      · right
        refine ⟨p, rl, rfl, hsg, heq, hid, ?_⟩
        have : (rr.id != rl.run.id) = true := by simpa using hid
        simp only [this, if_true]
    · left
      exact ⟨p, rfl, rfl⟩

theorem runAt_remove_some (t : Table ε) (a b x ph pa id : String) (r : LRun ε)
    (h : (t.remove a b x).runAt ph pa id = some r) : t.runAt ph pa id = some r := by
  rw [runAt_remove] at h
  split at h
  · exact absurd h (by simp)
  · exact h

/-- the table only shrinks. -/
theorem removeOne_shrink (c : Cfg ε) (b : Bool) (s : DState ε) (out : List (Rec ε)) (rr : Rec ε)
    (ph pa id : String) (r : LRun ε)
    (h : (removeOne c b (s, out) rr).1.table.runAt ph pa id = some r) : s.table.runAt ph pa id = some r := by
  rcases removeOne_cases c b s out rr with ⟨_, e⟩ | ⟨p, _, e⟩ | ⟨p, rl, _, _, _, _, e⟩
  · rw [e] at h; exact h
  · rw [e] at h; exact runAt_remove_some _ _ _ _ _ _ _ _ h
  · rw [e, maybeCache_table] at h; exact runAt_remove_some _ _ _ _ _ _ _ _ h

theorem runAt_of_head (t : Table ε) (ph pa : String) (rl : LRun ε) (h : (t.runsFrom ph pa).head? = some rl) :
    t.runAt ph pa rl.run.id = some rl := by
  rw [runAt_def]
  cases hr : t.runsFrom ph pa with
  | nil => simp [hr] at h
  | cons a l =>
    simp only [hr, List.head?_cons, Option.some.injEq] at h
    subst h
    simp [List.find?_cons]

/-- afterwards the record's identifier is not stored under the record's key (known pattern). -/
theorem removeOne_gone (c : Cfg ε) (hcw : CfgWF c) (b : Bool) (s : DState ε) (out : List (Rec ε)) (rr : Rec ε)
    (hsi : SingInv c s.table) (hk : (c.getPattern rr.phen rr.pat).isSome = true) :
    (removeOne c b (s, out) rr).1.table.runAt rr.phen rr.pat rr.id = none := by
  rcases removeOne_cases c b s out rr with ⟨e0, _⟩ | ⟨p, _, e⟩ | ⟨p, rl, hp, hsg, _, _, _⟩
  · rw [e0] at hk; exact absurd hk (by simp)
  · rw [e]; simp only; rw [runAt_remove]; simp
  · have hb : Bound s.table rr.phen rr.pat := hsi _ _ (singKey_of_cfgWF c hcw _ _ p hp hsg)
    rw [runAt_def, singleton_finish_empties c b s out rr p hp hsg hb]
    rfl

/-- what is memorised afterwards was memorised before, or was the (one) local run of the record's key and has just
been removed. -/
theorem removeOne_mem (c : Cfg ε) (b : Bool) (s : DState ε) (out : List (Rec ε)) (rr : Rec ε) (id : String)
    (h : Mem (removeOne c b (s, out) rr).1 id) :
    Mem s id ∨ ((∃ r, s.table.runAt rr.phen rr.pat id = some r) ∧
      (removeOne c b (s, out) rr).1.table.runAt rr.phen rr.pat id = none) := by
  rcases removeOne_cases c b s out rr with ⟨_, e⟩ | ⟨p, _, e⟩ | ⟨p, rl, _, _, hhead, _, e⟩
  · rw [e] at h; exact .inl h
  · rw [e] at h; exact .inl h
  · rw [e] at h ⊢
    rcases maybeCache_mem _ _ _ _ _ h with h1 | ⟨x, hx, he⟩
    · exact .inl h1
    · right
      have hx' : x = rl.ser rr.phen := by
        cases b <;> simpa using hx
      have hid : id = rl.run.id := by rw [← he, hx']; rfl
      rw [hid, maybeCache_table]
      refine ⟨⟨rl, runAt_of_head _ _ _ _ hhead⟩, ?_⟩
      simp only; rw [runAt_remove]; simp

/-! ### the invariant threaded through the three loops of `on_distributed_update` -/

/-- identifier discipline relative to a list `L` of records and a predicate `P` on identifiers ("issued"): no
identifier under two keys, known keys only, singleton buckets bounded, the records of `L` respect the keys, every
stored or memorised identifier satisfies `P`. -/
structure RInv (c : Cfg ε) (P : String → Prop) (L : List (Rec ε)) (s : DState ε) : Prop where
  uniq : Uniq s
  known : Known c s
  sing : SingInv c s.table
  key : KeyOKL s L
  tblP : ∀ ph pa id r, s.table.runAt ph pa id = some r → P id
  memP : ∀ id, Mem s id → P id

theorem RInv.weaken {c : Cfg ε} {P : String → Prop} {L L' : List (Rec ε)} {s : DState ε} (h : RInv c P L s)
    (hsub : ∀ x ∈ L', x ∈ L) : RInv c P L' s :=
  ⟨h.uniq, h.known, h.sing, fun x hx => h.key x (hsub x hx), h.tblP, h.memP⟩

/-- every stored identifier that is memorised is the identifier of a record still to be processed. -/
def Pend (s : DState ε) (pend : List (Rec ε)) : Prop :=
  ∀ ph pa id r, s.table.runAt ph pa id = some r → Mem s id → ∃ x ∈ pend, x.id = id

theorem fresh_of_pend_nil (s : DState ε) (h : Pend s []) : Fresh s := by
  rw [fresh_iff]
  intro ph pa id r hr hm
  obtain ⟨x, hx, _⟩ := h ph pa id r hr hm
  simp at hx

theorem RInv.maybeCache {c : Cfg ε} {P : String → Prop} {L : List (Rec ε)} {s : DState ε} (h : RInv c P L s)
    (a b : List (Rec ε)) (hP : ∀ x ∈ a ++ b, P x.id) : RInv c P L (maybeCache c s a b) := by
  refine ⟨?_, ?_, ?_, ?_, ?_, ?_⟩
  · intro ph pa ph' pa' id r r' h1 h2
    rw [maybeCache_table] at h1 h2
    exact h.uniq _ _ _ _ _ r r' h1 h2
  · intro ph pa id r h1
    rw [maybeCache_table] at h1
    exact h.known _ _ _ r h1
  · rw [maybeCache_table]; exact h.sing
  · intro x hx ph pa r h1
    rw [maybeCache_table] at h1
    exact h.key x hx ph pa r h1
  · intro ph pa id r h1
    rw [maybeCache_table] at h1
    exact h.tblP _ _ _ r h1
  · intro id hm
    rcases maybeCache_mem c s a b id hm with h1 | ⟨x, hx, he⟩
    · exact h.memP id h1
    · rw [← he]; exact hP x hx

theorem pend_maybeCache (c : Cfg ε) (s : DState ε) (a b : List (Rec ε)) (hF : Fresh s) :
    Pend (maybeCache c s a b) (a ++ b) := by
  intro ph pa id r hr hm
  rw [maybeCache_table] at hr
  rcases maybeCache_mem c s a b id hm with h1 | h1
  · exact absurd h1 ((fresh_iff s).mp hF ph pa id r hr)
  · exact h1

/-- one completed / halted record: the invariant holds again and the record leaves the pending list. -/
theorem removeOne_step (c : Cfg ε) (hcw : CfgWF c) (P : String → Prop) (L : List (Rec ε)) (b : Bool)
    (s : DState ε) (out : List (Rec ε)) (rr : Rec ε) (pend : List (Rec ε)) (hrr : rr ∈ L)
    (hI : RInv c P L s) (hp : Pend s (rr :: pend)) :
    RInv c P L (removeOne c b (s, out) rr).1 ∧ Pend (removeOne c b (s, out) rr).1 pend := by
  have hsh := removeOne_shrink c b s out rr
  constructor
  · refine ⟨?_, ?_, ?_, ?_, ?_, ?_⟩
    · intro ph pa ph' pa' id r r' h1 h2
      exact hI.uniq _ _ _ _ _ r r' (hsh _ _ _ _ h1) (hsh _ _ _ _ h2)
    · intro ph pa id r h1
      exact hI.known _ _ _ r (hsh _ _ _ _ h1)
    · exact removeOne_inv c b (s, out) rr hI.sing
    · intro x hx ph pa r h1
      exact hI.key x hx ph pa r (hsh _ _ _ _ h1)
    · intro ph pa id r h1
      exact hI.tblP _ _ _ r (hsh _ _ _ _ h1)
    · intro id hm
      rcases removeOne_mem c b s out rr id hm with h1 | ⟨⟨r, hr⟩, _⟩
      · exact hI.memP id h1
      · exact hI.tblP _ _ _ r hr
  · intro ph pa id r hr hm
    have hr0 := hsh ph pa id r hr
    rcases removeOne_mem c b s out rr id hm with h1 | ⟨⟨r0, hr0'⟩, hnone⟩
    · obtain ⟨x, hx, he⟩ := hp ph pa id r hr0 h1
      rcases List.mem_cons.mp hx with e | e
      · exfalso
        subst e
        subst he
        obtain ⟨e1, e2⟩ := hI.key x hrr ph pa r hr0
        subst e1 e2
        have := removeOne_gone c hcw b s out x hI.sing (hI.known _ _ _ r hr0)
        rw [this] at hr
        exact absurd hr (by simp)
      · exact ⟨x, e, he⟩
    · exfalso
      obtain ⟨e1, e2⟩ := hI.uniq _ _ _ _ _ r r0 hr0 hr0'
      subst e1 e2
      rw [hnone] at hr
      exact absurd hr (by simp)

theorem fold_removeOne_inv (c : Cfg ε) (hcw : CfgWF c) (P : String → Prop) (L : List (Rec ε)) (b : Bool)
    (tail : List (Rec ε)) : ∀ (l : List (Rec ε)) (st : DState ε × List (Rec ε)), (∀ rr ∈ l, rr ∈ L) →
      RInv c P L st.1 → Pend st.1 (l ++ tail) →
      RInv c P L (l.foldl (removeOne c b) st).1 ∧ Pend (l.foldl (removeOne c b) st).1 tail := by
  intro l
  induction l with
  | nil => intro st _ hI hp; exact ⟨hI, hp⟩
  | cons rr rest ih =>
    intro st hsub hI hp
    obtain ⟨s, out⟩ := st
    simp only [List.foldl_cons]
    obtain ⟨h1, h2⟩ := removeOne_step c hcw P L b s out rr (rest ++ tail) (hsub rr (List.mem_cons_self ..)) hI hp
    exact ih _ (fun x hx => hsub x (List.mem_cons_of_mem _ hx)) h1 h2

/-! ### one `updated` record (`updateOne`) -/

/-- the three things `updateOne` can do to the state: nothing; `set_block` on a stored run; add a run with the
record's identifier at the record's key (known pattern). -/
theorem updateOne_cases (c : Cfg ε) (f : Rec ε → Run ε → Bool) (s : DState ε) (out : List (Rec ε)) (rr : Rec ε)
    (st' : DState ε × List (Rec ε)) (hs : updateOne c f (s, out) rr = some st') :
    st'.1 = s ∨
    (∃ x, st'.1 = { s with table := s.table.setBlock rr.phen rr.pat x rr.idx rr.hist }) ∨
    (∃ p nr t', c.getPattern rr.phen rr.pat = some p ∧ nr.run.id = rr.id ∧
      s.table.add rr.phen rr.pat nr = some t' ∧ st'.1 = { s with table := t' }) := by
  unfold updateOne at hs
  cases hp : c.getPattern rr.phen rr.pat with
  | none => simp only [hp, Option.some.injEq] at hs; subst hs; exact .inl rfl
  | some p =>
    simp only [hp] at hs
    split at hs
    · rename_i rl _
      by_cases ha : f rr rl.run = true
      · right; left
        refine ⟨rl.run.id, ?_⟩
        split at hs <;> simp only [Option.some.injEq] at hs <;> subst hs <;> simp only [ha, if_true]
      · left
        split at hs <;> simp only [Option.some.injEq] at hs <;> subst hs <;> simp only [ha, if_false]
    · split at hs
      · exact absurd hs (by simp)
      · rename_i t' hadd
        simp only [Option.some.injEq] at hs; subst hs
        right; right
        exact ⟨p, _, t', rfl, rfl, hadd, rfl⟩

theorem updateOne_caches (c : Cfg ε) (f : Rec ε → Run ε → Bool) (s : DState ε) (out : List (Rec ε)) (rr : Rec ε)
    (st' : DState ε × List (Rec ε)) (hs : updateOne c f (s, out) rr = some st') :
    st'.1.cacheC = s.cacheC ∧ st'.1.cacheH = s.cacheH := by
  rcases updateOne_cases c f s out rr st' hs with e | ⟨x, e⟩ | ⟨p, nr, t', _, _, _, e⟩ <;> rw [e] <;> exact ⟨rfl, rfl⟩

/-- a run stored afterwards was stored before under the same key and identifier, or has just been created with the
record's identifier under the record's (known) key. -/
theorem updateOne_source (c : Cfg ε) (f : Rec ε → Run ε → Bool) (s : DState ε) (out : List (Rec ε)) (rr : Rec ε)
    (st' : DState ε × List (Rec ε)) (hs : updateOne c f (s, out) rr = some st') (ph pa id : String) (r : LRun ε)
    (h : st'.1.table.runAt ph pa id = some r) :
    (∃ r0, s.table.runAt ph pa id = some r0) ∨
    (ph = rr.phen ∧ pa = rr.pat ∧ id = rr.id ∧ (c.getPattern rr.phen rr.pat).isSome = true) := by
  rcases updateOne_cases c f s out rr st' hs with e | ⟨x, e⟩ | ⟨p, nr, t', hp, hid, hadd, e⟩
  · rw [e] at h; exact .inl ⟨r, h⟩
  · rw [e] at h
    simp only at h
    rw [runAt_setBlock] at h
    split at h
    · rename_i hk
      obtain ⟨k1, k2, k3⟩ := hk
      rw [k1, k2, k3]
      cases h0 : s.table.runAt rr.phen rr.pat x with
      | none => rw [h0] at h; exact absurd h (by simp)
      | some r0 => exact .inl ⟨r0, rfl⟩
    · exact .inl ⟨r, h⟩
  · rw [e] at h
    simp only at h
    rw [runAt_add _ _ _ _ _ hadd] at h
    split at h
    · rename_i hk
      right
      exact ⟨hk.1, hk.2.1, hk.2.2.trans hid, by rw [hp]; rfl⟩
    · exact .inl ⟨r, h⟩

/-- one `updated` record whose identifier is in neither memory: the invariant and freshness hold again; the memories
are untouched. -/
theorem updateOne_step (c : Cfg ε) (P : String → Prop) (L : List (Rec ε)) (f : Rec ε → Run ε → Bool)
    (s : DState ε) (out : List (Rec ε)) (rr : Rec ε) (st' : DState ε × List (Rec ε)) (hrr : rr ∈ L)
    (hupd : UpdOK L) (hPL : ∀ x ∈ L, P x.id) (hI : RInv c P L s) (hF : Fresh s) (hnm : ∀ x ∈ L, ¬ Mem s x.id)
    (hs : updateOne c f (s, out) rr = some st') :
    RInv c P L st'.1 ∧ Fresh st'.1 ∧ (∀ x ∈ L, ¬ Mem st'.1 x.id) ∧
      st'.1.cacheC = s.cacheC ∧ st'.1.cacheH = s.cacheH := by
  have hsrc := updateOne_source c f s out rr st' hs
  obtain ⟨hC, hH⟩ := updateOne_caches c f s out rr st' hs
  have hmem : ∀ id, Mem st'.1 id ↔ Mem s id := by intro id; unfold Mem; rw [hC, hH]
  refine ⟨⟨?_, ?_, ?_, ?_, ?_, ?_⟩, ?_, ?_, hC, hH⟩
  · intro ph pa ph' pa' id r r' h1 h2
    rcases hsrc _ _ _ _ h1 with ⟨r0, h0⟩ | ⟨a1, a2, a3, _⟩ <;>
      rcases hsrc _ _ _ _ h2 with ⟨r0', h0'⟩ | ⟨b1, b2, b3, _⟩
    · exact hI.uniq _ _ _ _ _ r0 r0' h0 h0'
    · rw [b3] at h0
      obtain ⟨e1, e2⟩ := hI.key rr hrr ph pa r0 h0
      exact ⟨e1.trans b1.symm, e2.trans b2.symm⟩
    · rw [a3] at h0'
      obtain ⟨e1, e2⟩ := hI.key rr hrr ph' pa' r0' h0'
      exact ⟨a1.trans e1.symm, a2.trans e2.symm⟩
    · exact ⟨a1.trans b1.symm, a2.trans b2.symm⟩
  · intro ph pa id r h1
    rcases hsrc _ _ _ _ h1 with ⟨r0, h0⟩ | ⟨a1, a2, _, a4⟩
    · exact hI.known _ _ _ r0 h0
    · rw [a1, a2]; exact a4
  · exact updateOne_inv c f (s, out) st' rr hI.sing hs
  · intro x hx ph pa r h1
    rcases hsrc _ _ _ _ h1 with ⟨r0, h0⟩ | ⟨a1, a2, a3, _⟩
    · exact hI.key x hx ph pa r0 h0
    · obtain ⟨e1, e2⟩ := hupd x hx rr hrr a3
      exact ⟨a1.trans e1.symm, a2.trans e2.symm⟩
  · intro ph pa id r h1
    rcases hsrc _ _ _ _ h1 with ⟨r0, h0⟩ | ⟨_, _, a3, _⟩
    · exact hI.tblP _ _ _ r0 h0
    · rw [a3]; exact hPL rr hrr
  · intro id hm
    exact hI.memP id ((hmem id).mp hm)
  · rw [fresh_iff]
    intro ph pa id r h1 hm
    have hm' := (hmem id).mp hm
    rcases hsrc _ _ _ _ h1 with ⟨r0, h0⟩ | ⟨_, _, a3, _⟩
    · exact (fresh_iff s).mp hF _ _ _ r0 h0 hm'
    · rw [a3] at hm'; exact hnm rr hrr hm'
  · intro x hx hm
    exact hnm x hx ((hmem _).mp hm)

/-! ### one `on_distributed_update`, every pattern -/

theorem checkAgainstCache_on (c : Cfg ε) (hc : c.caching = true) (s : DState ε) (comp halt upd : List (Rec ε)) :
    checkAgainstCache c s comp halt upd =
      (comp.filter (fun r => !inCache s.cacheC r.id),
       halt.filter (fun r => !inCache s.cacheC r.id && !inCache s.cacheH r.id),
       upd.filter (fun r => !inCache s.cacheC r.id && !inCache s.cacheH r.id)) := by
  unfold checkAgainstCache; simp only [hc, if_true]

theorem not_mem_of_filter (s : DState ε) (l : List (Rec ε)) (x : Rec ε)
    (hx : x ∈ l.filter (fun r => !inCache s.cacheC r.id && !inCache s.cacheH r.id)) : ¬ Mem s x.id := by
  have hf := (List.mem_filter.mp hx).2
  simp only [Bool.and_eq_true, Bool.not_eq_eq_eq_not, Bool.not_true] at hf
  rintro (h | h)
  · rw [hf.1] at h; exact absurd h (by decide)
  · rw [hf.2] at h; exact absurd h (by decide)

/-- **the core**: one remote message, ANY pattern kind, eviction allowed: freshness and the identifier discipline
(relative to any predicate `P` the message's identifiers satisfy) hold again afterwards. -/
theorem remote_all (c : Cfg ε) (hc : c.caching = true) (hcw : CfgWF c) (P : String → Prop) (f : Rec ε → Run ε → Bool)
    (s s' : DState ε) (comp halt upd : List (Rec ε)) (n : Notif ε)
    (hF : Fresh s) (hI : RInv c P (comp ++ halt ++ upd) s) (hupd : UpdOK upd)
    (hP : ∀ x ∈ comp ++ halt ++ upd, P x.id)
    (hs : remoteStepG f true c s comp halt upd = some (s', n)) :
    Fresh s' ∧ RInv c P [] s' := by
  unfold remoteStepG at hs
  rw [checkAgainstCache_on c hc] at hs
  simp only [if_true] at hs
  generalize hcomp1 : comp.filter (fun r => !inCache s.cacheC r.id) = comp1 at hs
  generalize hhalt1 : halt.filter (fun r => !inCache s.cacheC r.id && !inCache s.cacheH r.id) = halt1 at hs
  generalize hupd1 : upd.filter (fun r => !inCache s.cacheC r.id && !inCache s.cacheH r.id) = upd1 at hs
  have hm1 : ∀ r ∈ comp1, r ∈ comp := fun r hr => by rw [← hcomp1] at hr; exact (List.mem_filter.mp hr).1
  have hm2 : ∀ r ∈ halt1, r ∈ halt := fun r hr => by rw [← hhalt1] at hr; exact (List.mem_filter.mp hr).1
  have hm3 : ∀ r ∈ upd1, r ∈ upd := fun r hr => by rw [← hupd1] at hr; exact (List.mem_filter.mp hr).1
  have hL1 : ∀ r ∈ comp1, r ∈ comp ++ halt ++ upd := fun r hr =>
    List.mem_append.mpr (.inl (List.mem_append.mpr (.inl (hm1 r hr))))
  have hL2 : ∀ r ∈ halt1, r ∈ comp ++ halt ++ upd := fun r hr =>
    List.mem_append.mpr (.inl (List.mem_append.mpr (.inr (hm2 r hr))))
  -- memorise
  have hI1 : RInv c P (comp ++ halt ++ upd) (maybeCache c s comp1 halt1) :=
    hI.maybeCache comp1 halt1 (fun x hx => by
      rcases List.mem_append.mp hx with h | h
      · exact hP x (hL1 x h)
      · exact hP x (hL2 x h))
  have hp1 : Pend (maybeCache c s comp1 halt1) (comp1 ++ halt1) := pend_maybeCache c s comp1 halt1 hF
  -- completed
  obtain ⟨hI2, hp2⟩ := fold_removeOne_inv c hcw P (comp ++ halt ++ upd) true halt1 comp1
    (maybeCache c s comp1 halt1, []) hL1 hI1 hp1
  generalize comp1.foldl (removeOne c true) (maybeCache c s comp1 halt1, []) = st2 at hs hI2 hp2
  obtain ⟨s2, compOut⟩ := st2
  simp only at hs hI2 hp2
  -- halted
  obtain ⟨hI3, hp3⟩ := fold_removeOne_inv c hcw P (comp ++ halt ++ upd) false [] halt1 (s2, []) hL2 hI2
    (by rw [List.append_nil]; exact hp2)
  generalize halt1.foldl (removeOne c false) (s2, []) = st3 at hs hI3 hp3
  obtain ⟨s3, haltOut⟩ := st3
  simp only at hs hI3 hp3
  have hF3 : Fresh s3 := fresh_of_pend_nil s3 hp3
  -- second filter
  rw [checkAgainstCache_on c hc] at hs
  simp only at hs
  generalize hupd2 : upd1.filter (fun r => !inCache s3.cacheC r.id && !inCache s3.cacheH r.id) = upd2 at hs
  have hm4 : ∀ r ∈ upd2, r ∈ upd := fun r hr => by
    rw [← hupd2] at hr; exact hm3 r (List.mem_filter.mp hr).1
  have hnm : ∀ x ∈ upd2, ¬ Mem s3 x.id := fun x hx => by
    rw [← hupd2] at hx; exact not_mem_of_filter s3 upd1 x hx
  have hI3' : RInv c P upd2 s3 := hI3.weaken (fun x hx => List.mem_append.mpr (.inr (hm4 x hx)))
  have hupd2ok : UpdOK upd2 := fun u hu v hv e => hupd u (hm4 u hu) v (hm4 v hv) e
  have hP2 : ∀ x ∈ upd2, P x.id := fun x hx => hP x (List.mem_append.mpr (.inr (hm4 x hx)))
  -- updated
  cases hfold : foldlM' (updateOne c f) (s3, []) upd2 with
  | none => simp [hfold] at hs
  | some st4 =>
    obtain ⟨s4, updOut⟩ := st4
    simp only [hfold, Option.some.injEq, Prod.mk.injEq] at hs
    obtain ⟨e1, _⟩ := hs
    subst e1
    have h4 := foldlM'_inv
      (fun st : DState ε × List (Rec ε) => RInv c P upd2 st.1 ∧ Fresh st.1 ∧ ∀ x ∈ upd2, ¬ Mem st.1 x.id)
      (updateOne c f) upd2
      (fun st rr st' hrr hst hu => by
        obtain ⟨s0, out0⟩ := st
        obtain ⟨a1, a2, a3, _, _⟩ := updateOne_step c P upd2 f s0 out0 rr st' hrr hupd2ok hP2 hst.1 hst.2.1 hst.2.2 hu
        exact ⟨a1, a2, a3⟩)
      (s3, []) (s4, updOut) ⟨hI3', hF3, hnm⟩ hfold
    exact ⟨h4.2.1, h4.1.weaken (fun x hx => by simp at hx)⟩

/-! ### the memories when there is room: exactly appended to, at most one extra record per finished record -/

theorem dqExtend_single_noevict {α} (m : Nat) (q : List α) (x : α) (h : q.length + 1 ≤ m) :
    dqExtend m q [x] = q ++ [x] := by
  unfold dqExtend
  simp only [List.foldl_cons, List.foldl_nil]
  exact dqAppend_noevict m q x h

/-- one completed (`b = true`) / halted (`b = false`) record with room for one more: its own memory gets at most one
record appended (the replaced local run of a singleton pattern), the other memory is untouched. -/
theorem removeOne_cache (c : Cfg ε) (hc : c.caching = true) (b : Bool) (s : DState ε) (out : List (Rec ε))
    (rr : Rec ε) (hroom : (if b then s.cacheC.length else s.cacheH.length) + 1 ≤ c.maxCache) :
    ∃ ex, ex.length ≤ 1 ∧
      (removeOne c b (s, out) rr).1.cacheC = s.cacheC ++ (if b then ex else []) ∧
      (removeOne c b (s, out) rr).1.cacheH = s.cacheH ++ (if b then [] else ex) := by
  rcases removeOne_cases c b s out rr with ⟨_, e⟩ | ⟨p, _, e⟩ | ⟨p, rl, _, _, _, _, e⟩
  · refine ⟨[], by simp, ?_, ?_⟩ <;> rw [e] <;> cases b <;> simp
  · refine ⟨[], by simp, ?_, ?_⟩ <;> rw [e] <;> cases b <;> simp
  · refine ⟨[rl.ser rr.phen], by simp, ?_, ?_⟩
    · rw [e]; unfold maybeCache; simp only [hc, if_true]
      cases b
      · simp [dqExtend]
      · simp only [if_true] at hroom ⊢
        exact dqExtend_single_noevict _ _ _ hroom
    · rw [e]; unfold maybeCache; simp only [hc, if_true]
      cases b
      · simp only [Bool.false_eq_true, if_false] at hroom ⊢
        exact dqExtend_single_noevict _ _ _ hroom
      · simp [dqExtend]

theorem fold_removeOne_cache (c : Cfg ε) (hc : c.caching = true) (b : Bool) :
    ∀ (l : List (Rec ε)) (st : DState ε × List (Rec ε)),
      (if b then st.1.cacheC.length else st.1.cacheH.length) + l.length ≤ c.maxCache →
      ∃ ex, ex.length ≤ l.length ∧
        (l.foldl (removeOne c b) st).1.cacheC = st.1.cacheC ++ (if b then ex else []) ∧
        (l.foldl (removeOne c b) st).1.cacheH = st.1.cacheH ++ (if b then [] else ex) := by
  intro l
  induction l with
  | nil => intro st _; exact ⟨[], by simp, by cases b <;> simp, by cases b <;> simp⟩
  | cons rr rest ih =>
    intro st hroom
    obtain ⟨s, out⟩ := st
    simp only [List.foldl_cons, List.length_cons] at hroom ⊢
    obtain ⟨ex1, hl1, hC1, hH1⟩ := removeOne_cache c hc b s out rr (by cases b <;> simp at hroom ⊢ <;> omega)
    obtain ⟨ex2, hl2, hC2, hH2⟩ := ih (removeOne c b (s, out) rr) (by
      rw [hC1, hH1]
      cases b <;> simp at hroom ⊢ <;> omega)
    refine ⟨ex1 ++ ex2, by simp; omega, ?_, ?_⟩
    · rw [hC2, hC1]; cases b <;> simp
    · rw [hH2, hH1]; cases b <;> simp

theorem fold_updateOne_caches (c : Cfg ε) (f : Rec ε → Run ε → Bool) (l : List (Rec ε))
    (st st' : DState ε × List (Rec ε)) (h : foldlM' (updateOne c f) st l = some st') :
    st'.1.cacheC = st.1.cacheC ∧ st'.1.cacheH = st.1.cacheH := by
  refine foldlM'_inv (fun x : DState ε × List (Rec ε) => x.1.cacheC = st.1.cacheC ∧ x.1.cacheH = st.1.cacheH)
    (updateOne c f) l ?_ st st' ⟨rfl, rfl⟩ h
  intro x rr x' _ hx hu
  obtain ⟨s0, out0⟩ := x
  obtain ⟨a1, a2⟩ := updateOne_caches c f s0 out0 rr x' hu
  exact ⟨a1.trans hx.1, a2.trans hx.2⟩

/-- the memories after one remote message, memory on and room for TWO records per finished record of the message:
the old memories, then the finished records that passed the filter, then the replaced local runs of singleton
patterns. -/
theorem remote_caches (c : Cfg ε) (hc : c.caching = true) (f : Rec ε → Run ε → Bool) (b : Bool)
    (s s' : DState ε) (comp halt upd : List (Rec ε)) (n : Notif ε)
    (hevC : s.cacheC.length + 2 * comp.length ≤ c.maxCache)
    (hevH : s.cacheH.length + 2 * halt.length ≤ c.maxCache)
    (hs : remoteStepG f b c s comp halt upd = some (s', n)) :
    ∃ exC exH,
      s'.cacheC = s.cacheC ++ comp.filter (fun r => !inCache s.cacheC r.id) ++ exC ∧
      s'.cacheH = s.cacheH ++ halt.filter (fun r => !inCache s.cacheC r.id && !inCache s.cacheH r.id) ++ exH := by
  unfold remoteStepG at hs
  rw [checkAgainstCache_on c hc] at hs
  simp only at hs
  have hl1 := List.length_filter_le (fun r : Rec ε => !inCache s.cacheC r.id) comp
  have hl2 := List.length_filter_le (fun r : Rec ε => !inCache s.cacheC r.id && !inCache s.cacheH r.id) halt
  generalize comp.filter (fun r => !inCache s.cacheC r.id) = comp1 at hs hl1
  generalize halt.filter (fun r => !inCache s.cacheC r.id && !inCache s.cacheH r.id) = halt1 at hs hl2
  generalize upd.filter (fun r => !inCache s.cacheC r.id && !inCache s.cacheH r.id) = upd1 at hs
  rw [maybeCache_noevict c hc s comp1 halt1 (by omega) (by omega)] at hs
  obtain ⟨ex1, _, hC1, hH1⟩ := fold_removeOne_cache c hc true comp1
    ({ s with cacheC := s.cacheC ++ comp1, cacheH := s.cacheH ++ halt1 }, [])
    (by simp only [if_true, List.length_append]; omega)
  generalize comp1.foldl (removeOne c true)
    ({ s with cacheC := s.cacheC ++ comp1, cacheH := s.cacheH ++ halt1 }, []) = st2 at hs hC1 hH1
  obtain ⟨s2, compOut⟩ := st2
  simp only [if_true, List.append_nil] at hs hC1 hH1
  obtain ⟨ex2, _, hC2, hH2⟩ := fold_removeOne_cache c hc false halt1 (s2, [])
    (by simp only [Bool.false_eq_true, if_false, hH1, List.length_append]; omega)
  generalize halt1.foldl (removeOne c false) (s2, []) = st3 at hs hC2 hH2
  obtain ⟨s3, haltOut⟩ := st3
  simp only [Bool.false_eq_true, if_false, List.append_nil] at hs hC2 hH2
  generalize (if b = true then (checkAgainstCache c s3 [] [] upd1).2.2 else upd1) = upd2 at hs
  cases hfold : foldlM' (updateOne c f) (s3, []) upd2 with
  | none => simp [hfold] at hs
  | some st4 =>
    obtain ⟨s4, updOut⟩ := st4
    simp only [hfold, Option.some.injEq, Prod.mk.injEq] at hs
    obtain ⟨e1, _⟩ := hs
    subst e1
    obtain ⟨hC4, hH4⟩ := fold_updateOne_caches c f upd2 (s3, []) (s4, updOut) hfold
    simp only at hC4 hH4
    exact ⟨ex1, ex2, by rw [hC4, hC2, hC1], by rw [hH4, hH2, hH1]⟩

/-- **told finished ⇒ memorised** (memory on, room): whatever was memorised still is; every record named completed
is in the completed memory, every record named halted is in one of the two memories. -/
theorem remote_memorised (c : Cfg ε) (hc : c.caching = true) (f : Rec ε → Run ε → Bool) (b : Bool)
    (s s' : DState ε) (comp halt upd : List (Rec ε)) (n : Notif ε)
    (hevC : s.cacheC.length + 2 * comp.length ≤ c.maxCache)
    (hevH : s.cacheH.length + 2 * halt.length ≤ c.maxCache)
    (hs : remoteStepG f b c s comp halt upd = some (s', n)) :
    (∀ id, inCache s.cacheC id = true → inCache s'.cacheC id = true) ∧
    (∀ id, inCache s.cacheH id = true → inCache s'.cacheH id = true) ∧
    (∀ rr ∈ comp, inCache s'.cacheC rr.id = true) ∧
    (∀ rr ∈ halt, inCache s'.cacheC rr.id = true ∨ inCache s'.cacheH rr.id = true) := by
  obtain ⟨exC, exH, hC, hH⟩ := remote_caches c hc f b s s' comp halt upd n hevC hevH hs
  have gC : ∀ id, inCache s.cacheC id = true → inCache s'.cacheC id = true := by
    intro id h; rw [hC, inCache_append, inCache_append, h]; rfl
  have gH : ∀ id, inCache s.cacheH id = true → inCache s'.cacheH id = true := by
    intro id h; rw [hH, inCache_append, inCache_append, h]; rfl
  refine ⟨gC, gH, ?_, ?_⟩
  · intro rr hrr
    by_cases h : inCache s.cacheC rr.id = true
    · exact gC _ h
    · rw [hC]
      apply inCache_of_mem
      exact List.mem_append.mpr (.inl (List.mem_append.mpr (.inr (List.mem_filter.mpr ⟨hrr, by simpa using h⟩))))
  · intro rr hrr
    by_cases h : inCache s.cacheC rr.id = true
    · exact .inl (gC _ h)
    · by_cases h2 : inCache s.cacheH rr.id = true
      · exact .inr (gH _ h2)
      · right
        rw [hH]
        apply inCache_of_mem
        refine List.mem_append.mpr (.inl (List.mem_append.mpr (.inr (List.mem_filter.mpr ⟨hrr, ?_⟩))))
        simp only [Bool.not_eq_true] at h h2
        simp [h, h2]

/-! ### what a remote step REPORTS finished is memorised too (the replaced local runs of singleton patterns) -/

/-- `removeOne_cases` with the list being rebuilt. -/
theorem removeOne_cases2 (c : Cfg ε) (b : Bool) (s : DState ε) (out : List (Rec ε)) (rr : Rec ε) :
    ((removeOne c b (s, out) rr).1 = s ∧ (removeOne c b (s, out) rr).2 = out) ∨
    ((removeOne c b (s, out) rr).1 = { s with table := s.table.remove rr.phen rr.pat rr.id } ∧
      (removeOne c b (s, out) rr).2 = out ++ [rr]) ∨
    (∃ rl : LRun ε, (removeOne c b (s, out) rr).1 =
        maybeCache c { s with table := s.table.remove rr.phen rr.pat rl.run.id }
          (if b then [rl.ser rr.phen] else []) (if b then [] else [rl.ser rr.phen]) ∧
      (removeOne c b (s, out) rr).2 = out ++ [rl.ser rr.phen]) := by
  unfold removeOne
  cases hp : c.getPattern rr.phen rr.pat with
  | none => exact .inl ⟨rfl, rfl⟩
  | some p =>
    right
    simp only
    split
    · rename_i rl heq
      by_cases hid : rr.id = rl.run.id
      · left
        have : (rr.id != rl.run.id) = false := by simp [hid]
        simp only [this, Bool.false_eq_true, if_false, and_true]
        rw [hid]
      · right
        refine ⟨rl, ?_⟩
        have : (rr.id != rl.run.id) = true := by simpa using hid
        simp only [this, if_true, and_self]
    · left
      exact ⟨rfl, rfl⟩

theorem mem_of_cache_append (s s' : DState ε) (xc xh : List (Rec ε)) (hC : s'.cacheC = s.cacheC ++ xc)
    (hH : s'.cacheH = s.cacheH ++ xh) (id : String) (h : Mem s id) : Mem s' id := by
  unfold Mem at *
  rw [hC, hH, inCache_append, inCache_append]
  rcases h with h | h
  · exact .inl (by rw [h]; rfl)
  · exact .inr (by rw [h]; rfl)

/-- one completed / halted record with room: nothing is forgotten, and if the record and the records already in the
rebuilt list are memorised, so is everything in the rebuilt list afterwards. -/
theorem removeOne_out_step (c : Cfg ε) (hc : c.caching = true) (b : Bool) (s : DState ε) (out : List (Rec ε))
    (rr : Rec ε) (hroom : (if b then s.cacheC.length else s.cacheH.length) + 1 ≤ c.maxCache)
    (hrr : Mem s rr.id) (hout : ∀ x ∈ out, Mem s x.id) :
    (∀ id, Mem s id → Mem (removeOne c b (s, out) rr).1 id) ∧
    (∀ x ∈ (removeOne c b (s, out) rr).2, Mem (removeOne c b (s, out) rr).1 x.id) := by
  obtain ⟨ex, _, hC, hH⟩ := removeOne_cache c hc b s out rr hroom
  have hgrow : ∀ id, Mem s id → Mem (removeOne c b (s, out) rr).1 id :=
    fun id h => mem_of_cache_append s _ _ _ hC hH id h
  refine ⟨hgrow, ?_⟩
  intro x hx
  rcases removeOne_cases2 c b s out rr with ⟨_, e2⟩ | ⟨_, e2⟩ | ⟨rl, e1, e2⟩
  · rw [e2] at hx; exact hgrow _ (hout x hx)
  · rw [e2] at hx
    rcases List.mem_append.mp hx with h | h
    · exact hgrow _ (hout x h)
    · simp only [List.mem_singleton] at h; rw [h]; exact hgrow _ hrr
  · rw [e2] at hx
    rcases List.mem_append.mp hx with h | h
    · exact hgrow _ (hout x h)
    · simp only [List.mem_singleton] at h
      rw [h, e1]
      unfold Mem maybeCache
      simp only [hc, if_true]
      cases b
      · right
        simp only [Bool.false_eq_true, if_false] at hroom ⊢
        rw [dqExtend_single_noevict _ _ _ hroom]
        exact inCache_of_mem _ _ (List.mem_append.mpr (.inr (List.mem_singleton.mpr rfl)))
      · left
        simp only [if_true] at hroom ⊢
        rw [dqExtend_single_noevict _ _ _ hroom]
        exact inCache_of_mem _ _ (List.mem_append.mpr (.inr (List.mem_singleton.mpr rfl)))

theorem fold_removeOne_outMem (c : Cfg ε) (hc : c.caching = true) (b : Bool) :
    ∀ (l : List (Rec ε)) (st : DState ε × List (Rec ε)),
      (if b then st.1.cacheC.length else st.1.cacheH.length) + l.length ≤ c.maxCache →
      (∀ rr ∈ l, Mem st.1 rr.id) → (∀ x ∈ st.2, Mem st.1 x.id) →
      (∀ id, Mem st.1 id → Mem (l.foldl (removeOne c b) st).1 id) ∧
      (∀ x ∈ (l.foldl (removeOne c b) st).2, Mem (l.foldl (removeOne c b) st).1 x.id) := by
  intro l
  induction l with
  | nil => intro st _ _ hout; exact ⟨fun _ h => h, hout⟩
  | cons rr rest ih =>
    intro st hroom hl hout
    obtain ⟨s, out⟩ := st
    simp only [List.foldl_cons, List.length_cons] at hroom ⊢
    have hroom1 : (if b then s.cacheC.length else s.cacheH.length) + 1 ≤ c.maxCache := by
      cases b <;> simp at hroom ⊢ <;> omega
    obtain ⟨ex1, hl1, hC1, hH1⟩ := removeOne_cache c hc b s out rr hroom1
    obtain ⟨hg1, ho1⟩ := removeOne_out_step c hc b s out rr hroom1 (hl rr (List.mem_cons_self ..)) hout
    obtain ⟨hg2, ho2⟩ := ih (removeOne c b (s, out) rr)
      (by rw [hC1, hH1]; cases b <;> simp at hroom ⊢ <;> omega)
      (fun x hx => hg1 _ (hl x (List.mem_cons_of_mem _ hx))) ho1
    exact ⟨fun id h => hg2 id (hg1 id h), ho2⟩

/-- memory on, room: **everything a remote notification reports completed or halted is memorised afterwards** — the
remote records that passed the filter and the local runs of singleton patterns that replaced them. -/
theorem remote_reported_memorised (c : Cfg ε) (hc : c.caching = true) (f : Rec ε → Run ε → Bool) (b : Bool)
    (s s' : DState ε) (comp halt upd : List (Rec ε)) (n : Notif ε)
    (hevC : s.cacheC.length + 2 * comp.length ≤ c.maxCache)
    (hevH : s.cacheH.length + 2 * halt.length ≤ c.maxCache)
    (hs : remoteStepG f b c s comp halt upd = some (s', n)) :
    ∀ x ∈ n.completed ++ n.halted, Mem s' x.id := by
  unfold remoteStepG at hs
  rw [checkAgainstCache_on c hc] at hs
  simp only at hs
  have hl1 := List.length_filter_le (fun r : Rec ε => !inCache s.cacheC r.id) comp
  have hl2 := List.length_filter_le (fun r : Rec ε => !inCache s.cacheC r.id && !inCache s.cacheH r.id) halt
  generalize comp.filter (fun r => !inCache s.cacheC r.id) = comp1 at hs hl1
  generalize halt.filter (fun r => !inCache s.cacheC r.id && !inCache s.cacheH r.id) = halt1 at hs hl2
  generalize upd.filter (fun r => !inCache s.cacheC r.id && !inCache s.cacheH r.id) = upd1 at hs
  rw [maybeCache_noevict c hc s comp1 halt1 (by omega) (by omega)] at hs
  have hm1 : ∀ rr ∈ comp1, Mem { s with cacheC := s.cacheC ++ comp1, cacheH := s.cacheH ++ halt1 } rr.id :=
    fun rr hrr => .inl (inCache_of_mem _ rr (List.mem_append.mpr (.inr hrr)))
  have hm2 : ∀ rr ∈ halt1, Mem { s with cacheC := s.cacheC ++ comp1, cacheH := s.cacheH ++ halt1 } rr.id :=
    fun rr hrr => .inr (inCache_of_mem _ rr (List.mem_append.mpr (.inr hrr)))
  have hroomA : (if true = true then
      ({ s with cacheC := s.cacheC ++ comp1, cacheH := s.cacheH ++ halt1 }, ([] : List (Rec ε))).1.cacheC.length
      else ({ s with cacheC := s.cacheC ++ comp1, cacheH := s.cacheH ++ halt1 }, ([] : List (Rec ε))).1.cacheH.length)
      + comp1.length ≤ c.maxCache := by
    simp only [if_true, List.length_append]; omega
  obtain ⟨ex1, _, hC1, hH1⟩ := fold_removeOne_cache c hc true comp1
    ({ s with cacheC := s.cacheC ++ comp1, cacheH := s.cacheH ++ halt1 }, []) hroomA
  obtain ⟨hg12, ho2⟩ := fold_removeOne_outMem c hc true comp1
    ({ s with cacheC := s.cacheC ++ comp1, cacheH := s.cacheH ++ halt1 }, []) hroomA hm1
    (fun x hx => by simp at hx)
  generalize comp1.foldl (removeOne c true)
    ({ s with cacheC := s.cacheC ++ comp1, cacheH := s.cacheH ++ halt1 }, []) = st2 at hs hC1 hH1 hg12 ho2
  obtain ⟨s2, compOut⟩ := st2
  simp only [if_true, List.append_nil] at hs hC1 hH1 hg12 ho2
  have hroomB : (if false = true then (s2, ([] : List (Rec ε))).1.cacheC.length
      else (s2, ([] : List (Rec ε))).1.cacheH.length) + halt1.length ≤ c.maxCache := by
    simp only [Bool.false_eq_true, if_false, hH1, List.length_append]; omega
  obtain ⟨hg23, ho3⟩ := fold_removeOne_outMem c hc false halt1 (s2, []) hroomB
    (fun rr hrr => hg12 _ (hm2 rr hrr)) (fun x hx => by simp at hx)
  generalize halt1.foldl (removeOne c false) (s2, []) = st3 at hs hg23 ho3
  obtain ⟨s3, haltOut⟩ := st3
  simp only at hs hg23 ho3
  generalize (if b = true then (checkAgainstCache c s3 [] [] upd1).2.2 else upd1) = upd2 at hs
  cases hfold : foldlM' (updateOne c f) (s3, []) upd2 with
  | none => simp [hfold] at hs
  | some st4 =>
    obtain ⟨s4, updOut⟩ := st4
    simp only [hfold, Option.some.injEq, Prod.mk.injEq] at hs
    obtain ⟨e1, e2⟩ := hs
    subst e1
    subst e2
    obtain ⟨hC4, hH4⟩ := fold_updateOne_caches c f upd2 (s3, []) (s4, updOut) hfold
    simp only at hC4 hH4
    have hmem4 : ∀ id, Mem s3 id → Mem s4 id := by intro id h; unfold Mem at *; rw [hC4, hH4]; exact h
    intro x hx
    simp only at hx
    rcases List.mem_append.mp hx with h | h
    · exact hmem4 _ (hg23 _ (ho2 x (mem_of_mem_dedupById _ _ h)))
    · exact hmem4 _ (ho3 x (mem_of_mem_dedupById _ _ h))

/-! ### whole executions mixing local events and remote messages, every pattern kind -/

/-- one step of an execution of ONE decider whose own identifiers come from `g`, labelled with the identifiers the
step names FINISHED: its own `update()` on an event (label: what its notification reports completed or halted), or
`on_distributed_update` on an arbitrary message (label: what the message names completed or halted AND what the
notification reports completed or halted — for a singleton pattern the latter may be the local run that was
replaced).  Side conditions: room in the memories (two records per finished record of a message: the record and a
replaced local run); a message does not name an identifier the local generator has yet to issue; a message respects
the keys of the runs it names (`KeyOK`, Lemmas/MixedRun.lean). -/
inductive AllStep (c : Cfg ε) (g : Nat → String) : DState ε → DState ε → List String → Prop
  | loc {s s' : DState ε} {e : ε} {nt : Notif ε} {ch : Bool}
      (hstep : localStep (withIds c g) s e = some (s', nt, ch))
      (hevC : s.cacheC.length + nt.completed.length ≤ c.maxCache)
      (hevH : s.cacheH.length + nt.halted.length ≤ c.maxCache) :
      AllStep c g s s' ((nt.completed ++ nt.halted).map (·.id))
  | rem {s s' : DState ε} {comp halt upd : List (Rec ε)} {nt : Notif ε}
      (hstep : remoteStep (withIds c g) s comp halt upd = some (s', nt))
      (hevC : s.cacheC.length + 2 * comp.length ≤ c.maxCache)
      (hevH : s.cacheH.length + 2 * halt.length ≤ c.maxCache)
      (hfresh : ∀ k, s.nextId ≤ k → g k ∉ msgIds comp halt upd)
      (hkey : KeyOK s comp halt upd) :
      AllStep c g s s' ((comp ++ halt ++ nt.completed ++ nt.halted).map (·.id))

/-- executions from a given state; the list collects, in order, the identifiers named finished. -/
inductive AllFrom (c : Cfg ε) (g : Nat → String) (s0 : DState ε) : DState ε → List String → Prop
  | refl : AllFrom c g s0 s0 []
  | step {s s' : DState ε} {fin x : List String}
      (h : AllFrom c g s0 s fin) (hs : AllStep c g s s' x) : AllFrom c g s0 s' (fin ++ x)

theorem AllFrom.trans {c : Cfg ε} {g : Nat → String} {s0 s1 s2 : DState ε} {f1 f2 : List String}
    (h1 : AllFrom c g s0 s1 f1) (h2 : AllFrom c g s1 s2 f2) : AllFrom c g s0 s2 (f1 ++ f2) := by
  induction h2 with
  | refl => simpa using h1
  | step _ hs ih => rw [← List.append_assoc]; exact .step ih hs

/-- the state invariant of such executions. -/
structure AllInv (c : Cfg ε) (g : Nat → String) (s : DState ε) : Prop where
  wf : TableWF s.table
  ids : IdInv c (NotAhead g s.nextId) s
  sing : SingInv c s.table

theorem allInv_init (c : Cfg ε) (g : Nat → String) : AllInv c g ({} : DState ε) :=
  ⟨(mixedInv_init c g).wf, (mixedInv_init c g).ids, singleton_inv_init c⟩

/-- **one step**: the invariant holds again, nothing memorised is forgotten, and everything the step names finished
is memorised. -/
theorem allInv_step (c : Cfg ε) (hc : c.caching = true) (hcw : CfgWF c) (g : Nat → String)
    (inj : ∀ i j, g i = g j → i = j) (s s' : DState ε) (x : List String)
    (h : AllInv c g s) (hs : AllStep c g s s' x) :
    AllInv c g s' ∧ (∀ id, Mem s id → Mem s' id) ∧ (∀ id ∈ x, Mem s' id) := by
  cases hs with
  | @loc e nt ch hstep hevC hevH =>
    obtain ⟨h1, h2, h3, _⟩ := mixed_local_step c hc hcw g inj s s' e nt ch h.wf h.ids hstep hevC hevH
    refine ⟨⟨h1, h2, localStep_singleton_inv (withIds c g) s s' e nt ch h.sing hstep⟩, ?_, ?_⟩
    · rintro id (hm | hm)
      · exact .inl (h3.growC id hm)
      · exact .inr (h3.growH id hm)
    · intro id hid
      obtain ⟨r, hr, e1⟩ := List.mem_map.mp hid
      rw [← e1]
      rcases List.mem_append.mp hr with hr | hr
      · exact .inl (h3.compNew r hr).2
      · exact .inr (h3.haltNew r hr).2.2
  | @rem comp halt upd nt hstep hevC hevH hfresh hkey =>
    have hc' : (withIds c g).caching = true := hc
    have hcw' : CfgWF (withIds c g) := hcw
    have hI : RInv (withIds c g) (NotAhead g s.nextId) (comp ++ halt ++ upd) s :=
      ⟨h.ids.uniq, h.ids.known, h.sing, hkey.1, h.ids.tbl, fun id hm => h.ids.mem id hm⟩
    have hiss : ∀ r ∈ comp ++ halt ++ upd, NotAhead g s.nextId r.id := by
      intro r hr k hk e1
      exact hfresh k hk (by rw [← e1]; exact List.mem_map.mpr ⟨r, hr, rfl⟩)
    obtain ⟨hF', hI'⟩ := remote_all (withIds c g) hc' hcw' (NotAhead g s.nextId) ahead s s' comp halt upd nt
      h.ids.fresh hI hkey.2 hiss hstep
    have hnext : s'.nextId = s.nextId := (remote_frame ahead true (withIds c g) s s' comp halt upd nt hstep).1
    obtain ⟨gC, gH, m1, m2⟩ := remote_memorised (withIds c g) hc' ahead true s s' comp halt upd nt hevC hevH hstep
    have m3 := remote_reported_memorised (withIds c g) hc' ahead true s s' comp halt upd nt hevC hevH hstep
    refine ⟨⟨wf_remoteStep ahead true (withIds c g) s s' comp halt upd nt h.wf hstep, ?_,
      remoteStep_singleton_inv (withIds c g) ahead true s s' comp halt upd nt h.sing hstep⟩, ?_, ?_⟩
    · rw [hnext]
      exact ⟨hI'.known, hI'.tblP, fun id hm => hI'.memP id hm, hI'.uniq, hF'⟩
    · rintro id (hm | hm)
      · exact .inl (gC id hm)
      · exact .inr (gH id hm)
    · intro id hid
      obtain ⟨r, hr, e1⟩ := List.mem_map.mp hid
      rw [← e1]
      simp only [List.mem_append] at hr
      rcases hr with ((hr | hr) | hr) | hr
      · exact .inl (m1 r hr)
      · exact m2 r hr
      · exact m3 r (List.mem_append.mpr (.inl hr))
      · exact m3 r (List.mem_append.mpr (.inr hr))

/-- along every continuation of an execution: the invariant, nothing forgotten, everything named finished memorised. -/
theorem allInv_from (c : Cfg ε) (hc : c.caching = true) (hcw : CfgWF c) (g : Nat → String)
    (inj : ∀ i j, g i = g j → i = j) (s0 s : DState ε) (fin : List String)
    (h0 : AllInv c g s0) (h : AllFrom c g s0 s fin) :
    AllInv c g s ∧ (∀ id, Mem s0 id → Mem s id) ∧ (∀ id ∈ fin, Mem s id) := by
  induction h with
  | refl => exact ⟨h0, fun _ hm => hm, fun id hid => by simp at hid⟩
  | @step s1 s2 fin1 x _ hs ih =>
    obtain ⟨i1, g1, f1⟩ := ih
    obtain ⟨i2, g2, f2⟩ := allInv_step c hc hcw g inj s1 s2 x i1 hs
    refine ⟨i2, fun id hm => g2 id (g1 id hm), ?_⟩
    intro id hid
    rcases List.mem_append.mp hid with hid | hid
    · exact g2 id (f1 id hid)
    · exact f2 id hid

/-! ### an executable runner (for concrete runs checked by `decide`) -/

/-- run a list of steps from a state, testing every side condition of `AllStep` (`fr n id` tests "`id` is none of
the identifiers the local generator issues from its `n`-th on"); collects the identifiers named finished. -/
def allExec (c : Cfg ε) (g : Nat → String) (fr : Nat → String → Bool) :
    DState ε → List String → List (MStep ε) → Option (DState ε × List String)
  | s, fin, [] => some (s, fin)
  | s, fin, .loc e :: rest =>
    match localStep (withIds c g) s e with
    | none => none
    | some (s', nt, _) =>
      if decide (s.cacheC.length + nt.completed.length ≤ c.maxCache) &&
          decide (s.cacheH.length + nt.halted.length ≤ c.maxCache)
      then allExec c g fr s' (fin ++ (nt.completed ++ nt.halted).map (·.id)) rest else none
  | s, fin, .rem comp halt upd :: rest =>
    match remoteStep (withIds c g) s comp halt upd with
    | none => none
    | some (s', nt) =>
      if decide (s.cacheC.length + 2 * comp.length ≤ c.maxCache) &&
          decide (s.cacheH.length + 2 * halt.length ≤ c.maxCache) &&
          (msgIds comp halt upd).all (fr s.nextId) && keyOKb s comp halt upd
      then allExec c g fr s' (fin ++ (comp ++ halt ++ nt.completed ++ nt.halted).map (·.id)) rest else none

/-- a run of the runner is an execution. -/
theorem allExec_sound (c : Cfg ε) (hc : c.caching = true) (hcw : CfgWF c)
    (g : Nat → String) (inj : ∀ i j, g i = g j → i = j) (fr : Nat → String → Bool)
    (hfr : ∀ n id, fr n id = true → ∀ k, n ≤ k → g k ≠ id) (steps : List (MStep ε)) :
    ∀ (s s' : DState ε) (fin fin' : List String), AllInv c g s →
      allExec c g fr s fin steps = some (s', fin') →
      ∃ ext, fin' = fin ++ ext ∧ AllFrom c g s s' ext := by
  induction steps with
  | nil =>
    intro s s' fin fin' _ h
    simp only [allExec, Option.some.injEq, Prod.mk.injEq] at h
    exact ⟨[], by simp [h.2], by rw [h.1]; exact .refl⟩
  | cons st rest ih =>
    intro s s' fin fin' hinv h
    cases st with
    | loc e =>
      simp only [allExec] at h
      cases hl : localStep (withIds c g) s e with
      | none => simp [hl] at h
      | some v =>
        obtain ⟨s1, nt, ch⟩ := v
        simp only [hl] at h
        split at h
        · rename_i hchk
          rw [Bool.and_eq_true, decide_eq_true_eq, decide_eq_true_eq] at hchk
          have hs : AllStep c g s s1 _ := .loc hl hchk.1 hchk.2
          obtain ⟨ext, e1, hfrom⟩ := ih s1 s' _ fin' (allInv_step c hc hcw g inj s s1 _ hinv hs).1 h
          refine ⟨(nt.completed ++ nt.halted).map (·.id) ++ ext, by rw [e1, List.append_assoc], ?_⟩
          exact AllFrom.trans (by simpa using AllFrom.step (AllFrom.refl (c := c) (g := g) (s0 := s)) hs) hfrom
        · simp at h
    | rem comp halt upd =>
      simp only [allExec] at h
      cases hl : remoteStep (withIds c g) s comp halt upd with
      | none => simp [hl] at h
      | some v =>
        obtain ⟨s1, nt⟩ := v
        simp only [hl] at h
        split at h
        · rename_i hchk
          simp only [Bool.and_eq_true, decide_eq_true_eq] at hchk
          obtain ⟨⟨⟨c1, c2⟩, c3⟩, c4⟩ := hchk
          have hfresh : ∀ k, s.nextId ≤ k → g k ∉ msgIds comp halt upd := by
            intro k hk hm
            exact hfr s.nextId (g k) (List.all_eq_true.mp c3 _ hm) k hk rfl
          have hs : AllStep c g s s1 _ := .rem hl c1 c2 hfresh (keyOK_of_keyOKb s hinv.wf comp halt upd c4)
          obtain ⟨ext, e1, hfrom⟩ := ih s1 s' _ fin' (allInv_step c hc hcw g inj s s1 _ hinv hs).1 h
          refine ⟨(comp ++ halt ++ nt.completed ++ nt.halted).map (·.id) ++ ext, by rw [e1, List.append_assoc], ?_⟩
          exact AllFrom.trans (by simpa using AllFrom.step (AllFrom.refl (c := c) (g := g) (s0 := s)) hs) hfrom
        · simp at h

end Bobo.Decider
