import BoboVerif.Lemmas.TcpLattice
/-!
The outgoing-loop model at the status-lattice level for a WHOLE CLUSTER (one run key): `n` instances, every
instance runs the loop of Model/Tcp.lean (`outIter`, `push`, `incoming`) against every other one; one wire per
ordered pair.  The pair model of Lemmas/TcpLattice.lean (ONE sender, ONE receiver) is recovered by projection:
for every ordered pair `(i, j)`, `i ≠ j`, the cluster run is a run of the pair model (`cluster_projects`), so the
pair invariant `PInv` holds of every projection and `idle_pair_knows_everything` lifts to the cluster
(`idle_cluster_converged`, last section of Props/C06.lean).

* `Cluster n`  : per instance `t` (transport state), `own` (ghost: join of what it announced), `know`;
                 per ordered pair `wire i j` and the ghost `heard i j` (join of what `j` applied from `i`'s wire).
* `CStep n`    : `say`, `pass`, `deliver`, `redeliver`, `incoming`; `cstep`, `crun` (plain `def`s).
* `projStep` / `projSteps` : the `PStep`s that the pair `(i, j)` sees of a cluster step / run.
* `CInv`       : `own i ≤ know i`, `heard i j ≤ know j`, and "nothing is invented": every `know`, every record on
                 a wire, in a queue or in a backlog is `≤ allOwn` (the join of all `own`).

Restarts of an instance are NOT part of this model (see the report in Props/C06.lean).
-/
namespace Bobo.Tcp
open Bobo.Lattice
open Bobo.Net (le_joinAll_of_mem joinAll_le join_mono)

/-! ### one pass invents no record (any record type) -/
section
variable {Rec : Type}

theorem cacheOf_sub (q : List (Msg Rec)) (x : Rec) (hx : x ∈ recs (cacheOf q)) : ∃ m ∈ q, x ∈ recs m := by
  cases q with
  | nil => simp [cacheOf, Msg.empty, recs] at hx
  | cons m rest => exact ⟨m, List.mem_cons_self .., hx⟩

/-- the backlog after a send-loop body: what was there, or what the pass took from the queue. -/
theorem sendPeer_stash_sub (t : MsgType) (seen : Nat) (snap cache : Msg Rec) (err : Nat) (clock : Int) (p : Peer Rec)
    (x : Rec) (hx : x ∈ stashAll (sendPeer t seen snap cache err clock p).1) : x ∈ stashAll p ∨ x ∈ recs cache := by
  rw [mem_stashAll] at hx
  rw [mem_stashAll, mem_recs]
  by_cases herr : err = 0
  · subst herr
    obtain ⟨_, _, _, _, _, hping, hnp⟩ := book_success t seen snap cache clock p
    by_cases ht : t = .ping
    · obtain ⟨h1, h2, h3⟩ := hping ht
      rw [h1, h2, h3] at hx; exact Or.inl hx
    · obtain ⟨h1, h2, h3⟩ := hnp ht
      rw [h1, h2, h3] at hx; simp at hx
  · obtain ⟨_, _, _, _, hs, hr, hp⟩ := book_failure t seen snap cache err herr clock p
    cases t with
    | sync =>
      obtain ⟨h1, h2, h3⟩ := hs rfl
      rw [h1, h2, h3] at hx
      simp only [List.mem_append] at hx
      grind
    | resync =>
      obtain ⟨h1, h2, h3⟩ := hr rfl
      rw [h1, h2, h3] at hx; simp at hx
    | ping =>
      obtain ⟨h1, h2, h3⟩ := hp rfl
      rw [h1, h2, h3] at hx; exact Or.inl hx

/-- the payload of a send-loop body: the snapshot, what the pass took from the queue, or the backlog. -/
theorem payload_sub (t : MsgType) (snap cache : Msg Rec) (p : Peer Rec) (x : Rec)
    (hx : x ∈ recs (payload t snap cache (prep t p))) : x ∈ recs snap ∨ x ∈ recs cache ∨ x ∈ stashAll p := by
  cases t with
  | resync => exact Or.inl hx
  | ping => simp [payload, Msg.empty, recs] at hx
  | sync =>
    simp only [payload, prep, mem_recs, List.mem_append] at hx
    simp only [mem_recs, mem_stashAll]
    grind

/-- **one pass invents nothing**: if every record of the snapshot, of the queue and of the backlogs is `Q`,
so is every record of the queue and of the backlogs after the pass, and every record handed to the wire. -/
theorem outIter_good (Q : Rec → Prop) (s : TState Rec) (now : Int) (snap : Msg Rec) (outcome : Nat → Nat × Int)
    (hsnap : ∀ x ∈ recs snap, Q x) (hq : ∀ m ∈ s.queue, ∀ x ∈ recs m, Q x)
    (hst : ∀ e ∈ s.peers, ∀ x ∈ stashAll e.2, Q x) :
    (∀ m ∈ (outIter s now snap outcome).1.queue, ∀ x ∈ recs m, Q x) ∧
    (∀ e ∈ (outIter s now snap outcome).1.peers, ∀ x ∈ stashAll e.2, Q x) ∧
    (∀ j w, (outIter s now snap outcome).2.find? (fun w => w.peer == j) = some w → ∀ x ∈ recs w.payload, Q x) := by
  have hcache : ∀ x ∈ recs (cacheOf s.queue), Q x := by
    intro x hx
    obtain ⟨m, hm, hxm⟩ := cacheOf_sub s.queue x hx
    exact hq m hm x hxm
  refine ⟨?_, ?_, ?_⟩
  · intro m hm
    rcases outIter_queue s now snap outcome with h | h
    · rw [h] at hm; exact hq m hm
    · rw [h] at hm; exact hq m (List.mem_of_mem_tail hm)
  · intro e' he' x hx
    obtain ⟨j, hj⟩ := List.mem_iff_getElem?.mp he'
    rw [outIter_peer] at hj
    cases he : s.peers[j]? with
    | none => rw [he] at hj; cases hj
    | some e =>
      rw [he] at hj
      simp only [Option.map_some, Option.some.injEq] at hj
      have hemem : e ∈ s.peers := List.mem_iff_getElem?.mpr ⟨j, he⟩
      cases hd : decideEntry s.cfg s.self now s.queue.isEmpty e with
      | none => rw [hd] at hj; subst hj; exact hst e hemem x hx
      | some ts =>
        rw [hd] at hj; subst hj
        simp only [entryAfter] at hx
        rcases sendPeer_stash_sub _ _ _ _ _ _ _ x hx with h | h
        · exact hst e hemem x h
        · exact hcache x h
  · intro j w hw x hx
    rw [outIter_wire] at hw
    cases he : s.peers[j]? with
    | none => rw [he] at hw; cases hw
    | some e =>
      rw [he] at hw
      simp only [Option.bind_some] at hw
      have hemem : e ∈ s.peers := List.mem_iff_getElem?.mpr ⟨j, he⟩
      cases hd : decideEntry s.cfg s.self now s.queue.isEmpty e with
      | none => rw [hd] at hw; cases hw
      | some ts =>
        rw [hd] at hw
        simp only [Option.map_some, Option.some.injEq] at hw
        subst hw
        simp only [wireOf] at hx
        rcases payload_sub _ _ _ _ x hx with h | h | h
        · exact hsnap x h
        · exact hcache x h
        · exact hst e hemem x h

/-- the listener does not touch the backlogs. -/
theorem incomingPeers_stash (peers : List (String × Peer Rec)) (j flags : Nat) (e' : String × Peer Rec)
    (he' : e' ∈ incomingPeers peers j flags) : ∃ e ∈ peers, stashAll e'.2 = stashAll e.2 := by
  unfold incomingPeers at he'
  split at he'
  · exact ⟨e', he', rfl⟩
  · rename_i e he
    rcases List.mem_or_eq_of_mem_set he' with h | h
    · exact ⟨e', h, rfl⟩
    · refine ⟨e, List.mem_iff_getElem?.mpr ⟨j, he⟩, ?_⟩
      subst h
      simp only [onIncomingFlags]
      split <;> rfl

end

/-! ### the cluster -/

/-- pointwise update of a family indexed by the instances. -/
def upd {α : Type} {n : Nat} (f : Fin n → α) (i : Fin n) (v : α) : Fin n → α := fun a => if a = i then v else f a

theorem upd_self {α : Type} {n : Nat} (f : Fin n → α) (i : Fin n) (v : α) : upd f i v i = v := by simp [upd]
theorem upd_ne {α : Type} {n : Nat} (f : Fin n → α) (i : Fin n) (v : α) {a : Fin n} (h : a ≠ i) : upd f i v a = f a := by
  simp [upd, h]

/-- `n` instances, one run key.  Device dict index `j` of every instance's transport state is instance `j`. -/
structure Cluster (n : Nat) where
  t     : Fin n → TState Status                 -- transport state of every instance
  own   : Fin n → Status                        -- ghost: join of everything the instance announced
  know  : Fin n → Status                        -- what the instance knows (its decider's status for the key)
  heard : Fin n → Fin n → Status                -- ghost: join of what `j` applied from `wire i j`
  wire  : Fin n → Fin n → List (Msg Status)     -- sent `i → j` with success reported, not yet applied by `j`

inductive CStep (n : Nat) where
  /-- instance `i` announces a local change (as `PStep.say` for all its pairs). -/
  | say (i : Fin n) (m : Msg Status)
  /-- ONE pass of `i`'s outgoing loop: one `outIter` with the snapshot of `i`'s whole knowledge; for every peer
  whose send was reported successful the payload goes onto `wire i j`. -/
  | pass (i : Fin n) (now : Int) (outcome : Nat → Nat × Int)
  /-- `j` applies the `k`-th message on `wire i j`, which is removed. -/
  | deliver (i j : Fin n) (k : Nat)
  /-- `j` applies the `k`-th message on `wire i j`, which stays there (duplicate delivery). -/
  | redeliver (i j : Fin n) (k : Nat)
  /-- `i`'s listener handles a message from device index `frm` with flags `flags`. -/
  | incoming (i : Fin n) (frm flags : Nat)

/-- the snapshot of a pass: one `updated` record with everything the instance knows (`snapOf` of the pair). -/
def snapK (k : Status) : Msg Status := ⟨[], [], [k]⟩

def cstep {n : Nat} (C : Cluster n) : CStep n → Cluster n
  | .say i m =>
    { C with t := upd C.t i (push (C.t i) m), own := upd C.own i (join (C.own i) (meaning m)),
             know := upd C.know i (join (C.know i) (meaning m)) }
  | .pass i now outcome =>
    { C with t := upd C.t i (outIter (C.t i) now (snapK (C.know i)) outcome).1,
             wire := upd C.wire i (fun j =>
               wireAfter j.val (C.wire i j) (outIter (C.t i) now (snapK (C.know i)) outcome).2 outcome) }
  | .deliver i j k =>
    match (C.wire i j)[k]? with
    | some m =>
      { C with know := upd C.know j (join (C.know j) (meaning m)),
               heard := upd C.heard i (upd (C.heard i) j (join (C.heard i j) (meaning m))),
               wire := upd C.wire i (upd (C.wire i) j ((C.wire i j).eraseIdx k)) }
    | none => C
  | .redeliver i j k =>
    match (C.wire i j)[k]? with
    | some m =>
      { C with know := upd C.know j (join (C.know j) (meaning m)),
               heard := upd C.heard i (upd (C.heard i) j (join (C.heard i j) (meaning m))) }
    | none => C
  | .incoming i frm flags => { C with t := upd C.t i (incoming (C.t i) frm flags) }

def crun {n : Nat} (C : Cluster n) : List (CStep n) → Cluster n
  | [] => C
  | x :: xs => crun (cstep C x) xs

/-- the join of everything announced anywhere. -/
def allOwn {n : Nat} (C : Cluster n) : Status := joinAll ((List.finRange n).map C.own)

/-! ### clocks: the decision clocks of every instance never go backwards -/

/-- the last decision clock of every instance after one more step. -/
def cClock {n : Nat} (L : Fin n → Int) : CStep n → Fin n → Int
  | .pass i now _ => upd L i now
  | _ => L

def cClockOk {n : Nat} (L : Fin n → Int) : CStep n → Prop
  | .pass i now _ => L i ≤ now
  | _ => True

instance {n : Nat} (L : Fin n → Int) (x : CStep n) : Decidable (cClockOk L x) := by
  cases x <;> unfold cClockOk <;> exact inferInstance

/-- per instance, the decision clocks of its passes never go backwards and start at or after `L i`. -/
def CMono {n : Nat} (L : Fin n → Int) : List (CStep n) → Prop
  | [] => True
  | x :: xs => cClockOk L x ∧ CMono (cClock L x) xs

instance decCMono {n : Nat} : (L : Fin n → Int) → (steps : List (CStep n)) → Decidable (CMono L steps)
  | _, [] => isTrue trivial
  | L, x :: xs =>
    have := decCMono (cClock L x) xs
    inferInstanceAs (Decidable (cClockOk L x ∧ CMono (cClock L x) xs))

/-- the decision clock of every instance's last pass. -/
def cLastNow {n : Nat} (L : Fin n → Int) : List (CStep n) → Fin n → Int
  | [] => L
  | x :: xs => cLastNow (cClock L x) xs

/-! ### projection onto the pair `(i, j)` -/

/-- the pair `(i, j)` of the cluster (`ms`: the accounting ghost, which the pair run defines itself). -/
def proj {n : Nat} (C : Cluster n) (i j : Fin n) (ms : List Status) : Pair :=
  { t := C.t i, own := C.own i, knowS := C.know i, knowJ := C.heard i j, wire := C.wire i j, missing := ms }

/-- what the sender `i` learns when it applies the `k`-th message of a wire. -/
def learnOf (w : List (Msg Status)) (k : Nat) : List PStep :=
  match w[k]? with
  | some m => [.learn (meaning m)]
  | none => []

/-- what the pair `(i, j)` sees of one cluster step. -/
def projStep {n : Nat} (i j : Fin n) (C : Cluster n) : CStep n → List PStep
  | .say a m => if a = i then [.say m] else []
  | .pass a now outcome => if a = i then [.pass now outcome] else []
  | .deliver a b k =>
    if a = i ∧ b = j then [.deliver k] else if b = i then learnOf (C.wire a b) k else []
  | .redeliver a b k =>
    if a = i ∧ b = j then [.redeliver k] else if b = i then learnOf (C.wire a b) k else []
  | .incoming a frm flags => if a = i then [.incoming frm flags] else []

def projSteps {n : Nat} (i j : Fin n) : Cluster n → List (CStep n) → List PStep
  | _, [] => []
  | C, x :: xs => projStep i j C x ++ projSteps i j (cstep C x) xs


/-! ### the projection lemma -/

theorem prun_append (j : Nat) (xs ys : List PStep) : ∀ P, prun j P (xs ++ ys) = prun j (prun j P xs) ys := by
  induction xs with
  | nil => intro P; rfl
  | cons x xs ih => intro P; exact ih _

theorem upd2_self {α : Type} {n : Nat} (f : Fin n → Fin n → α) (a b : Fin n) (v : α) :
    upd f a (upd (f a) b v) a b = v := by simp [upd]

theorem upd2_ne {α : Type} {n : Nat} (f : Fin n → Fin n → α) (a b : Fin n) (v : α) {i j : Fin n}
    (h : ¬ (a = i ∧ b = j)) : upd f a (upd (f a) b v) i j = f i j := by
  unfold upd
  by_cases h1 : i = a
  · subst h1
    by_cases h2 : j = b
    · subst h2; exact absurd ⟨rfl, rfl⟩ h
    · simp [h2]
  · simp [h1]

theorem pair_eq_proj {n : Nat} (C : Cluster n) (i j : Fin n) (P : Pair)
    (h1 : P.t = C.t i) (h2 : P.own = C.own i) (h3 : P.knowS = C.know i) (h4 : P.knowJ = C.heard i j)
    (h5 : P.wire = C.wire i j) : P = proj C i j P.missing := by
  cases P; simp_all [proj]

theorem learnOf_none {w : List (Msg Status)} {k : Nat} (h : w[k]? = none) : learnOf w k = [] := by
  simp [learnOf, h]
theorem learnOf_some {w : List (Msg Status)} {k : Nat} {m : Msg Status} (h : w[k]? = some m) :
    learnOf w k = [.learn (meaning m)] := by
  simp [learnOf, h]

theorem proj_step_say {n : Nat} (C : Cluster n) (i j : Fin n) (a : Fin n) (m : Msg Status) (ms : List Status) :
    prun j.val (proj C i j ms) (projStep i j C (.say a m)) =
      proj (cstep C (.say a m)) i j (prun j.val (proj C i j ms) (projStep i j C (.say a m))).missing := by
  by_cases h : a = i
  · subst h
    apply pair_eq_proj <;> simp [projStep, prun, pstep, proj, cstep, upd_self]
  · have h' : i ≠ a := fun e => h e.symm
    apply pair_eq_proj <;> simp [projStep, prun, proj, cstep, h, upd_ne _ _ _ h']

theorem proj_step_pass {n : Nat} (C : Cluster n) (i j : Fin n) (a : Fin n) (now : Int) (outcome : Nat → Nat × Int)
    (ms : List Status) :
    prun j.val (proj C i j ms) (projStep i j C (.pass a now outcome)) =
      proj (cstep C (.pass a now outcome)) i j
        (prun j.val (proj C i j ms) (projStep i j C (.pass a now outcome))).missing := by
  by_cases h : a = i
  · subst h
    apply pair_eq_proj <;> simp [projStep, prun, pstep, proj, cstep, upd_self, snapOf, snapK]
  · have h' : i ≠ a := fun e => h e.symm
    apply pair_eq_proj <;> simp [projStep, prun, proj, cstep, h, upd_ne _ _ _ h']

theorem proj_step_incoming {n : Nat} (C : Cluster n) (i j : Fin n) (a : Fin n) (frm flags : Nat) (ms : List Status) :
    prun j.val (proj C i j ms) (projStep i j C (.incoming a frm flags)) =
      proj (cstep C (.incoming a frm flags)) i j
        (prun j.val (proj C i j ms) (projStep i j C (.incoming a frm flags))).missing := by
  by_cases h : a = i
  · subst h
    apply pair_eq_proj <;> simp [projStep, prun, pstep, proj, cstep, upd_self]
  · have h' : i ≠ a := fun e => h e.symm
    apply pair_eq_proj <;> simp [projStep, prun, proj, cstep, h, upd_ne _ _ _ h']

theorem proj_step_deliver {n : Nat} (C : Cluster n) (i j : Fin n) (hij : i ≠ j) (a b : Fin n) (k : Nat)
    (ms : List Status) :
    prun j.val (proj C i j ms) (projStep i j C (.deliver a b k)) =
      proj (cstep C (.deliver a b k)) i j
        (prun j.val (proj C i j ms) (projStep i j C (.deliver a b k))).missing := by
  have hji : j ≠ i := fun e => hij e.symm
  by_cases h1 : a = i ∧ b = j
  · obtain ⟨rfl, rfl⟩ := h1
    cases hk : (C.wire a b)[k]? with
    | none => apply pair_eq_proj <;> simp [projStep, prun, pstep, proj, cstep, hk]
    | some m =>
      apply pair_eq_proj <;>
        simp [projStep, prun, pstep, proj, cstep, hk, upd2_self, upd_ne _ _ _ hij]
  · by_cases h2 : b = i
    · subst h2
      have h3 : ¬ (a = b ∧ b = j) := h1
      cases hk : (C.wire a b)[k]? with
      | none =>
        apply pair_eq_proj <;> simp [projStep, prun, proj, cstep, hk, h1, learnOf_none hk]
      | some m =>
        apply pair_eq_proj <;>
          simp [projStep, prun, pstep, proj, cstep, hk, h1, learnOf_some hk, upd_self, upd2_ne _ _ _ _ h3]
    · have h2' : i ≠ b := fun e => h2 e.symm
      cases hk : (C.wire a b)[k]? with
      | none => apply pair_eq_proj <;> simp [projStep, prun, proj, cstep, hk, h1, h2]
      | some m =>
        apply pair_eq_proj <;>
          simp [projStep, prun, proj, cstep, hk, h1, h2, upd_ne _ _ _ h2', upd2_ne _ _ _ _ h1]

theorem proj_step_redeliver {n : Nat} (C : Cluster n) (i j : Fin n) (hij : i ≠ j) (a b : Fin n) (k : Nat)
    (ms : List Status) :
    prun j.val (proj C i j ms) (projStep i j C (.redeliver a b k)) =
      proj (cstep C (.redeliver a b k)) i j
        (prun j.val (proj C i j ms) (projStep i j C (.redeliver a b k))).missing := by
  have hji : j ≠ i := fun e => hij e.symm
  by_cases h1 : a = i ∧ b = j
  · obtain ⟨rfl, rfl⟩ := h1
    cases hk : (C.wire a b)[k]? with
    | none => apply pair_eq_proj <;> simp [projStep, prun, pstep, proj, cstep, hk]
    | some m =>
      apply pair_eq_proj <;>
        simp [projStep, prun, pstep, proj, cstep, hk, upd2_self, upd_ne _ _ _ hij]
  · by_cases h2 : b = i
    · subst h2
      have h3 : ¬ (a = b ∧ b = j) := h1
      cases hk : (C.wire a b)[k]? with
      | none =>
        apply pair_eq_proj <;> simp [projStep, prun, proj, cstep, hk, h1, learnOf_none hk]
      | some m =>
        apply pair_eq_proj <;>
          simp [projStep, prun, pstep, proj, cstep, hk, h1, learnOf_some hk, upd_self, upd2_ne _ _ _ _ h3]
    · have h2' : i ≠ b := fun e => h2 e.symm
      cases hk : (C.wire a b)[k]? with
      | none => apply pair_eq_proj <;> simp [projStep, prun, proj, cstep, hk, h1, h2]
      | some m =>
        apply pair_eq_proj <;>
          simp [projStep, prun, proj, cstep, hk, h1, h2, upd_ne _ _ _ h2', upd2_ne _ _ _ _ h1]

/-- **one cluster step is a (possibly empty) run of the pair `(i, j)`**: the projection of the state after the
cluster step is the pair run of `projStep` from the projection of the state before (the ghost `missing` is the
pair run's own). -/
theorem proj_step {n : Nat} (C : Cluster n) (i j : Fin n) (hij : i ≠ j) (x : CStep n) (ms : List Status) :
    prun j.val (proj C i j ms) (projStep i j C x) =
      proj (cstep C x) i j (prun j.val (proj C i j ms) (projStep i j C x)).missing := by
  cases x with
  | say a m => exact proj_step_say C i j a m ms
  | pass a now outcome => exact proj_step_pass C i j a now outcome ms
  | deliver a b k => exact proj_step_deliver C i j hij a b k ms
  | redeliver a b k => exact proj_step_redeliver C i j hij a b k ms
  | incoming a frm flags => exact proj_step_incoming C i j a frm flags ms

/-- **projection lemma**: for every ordered pair `(i, j)`, `i ≠ j`, the cluster run projects onto the run
`projSteps i j C steps` of the pair model. -/
theorem cluster_projects {n : Nat} (i j : Fin n) (hij : i ≠ j) (steps : List (CStep n)) :
    ∀ (C : Cluster n) (ms : List Status),
      ∃ ms', prun j.val (proj C i j ms) (projSteps i j C steps) = proj (crun C steps) i j ms' := by
  induction steps with
  | nil => intro C ms; exact ⟨ms, rfl⟩
  | cons x xs ih =>
    intro C ms
    simp only [projSteps, crun]
    rw [prun_append, proj_step C i j hij x ms]
    exact ih _ _

/-! ### clocks of the projection -/

theorem proj_clock_step {n : Nat} (i j : Fin n) (C : Cluster n) (L : Fin n → Int) (x : CStep n) (rest : List PStep)
    (hok : cClockOk L x) (hrest : PMono (cClock L x i) rest) :
    PMono (L i) (projStep i j C x ++ rest) ∧
      pLastNow (L i) (projStep i j C x ++ rest) = pLastNow (cClock L x i) rest := by
  cases x with
  | say a m =>
    by_cases h : a = i <;> simp only [projStep, h, if_true, if_false, List.cons_append, List.nil_append, PMono, pLastNow] <;>
      exact ⟨hrest, rfl⟩
  | incoming a frm flags =>
    by_cases h : a = i <;> simp only [projStep, h, if_true, if_false, List.cons_append, List.nil_append, PMono, pLastNow] <;>
      exact ⟨hrest, rfl⟩
  | pass a now outcome =>
    by_cases h : a = i
    · subst h
      simp only [cClock, upd_self] at hrest
      simp only [cClockOk] at hok
      simp [projStep, PMono, pLastNow, cClock, upd_self, hok, hrest]
    · have h' : i ≠ a := fun e => h e.symm
      simp only [cClock, upd_ne _ _ _ h'] at hrest
      simp [projStep, h, cClock, upd_ne _ _ _ h', hrest]
  | deliver a b k =>
    simp only [cClock] at hrest
    simp only [projStep, cClock]
    split
    · simp [PMono, pLastNow, hrest]
    · split
      · unfold learnOf; split <;> simp [PMono, pLastNow, hrest]
      · simp [hrest]
  | redeliver a b k =>
    simp only [cClock] at hrest
    simp only [projStep, cClock]
    split
    · simp [PMono, pLastNow, hrest]
    · split
      · unfold learnOf; split <;> simp [PMono, pLastNow, hrest]
      · simp [hrest]

/-- monotone decision clocks per instance give monotone decision clocks of every projection, with the same last
clock. -/
theorem proj_clocks {n : Nat} (i j : Fin n) (steps : List (CStep n)) :
    ∀ (C : Cluster n) (L : Fin n → Int), CMono L steps →
      PMono (L i) (projSteps i j C steps) ∧ pLastNow (L i) (projSteps i j C steps) = cLastNow L steps i := by
  induction steps with
  | nil => intro C L _; exact ⟨trivial, rfl⟩
  | cons x xs ih =>
    intro C L hm
    obtain ⟨h1, h2⟩ := ih (cstep C x) (cClock L x) hm.2
    obtain ⟨h3, h4⟩ := proj_clock_step i j C L x (projSteps i j (cstep C x) xs) hm.1 h1
    exact ⟨h3, by rw [projSteps, h4, h2]; rfl⟩


/-! ### the cluster invariant: an instance knows what it announced and what it heard; nothing is invented -/

theorem own_le_allOwn {n : Nat} (C : Cluster n) (i : Fin n) : C.own i ≤ allOwn C :=
  le_joinAll_of_mem (List.mem_map.mpr ⟨i, List.mem_finRange i, rfl⟩)

theorem allOwn_le {n : Nat} (C : Cluster n) (c : Status) (h : ∀ i, C.own i ≤ c) : allOwn C ≤ c := by
  apply joinAll_le
  intro x hx
  obtain ⟨i, _, rfl⟩ := List.mem_map.mp hx
  exact h i

theorem meaning_le {m : Msg Status} {c : Status} (h : ∀ x ∈ recs m, x ≤ c) : meaning m ≤ c := joinAll_le h

theorem le_meaning {m : Msg Status} {x : Status} (h : x ∈ recs m) : x ≤ meaning m := le_joinAll_of_mem h

theorem le_upd_join {n : Nat} (f : Fin n → Status) (b : Fin n) (v : Status) (c : Fin n) :
    f c ≤ upd f b (join (f b) v) c := by
  unfold upd
  split
  · rename_i h; subst h; exact le_join_left _ _
  · exact le_refl _

structure CInv {n : Nat} (C : Cluster n) : Prop where
  /-- an instance knows what it announced. -/
  ownK   : ∀ i, C.own i ≤ C.know i
  /-- what `j` applied from `i`'s wire is part of what `j` knows. -/
  heardK : ∀ i j, C.heard i j ≤ C.know j
  /-- nothing is invented: knowledge, wires, queues, backlogs are below the join of all announcements. -/
  knowA  : ∀ i, C.know i ≤ allOwn C
  wireA  : ∀ i j, ∀ m ∈ C.wire i j, ∀ x ∈ recs m, x ≤ allOwn C
  queueA : ∀ i, ∀ m ∈ (C.t i).queue, ∀ x ∈ recs m, x ≤ allOwn C
  stashA : ∀ i, ∀ e ∈ (C.t i).peers, ∀ x ∈ stashAll e.2, x ≤ allOwn C

theorem cinv_say {n : Nat} (C : Cluster n) (h : CInv C) (i : Fin n) (m : Msg Status) : CInv (cstep C (.say i m)) := by
  have hA : allOwn C ≤ allOwn (cstep C (.say i m)) := by
    apply allOwn_le
    intro a
    refine le_trans ?_ (own_le_allOwn _ a)
    exact le_upd_join C.own i (meaning m) a
  have hm : meaning m ≤ allOwn (cstep C (.say i m)) := by
    refine le_trans ?_ (own_le_allOwn _ i)
    show meaning m ≤ upd C.own i (join (C.own i) (meaning m)) i
    rw [upd_self]; exact le_join_right _ _
  refine ⟨?_, ?_, ?_, ?_, ?_, ?_⟩
  · intro a
    show upd C.own i _ a ≤ upd C.know i _ a
    by_cases ha : a = i
    · subst ha; rw [upd_self, upd_self]; exact join_mono (h.ownK a) (le_refl _)
    · rw [upd_ne _ _ _ ha, upd_ne _ _ _ ha]; exact h.ownK a
  · intro a b
    exact le_trans (h.heardK a b) (le_upd_join C.know i (meaning m) b)
  · intro a
    show upd C.know i _ a ≤ _
    by_cases ha : a = i
    · subst ha; rw [upd_self]; exact join_le (le_trans (h.knowA a) hA) hm
    · rw [upd_ne _ _ _ ha]; exact le_trans (h.knowA a) hA
  · intro a b m' hm' x hx
    exact le_trans (h.wireA a b m' hm' x hx) hA
  · intro a m' hm' x hx
    have hm'' : m' ∈ (upd C.t i (push (C.t i) m) a).queue := hm'
    by_cases ha : a = i
    · subst ha
      rw [upd_self] at hm''
      simp only [push, List.mem_append, List.mem_singleton] at hm''
      rcases hm'' with h1 | h1
      · exact le_trans (h.queueA a m' h1 x hx) hA
      · subst h1; exact le_trans (le_meaning hx) hm
    · rw [upd_ne _ _ _ ha] at hm''
      exact le_trans (h.queueA a m' hm'' x hx) hA
  · intro a e he x hx
    have he' : e ∈ (upd C.t i (push (C.t i) m) a).peers := he
    by_cases ha : a = i
    · subst ha
      rw [upd_self] at he'
      exact le_trans (h.stashA a e he' x hx) hA
    · rw [upd_ne _ _ _ ha] at he'
      exact le_trans (h.stashA a e he' x hx) hA

theorem cinv_pass {n : Nat} (C : Cluster n) (h : CInv C) (i : Fin n) (now : Int) (outcome : Nat → Nat × Int) :
    CInv (cstep C (.pass i now outcome)) := by
  have hA : allOwn (cstep C (.pass i now outcome)) = allOwn C := rfl
  have hsnap : ∀ x ∈ recs (snapK (C.know i)), x ≤ allOwn C := by
    intro x hx
    simp [snapK, recs] at hx
    subst hx; exact h.knowA i
  obtain ⟨hq, hs, hw⟩ := outIter_good (fun x => x ≤ allOwn C) (C.t i) now (snapK (C.know i)) outcome hsnap
    (h.queueA i) (h.stashA i)
  refine ⟨h.ownK, h.heardK, h.knowA, ?_, ?_, ?_⟩
  · intro a b m hm x hx
    rw [hA]
    have hm' : m ∈ upd C.wire i (fun j => wireAfter j.val (C.wire i j)
        (outIter (C.t i) now (snapK (C.know i)) outcome).2 outcome) a b := hm
    by_cases ha : a = i
    · subst ha
      rw [upd_self] at hm'
      simp only [wireAfter] at hm'
      split at hm'
      · rename_i w hfind
        split at hm'
        · rcases List.mem_append.mp hm' with h1 | h1
          · exact h.wireA a b m h1 x hx
          · simp only [List.mem_singleton] at h1
            subst h1
            exact hw b.val w hfind x hx
        · exact h.wireA a b m hm' x hx
      · exact h.wireA a b m hm' x hx
    · rw [upd_ne _ _ _ ha] at hm'
      exact h.wireA a b m hm' x hx
  · intro a m hm x hx
    rw [hA]
    have hm' : m ∈ (upd C.t i (outIter (C.t i) now (snapK (C.know i)) outcome).1 a).queue := hm
    by_cases ha : a = i
    · subst ha; rw [upd_self] at hm'; exact hq m hm' x hx
    · rw [upd_ne _ _ _ ha] at hm'; exact h.queueA a m hm' x hx
  · intro a e he x hx
    rw [hA]
    have he' : e ∈ (upd C.t i (outIter (C.t i) now (snapK (C.know i)) outcome).1 a).peers := he
    by_cases ha : a = i
    · subst ha; rw [upd_self] at he'; exact hs e he' x hx
    · rw [upd_ne _ _ _ ha] at he'; exact h.stashA a e he' x hx

theorem cinv_incoming {n : Nat} (C : Cluster n) (h : CInv C) (i : Fin n) (frm flags : Nat) :
    CInv (cstep C (.incoming i frm flags)) := by
  have hA : allOwn (cstep C (.incoming i frm flags)) = allOwn C := rfl
  refine ⟨h.ownK, h.heardK, h.knowA, h.wireA, ?_, ?_⟩
  · intro a m hm x hx
    rw [hA]
    have hm' : m ∈ (upd C.t i (incoming (C.t i) frm flags) a).queue := hm
    by_cases ha : a = i
    · subst ha; rw [upd_self] at hm'; exact h.queueA a m hm' x hx
    · rw [upd_ne _ _ _ ha] at hm'; exact h.queueA a m hm' x hx
  · intro a e he x hx
    rw [hA]
    have he' : e ∈ (upd C.t i (incoming (C.t i) frm flags) a).peers := he
    by_cases ha : a = i
    · subst ha
      rw [upd_self] at he'
      obtain ⟨e0, he0, hst⟩ := incomingPeers_stash (C.t a).peers frm flags e he'
      rw [hst] at hx
      exact h.stashA a e0 he0 x hx
    · rw [upd_ne _ _ _ ha] at he'; exact h.stashA a e he' x hx

/-- applying a message that is on a wire (with or without removing it). -/
theorem cinv_apply {n : Nat} (C : Cluster n) (h : CInv C) (i j : Fin n) (k : Nat) (m : Msg Status)
    (hk : (C.wire i j)[k]? = some m) (w' : List (Msg Status)) (hsub : ∀ m', m' ∈ w' → m' ∈ C.wire i j) :
    CInv { C with know := upd C.know j (join (C.know j) (meaning m)),
                  heard := upd C.heard i (upd (C.heard i) j (join (C.heard i j) (meaning m))),
                  wire := upd C.wire i (upd (C.wire i) j w') } := by
  have hmem : m ∈ C.wire i j := List.mem_of_getElem? hk
  have hm : meaning m ≤ allOwn C := meaning_le (h.wireA i j m hmem)
  refine ⟨?_, ?_, ?_, ?_, h.queueA, h.stashA⟩
  · intro a
    exact le_trans (h.ownK a) (le_upd_join C.know j (meaning m) a)
  · intro a b
    show upd C.heard i (upd (C.heard i) j (join (C.heard i j) (meaning m))) a b
      ≤ upd C.know j (join (C.know j) (meaning m)) b
    by_cases hab : i = a ∧ j = b
    · obtain ⟨rfl, rfl⟩ := hab
      rw [upd2_self, upd_self]
      exact join_mono (h.heardK i j) (le_refl _)
    · rw [upd2_ne _ _ _ _ hab]
      exact le_trans (h.heardK a b) (le_upd_join C.know j (meaning m) b)
  · intro a
    show upd C.know j (join (C.know j) (meaning m)) a ≤ allOwn C
    by_cases ha : a = j
    · subst ha; rw [upd_self]; exact join_le (h.knowA a) hm
    · rw [upd_ne _ _ _ ha]; exact h.knowA a
  · intro a b m' hm' x hx
    have hm'' : m' ∈ upd C.wire i (upd (C.wire i) j w') a b := hm'
    show x ≤ allOwn C
    by_cases hab : i = a ∧ j = b
    · obtain ⟨rfl, rfl⟩ := hab
      rw [upd2_self] at hm''
      exact h.wireA i j m' (hsub m' hm'') x hx
    · rw [upd2_ne _ _ _ _ hab] at hm''
      exact h.wireA a b m' hm'' x hx

theorem cstep_deliver_some {n : Nat} (C : Cluster n) (i j : Fin n) (k : Nat) (m : Msg Status)
    (hk : (C.wire i j)[k]? = some m) :
    cstep C (.deliver i j k) =
      { C with know := upd C.know j (join (C.know j) (meaning m)),
               heard := upd C.heard i (upd (C.heard i) j (join (C.heard i j) (meaning m))),
               wire := upd C.wire i (upd (C.wire i) j ((C.wire i j).eraseIdx k)) } := by
  simp only [cstep, hk]

theorem cstep_redeliver_some {n : Nat} (C : Cluster n) (i j : Fin n) (k : Nat) (m : Msg Status)
    (hk : (C.wire i j)[k]? = some m) :
    cstep C (.redeliver i j k) =
      { C with know := upd C.know j (join (C.know j) (meaning m)),
               heard := upd C.heard i (upd (C.heard i) j (join (C.heard i j) (meaning m))) } := by
  simp only [cstep, hk]

theorem upd2_id {α : Type} {n : Nat} (f : Fin n → Fin n → α) (i j : Fin n) : upd f i (upd (f i) j (f i j)) = f := by
  funext a b
  by_cases hab : i = a ∧ j = b
  · obtain ⟨rfl, rfl⟩ := hab; exact upd2_self f i j _
  · exact upd2_ne f i j _ hab

/-- **one step of the cluster preserves the invariant.** -/
theorem cinv_step {n : Nat} (C : Cluster n) (h : CInv C) (x : CStep n) : CInv (cstep C x) := by
  cases x with
  | say i m => exact cinv_say C h i m
  | pass i now outcome => exact cinv_pass C h i now outcome
  | incoming i frm flags => exact cinv_incoming C h i frm flags
  | deliver i j k =>
    cases hk : (C.wire i j)[k]? with
    | none =>
      have : cstep C (.deliver i j k) = C := by simp only [cstep, hk]
      rw [this]; exact h
    | some m =>
      rw [cstep_deliver_some C i j k m hk]
      exact cinv_apply C h i j k m hk _ (fun m' hm' => List.mem_of_mem_eraseIdx hm')
  | redeliver i j k =>
    cases hk : (C.wire i j)[k]? with
    | none =>
      have : cstep C (.redeliver i j k) = C := by simp only [cstep, hk]
      rw [this]; exact h
    | some m =>
      rw [cstep_redeliver_some C i j k m hk]
      have := cinv_apply C h i j k m hk (C.wire i j) (fun _ hm' => hm')
      rw [upd2_id] at this
      exact this

theorem cinv_run {n : Nat} (steps : List (CStep n)) : ∀ (C : Cluster n), CInv C → CInv (crun C steps) := by
  induction steps with
  | nil => intro C h; exact h
  | cons x xs ih => intro C h; exact ih _ (cinv_step C h x)

/-! ### the initial state and the lift of the pair theorem -/

/-- the cluster at the start: nothing announced, known, heard, on a wire, queued or in a backlog; every instance
has a device entry for every other instance (at the dict index of that instance, not its own urn,
`last_comms ≥ 0`); epoch clocks (`period_resync ≤ L0 i`, as `hepoch` of `idle_pair_knows_everything`). -/
structure CInit {n : Nat} (C : Cluster n) (L0 : Fin n → Int) : Prop where
  own0   : ∀ i, C.own i = bot
  know0  : ∀ i, C.know i = bot
  heard0 : ∀ i j, C.heard i j = bot
  wire0  : ∀ i j, C.wire i j = []
  queue0 : ∀ i, (C.t i).queue = []
  stash0 : ∀ i, ∀ e ∈ (C.t i).peers, stashAll e.2 = []
  peer0  : ∀ i j, i ≠ j → ∃ e, (C.t i).peers[j.val]? = some e ∧ e.1 ≠ (C.t i).self ∧ 0 ≤ e.2.lastComms
  epoch  : ∀ i, (C.t i).cfg.periodResync ≤ L0 i

theorem cinv_init {n : Nat} (C : Cluster n) (L0 : Fin n → Int) (h : CInit C L0) : CInv C := by
  refine ⟨?_, ?_, ?_, ?_, ?_, ?_⟩
  · intro i; rw [h.own0]; exact bot_le _
  · intro i j; rw [h.heard0]; exact bot_le _
  · intro i; rw [h.know0]; exact bot_le _
  · intro i j m hm; rw [h.wire0] at hm; cases hm
  · intro i m hm; rw [h.queue0] at hm; cases hm
  · intro i e he x hx; rw [h.stash0 i e he] at hx; cases hx

/-- the pair invariant `PInv` holds of every projection of every cluster run. -/
theorem cluster_pinv {n : Nat} (C0 : Cluster n) (L0 : Fin n → Int) (hinit : CInit C0 L0)
    (steps : List (CStep n)) (hmono : CMono L0 steps) (i j : Fin n) (hij : i ≠ j) :
    ∃ urn ms, PInv j.val urn (proj (crun C0 steps) i j ms) (cLastNow L0 steps i) := by
  obtain ⟨e0, he0, hself, hlc⟩ := hinit.peer0 i j hij
  obtain ⟨ms', hproj⟩ := cluster_projects i j hij steps C0 []
  obtain ⟨hpm, hpl⟩ := proj_clocks i j steps C0 L0 hmono
  have hinv := pinv_run j.val e0.1 (projSteps i j C0 steps) (proj C0 i j []) (L0 i) hpm
    (pinv_init j.val (proj C0 i j []) e0 (L0 i) he0 hself hlc (hinit.own0 i) rfl (hinit.epoch i))
  rw [hproj, hpl] at hinv
  exact ⟨e0.1, ms', hinv⟩

/-- **the pair theorem lifted to the cluster**: if at the end the link `i → j` is idle, `j` has applied, from
`i`'s wire alone, everything `i` ever announced. -/
theorem idle_link_heard {n : Nat} (C0 : Cluster n) (L0 : Fin n → Int) (hinit : CInit C0 L0)
    (steps : List (CStep n)) (hmono : CMono L0 steps) (i j : Fin n) (hij : i ≠ j)
    (L : Int) (hL : cLastNow L0 steps i ≤ L)
    (e : String × Peer Status) (he : ((crun C0 steps).t i).peers[j.val]? = some e)
    (hidle : ¬ (L - e.2.lastComms ≥ ((crun C0 steps).t i).cfg.periodResync))
    (h1 : e.2.stashC = []) (h2 : e.2.stashH = []) (h3 : e.2.stashU = [])
    (hq : ((crun C0 steps).t i).queue = []) (hw : (crun C0 steps).wire i j = []) :
    (crun C0 steps).own i ≤ (crun C0 steps).heard i j := by
  obtain ⟨urn, ms, hinv⟩ := cluster_pinv C0 L0 hinit steps hmono i j hij
  exact (pinv_idle j.val urn _ L (pinv_mono hL hinv) e he hidle h1 h2 h3 hq hw).2

end Bobo.Tcp
