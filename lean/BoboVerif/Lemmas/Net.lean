import BoboVerif.Lemmas.Lattice
/-!
The replication network at the level of one run key: `n` instances, each with a
status it *knows*, ghost `own` = join of everything it announced out of its own
local processing, and per ordered pair the list of statuses *in flight*
(queued, on the wire, or in the backlog).  Steps: a local announcement, delivery
of ANY in-flight message with or without removal (reordering, duplication,
re-delivery), an extra snapshot, and a resync that replaces the whole backlog by
a snapshot (possibly failing, which leaves the pair "resync pending").

Invariant (J1–J4) and the convergence theorem need only that ⊔ is associative,
commutative and idempotent — no enumeration of schedules, and FIFO order per
link is not even required.
-/
namespace Bobo.Net
open Bobo.Lattice

structure St (n : Nat) where
  know    : Fin n → Status
  own     : Fin n → Status                 -- ghost
  flight  : Fin n → Fin n → List Status
  pending : Fin n → Fin n → Bool           -- resync pending: the next message i→j can only be a snapshot

inductive Step (n : Nat) where
  | say (i : Fin n) (d : Status)                       -- local change, announced to every peer
  | deliver (i j : Fin n) (k : Nat) (remove : Bool)    -- j applies the k-th message in flight from i
  | snapshot (i j : Fin n)                             -- i adds its whole state to what is in flight to j
  | resync (i j : Fin n) (ok : Bool)                   -- i drops the backlog for j and sends a snapshot (or fails)

def upd {α} {n : Nat} (f : Fin n → α) (i : Fin n) (v : α) : Fin n → α := fun k => if k = i then v else f k
def upd2 {α} {n : Nat} (f : Fin n → Fin n → α) (i j : Fin n) (v : α) : Fin n → Fin n → α :=
  fun a b => if a = i ∧ b = j then v else f a b

def step {n : Nat} (s : St n) : Step n → St n
  | .say i d =>
    { s with know := upd s.know i (join (s.know i) d), own := upd s.own i (join (s.own i) d),
             flight := fun a b => if a = i ∧ b ≠ i then s.flight a b ++ [d] else s.flight a b }
  | .deliver i j k remove =>
    match (s.flight i j)[k]? with
    | none => s
    | some m =>
      { s with know := upd s.know j (join (s.know j) m),
               flight := if remove then upd2 s.flight i j ((s.flight i j).eraseIdx k) else s.flight }
  | .snapshot i j => { s with flight := upd2 s.flight i j (s.flight i j ++ [s.know i]) }
  | .resync i j ok =>
    if ok then { s with flight := upd2 s.flight i j [s.know i], pending := upd2 s.pending i j false }
    else { s with flight := upd2 s.flight i j [], pending := upd2 s.pending i j true }

def init (n : Nat) : St n where
  know := fun _ => bot
  own := fun _ => bot
  flight := fun _ _ => []
  pending := fun _ _ => false

def allOwn {n : Nat} (s : St n) : Status := joinAll ((List.finRange n).map s.own)

structure Inv {n : Nat} (s : St n) : Prop where
  j1 : ∀ i j, i ≠ j → s.pending i j = true ∨ s.own i ≤ join (s.know j) (joinAll (s.flight i j))
  j2 : ∀ i, s.know i ≤ allOwn s
  j3 : ∀ i j, ∀ m ∈ s.flight i j, m ≤ allOwn s
  j4 : ∀ i, s.own i ≤ s.know i

theorem le_joinAll_of_mem {x : Status} {l : List Status} (h : x ∈ l) : x ≤ joinAll l := by
  induction l with
  | nil => simp at h
  | cons y rest ih =>
    rw [joinAll_cons]
    rcases List.mem_cons.mp h with e | e
    · subst e; exact le_join_left _ _
    · exact le_trans (ih e) (le_join_right _ _)

theorem joinAll_le {l : List Status} {c : Status} (h : ∀ x ∈ l, x ≤ c) : joinAll l ≤ c := by
  induction l with
  | nil => exact bot_le _
  | cons y rest ih =>
    rw [joinAll_cons]
    exact join_le (h y (List.mem_cons_self ..)) (ih (fun x hx => h x (List.mem_cons_of_mem _ hx)))

theorem own_le_allOwn {n : Nat} (s : St n) (i : Fin n) : s.own i ≤ allOwn s :=
  le_joinAll_of_mem (List.mem_map.mpr ⟨i, List.mem_finRange i, rfl⟩)

theorem allOwn_mono {n : Nat} (s t : St n) (h : ∀ i, s.own i ≤ t.own i) : allOwn s ≤ allOwn t := by
  apply joinAll_le
  intro x hx
  obtain ⟨i, _, rfl⟩ := List.mem_map.mp hx
  exact le_trans (h i) (own_le_allOwn t i)

theorem join_mono {a b c d : Status} (h₁ : a ≤ c) (h₂ : b ≤ d) : join a b ≤ join c d :=
  join_le (le_trans h₁ (le_join_left _ _)) (le_trans h₂ (le_join_right _ _))

theorem joinAll_eraseIdx_le (l : List Status) (k : Nat) (m : Status) (h : l[k]? = some m) :
    joinAll l ≤ join m (joinAll (l.eraseIdx k)) := by
  induction l generalizing k with
  | nil => simp at h
  | cons y rest ih =>
    cases k with
    | zero =>
      simp at h; subst h
      simp only [List.eraseIdx_cons_zero]
      rw [joinAll_cons]; exact le_refl _
    | succ k =>
      simp only [List.getElem?_cons_succ] at h
      simp only [List.eraseIdx_cons_succ]
      rw [joinAll_cons, joinAll_cons]
      refine join_le ?_ ?_
      · exact le_trans (le_join_left _ _) (le_join_right _ _)
      · refine le_trans (ih k h) (join_mono (le_refl _) (le_join_right _ _))

theorem inv_init {n : Nat} : Inv (init n) where
  j1 := fun _ _ _ => .inr (bot_le _)
  j2 := fun _ => bot_le _
  j3 := fun _ _ m hm => by simp [init] at hm
  j4 := fun _ => le_refl _

/-- every step of the network preserves the invariant. -/
theorem inv_step {n : Nat} (s : St n) (h : Inv s) (st : Step n) : Inv (step s st) := by
  cases st with
  | say i d =>
    have hown : ∀ k, s.own k ≤ (step s (.say i d)).own k := by
      intro k; simp only [step, upd]; split
      · rename_i e; subst e; exact le_join_left _ _
      · exact le_refl _
    have hall := allOwn_mono s (step s (.say i d)) hown
    have hd : d ≤ allOwn (step s (.say i d)) :=
      le_trans (by simp only [step, upd, if_true]; exact le_join_right _ _) (own_le_allOwn (step s (.say i d)) i)
    constructor
    · intro a b hab
      rcases h.j1 a b hab with hp | hle
      · exact .inl hp
      · right
        simp only [step, upd]
        by_cases ha : a = i
        · subst ha
          have hb : b ≠ a := fun e => hab e.symm
          simp only [if_true, hb, if_false, ne_eq, not_false_eq_true, and_self, joinAll_append]
          have : joinAll [d] = d := by rw [joinAll_cons]; simp [joinAll, join_bot_right]
          rw [this]
          refine join_le (le_trans hle ?_) ?_
          · exact join_mono (le_refl _) (le_join_left _ _)
          · exact le_trans (le_join_right _ d) (le_join_right _ _)
        · simp only [ha, if_false, false_and]
          by_cases hb : b = i
          · subst hb; simp only [if_true]
            exact le_trans hle (join_mono (le_join_left _ _) (le_refl _))
          · simp only [hb, if_false]; exact hle
    · intro a
      simp only [step, upd]
      split
      · rename_i e; subst e; exact join_le (le_trans (h.j2 a) hall) hd
      · exact le_trans (h.j2 a) hall
    · intro a b m hm
      simp only [step] at hm
      split at hm
      · rcases List.mem_append.mp hm with hm | hm
        · exact le_trans (h.j3 a b m hm) hall
        · simp at hm; subst hm; exact hd
      · exact le_trans (h.j3 a b m hm) hall
    · intro a
      simp only [step, upd]
      split
      · rename_i e; subst e; exact join_mono (h.j4 a) (le_refl _)
      · exact h.j4 a
  | deliver i j k remove =>
    simp only [step]
    cases hm : (s.flight i j)[k]? with
    | none => exact h
    | some m =>
      simp only
      have hmem : m ∈ s.flight i j := List.mem_of_getElem? hm
      have hall : ∀ (kn : Fin n → Status) (fl : Fin n → Fin n → List Status),
          allOwn ({ s with know := kn, flight := fl } : St n) = allOwn s := fun _ _ => rfl
      constructor
      · intro a b hab
        rcases h.j1 a b hab with hp | hle
        · exact .inl hp
        · right
          simp only [upd]
          by_cases hb : b = j
          · subst hb
            simp only [if_true]
            cases remove
            · simp only [Bool.false_eq_true, if_false]
              exact le_trans hle (join_mono (le_join_left _ _) (le_refl _))
            · simp only [if_true, upd2]
              by_cases ha : a = i
              · subst ha
                simp only [and_self, if_true]
                refine le_trans hle ?_
                refine join_le (le_trans (le_join_left _ m) (le_join_left _ _)) ?_
                refine le_trans (joinAll_eraseIdx_le _ k m hm) ?_
                exact join_mono (le_join_right _ _) (le_refl _)
              · simp only [ha, false_and, if_false]
                exact le_trans hle (join_mono (le_join_left _ _) (le_refl _))
          · simp only [hb, if_false]
            cases remove
            · simp only [Bool.false_eq_true, if_false]; exact hle
            · simp only [if_true, upd2, hb, and_false, if_false]; exact hle
      · intro a
        simp only [upd]
        rw [hall]
        split
        · rename_i e; subst e; exact join_le (h.j2 a) (h.j3 i a m hmem)
        · exact h.j2 a
      · intro a b x hx
        rw [hall]
        cases remove
        · simp only [Bool.false_eq_true, if_false] at hx; exact h.j3 a b x hx
        · simp only [if_true, upd2] at hx
          split at hx
          · exact h.j3 i j x (List.mem_of_mem_eraseIdx hx)
          · exact h.j3 a b x hx
      · intro a
        simp only [upd]
        split
        · rename_i e; subst e; exact le_trans (h.j4 a) (le_join_left _ _)
        · exact h.j4 a
  | snapshot i j =>
    constructor
    · intro a b hab
      rcases h.j1 a b hab with hp | hle
      · exact .inl hp
      · right
        simp only [step, upd2]
        split
        · rename_i e; obtain ⟨e1, e2⟩ := e; subst e1 e2
          rw [joinAll_append]
          exact le_trans hle (join_mono (le_refl _) (le_join_left _ _))
        · exact hle
    · exact h.j2
    · intro a b x hx
      simp only [step, upd2] at hx
      split at hx
      · rcases List.mem_append.mp hx with hx | hx
        · exact h.j3 i j x hx
        · simp at hx; subst hx; exact h.j2 i
      · exact h.j3 a b x hx
    · exact h.j4
  | resync i j ok =>
    cases ok
    · -- failed: backlog gone, the pair is resync-pending
      constructor
      · intro a b hab
        simp only [step, Bool.false_eq_true, if_false, upd2]
        by_cases e : a = i ∧ b = j
        · left; simp [e]
        · simp only [e, if_false]; exact h.j1 a b hab
      · exact h.j2
      · intro a b x hx
        simp only [step, Bool.false_eq_true, if_false, upd2] at hx
        split at hx
        · simp at hx
        · exact h.j3 a b x hx
      · exact h.j4
    · constructor
      · intro a b hab
        simp only [step, if_true, upd2]
        by_cases e : a = i ∧ b = j
        · right
          obtain ⟨e1, e2⟩ := e; subst e1 e2
          simp only [and_self, if_true]
          have : joinAll [s.know a] = s.know a := by rw [joinAll_cons]; simp [joinAll, join_bot_right]
          rw [this]
          exact le_trans (h.j4 a) (le_join_right _ _)
        · simp only [e, if_false]; exact h.j1 a b hab
      · exact h.j2
      · intro a b x hx
        simp only [step, if_true, upd2] at hx
        split at hx
        · simp at hx; subst hx; exact h.j2 i
        · exact h.j3 a b x hx
      · exact h.j4

def run {n : Nat} (s : St n) (steps : List (Step n)) : St n := steps.foldl step s

theorem inv_run {n : Nat} (s : St n) (h : Inv s) (steps : List (Step n)) : Inv (run s steps) := by
  induction steps generalizing s with
  | nil => exact h
  | cons st rest ih => exact ih (step s st) (inv_step s h st)

/-- nothing queued, stashed or in flight, and no pair waiting for a snapshot. -/
def Quiescent {n : Nat} (s : St n) : Prop := ∀ i j, i ≠ j → s.flight i j = [] ∧ s.pending i j = false

/-- **convergence**: in every reachable quiescent state every instance knows exactly the join of
everything that was ever announced — hence all instances agree. -/
theorem quiescent_know_eq {n : Nat} (s : St n) (h : Inv s) (hq : Quiescent s) (j : Fin n) :
    s.know j = allOwn s := by
  apply le_antisymm (h.j2 j)
  apply joinAll_le
  intro x hx
  obtain ⟨i, _, rfl⟩ := List.mem_map.mp hx
  by_cases e : i = j
  · subst e; exact h.j4 i
  · obtain ⟨hf, hp⟩ := hq i j e
    rcases h.j1 i j e with hp' | hle
    · rw [hp] at hp'; exact absurd hp' (by simp)
    · rw [hf] at hle
      simpa [joinAll, join_bot_right] using hle

theorem convergence {n : Nat} (steps : List (Step n)) (i j : Fin n)
    (hq : Quiescent (run (init n) steps)) :
    (run (init n) steps).know i = (run (init n) steps).know j := by
  have hinv := inv_run _ (inv_init (n := n)) steps
  rw [quiescent_know_eq _ hinv hq i, quiescent_know_eq _ hinv hq j]

end Bobo.Net
