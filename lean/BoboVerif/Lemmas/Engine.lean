import BoboVerif.Model.Engine
/-!
Helper lemmas for C02 (M-Engine): the invariant `Inv` and its preservation by
every atomic step, closure of predicates under the engine loop, the measures
behind loop termination, service and draining.
-/
set_option linter.unusedSimpArgs false
set_option linter.unusedVariables false
namespace Bobo.Engine
variable {σ : Type}

/-! ### the wiring table, evaluated -/

@[simp] theorem subsOf_receiver  : subsOf wiring .receiver  = [.decider] := rfl
@[simp] theorem subsOf_decider   : subsOf wiring .decider   = [.producer] := rfl
@[simp] theorem subsOf_producer  : subsOf wiring .producer  = [.forwarder, .receiver] := rfl
@[simp] theorem subsOf_forwarder : subsOf wiring .forwarder = [.receiver] := rfl

/-! ### what the derived objects must look like -/

/-- the receiver publishes the event itself, or a simple event wrapping the datum. -/
def Wraps : Item → Event → Prop
  | .ev e', e => e = e'
  | .raw d, e => e.kind = .simple ∧ e.data = d

def known (P : Params σ) (x : RunRec × Bool) : Bool := (P.datagenOf x.1.phen).isSome

/-- the content of the complex event for a completed run (everything but id / timestamp). -/
structure CxView where
  phen : String
  pat  : String
  hist : Hist
  data : Data
  loc  : Bool
deriving DecidableEq

def cxOfRun (P : Params σ) (x : RunRec × Bool) : CxView :=
  { phen := x.1.phen, pat := x.1.pat, hist := x.1.hist,
    data := match P.datagenOf x.1.phen with
      | some (some f) => f x.1.hist
      | _ => .none,
    loc := x.2 }

def cxOfEvent (x : Event × Bool) : CxView :=
  { phen := x.1.phen, pat := x.1.pat, hist := x.1.hist, data := x.1.data, loc := x.2 }

/-- does the forwarder enqueue this complex event? -/
def fwdTakes (P : Params σ) (x : Event × Bool) : Bool := !(!x.2 && P.localOnly)

def execOf (P : Params σ) (e : Event) : Option Exec :=
  (P.actionOf e.phen).map fun a => { actName := a.1, cev := e }

def respOf (P : Params σ) (e : Event) : Option Resp :=
  (P.actionOf e.phen).map fun a => { actName := a.1, cev := e, success := (a.2 e).1, data := (a.2 e).2 }

/-- the content of the action event for a response (everything but id / timestamp). -/
structure AcView where
  data : Data
  phen : String
  pat  : String
  actName : String
  success : Bool
deriving DecidableEq

def acOfResp (r : Resp) : AcView :=
  { data := r.data, phen := r.cev.phen, pat := r.cev.pat, actName := r.actName, success := r.success }

def acOfEvent (e : Event) : AcView :=
  { data := e.data, phen := e.phen, pat := e.pat, actName := e.actName, success := e.success }

/-- the conservation invariant: every hand-over in the engine, as list equalities. -/
structure Inv (P : Params σ) (s : St σ) : Prop where
  entered_eq   : s.entered.map (·.2) = s.popped ++ s.rq
  processed_eq : s.processed.map (·.1) = s.popped.filter P.isValid
  wraps        : ∀ p ∈ s.processed, Wraps p.1 p.2
  published_eq : s.published = s.seen ++ s.dq
  completed_eq : s.completedLog.map (fun r => (r, true)) = s.prodPopped ++ s.pq
  complexes_eq : s.complexes.map cxOfEvent = (s.prodPopped.filter (known P)).map (cxOfRun P)
  complex_kind : ∀ x ∈ s.complexes, x.1.kind = .complex
  accepted_eq  : s.fwdAccepted = (s.complexes.filter (fwdTakes P)).map (·.1)
  fwd_eq       : s.fwdAccepted = s.fwdPopped ++ s.fq
  execs_eq     : s.execs = s.fwdPopped.filterMap (execOf P)
  resp_log     : s.respLog = s.fwdPopped.filterMap (respOf P)
  resp_eq      : s.respLog = s.respPopped ++ s.hq
  actions_eq   : s.actions.map acOfEvent = s.respPopped.map acOfResp
  action_kind  : ∀ e ∈ s.actions, e.kind = .action
  fb_prod      : (s.entered.filter (fun x => x.1 == .prod)).map (·.2) = s.complexes.map (fun x => Item.ev x.1)
  fb_fwd       : (s.entered.filter (fun x => x.1 == .fwd)).map (·.2) = s.actions.map Item.ev

theorem inv_init (P : Params σ) (d : σ) : Inv P (init d) := by
  constructor <;> simp [init, St.published]

theorem inv_add (P : Params σ) (it : Item) (s : St σ) (h : Inv P s) : Inv P (addData .ext it s) := by
  obtain ⟨h1, h2, h3, h4, h5, h6, h7, h8, h9, h10, h11, h12, h13, h14, h15, h16⟩ := h
  constructor <;> simp_all [addData, St.published]

theorem inv_clear (P : Params σ) (s : St σ) (h : Inv P s) : Inv P { s with err := none } := by
  obtain ⟨h1, h2, h3, h4, h5, h6, h7, h8, h9, h10, h11, h12, h13, h14, h15, h16⟩ := h
  constructor <;> simp_all [St.published]

theorem inv_recv (P : Params σ) (s : St σ) (h : Inv P s) : Inv P (recvUpdate P s).1 := by
  obtain ⟨h1, h2, h3, h4, h5, h6, h7, h8, h9, h10, h11, h12, h13, h14, h15, h16⟩ := h
  unfold recvUpdate
  split
  · constructor <;> assumption
  · rename_i it rest hq
    simp only [processData]
    by_cases hv : P.isValid it = true
    · cases it with
      | raw d =>
        constructor <;>
          simp_all [St.published, deliverRecv, List.filter_cons, Wraps] <;> grind
      | ev e =>
        constructor <;>
          simp_all [St.published, deliverRecv, List.filter_cons, Wraps] <;> grind
    · constructor <;> simp_all [St.published, List.filter_cons]

theorem inv_dec (P : Params σ) (s : St σ) (h : Inv P s) : Inv P (decUpdate P s).1 := by
  obtain ⟨h1, h2, h3, h4, h5, h6, h7, h8, h9, h10, h11, h12, h13, h14, h15, h16⟩ := h
  unfold decUpdate
  split
  · constructor <;> assumption
  · rename_i e rest hq
    simp only
    split
    · constructor <;> simp_all [St.published, deliverDec]
    · constructor <;> simp_all [St.published]

theorem inv_prod (P : Params σ) (s : St σ) (h : Inv P s) : Inv P (prodUpdate P s).1 := by
  obtain ⟨h1, h2, h3, h4, h5, h6, h7, h8, h9, h10, h11, h12, h13, h14, h15, h16⟩ := h
  unfold prodUpdate
  split
  · constructor <;> assumption
  · rename_i r loc rest hq
    simp only
    split
    · rename_i hk
      constructor <;> simp_all [St.published, List.filter_cons, known]
    · rename_i dg hk
      cases loc <;> cases hlo : P.localOnly <;>
        (constructor <;>
          simp_all [St.published, List.filter_cons, known, deliverProd, addData, mkComplex, cxOfRun, cxOfEvent,
            fwdTakes] <;> grind)

theorem inv_fwdHandle (P : Params σ) (s : St σ) (h : Inv P s) : Inv P (fwdHandle P s).1 := by
  obtain ⟨h1, h2, h3, h4, h5, h6, h7, h8, h9, h10, h11, h12, h13, h14, h15, h16⟩ := h
  unfold fwdHandle
  split
  · constructor <;> assumption
  · rename_i e rest hq
    simp only
    split
    · rename_i hk
      constructor <;> simp_all [St.published, execOf, respOf]
    · rename_i name f hk
      constructor <;> simp_all [St.published, execOf, respOf] <;> grind

theorem inv_fwdResponses (P : Params σ) (s : St σ) (h : Inv P s) : Inv P (fwdResponses P s).1 := by
  obtain ⟨h1, h2, h3, h4, h5, h6, h7, h8, h9, h10, h11, h12, h13, h14, h15, h16⟩ := h
  unfold fwdResponses
  split
  · constructor <;> assumption
  · rename_i r rest hq
    constructor <;>
      simp_all [St.published, deliverFwd, addData, mkAction, acOfEvent, acOfResp] <;> grind

theorem inv_fwd (P : Params σ) (s : St σ) (h : Inv P s) : Inv P (fwdUpdate P s).1 := by
  unfold fwdUpdate
  exact inv_fwdResponses P _ (inv_fwdHandle P s h)

theorem inv_task (P : Params σ) (t : Task) (s : St σ) (h : Inv P s) : Inv P (taskUpdate P t s).1 := by
  cases t
  · exact inv_recv P s h
  · exact inv_dec P s h
  · exact inv_prod P s h
  · exact inv_fwd P s h

/-! ### predicates closed under the atomic steps are closed under the engine loop -/

structure Closed (P : Params σ) (I : St σ → Prop) : Prop where
  task  : ∀ t s, I s → I (taskUpdate P t s).1
  clear : ∀ s, I s → I { s with err := none }

theorem whileLoop_closed {I : St σ → Prop} (upd : St σ → St σ × Bool) (hu : ∀ s, I s → I (upd s).1) :
    ∀ fuel s, I s → I (whileLoop upd fuel s).1 := by
  intro fuel
  induction fuel with
  | zero => intro s h; simpa [whileLoop] using h
  | succ n ih =>
    intro s h
    simp only [whileLoop]
    split
    · exact hu s h
    · split
      · exact ih _ (hu s h)
      · exact hu s h

theorem forLoop_closed {I : St σ → Prop} (upd : St σ → St σ × Bool) (early : Bool) (hu : ∀ s, I s → I (upd s).1) :
    ∀ n s, I s → I (forLoop upd early n s) := by
  intro n
  induction n with
  | zero => intro s h; simpa [forLoop] using h
  | succ n ih =>
    intro s h
    simp only [forLoop]
    split
    · exact hu s h
    · split
      · exact hu s h
      · exact ih _ (hu s h)

theorem runTaskFuel_closed {P : Params σ} {I : St σ → Prop} (ht : ∀ t s, I s → I (taskUpdate P t s).1)
    (c : Cfg) (fuel : Nat) (s : St σ) (tt : Task × Nat) (h : I s) : I (runTaskFuel P c fuel s tt) := by
  unfold runTaskFuel
  split
  · exact h
  · split
    · exact whileLoop_closed _ (ht tt.1) _ _ h
    · exact forLoop_closed _ _ (ht tt.1) _ _ h

theorem foldl_runTask_closed {P : Params σ} {I : St σ → Prop} (ht : ∀ t s, I s → I (taskUpdate P t s).1)
    (c : Cfg) : ∀ (l : List (Task × Nat)) (s : St σ), I s → I (l.foldl (runTask P c) s) := by
  intro l
  induction l with
  | nil => intro s h; simpa using h
  | cons tt l ih => intro s h; exact ih _ (runTaskFuel_closed ht c _ s tt h)

theorem engineUpdate_closed {P : Params σ} {I : St σ → Prop} (hc : Closed P I) (c : Cfg) (s : St σ) (h : I s) :
    I (engineUpdate P c s) :=
  foldl_runTask_closed hc.task c _ _ (hc.clear s h)

theorem runOps_closed {P : Params σ} {I : St σ → Prop} (hc : Closed P I)
    (hadd : ∀ it s, I s → I (addData .ext it s)) (c : Cfg) :
    ∀ (ops : List Op) (s : St σ), I s → I (runOps P c s ops) := by
  intro ops
  induction ops with
  | nil => intro s h; simpa [runOps] using h
  | cons o ops ih =>
    intro s h
    simp only [runOps, List.foldl_cons]
    apply ih
    cases o with
    | add it => exact hadd it s h
    | update => exact engineUpdate_closed hc c s h

theorem inv_closed (P : Params σ) : Closed P (Inv P) := ⟨inv_task P, inv_clear P⟩

/-! ### the effect of one task update on the queue lengths and on the numbers of items taken -/

structure Lens where
  rq : Nat
  dq : Nat
  pq : Nat
  fq : Nat
  hq : Nat
  sR : Nat   -- items the receiver took
  sD : Nat   -- events the decider took
  sP : Nat   -- runs the producer took
  sF : Nat   -- complex events the forwarder took
  sH : Nat   -- responses the forwarder took

def lens (s : St σ) : Lens :=
  ⟨s.rq.length, s.dq.length, s.pq.length, s.fq.length, s.hq.length,
   s.popped.length, s.seen.length, s.prodPopped.length, s.fwdPopped.length, s.respPopped.length⟩

def HandleEff (a b : Lens) : Prop :=
  (a.fq = 0 ∧ b = a) ∨
  (a.fq > 0 ∧ b.fq + 1 = a.fq ∧ b.sF = a.sF + 1 ∧ a.hq ≤ b.hq ∧ b.hq ≤ a.hq + 1 ∧
    b.rq = a.rq ∧ b.dq = a.dq ∧ b.pq = a.pq ∧ b.sR = a.sR ∧ b.sD = a.sD ∧ b.sP = a.sP ∧ b.sH = a.sH)

def RespEff (a b : Lens) : Prop :=
  (a.hq = 0 ∧ b = a) ∨
  (a.hq > 0 ∧ b.hq + 1 = a.hq ∧ b.sH = a.sH + 1 ∧ b.rq = a.rq + 1 ∧
    b.fq = a.fq ∧ b.dq = a.dq ∧ b.pq = a.pq ∧ b.sR = a.sR ∧ b.sD = a.sD ∧ b.sP = a.sP ∧ b.sF = a.sF)

/-- one `update()` of task `t`, seen through the lengths. -/
def Eff : Task → Lens → Lens → Prop
  | .receiver, a, b =>
    (a.rq = 0 ∧ b = a) ∨
    (a.rq > 0 ∧ b.rq + 1 = a.rq ∧ b.sR = a.sR + 1 ∧ a.dq ≤ b.dq ∧ b.dq ≤ a.dq + 1 ∧
      b.pq = a.pq ∧ b.fq = a.fq ∧ b.hq = a.hq ∧ b.sD = a.sD ∧ b.sP = a.sP ∧ b.sF = a.sF ∧ b.sH = a.sH)
  | .decider, a, b =>
    (a.dq = 0 ∧ b = a) ∨
    (a.dq > 0 ∧ b.dq + 1 = a.dq ∧ b.sD = a.sD + 1 ∧ a.pq ≤ b.pq ∧
      b.rq = a.rq ∧ b.fq = a.fq ∧ b.hq = a.hq ∧ b.sR = a.sR ∧ b.sP = a.sP ∧ b.sF = a.sF ∧ b.sH = a.sH)
  | .producer, a, b =>
    (a.pq = 0 ∧ b = a) ∨
    (a.pq > 0 ∧ b.pq + 1 = a.pq ∧ b.sP = a.sP + 1 ∧ a.rq ≤ b.rq ∧ b.rq ≤ a.rq + 1 ∧ a.fq ≤ b.fq ∧ b.fq ≤ a.fq + 1 ∧
      b.dq = a.dq ∧ b.hq = a.hq ∧ b.sR = a.sR ∧ b.sD = a.sD ∧ b.sF = a.sF ∧ b.sH = a.sH)
  | .forwarder, a, b => ∃ m, HandleEff a m ∧ RespEff m b

theorem eff_handle (P : Params σ) (s : St σ) : HandleEff (lens s) (lens (fwdHandle P s).1) := by
  unfold fwdHandle HandleEff
  split
  · rename_i h; left; simp [lens, h]
  · rename_i e rest h
    right
    simp only
    split <;> simp [lens, h]

theorem eff_resp (P : Params σ) (s : St σ) : RespEff (lens s) (lens (fwdResponses P s).1) := by
  unfold fwdResponses RespEff
  split
  · rename_i h; left; simp [lens, h]
  · rename_i r rest h
    right
    simp [lens, h, deliverFwd, addData]

theorem eff_task (P : Params σ) (t : Task) (s : St σ) : Eff t (lens s) (lens (taskUpdate P t s).1) := by
  cases t
  · simp only [taskUpdate, recvUpdate, Eff]
    split
    · rename_i h; left; simp [lens, h]
    · rename_i it rest h
      right
      simp only [processData]
      split
      · simp [lens, h]
      · cases it <;> simp [lens, h, deliverRecv]
  · simp only [taskUpdate, decUpdate, Eff]
    split
    · rename_i h; left; simp [lens, h]
    · rename_i e rest h
      right
      split <;> simp [lens, h, deliverDec]
  · simp only [taskUpdate, prodUpdate, Eff]
    split
    · rename_i h; left; simp [lens, h]
    · rename_i r loc rest h
      right
      split
      · simp [lens, h]
      · simp only [subsOf_producer, List.foldl_cons, List.foldl_nil, deliverProd]
        split <;> simp [lens, h, addData]
  · simp only [taskUpdate, fwdUpdate, Eff]
    exact ⟨_, eff_handle P s, eff_resp P _⟩

/-- an `update()` on empty queue(s) does nothing and returns False. -/
theorem update_empty (P : Params σ) (t : Task) (s : St σ) (h : taskMeasure t s = 0) :
    taskUpdate P t s = (s, false) := by
  cases t <;> simp only [taskMeasure, List.length_eq_zero_iff, Nat.add_eq_zero_iff] at h
  · simp [taskUpdate, recvUpdate, h]
  · simp [taskUpdate, decUpdate, h]
  · simp [taskUpdate, prodUpdate, h]
  · simp [taskUpdate, fwdUpdate, fwdHandle, fwdResponses, h.1, h.2]

theorem taskMeasure_lens (t : Task) (s : St σ) :
    taskMeasure t s = match t with
      | .receiver => (lens s).rq | .decider => (lens s).dq | .producer => (lens s).pq
      | .forwarder => (lens s).fq + (lens s).hq := by
  cases t <;> rfl

/-! ### termination of the `while task.update()` loops -/

theorem update_true_decreases (P : Params σ) (t : Task) (s : St σ) (h : (taskUpdate P t s).2 = true) :
    taskMeasure t (taskUpdate P t s).1 < taskMeasure t s := by
  have hpos : taskMeasure t s ≠ 0 := by
    intro h0; rw [update_empty P t s h0] at h; simp at h
  have he := eff_task P t s
  rw [taskMeasure_lens, taskMeasure_lens] at *
  cases t <;> simp only [Eff, HandleEff, RespEff] at he hpos ⊢
  · omega
  · omega
  · omega
  · obtain ⟨m, h1, h2⟩ := he
    rcases h1 with ⟨h1, rfl⟩ | h1 <;> rcases h2 with ⟨h2, e2⟩ | h2 <;> (try rw [e2]) <;> omega

/-- with fuel above the measure the loop never runs out, and more fuel changes nothing. -/
theorem whileLoop_fuel (upd : St σ → St σ × Bool) (m : St σ → Nat)
    (hm : ∀ s, (upd s).2 = true → m (upd s).1 < m s) :
    ∀ fuel s, m s < fuel →
      (whileLoop upd fuel s).2 = false ∧ ∀ fuel', fuel ≤ fuel' → whileLoop upd fuel' s = whileLoop upd fuel s := by
  intro fuel
  induction fuel with
  | zero => intro s h; omega
  | succ n ih =>
    intro s h
    constructor
    · simp only [whileLoop]
      split
      · rfl
      · split
        · rename_i hb
          exact (ih _ (by have := hm s hb; omega)).1
        · rfl
    · intro fuel' hf
      obtain ⟨k, rfl⟩ : ∃ k, fuel' = k + 1 := ⟨fuel' - 1, by omega⟩
      simp only [whileLoop]
      split
      · rfl
      · split
        · rename_i hb
          exact (ih _ (by have := hm s hb; omega)).2 k (by omega)
        · rfl

/-! ### no exception: every completed run names a phenomenon the producer knows -/

/-- `Q` is an invariant of the matcher state under which every completed run it reports is known to the producer. -/
def StableOut (P : Params σ) (Q : σ → Prop) : Prop :=
  ∀ ds, Q ds → ∀ e, Q (P.decide ds e).1 ∧ ∀ r ∈ (P.decide ds e).2.completed, (P.datagenOf r.phen).isSome = true

/-- under `Q` the matcher completes nothing any more (a feedback-quiet suffix). -/
def Quiet (P : Params σ) (Q : σ → Prop) : Prop :=
  ∀ ds, Q ds → ∀ e, Q (P.decide ds e).1 ∧ (P.decide ds e).2.completed = []

theorem Quiet.stable {P : Params σ} {Q : σ → Prop} (h : Quiet P Q) : StableOut P Q := by
  intro ds hq e
  refine ⟨(h ds hq e).1, ?_⟩
  rw [(h ds hq e).2]; simp

def Healthy (P : Params σ) (Q : σ → Prop) (s : St σ) : Prop :=
  s.err = none ∧ (∀ x ∈ s.pq, (P.datagenOf x.1.phen).isSome = true) ∧ Q s.ds

theorem healthy_task {P : Params σ} {Q : σ → Prop} (hs : StableOut P Q) (t : Task) (s : St σ)
    (h : Healthy P Q s) : Healthy P Q (taskUpdate P t s).1 := by
  obtain ⟨he, hp, hq⟩ := h
  cases t
  · simp only [taskUpdate, recvUpdate]
    split
    · exact ⟨he, hp, hq⟩
    · rename_i it rest h
      simp only [processData]
      split
      · exact ⟨he, hp, hq⟩
      · cases it <;> exact ⟨by simpa [deliverRecv] using he, by simpa [deliverRecv] using hp, by simpa [deliverRecv] using hq⟩
  · simp only [taskUpdate, decUpdate]
    split
    · exact ⟨he, hp, hq⟩
    · rename_i e rest h
      have hd := hs _ hq e
      split
      · refine ⟨by simpa [deliverDec] using he, ?_, by simpa [deliverDec] using hd.1⟩
        intro x hx
        simp only [deliverDec, subsOf_decider, List.foldl_cons, List.foldl_nil, List.mem_append, List.mem_map] at hx
        rcases hx with hx | ⟨r, hr, rfl⟩
        · exact hp x hx
        · exact hd.2 r hr
      · exact ⟨he, fun x hx => hp x hx, hd.1⟩
  · simp only [taskUpdate, prodUpdate]
    split
    · exact ⟨he, hp, hq⟩
    · rename_i r loc rest h
      have hk : (P.datagenOf r.phen).isSome = true := hp (r, loc) (by simp [h])
      have hrest : ∀ x ∈ rest, (P.datagenOf x.1.phen).isSome = true := fun x hx => hp x (by simp [h, hx])
      split
      · rename_i hn; simp [hn] at hk
      · simp only [subsOf_producer, List.foldl_cons, List.foldl_nil, deliverProd]
        split <;> exact ⟨by simpa [addData] using he, by simpa [addData] using hrest, by simpa [addData] using hq⟩
  · simp only [taskUpdate, fwdUpdate, fwdHandle, fwdResponses]
    split <;> split <;> (try split) <;>
      exact ⟨by simpa [deliverFwd, addData] using he, by simpa [deliverFwd, addData] using hp,
        by simpa [deliverFwd, addData] using hq⟩

theorem healthy_closed {P : Params σ} {Q : σ → Prop} (hs : StableOut P Q) : Closed P (Healthy P Q) :=
  ⟨healthy_task hs, fun s h => ⟨rfl, h.2.1, h.2.2⟩⟩

theorem healthy_add {P : Params σ} {Q : σ → Prop} (it : Item) (s : St σ) (h : Healthy P Q s) :
    Healthy P Q (addData .ext it s) := by
  simpa [Healthy, addData] using h

/-! ### one engine update runs every task at least once -/

theorem forLoop_id (upd : St σ → St σ × Bool) (early : Bool) (s : St σ) (h : upd s = (s, false)) :
    ∀ n, forLoop upd early n s = s := by
  intro n
  induction n with
  | zero => rfl
  | succ n ih =>
    simp only [forLoop, h]
    split
    · rfl
    · split
      · rfl
      · exact ih

/-- a task whose queue(s) are empty is not changed by its turn. -/
theorem runTask_id (P : Params σ) (c : Cfg) (t : Task) (n : Nat) (s : St σ) (h0 : taskMeasure t s = 0) :
    runTask P c s (t, n) = s := by
  have hu := update_empty P t s h0
  unfold runTask runTaskFuel
  split
  · rfl
  · split
    · simp [h0, whileLoop, hu]
    · exact forLoop_id _ _ _ hu _

/-- a turn of task `t` = one `update()` followed by more `update()`s of the same task. -/
theorem runTask_after_first {P : Params σ} {J : St σ → Prop} (c : Cfg) (t : Task) (n : Nat) (s : St σ)
    (hJ : ∀ a, J a → J (taskUpdate P t a).1) (he : s.err = none) (h1 : J (taskUpdate P t s).1) :
    J (runTask P c s (t, n)) := by
  unfold runTask runTaskFuel
  simp only [he, Option.isSome_none, Bool.false_eq_true, if_false]
  by_cases hn : n = 0
  · simp only [loopOf, hn, if_true, whileLoop]
    split
    · exact h1
    · split
      · exact whileLoop_closed _ hJ _ _ h1
      · exact h1
  · obtain ⟨k, rfl⟩ : ∃ k, n = k + 1 := ⟨n - 1, by omega⟩
    simp only [loopOf, hn, if_false, forLoop]
    split
    · exact h1
    · split
      · exact h1
      · exact forLoop_closed _ _ hJ _ _ h1

/-- schedule-generic service lemma: if `t` has a turn in `l`, what its first update establishes (`J`) holds at the end. -/
theorem foldl_service {P : Params σ} (c : Cfg) (t : Task) (M J H : St σ → Prop)
    (hM : ∀ t' a, M a → M (taskUpdate P t' a).1)
    (hJ : ∀ t' a, J a → J (taskUpdate P t' a).1)
    (hH : ∀ t' a, H a → H (taskUpdate P t' a).1) (hHe : ∀ a, H a → a.err = none)
    (hfirst : ∀ a, M a → H a → J (taskUpdate P t a).1) :
    ∀ (l : List (Task × Nat)) a, M a → H a → (∃ n, (t, n) ∈ l) → J (l.foldl (runTask P c) a) := by
  intro l
  induction l with
  | nil => intro a _ _ h; simp at h
  | cons tt l ih =>
    intro a hm hh hex
    obtain ⟨t', n'⟩ := tt
    simp only [List.foldl_cons]
    by_cases ht : t' = t
    · subst ht
      apply foldl_runTask_closed hJ
      exact runTask_after_first c t' n' a (hJ t') (hHe a hh) (hfirst a hm hh)
    · apply ih
      · exact runTaskFuel_closed hM c _ a _ hm
      · exact runTaskFuel_closed hH c _ a _ hh
      · obtain ⟨n, hn⟩ := hex
        simp only [List.mem_cons, Prod.mk.injEq] at hn
        rcases hn with ⟨h1, _⟩ | hn
        · exact absurd h1.symm ht
        · exact ⟨n, hn⟩

/-- schedule-generic progress lemma: if some task of `l` has work, a quantity that every update does not increase and
every update with work strictly decreases is strictly smaller at the end. -/
theorem foldl_progress {P : Params σ} (c : Cfg) (μ : St σ → Nat) (H : St σ → Prop)
    (hH : ∀ t a, H a → H (taskUpdate P t a).1) (hHe : ∀ a, H a → a.err = none)
    (hmono : ∀ t a, H a → μ (taskUpdate P t a).1 ≤ μ a)
    (hstrict : ∀ t a, H a → taskMeasure t a ≠ 0 → μ (taskUpdate P t a).1 < μ a) :
    ∀ (l : List (Task × Nat)) a, H a → (∃ tt ∈ l, taskMeasure tt.1 a ≠ 0) → μ (l.foldl (runTask P c) a) < μ a := by
  intro l
  induction l with
  | nil => intro a _ h; simp at h
  | cons tt l ih =>
    intro a hh hex
    obtain ⟨t', n'⟩ := tt
    simp only [List.foldl_cons]
    by_cases h0 : taskMeasure t' a = 0
    · rw [runTask_id P c t' n' a h0]
      apply ih a hh
      obtain ⟨x, hx, hx0⟩ := hex
      simp only [List.mem_cons] at hx
      rcases hx with rfl | hx
      · exact absurd h0 hx0
      · exact ⟨x, hx, hx0⟩
    · -- J b := H b ∧ μ b < μ a
      have hJ : ∀ t'' b, (H b ∧ μ b < μ a) → (H (taskUpdate P t'' b).1 ∧ μ (taskUpdate P t'' b).1 < μ a) := by
        intro t'' b hb
        exact ⟨hH t'' b hb.1, Nat.lt_of_le_of_lt (hmono t'' b hb.1) hb.2⟩
      have h1 : H (runTask P c a (t', n')) ∧ μ (runTask P c a (t', n')) < μ a :=
        runTask_after_first (J := fun b => H b ∧ μ b < μ a) c t' n' a (hJ t') (hHe a hh)
          ⟨hH t' a hh, hstrict t' a hh h0⟩
      exact (foldl_runTask_closed (I := fun b => H b ∧ μ b < μ a) hJ c l _ h1).2

/-! ### arithmetic consequences of `Eff` (what `omega` needs) -/

theorem eff_mono {t : Task} {a b : Lens} (h : Eff t a b) :
    a.sR ≤ b.sR ∧ a.sD ≤ b.sD ∧ a.sP ≤ b.sP ∧ a.sF ≤ b.sF ∧ a.sH ≤ b.sH ∧
    a.sR + a.rq ≤ b.sR + b.rq ∧ a.sD + a.dq ≤ b.sD + b.dq ∧ a.sP + a.pq ≤ b.sP + b.pq ∧
    a.sF + a.fq ≤ b.sF + b.fq ∧ a.sH + a.hq ≤ b.sH + b.hq := by
  cases t <;> simp only [Eff, HandleEff, RespEff] at h
  · rcases h with ⟨_, rfl⟩ | h <;> omega
  · rcases h with ⟨_, rfl⟩ | h <;> omega
  · rcases h with ⟨_, rfl⟩ | h <;> omega
  · obtain ⟨m, h1, h2⟩ := h
    rcases h1 with ⟨_, rfl⟩ | h1 <;> rcases h2 with ⟨_, rfl⟩ | h2 <;> omega

theorem eff_own_R {a b : Lens} (h : Eff .receiver a b) : min (a.sR + a.rq) (a.sR + 1) ≤ b.sR := by
  simp only [Eff] at h; rcases h with ⟨_, rfl⟩ | h <;> omega
theorem eff_own_D {a b : Lens} (h : Eff .decider a b) : min (a.sD + a.dq) (a.sD + 1) ≤ b.sD := by
  simp only [Eff] at h; rcases h with ⟨_, rfl⟩ | h <;> omega
theorem eff_own_P {a b : Lens} (h : Eff .producer a b) : min (a.sP + a.pq) (a.sP + 1) ≤ b.sP := by
  simp only [Eff] at h; rcases h with ⟨_, rfl⟩ | h <;> omega
theorem eff_own_F {a b : Lens} (h : Eff .forwarder a b) : min (a.sF + a.fq) (a.sF + 1) ≤ b.sF := by
  simp only [Eff, HandleEff, RespEff] at h
  obtain ⟨m, h1, h2⟩ := h
  rcases h1 with ⟨_, rfl⟩ | h1 <;> rcases h2 with ⟨_, rfl⟩ | h2 <;> omega
theorem eff_own_H {a b : Lens} (h : Eff .forwarder a b) : min (a.sH + a.hq) (a.sH + 1) ≤ b.sH := by
  simp only [Eff, HandleEff, RespEff] at h
  obtain ⟨m, h1, h2⟩ := h
  rcases h1 with ⟨_, rfl⟩ | h1 <;> rcases h2 with ⟨_, rfl⟩ | h2 <;> omega

/-- weighted number of hand-overs still to come if the matcher completes nothing any more. -/
def mu (a : Lens) : Nat := 7 * a.pq + 4 * a.fq + 3 * a.hq + 2 * a.rq + a.dq

theorem mu_eff {t : Task} {a b : Lens} (h : Eff t a b) (hd : t = .decider → b.pq = a.pq) :
    mu b ≤ mu a ∧
    ((match t with | .receiver => a.rq | .decider => a.dq | .producer => a.pq | .forwarder => a.fq + a.hq) ≠ 0 →
      mu b < mu a) := by
  cases t <;> simp only [Eff, HandleEff, RespEff, mu] at h ⊢
  · rcases h with ⟨_, rfl⟩ | h <;> omega
  · have := hd rfl
    rcases h with ⟨_, rfl⟩ | h <;> omega
  · rcases h with ⟨_, rfl⟩ | h <;> omega
  · obtain ⟨m, h1, h2⟩ := h
    rcases h1 with ⟨_, rfl⟩ | h1 <;> rcases h2 with ⟨_, rfl⟩ | h2 <;> omega

theorem dec_pq_quiet {P : Params σ} {Q : σ → Prop} (hq : Quiet P Q) (s : St σ) (h : Q s.ds) :
    (decUpdate P s).1.pq = s.pq := by
  unfold decUpdate
  split
  · rfl
  · rename_i e rest he
    simp only
    split
    · simp [deliverDec, (hq _ h e).2]
    · rfl

theorem mu_task {P : Params σ} {Q : σ → Prop} (hq : Quiet P Q) (t : Task) (s : St σ) (h : Healthy P Q s) :
    mu (lens (taskUpdate P t s).1) ≤ mu (lens s) ∧
    (taskMeasure t s ≠ 0 → mu (lens (taskUpdate P t s).1) < mu (lens s)) := by
  have := mu_eff (eff_task P t s) (by
    intro ht; subst ht
    simp only [lens, taskUpdate]
    rw [dec_pq_quiet hq s h.2.2])
  rw [taskMeasure_lens]
  exact this

/-- schedule-generic: the served count of a channel grows by at least one per engine update while it has work. -/
theorem serve_generic {P : Params σ} {Q : σ → Prop} (c : Cfg) (sv pd : Lens → Nat) (t : Task)
    (hmono : ∀ t' a b, Eff t' a b → sv a ≤ sv b ∧ sv a + pd a ≤ sv b + pd b)
    (hown : ∀ a b, Eff t a b → min (sv a + pd a) (sv a + 1) ≤ sv b)
    (hs : StableOut P Q) (s : St σ) (hh : Healthy P Q s) :
    min (sv (lens s) + pd (lens s)) (sv (lens s) + 1) ≤ sv (lens (engineUpdate P c s)) := by
  have hex : ∃ n, (t, n) ∈ schedule c := by
    cases t
    · exact ⟨c.tR, by simp [schedule]⟩
    · exact ⟨c.tD, by simp [schedule]⟩
    · exact ⟨c.tP, by simp [schedule]⟩
    · exact ⟨c.tF, by simp [schedule]⟩
  let a0 := lens s
  refine foldl_service (P := P) c t
    (fun a => sv a0 ≤ sv (lens a) ∧ sv a0 + pd a0 ≤ sv (lens a) + pd (lens a))
    (fun a => min (sv a0 + pd a0) (sv a0 + 1) ≤ sv (lens a))
    (Healthy P Q) ?_ ?_ (healthy_task hs) (fun a h => h.1) ?_ (schedule c) _ ?_ ?_ hex
  · intro t' a hm
    have := hmono t' _ _ (eff_task P t' a)
    omega
  · intro t' a hj
    have := hmono t' _ _ (eff_task P t' a)
    omega
  · intro a hm _
    have := hown _ _ (eff_task P t a)
    omega
  · exact ⟨Nat.le_refl _, Nat.le_refl _⟩
  · exact ⟨rfl, hh.2.1, hh.2.2⟩

/-! ### the ghost fields are never read -/

/-- the real (non-ghost) part of the state. -/
structure Core (σ : Type) where
  rq : List Item
  dq : List Event
  pq : List (RunRec × Bool)
  fq : List Event
  hq : List Resp
  ds : σ
  nid : Nat
  nts : Nat
  err : Option String

def core (s : St σ) : Core σ := ⟨s.rq, s.dq, s.pq, s.fq, s.hq, s.ds, s.nid, s.nts, s.err⟩

theorem core_task (P : Params σ) (t : Task) (s s' : St σ) (h : core s = core s') :
    core (taskUpdate P t s).1 = core (taskUpdate P t s').1 ∧ (taskUpdate P t s).2 = (taskUpdate P t s').2 := by
  cases s; cases s'
  simp only [core, Core.mk.injEq] at h
  obtain ⟨rfl, rfl, rfl, rfl, rfl, rfl, rfl, rfl, rfl⟩ := h
  cases t <;>
    simp only [taskUpdate, recvUpdate, processData, decUpdate, prodUpdate, fwdUpdate, fwdHandle, fwdResponses,
      subsOf_receiver, subsOf_decider, subsOf_producer, subsOf_forwarder, List.foldl_cons, List.foldl_nil,
      deliverRecv, deliverDec, deliverProd, deliverFwd, addData, core, mkComplex, mkAction] <;>
    (repeat' split) <;> simp_all

theorem core_err {s s' : St σ} (h : core s = core s') : s.err = s'.err := congrArg Core.err h

theorem core_whileLoop (P : Params σ) (t : Task) :
    ∀ fuel (s s' : St σ), core s = core s' →
      core (whileLoop (taskUpdate P t) fuel s).1 = core (whileLoop (taskUpdate P t) fuel s').1 := by
  intro fuel
  induction fuel with
  | zero => intro s s' h; simpa [whileLoop] using h
  | succ n ih =>
    intro s s' h
    have hc := core_task P t s s' h
    simp only [whileLoop, core_err hc.1, hc.2]
    split
    · exact hc.1
    · split
      · exact ih _ _ hc.1
      · exact hc.1

theorem core_forLoop (P : Params σ) (t : Task) (early : Bool) :
    ∀ n (s s' : St σ), core s = core s' →
      core (forLoop (taskUpdate P t) early n s) = core (forLoop (taskUpdate P t) early n s') := by
  intro n
  induction n with
  | zero => intro s s' h; simpa [forLoop] using h
  | succ n ih =>
    intro s s' h
    have hc := core_task P t s s' h
    simp only [forLoop, core_err hc.1, hc.2]
    split
    · exact hc.1
    · split
      · exact hc.1
      · exact ih _ _ hc.1

theorem core_measure (t : Task) {s s' : St σ} (h : core s = core s') : taskMeasure t s = taskMeasure t s' := by
  have h1 := congrArg Core.rq h; have h2 := congrArg Core.dq h; have h3 := congrArg Core.pq h
  have h4 := congrArg Core.fq h; have h5 := congrArg Core.hq h
  simp only [core] at h1 h2 h3 h4 h5
  cases t <;> simp [taskMeasure, *]

theorem core_runTask (P : Params σ) (c : Cfg) (tt : Task × Nat) (s s' : St σ) (h : core s = core s') :
    core (runTask P c s tt) = core (runTask P c s' tt) := by
  unfold runTask runTaskFuel
  rw [core_err h, core_measure tt.1 h]
  split
  · exact h
  · split
    · exact core_whileLoop P tt.1 _ _ _ h
    · exact core_forLoop P tt.1 _ _ _ _ h

theorem core_engineUpdate (P : Params σ) (c : Cfg) (s s' : St σ) (h : core s = core s') :
    core (engineUpdate P c s) = core (engineUpdate P c s') := by
  unfold engineUpdate
  have h0 : core { s with err := none } = core { s' with err := none } := by
    have h1 := congrArg Core.rq h; have h2 := congrArg Core.dq h; have h3 := congrArg Core.pq h
    have h4 := congrArg Core.fq h; have h5 := congrArg Core.hq h; have h6 := congrArg Core.ds h
    have h7 := congrArg Core.nid h; have h8 := congrArg Core.nts h
    simp only [core] at h1 h2 h3 h4 h5 h6 h7 h8 ⊢
    simp [*]
  generalize ({ s with err := none } : St σ) = a at h0
  generalize ({ s' with err := none } : St σ) = a' at h0
  induction (schedule c) generalizing a a' with
  | nil => simpa using h0
  | cons tt l ih => exact ih _ _ (core_runTask P c tt a a' h0)

end Bobo.Engine
