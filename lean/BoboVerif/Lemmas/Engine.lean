import BoboVerif.Model.Engine
/-!
Helper lemmas for C02 (M-Engine): the invariant `Inv` and its preservation by
every atomic step, closure of predicates under the engine loop, the measures
behind loop termination, service and draining.
-/
namespace Bobo.Engine
variable {σ : Type}

/-! ### the wiring table, evaluated -/

@[simp] theorem subsOf_receiver  : subsOf wiring .receiver  = [.decider] := rfl
@[simp] theorem subsOf_decider   : subsOf wiring .decider   = [.producer] := rfl
@[simp] theorem subsOf_producer  : subsOf wiring .producer  = [.forwarder, .receiver] := rfl
@[simp] theorem subsOf_forwarder : subsOf wiring .forwarder = [.receiver] := rfl

/-! ### what the derived objects must look like -/

/-- the receiver publishes the event itself, or a simple event wrapping the datum. -/
def Wraps : Item → Event → Prop
  | .ev e', e => e = e'
  | .raw d, e => e.kind = .simple ∧ e.data = d

def known (P : Params σ) (x : RunRec × Bool) : Bool := (P.datagenOf x.1.phen).isSome

/-- the content of the complex event for a completed run (everything but id / timestamp). -/
structure CxView where
  phen : String
  pat  : String
  hist : Hist
  data : Data
  loc  : Bool
deriving DecidableEq

def cxOfRun (P : Params σ) (x : RunRec × Bool) : CxView :=
  { phen := x.1.phen, pat := x.1.pat, hist := x.1.hist,
    data := match P.datagenOf x.1.phen with
      | some (some f) => f x.1.hist
      | _ => .none,
    loc := x.2 }

def cxOfEvent (x : Event × Bool) : CxView :=
  { phen := x.1.phen, pat := x.1.pat, hist := x.1.hist, data := x.1.data, loc := x.2 }

/-- does the forwarder enqueue this complex event? -/
def fwdTakes (P : Params σ) (x : Event × Bool) : Bool := !(!x.2 && P.localOnly)

def execOf (P : Params σ) (e : Event) : Option Exec :=
  (P.actionOf e.phen).map fun a => { actName := a.1, cev := e }

def respOf (P : Params σ) (e : Event) : Option Resp :=
  (P.actionOf e.phen).map fun a => { actName := a.1, cev := e, success := (a.2 e).1, data := (a.2 e).2 }

/-- the content of the action event for a response (everything but id / timestamp). -/
structure AcView where
  data : Data
  phen : String
  pat  : String
  actName : String
  success : Bool
deriving DecidableEq

def acOfResp (r : Resp) : AcView :=
  { data := r.data, phen := r.cev.phen, pat := r.cev.pat, actName := r.actName, success := r.success }

def acOfEvent (e : Event) : AcView :=
  { data := e.data, phen := e.phen, pat := e.pat, actName := e.actName, success := e.success }

/-- the conservation invariant: every hand-over in the engine, as list equalities. -/
structure Inv (P : Params σ) (s : St σ) : Prop where
  entered_eq   : s.entered.map (·.2) = s.popped ++ s.rq
  processed_eq : s.processed.map (·.1) = s.popped.filter P.isValid
  wraps        : ∀ p ∈ s.processed, Wraps p.1 p.2
  published_eq : s.published = s.seen ++ s.dq
  completed_eq : s.completedLog.map (fun r => (r, true)) = s.prodPopped ++ s.pq
  complexes_eq : s.complexes.map cxOfEvent = (s.prodPopped.filter (known P)).map (cxOfRun P)
  complex_kind : ∀ x ∈ s.complexes, x.1.kind = .complex
  accepted_eq  : s.fwdAccepted = (s.complexes.filter (fwdTakes P)).map (·.1)
  fwd_eq       : s.fwdAccepted = s.fwdPopped ++ s.fq
  execs_eq     : s.execs = s.fwdPopped.filterMap (execOf P)
  resp_log     : s.respLog = s.fwdPopped.filterMap (respOf P)
  resp_eq      : s.respLog = s.respPopped ++ s.hq
  actions_eq   : s.actions.map acOfEvent = s.respPopped.map acOfResp
  action_kind  : ∀ e ∈ s.actions, e.kind = .action
  fb_prod      : (s.entered.filter (fun x => x.1 == .prod)).map (·.2) = s.complexes.map (fun x => Item.ev x.1)
  fb_fwd       : (s.entered.filter (fun x => x.1 == .fwd)).map (·.2) = s.actions.map Item.ev

theorem inv_init (P : Params σ) (d : σ) : Inv P (init d) := by
  constructor <;> simp [init, St.published]

theorem inv_add (P : Params σ) (it : Item) (s : St σ) (h : Inv P s) : Inv P (addData .ext it s) := by
  obtain ⟨h1, h2, h3, h4, h5, h6, h7, h8, h9, h10, h11, h12, h13, h14, h15, h16⟩ := h
  constructor <;> simp_all [addData, St.published]

theorem inv_clear (P : Params σ) (s : St σ) (h : Inv P s) : Inv P { s with err := none } := by
  obtain ⟨h1, h2, h3, h4, h5, h6, h7, h8, h9, h10, h11, h12, h13, h14, h15, h16⟩ := h
  constructor <;> simp_all [St.published]

theorem inv_recv (P : Params σ) (s : St σ) (h : Inv P s) : Inv P (recvUpdate P s).1 := by
  obtain ⟨h1, h2, h3, h4, h5, h6, h7, h8, h9, h10, h11, h12, h13, h14, h15, h16⟩ := h
  unfold recvUpdate
  split
  · constructor <;> assumption
  · rename_i it rest hq
    simp only [processData]
    by_cases hv : P.isValid it = true
    · cases it with
      | raw d =>
        constructor <;>
          simp_all [St.published, deliverRecv, List.filter_cons, Wraps] <;> grind
      | ev e =>
        constructor <;>
          simp_all [St.published, deliverRecv, List.filter_cons, Wraps] <;> grind
    · constructor <;> simp_all [St.published, List.filter_cons]

end Bobo.Engine
