import BoboVerif.Model.Decider
import BoboVerif.Lemmas.Table
/-!
M-Lattice: the status lattice of docs/distributed.rst "Recovery Scenarios"

    unknown  <  progress (index, history size)  <  halted  <  completed

(a total order, join = max) and the abstraction `abs` of a decider state to a
status per run key.  Used by C04, C05, C06, C07, C12.
-/
namespace Bobo.Lattice

structure Status where
  lvl : Nat      -- 0 unknown, 1 in progress, 2 halted, 3 completed
  idx : Nat
  sz  : Nat
deriving DecidableEq, Repr

def bot : Status := ⟨0, 0, 0⟩
def active (i n : Nat) : Status := ⟨1, i, n⟩
def halted : Status := ⟨2, 0, 0⟩
def completed : Status := ⟨3, 0, 0⟩

/-- lexicographic order on (level, index, size). -/
def Status.le (a b : Status) : Prop :=
  a.lvl < b.lvl ∨ (a.lvl = b.lvl ∧ (a.idx < b.idx ∨ (a.idx = b.idx ∧ a.sz ≤ b.sz)))

instance : LE Status := ⟨Status.le⟩

instance (a b : Status) : Decidable (a ≤ b) := by
  show Decidable (Status.le a b); unfold Status.le; exact inferInstance

def join (a b : Status) : Status := if a ≤ b then b else a

theorem le_def (a b : Status) : a ≤ b ↔
    (a.lvl < b.lvl ∨ (a.lvl = b.lvl ∧ (a.idx < b.idx ∨ (a.idx = b.idx ∧ a.sz ≤ b.sz)))) := Iff.rfl

theorem le_refl (a : Status) : a ≤ a := by rw [le_def]; omega
theorem le_trans {a b c : Status} (h₁ : a ≤ b) (h₂ : b ≤ c) : a ≤ c := by rw [le_def] at *; omega
theorem le_total (a b : Status) : a ≤ b ∨ b ≤ a := by rw [le_def, le_def]; omega
theorem le_antisymm {a b : Status} (h₁ : a ≤ b) (h₂ : b ≤ a) : a = b := by
  rw [le_def] at *
  cases a; cases b; simp at *; omega

theorem join_comm (a b : Status) : join a b = join b a := by
  unfold join
  by_cases h1 : a ≤ b <;> by_cases h2 : b ≤ a <;> simp [h1, h2]
  · exact (le_antisymm h1 h2).symm
  · rcases le_total a b with h | h <;> contradiction

theorem le_join_left (a b : Status) : a ≤ join a b := by
  unfold join; split
  · assumption
  · exact le_refl a

theorem le_join_right (a b : Status) : b ≤ join a b := by
  rw [join_comm]; exact le_join_left b a

theorem join_le {a b c : Status} (h₁ : a ≤ c) (h₂ : b ≤ c) : join a b ≤ c := by
  unfold join; split <;> assumption

theorem join_idem (a : Status) : join a a = a := by simp [join, le_refl]

theorem join_assoc (a b c : Status) : join (join a b) c = join a (join b c) := by
  apply le_antisymm
  · exact join_le (join_le (le_join_left _ _) (le_trans (le_join_left b c) (le_join_right _ _)))
      (le_trans (le_join_right b c) (le_join_right _ _))
  · exact join_le (le_trans (le_join_left a b) (le_join_left _ _))
      (join_le (le_trans (le_join_right a b) (le_join_left _ _)) (le_join_right _ _))

theorem join_eq_right {a b : Status} (h : a ≤ b) : join a b = b := by simp [join, h]
theorem join_eq_left {a b : Status} (h : b ≤ a) : join a b = a := by rw [join_comm]; exact join_eq_right h

theorem bot_le (a : Status) : bot ≤ a := by rw [le_def]; simp [bot]; omega
theorem join_bot_left (a : Status) : join bot a = a := join_eq_right (bot_le a)
theorem join_bot_right (a : Status) : join a bot = a := join_eq_left (bot_le a)

/-- statuses that occur: levels 0..3. -/
def Status.Valid (a : Status) : Prop := a.lvl ≤ 3 ∧ (a.lvl ≠ 1 → a.idx = 0 ∧ a.sz = 0)

theorem le_completed {a : Status} (h : a.Valid) : a ≤ completed := by
  rw [le_def]; simp [completed]; obtain ⟨h1, h2⟩ := h
  by_cases h3 : a.lvl = 3
  · right; have := h2 (by omega); omega
  · left; omega

theorem join_completed_left {a : Status} (h : a.Valid) : join completed a = completed :=
  join_eq_left (le_completed h)
theorem join_completed_right {a : Status} (h : a.Valid) : join a completed = completed :=
  join_eq_right (le_completed h)

theorem active_le_halted (i n : Nat) : active i n ≤ halted := by rw [le_def]; simp [active, halted]
theorem halted_le_completed : halted ≤ completed := by rw [le_def]; simp [halted, completed]

theorem join_valid {a b : Status} (ha : a.Valid) (hb : b.Valid) : (join a b).Valid := by
  unfold join; split <;> assumption

theorem bot_valid : bot.Valid := by simp [Status.Valid, bot]
theorem active_valid (i n : Nat) : (active i n).Valid := by simp [Status.Valid, active]
theorem halted_valid : halted.Valid := by simp [Status.Valid, halted]
theorem completed_valid : completed.Valid := by simp [Status.Valid, completed]

/-- join of a list of statuses. -/
def joinAll (l : List Status) : Status := l.foldl join bot

theorem foldl_join_acc (l : List Status) (a : Status) : l.foldl join a = join a (l.foldl join bot) := by
  induction l generalizing a with
  | nil => simp [join_bot_right]
  | cons x rest ih =>
    simp only [List.foldl_cons]
    rw [ih (join a x), ih (join bot x), join_bot_left, join_assoc]

theorem joinAll_cons (x : Status) (l : List Status) : joinAll (x :: l) = join x (joinAll l) := by
  unfold joinAll
  simp only [List.foldl_cons]
  rw [foldl_join_acc, join_bot_left]

theorem joinAll_append (l₁ l₂ : List Status) : joinAll (l₁ ++ l₂) = join (joinAll l₁) (joinAll l₂) := by
  induction l₁ with
  | nil => simp [joinAll, join_bot_left]
  | cons x rest ih => rw [List.cons_append, joinAll_cons, joinAll_cons, ih, join_assoc]

theorem joinAll_valid (l : List Status) (h : ∀ x ∈ l, x.Valid) : (joinAll l).Valid := by
  induction l with
  | nil => exact bot_valid
  | cons x rest ih =>
    rw [joinAll_cons]
    exact join_valid (h x (List.mem_cons_self ..)) (ih (fun y hy => h y (List.mem_cons_of_mem _ hy)))

end Bobo.Lattice
