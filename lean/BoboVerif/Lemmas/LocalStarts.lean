import BoboVerif.Lemmas.LocalRuns
/-!
`_check_against_patterns` seen from one run key, and the assembly:
local processing is a join with its own notification (`LocalIsJoin`).
-/
namespace Bobo.Decider
open Bobo.Run Bobo.Lattice
set_option linter.unusedSimpArgs false
variable {ε : Type}

/-- what a stretch of `_check_against_patterns` does: it appends to the two result lists, keeps the table
well-formed, and every key ends at the join of its position with what the appended `updated` records say. -/
structure PatRel (a b : PatAcc ε) : Prop where
  hc : ∃ d, b.hc = a.hc ++ d
  upd : ∃ d, b.upd = a.upd ++ d ∧
    ∀ ph pa id, stOf (b.table.runAt ph pa id) =
      join (stOf (a.table.runAt ph pa id)) (joinAll ((d.filter (keyMatch ph pa id)).map recSt))
  wf : TableWF a.table → TableWF b.table

theorem PatRel.refl (a : PatAcc ε) : PatRel a a :=
  ⟨⟨[], by simp⟩, ⟨[], by simp, fun _ _ _ => by simp [joinAll, join_bot_right]⟩, id⟩

theorem PatRel.trans {a b c : PatAcc ε} (h1 : PatRel a b) (h2 : PatRel b c) : PatRel a c := by
  obtain ⟨d1, e1⟩ := h1.hc
  obtain ⟨d2, e2⟩ := h2.hc
  obtain ⟨u1, f1, g1⟩ := h1.upd
  obtain ⟨u2, f2, g2⟩ := h2.upd
  refine ⟨⟨d1 ++ d2, by rw [e2, e1, List.append_assoc]⟩, ⟨u1 ++ u2, by rw [f2, f1, List.append_assoc], ?_⟩,
    fun w => h2.wf (h1.wf w)⟩
  intro ph pa id
  rw [g2 ph pa id, g1 ph pa id, List.filter_append, List.map_append, joinAll_append, join_assoc]

theorem foldlM'_rel {α β} (Rel : β → β → Prop) (hrefl : ∀ b, Rel b b) (htrans : ∀ a b c, Rel a b → Rel b c → Rel a c)
    (f : β → α → Option β) (l : List α) (h : ∀ b a b', a ∈ l → f b a = some b' → Rel b b') :
    ∀ b b', foldlM' f b l = some b' → Rel b b' := by
  induction l with
  | nil => intro b b' hf; simp [foldlM'] at hf; subst hf; exact hrefl b
  | cons a rest ih =>
    intro b b' hf
    simp only [foldlM'] at hf
    cases hfa : f b a with
    | none => simp [hfa] at hf
    | some b1 =>
      simp only [hfa] at hf
      exact htrans _ _ _ (h b a b1 (List.mem_cons_self ..) hfa)
        (ih (fun b a b' ha => h b a b' (List.mem_cons_of_mem _ ha)) b1 b' hf)

theorem checkPattern_rel (c : Cfg ε) (e : ε) (ph0 : String) (acc acc' : PatAcc ε) (p : Pattern ε)
    (hs : checkPattern c e ph0 acc p = some acc') : PatRel acc acc' := by
  unfold checkPattern at hs
  cases hb : p.blocks with
  | nil => simp [hb] at hs
  | cons b0 rest =>
    simp only [hb] at hs
    by_cases hm : startMatch b0.preds e = true
    · simp only [hm, if_true] at hs
      split at hs
      · -- one-block pattern: completes at once, never stored
        simp only [Option.some.injEq] at hs; subst hs
        exact ⟨⟨[_], rfl⟩, ⟨[], by simp, fun _ _ _ => by simp [joinAll, join_bot_right]⟩, id⟩
      · split at hs
        · cases hadd : acc.table.add ph0 p.name { run := newRun (c.idOf acc.nextId) p b0.group e, pat := p } with
          | none => simp [hadd] at hs
          | some t' =>
            simp only [hadd, Option.some.injEq] at hs
            subst hs
            refine ⟨⟨[], by simp⟩, ⟨[_], rfl, ?_⟩, fun w => wf_add _ _ w ph0 p.name _ rfl hadd⟩
            intro ph pa id
            simp only
            rw [runAt_add _ _ _ _ _ hadd]
            have hnone : acc.table.runAt ph0 p.name (c.idOf acc.nextId) = none := by
              unfold Table.add at hadd
              cases hx : acc.table.runAt ph0 p.name (newRun (c.idOf acc.nextId) p b0.group e).id with
              | none => exact hx
              | some v => simp [hx] at hadd
            by_cases hk : ph = ph0 ∧ pa = p.name ∧ id = (newRun (c.idOf acc.nextId) p b0.group e).id
            · obtain ⟨e1, e2, e3⟩ := hk
              subst e1 e2 e3
              have hkm : keyMatch ph p.name (newRun (c.idOf acc.nextId) p b0.group e).id
                  (LRun.ser ph { run := newRun (c.idOf acc.nextId) p b0.group e, pat := p }) = true :=
                (keyMatch_ser _ _ _ _ _).mpr ⟨rfl, rfl, rfl⟩
              simp only [and_self, if_true, List.filter_cons, hkm, List.filter_nil, List.map_cons, List.map_nil]
              have : acc.table.runAt ph p.name (newRun (c.idOf acc.nextId) p b0.group e).id = none := hnone
              rw [this, joinAll_cons]
              simp [stOf, joinAll, join_bot_left, join_bot_right, recSt, LRun.ser]
            · have hkm : keyMatch ph pa id
                  (LRun.ser ph0 { run := newRun (c.idOf acc.nextId) p b0.group e, pat := p }) = false := by
                cases hq : keyMatch ph pa id (LRun.ser ph0 { run := newRun (c.idOf acc.nextId) p b0.group e, pat := p }) with
                | false => rfl
                | true =>
                  have := (keyMatch_ser ph pa id ph0 _).mp hq
                  exact absurd ⟨this.1.symm, this.2.1.symm, this.2.2.symm⟩ hk
              simp [hk, List.filter_cons, hkm, joinAll, join_bot_right]
        · simp only [Option.some.injEq] at hs; subst hs
          exact ⟨⟨[], by simp⟩, ⟨[], by simp, fun _ _ _ => by simp [joinAll, join_bot_right]⟩, id⟩
    · simp only [hm, Bool.false_eq_true, if_false, Option.some.injEq] at hs
      subst hs; exact PatRel.refl _

theorem checkAgainstPatterns_rel (c : Cfg ε) (e : ε) (t : Table ε) (n : Nat) (acc : PatAcc ε)
    (hs : checkAgainstPatterns c e t n = some acc) : PatRel { table := t, nextId := n } acc := by
  unfold checkAgainstPatterns at hs
  refine foldlM'_rel PatRel PatRel.refl (fun _ _ _ => PatRel.trans) _ c.phenomena ?_ _ _ hs
  intro b P b' _ hf
  exact foldlM'_rel PatRel PatRel.refl (fun _ _ _ => PatRel.trans) _ P.patterns
    (fun b1 p b1' _ hf1 => checkPattern_rel c e P.name b1 b1' p hf1) _ _ hf

end Bobo.Decider

namespace Bobo.Decider
open Bobo.Run Bobo.Lattice
set_option linter.unusedSimpArgs false
variable {ε : Type}

/-- **local processing is a join with its own notification**: after `update()` on a well-formed table
(finished-run memory enabled and not evicting in this step) every run key's status is the join of its status
before with what the notification says about it — every change is announced, everything announced holds,
nothing else changes — and the table stays well-formed. -/
theorem local_is_join (c : Cfg ε) (hc : c.caching = true) (s s' : DState ε) (e : ε) (nt : Notif ε) (ch : Bool)
    (hwf : TableWF s.table) (hstep : localStep c s e = some (s', nt, ch))
    (hevC : s.cacheC.length + nt.completed.length ≤ c.maxCache)
    (hevH : s.cacheH.length + nt.halted.length ≤ c.maxCache) :
    TableWF s'.table ∧
    ∀ ph pa id, abs s' ph pa id = join (abs s ph pa id) (absMsg nt.completed nt.halted nt.updated ph pa id) := by
  unfold localStep at hstep
  have hkeyAll := checkAgainstRuns_key e s.table hwf
  have hwf1 := wf_checkAgainstRuns e s.table hwf
  generalize hcar : checkAgainstRuns e s.table = car at hstep hkeyAll hwf1
  obtain ⟨t1, rhc, rhi, rupd⟩ := car
  simp only at hstep hkeyAll hwf1
  cases hp : checkAgainstPatterns c e t1 s.nextId with
  | none => simp [hp] at hstep
  | some acc =>
    simp only [hp, Option.some.injEq, Prod.mk.injEq] at hstep
    obtain ⟨hs', hnt, _⟩ := hstep
    have hrel := checkAgainstPatterns_rel c e t1 s.nextId acc hp
    obtain ⟨dhc, hdhc⟩ := hrel.hc
    obtain ⟨dupd, hdupd, hpat⟩ := hrel.upd
    simp only [List.nil_append] at hdhc hdupd hpat
    subst hnt
    simp only at hevC hevH
    rw [maybeCache_noevict c hc _ _ _ (by simpa using hevC) (by simpa using hevH)] at hs'
    subst hs'
    refine ⟨hrel.wf hwf1, ?_⟩
    intro ph pa id
    unfold abs
    simp only [inCache_append]
    have hmv := absMsg_valid (rhc ++ acc.hc) rhi (rupd ++ acc.upd) ph pa id
    by_cases hinC : inCache s.cacheC id = true
    · simp only [hinC, Bool.true_or, if_true]
      exact (join_completed_left hmv).symm
    · have hinC' : inCache s.cacheC id = false := by simpa using hinC
      simp only [hinC', Bool.false_or, Bool.false_eq_true, if_false]
      by_cases hcm : (rhc ++ acc.hc).any (·.id == id) = true
      · simp only [hcm, if_true]
        unfold absMsg
        simp only [hcm, if_true]
        have hv : (join (if rhi.any (·.id == id) = true then halted else bot)
            (joinAll (((rupd ++ acc.upd).filter (keyMatch ph pa id)).map recSt))).Valid := by
          refine join_valid ?_ (joinAll_recSt_valid _)
          split
          · exact halted_valid
          · exact bot_valid
        rw [join_completed_left hv]
        have : (if inCache s.cacheH id = true then halted else stOf (s.table.runAt ph pa id)).Valid := by
          split
          · exact halted_valid
          · exact stOf_valid _
        exact (join_completed_right this).symm
      · have hcm' : (rhc ++ acc.hc).any (·.id == id) = false := by simpa using hcm
        simp only [hcm', Bool.false_eq_true, if_false]
        unfold absMsg
        simp only [hcm', Bool.false_eq_true, if_false, join_bot_left]
        by_cases hinH : inCache s.cacheH id = true
        · simp only [hinH, Bool.true_or, if_true]
          have : join (if rhi.any (·.id == id) = true then halted else bot)
              (joinAll (((rupd ++ acc.upd).filter (keyMatch ph pa id)).map recSt)) ≤ halted := by
            refine join_le ?_ (joinAll_recSt_le_halted _)
            split
            · exact le_refl _
            · exact bot_le _
          exact (join_eq_left this).symm
        · have hinH' : inCache s.cacheH id = false := by simpa using hinH
          simp only [hinH', Bool.false_or, Bool.false_eq_true, if_false]
          by_cases hhm : rhi.any (·.id == id) = true
          · simp only [hhm, if_true]
            have h1 : join halted (joinAll (((rupd ++ acc.upd).filter (keyMatch ph pa id)).map recSt)) = halted :=
              join_eq_left (joinAll_recSt_le_halted _)
            rw [h1]
            exact (join_eq_right (stOf_le_halted _)).symm
          · have hhm' : rhi.any (·.id == id) = false := by simpa using hhm
            simp only [hhm', Bool.false_eq_true, if_false, join_bot_left]
            -- progress only: the run did not finish on this event
            rcases hkeyAll ph pa id with ⟨x, hx, hxid⟩ | hkey
            · exfalso
              rcases List.mem_append.mp hx with hh | hh
              · have : (rhc ++ acc.hc).any (·.id == id) = true :=
                  List.any_eq_true.mpr ⟨x, List.mem_append.mpr (.inl hh), by simp [hxid]⟩
                rw [hcm'] at this; exact absurd this (by decide)
              · have : rhi.any (·.id == id) = true := List.any_eq_true.mpr ⟨x, hh, by simp [hxid]⟩
                rw [hhm'] at this; exact absurd this (by decide)
            · rw [hpat ph pa id, hkey, hdupd, List.filter_append, List.map_append, joinAll_append, join_assoc]

end Bobo.Decider

namespace Bobo.Decider
open Bobo.Run Bobo.Lattice
set_option linter.unusedSimpArgs false
variable {ε : Type}

theorem wf_removeOne (c : Cfg ε) (b : Bool) (st : DState ε × List (Rec ε)) (rr : Rec ε)
    (h : TableWF st.1.table) : TableWF (removeOne c b st rr).1.table := by
  obtain ⟨s, out⟩ := st
  unfold removeOne
  simp only
  cases hp : c.getPattern rr.phen rr.pat with
  | none => exact h
  | some p =>
    simp only
    split
    · split
      · simp only [maybeCache_table]; exact wf_remove _ h _ _ _
      · exact wf_remove _ h _ _ _
    · exact wf_remove _ h _ _ _

theorem wf_updateOne (c : Cfg ε) (f : Rec ε → Run ε → Bool) (st st' : DState ε × List (Rec ε)) (rr : Rec ε)
    (h : TableWF st.1.table) (hs : updateOne c f st rr = some st') : TableWF st'.1.table := by
  obtain ⟨s, out⟩ := st
  unfold updateOne at hs
  simp only at hs
  cases hp : c.getPattern rr.phen rr.pat with
  | none => simp only [hp, Option.some.injEq] at hs; subst hs; exact h
  | some p =>
    obtain ⟨_, _, _, _, hpn⟩ := getPattern_mem c _ _ p hp
    simp only [hp] at hs
    split at hs
    · split at hs <;>
      · simp only [Option.some.injEq] at hs; subst hs
        simp only
        split
        · exact wf_setBlock _ h _ _ _ _ _
        · exact h
    · split at hs
      · simp at hs
      · rename_i t' hadd
        simp only [Option.some.injEq] at hs; subst hs
        exact wf_add _ _ h _ _ _ hpn hadd

/-- `on_distributed_update` keeps the table well-formed (any message, singleton patterns included). -/
theorem wf_remoteStep (f : Rec ε → Run ε → Bool) (b : Bool) (c : Cfg ε) (s s' : DState ε)
    (comp halt upd : List (Rec ε)) (n : Notif ε)
    (h : TableWF s.table) (hs : remoteStepG f b c s comp halt upd = some (s', n)) : TableWF s'.table := by
  unfold remoteStepG at hs
  simp only at hs
  generalize hc1 : (checkAgainstCache c s comp halt upd) = cc at hs
  obtain ⟨comp1, halt1, upd1⟩ := cc
  simp only at hs
  have h1 : TableWF (maybeCache c s comp1 halt1).table := by rw [maybeCache_table]; exact h
  have h2 := foldl_inv (fun st : DState ε × List (Rec ε) => TableWF st.1.table) (removeOne c true) comp1
    (fun st rr _ hst => wf_removeOne c true st rr hst) (maybeCache c s comp1 halt1, []) h1
  generalize hf2 : comp1.foldl (removeOne c true) (maybeCache c s comp1 halt1, []) = st2 at hs h2
  obtain ⟨s2, compOut⟩ := st2
  simp only at hs
  have h3 := foldl_inv (fun st : DState ε × List (Rec ε) => TableWF st.1.table) (removeOne c false) halt1
    (fun st rr _ hst => wf_removeOne c false st rr hst) (s2, []) h2
  generalize hf3 : halt1.foldl (removeOne c false) (s2, []) = st3 at hs h3
  obtain ⟨s3, haltOut⟩ := st3
  simp only at hs
  split at hs
  · simp at hs
  · rename_i s4 updOut hfold
    simp only [Option.some.injEq, Prod.mk.injEq] at hs
    obtain ⟨hs1, _⟩ := hs
    subst hs1
    exact foldlM'_inv (fun st : DState ε × List (Rec ε) => TableWF st.1.table) _ _
      (fun st rr st' _ hst hf => wf_updateOne c f st st' rr hst hf) _ _
      (show TableWF (s3, ([] : List (Rec ε))).1.table from h3) hfold

end Bobo.Decider
