import BoboVerif.Model.Json
/-!
Non-vacuity of the codec hypothesis of C09: a concrete `Codec` (a simple
prefix code — NOT Python's JSON syntax) whose law `loads (dumps v) = some v`
is proved for every value.  So `Codec` is inhabited and the theorems of
Props/C09.lean, which all start with `∀ c : Codec`, are not vacuous.
-/
namespace Bobo.Json.Witness
open Bobo.Json

def serChars : List Char → List Char
  | [] => ['e']
  | c :: cs => 'c' :: c :: serChars cs

def serInt : Int → List Char
  | .ofNat k => 'i' :: '+' :: (List.replicate k '1' ++ ['.'])
  | .negSucc k => 'i' :: '-' :: (List.replicate k '1' ++ ['.'])

mutual
def ser : JVal → List Char
  | .null => ['n']
  | .bool true => ['t']
  | .bool false => ['f']
  | .int i => serInt i
  | .float r => 'd' :: serChars r.toList
  | .str s => 's' :: serChars s.toList
  | .arr xs => 'a' :: serL xs
  | .obj kvs => 'o' :: serKV kvs
def serL : List JVal → List Char
  | [] => ['e']
  | x :: xs => 'x' :: (ser x ++ serL xs)
def serKV : List (String × JVal) → List Char
  | [] => ['e']
  | (k, x) :: r => 'x' :: (serChars k.toList ++ (ser x ++ serKV r))
end

def parChars : List Char → Option (List Char × List Char)
  | 'e' :: r => some ([], r)
  | 'c' :: c :: r =>
    match parChars r with
    | some (cs, r') => some (c :: cs, r')
    | none => none
  | _ => none

def parUnary : List Char → Option (Nat × List Char)
  | '.' :: r => some (0, r)
  | '1' :: r =>
    match parUnary r with
    | some (k, r') => some (k + 1, r')
    | none => none
  | _ => none

mutual
def par : Nat → List Char → Option (JVal × List Char)
  | 0, _ => none
  | _ + 1, 'n' :: r => some (.null, r)
  | _ + 1, 't' :: r => some (.bool true, r)
  | _ + 1, 'f' :: r => some (.bool false, r)
  | _ + 1, 'i' :: '+' :: r =>
    match parUnary r with
    | some (k, r') => some (.int (.ofNat k), r')
    | none => none
  | _ + 1, 'i' :: '-' :: r =>
    match parUnary r with
    | some (k, r') => some (.int (.negSucc k), r')
    | none => none
  | _ + 1, 'd' :: r =>
    match parChars r with
    | some (cs, r') => some (.float (String.ofList cs), r')
    | none => none
  | _ + 1, 's' :: r =>
    match parChars r with
    | some (cs, r') => some (.str (String.ofList cs), r')
    | none => none
  | n + 1, 'a' :: r =>
    match parL n r with
    | some (xs, r') => some (.arr xs, r')
    | none => none
  | n + 1, 'o' :: r =>
    match parKV n r with
    | some (kvs, r') => some (.obj kvs, r')
    | none => none
  | _ + 1, _ => none
def parL : Nat → List Char → Option (List JVal × List Char)
  | 0, _ => none
  | _ + 1, 'e' :: r => some ([], r)
  | n + 1, 'x' :: r =>
    match par n r with
    | some (x, r') =>
      match parL n r' with
      | some (xs, r'') => some (x :: xs, r'')
      | none => none
    | none => none
  | _ + 1, _ => none
def parKV : Nat → List Char → Option (List (String × JVal) × List Char)
  | 0, _ => none
  | _ + 1, 'e' :: r => some ([], r)
  | n + 1, 'x' :: r =>
    match parChars r with
    | some (k, r1) =>
      match par n r1 with
      | some (x, r2) =>
        match parKV n r2 with
        | some (kvs, r3) => some ((String.ofList k, x) :: kvs, r3)
        | none => none
      | none => none
    | none => none
  | _ + 1, _ => none
end

theorem parChars_ser : ∀ (cs rest : List Char), parChars (serChars cs ++ rest) = some (cs, rest)
  | [], rest => by simp [serChars, parChars]
  | c :: cs, rest => by simp [serChars, parChars, parChars_ser cs rest]

theorem parUnary_ser : ∀ (k : Nat) (rest : List Char),
    parUnary (List.replicate k '1' ++ '.' :: rest) = some (k, rest)
  | 0, rest => by simp [parUnary]
  | k + 1, rest => by simp [List.replicate_succ, parUnary, parUnary_ser k rest]

mutual
theorem par_ser : ∀ (v : JVal) (rest : List Char) (n : Nat), (ser v).length ≤ n →
    par n (ser v ++ rest) = some (v, rest)
  | .null, rest, n, h => by
    cases n with
    | zero => simp [ser] at h
    | succ n => simp [ser, par]
  | .bool true, rest, n, h => by
    cases n with
    | zero => simp [ser] at h
    | succ n => simp [ser, par]
  | .bool false, rest, n, h => by
    cases n with
    | zero => simp [ser] at h
    | succ n => simp [ser, par]
  | .int (.ofNat k), rest, n, h => by
    cases n with
    | zero => simp [ser, serInt] at h
    | succ n => simp [ser, serInt, par, parUnary_ser]
  | .int (.negSucc k), rest, n, h => by
    cases n with
    | zero => simp [ser, serInt] at h
    | succ n => simp [ser, serInt, par, parUnary_ser]
  | .float r, rest, n, h => by
    cases n with
    | zero => simp [ser] at h
    | succ n => simp [ser, par, parChars_ser, String.ofList_toList]
  | .str s, rest, n, h => by
    cases n with
    | zero => simp [ser] at h
    | succ n => simp [ser, par, parChars_ser, String.ofList_toList]
  | .arr xs, rest, n, h => by
    cases n with
    | zero => simp [ser] at h
    | succ n =>
      have := parL_ser xs rest n (by simp [ser] at h; omega)
      simp [ser, par, this]
  | .obj kvs, rest, n, h => by
    cases n with
    | zero => simp [ser] at h
    | succ n =>
      have := parKV_ser kvs rest n (by simp [ser] at h; omega)
      simp [ser, par, this]
theorem parL_ser : ∀ (xs : List JVal) (rest : List Char) (n : Nat), (serL xs).length ≤ n →
    parL n (serL xs ++ rest) = some (xs, rest)
  | [], rest, n, h => by
    cases n with
    | zero => simp [serL] at h
    | succ n => simp [serL, parL]
  | x :: xs, rest, n, h => by
    cases n with
    | zero => simp [serL] at h
    | succ n =>
      simp only [serL, List.length_cons, List.length_append] at h
      have h1 := par_ser x (serL xs ++ rest) n (by omega)
      have h2 := parL_ser xs rest n (by omega)
      simp [serL, parL, List.append_assoc, h1, h2]
theorem parKV_ser : ∀ (kvs : List (String × JVal)) (rest : List Char) (n : Nat), (serKV kvs).length ≤ n →
    parKV n (serKV kvs ++ rest) = some (kvs, rest)
  | [], rest, n, h => by
    cases n with
    | zero => simp [serKV] at h
    | succ n => simp [serKV, parKV]
  | (k, x) :: r, rest, n, h => by
    cases n with
    | zero => simp [serKV] at h
    | succ n =>
      simp only [serKV, List.length_cons, List.length_append] at h
      have h1 := par_ser x (serKV r ++ rest) n (by omega)
      have h2 := parKV_ser r rest n (by omega)
      simp [serKV, parKV, List.append_assoc, parChars_ser, h1, h2, String.ofList_toList]
end

/-- a text codec satisfying the assumed law for EVERY value (well-formed or not). -/
def codec : Codec where
  dumps v := String.ofList (ser v)
  loads s :=
    match par s.toList.length s.toList with
    | some (v, []) => some v
    | _ => none
  loads_dumps v _ := by
    have := par_ser v [] (ser v).length (Nat.le_refl _)
    simp only [List.append_nil] at this
    simp [String.toList_ofList, this]

end Bobo.Json.Witness
