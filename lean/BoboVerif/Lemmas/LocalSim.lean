import BoboVerif.Lemmas.IdInv
/-!
`update()` seen key by key is a function of the run stored under the key: two well-formed tables that hold
the same run under every key (whatever the order of their buckets and runs) go through `update()` with the
same event and the same identifier source to tables that again agree key by key, and announce, for every key,
the same completed / halted / updated records.  This is what lets ONE engine fed the whole stream shadow a
cluster among whose instances the stream is split.
-/
namespace Bobo.Decider
open Bobo.Run Bobo.Lattice
set_option linter.unusedSimpArgs false
set_option linter.unusedVariables false
variable {ε : Type}

/-- the two tables hold the same run under every key. -/
def KeyEq (t t' : Table ε) : Prop := ∀ ph pa id, t.runAt ph pa id = t'.runAt ph pa id

theorem KeyEq.refl (t : Table ε) : KeyEq t t := fun _ _ _ => rfl
theorem KeyEq.symm {t t' : Table ε} (h : KeyEq t t') : KeyEq t' t := fun ph pa id => (h ph pa id).symm
theorem KeyEq.trans {t t' t'' : Table ε} (h : KeyEq t t') (h' : KeyEq t' t'') : KeyEq t t'' :=
  fun ph pa id => (h ph pa id).trans (h' ph pa id)

/-- `_check_against_runs` respects key-wise equality. -/
theorem checkAgainstRuns_sim (e : ε) (t t' : Table ε) (h : TableWF t) (h' : TableWF t') (hk : KeyEq t t') :
    KeyEq (checkAgainstRuns e t).1 (checkAgainstRuns e t').1 ∧
    ∀ ph pa id,
      (checkAgainstRuns e t).2.1.filter (keyMatch ph pa id) = (checkAgainstRuns e t').2.1.filter (keyMatch ph pa id) ∧
      (checkAgainstRuns e t).2.2.1.filter (keyMatch ph pa id) = (checkAgainstRuns e t').2.2.1.filter (keyMatch ph pa id) ∧
      (checkAgainstRuns e t).2.2.2.filter (keyMatch ph pa id) = (checkAgainstRuns e t').2.2.2.filter (keyMatch ph pa id) := by
  refine ⟨fun ph pa id => ?_, fun ph pa id => ?_⟩
  · rw [(checkAgainstRuns_perkey e t h ph pa id).1, (checkAgainstRuns_perkey e t' h' ph pa id).1, hk ph pa id]
  · obtain ⟨_, a2, a3, a4⟩ := checkAgainstRuns_perkey e t h ph pa id
    obtain ⟨_, b2, b3, b4⟩ := checkAgainstRuns_perkey e t' h' ph pa id
    rw [a2, a3, a4, b2, b3, b4, hk ph pa id]
    exact ⟨rfl, rfl, rfl⟩

/-! ### patterns phase -/

/-- two accumulators of `_check_against_patterns` that differ only in the order of their tables. -/
structure PatSim (a b : PatAcc ε) : Prop where
  next : a.nextId = b.nextId
  hc : a.hc = b.hc
  upd : a.upd = b.upd
  tbl : KeyEq a.table b.table

theorem add_sim (t t' t1 : Table ε) (hk : KeyEq t t') (ph pa : String) (r : LRun ε) (hadd : t.add ph pa r = some t1) :
    ∃ t1', t'.add ph pa r = some t1' ∧ KeyEq t1 t1' := by
  have hnone : t.runAt ph pa r.run.id = none := by
    unfold Table.add at hadd
    cases hx : t.runAt ph pa r.run.id with
    | none => rfl
    | some v => simp [hx] at hadd
  obtain ⟨t1', h1'⟩ := add_isSome_of_runAt_none t' ph pa r (by rw [← hk]; exact hnone)
  refine ⟨t1', h1', fun ph' pa' id' => ?_⟩
  rw [runAt_add _ _ _ _ _ hadd, runAt_add _ _ _ _ _ h1', hk ph' pa' id']

theorem checkPattern_sim (c : Cfg ε) (e : ε) (ph0 : String) (acc acc' r : PatAcc ε) (p : Pattern ε)
    (hsing : p.singleton = false) (hsim : PatSim acc acc')
    (hs : checkPattern c e ph0 acc p = some r) :
    ∃ r', checkPattern c e ph0 acc' p = some r' ∧ PatSim r r' := by
  unfold checkPattern at hs ⊢
  cases hb : p.blocks with
  | nil => simp [hb] at hs
  | cons b0 rest =>
    simp only [hb] at hs ⊢
    by_cases hm : startMatch b0.preds e = true
    · simp only [hm, if_true] at hs ⊢
      rw [← hsim.next]
      by_cases hcmp : ((newRun (c.idOf acc.nextId) p b0.group e).halted &&
          (newRun (c.idOf acc.nextId) p b0.group e).isComplete (b0 :: rest).length) = true
      · simp only [hcmp, if_true, Option.some.injEq] at hs ⊢
        subst hs
        exact ⟨_, rfl, ⟨by simp [hsim.next], by simp [hsim.hc], hsim.upd, hsim.tbl⟩⟩
      · simp only [hcmp, Bool.false_eq_true, if_false, hsing, Bool.not_false, Bool.true_or, if_true] at hs ⊢
        cases hadd : acc.table.add ph0 p.name { run := newRun (c.idOf acc.nextId) p b0.group e, pat := p } with
        | none => simp [hadd] at hs
        | some t1 =>
          simp only [hadd, Option.some.injEq] at hs
          subst hs
          obtain ⟨t1', h1', hk1⟩ := add_sim _ _ _ hsim.tbl ph0 p.name _ hadd
          simp only [h1']
          exact ⟨_, rfl, ⟨by simp [hsim.next], hsim.hc, by simp [hsim.upd], hk1⟩⟩
    · simp only [hm, Bool.false_eq_true, if_false, Option.some.injEq] at hs ⊢
      subst hs
      exact ⟨_, rfl, hsim⟩

theorem foldlM'_sim {α β} (Sim : β → β → Prop) (f : β → α → Option β) (l : List α)
    (h : ∀ a ∈ l, ∀ b b' r, Sim b b' → f b a = some r → ∃ r', f b' a = some r' ∧ Sim r r') :
    ∀ b b' r, Sim b b' → foldlM' f b l = some r → ∃ r', foldlM' f b' l = some r' ∧ Sim r r' := by
  induction l with
  | nil => intro b b' r hs hf; simp only [foldlM', Option.some.injEq] at hf; subst hf; exact ⟨b', rfl, hs⟩
  | cons a rest ih =>
    intro b b' r hs hf
    simp only [foldlM'] at hf ⊢
    cases hfa : f b a with
    | none => simp [hfa] at hf
    | some b1 =>
      simp only [hfa] at hf
      obtain ⟨b1', hb1', hs1⟩ := h a (List.mem_cons_self ..) b b' b1 hs hfa
      simp only [hb1']
      exact ih (fun a' ha' => h a' (List.mem_cons_of_mem _ ha')) b1 b1' r hs1 hf

theorem checkAgainstPatterns_sim (c : Cfg ε) (hns : NoSing c) (hcw : CfgWF c) (e : ε) (t t' : Table ε) (n : Nat)
    (acc : PatAcc ε) (hk : KeyEq t t') (hs : checkAgainstPatterns c e t n = some acc) :
    ∃ acc', checkAgainstPatterns c e t' n = some acc' ∧ PatSim acc acc' := by
  unfold checkAgainstPatterns at hs ⊢
  refine foldlM'_sim PatSim _ c.phenomena ?_ { table := t, nextId := n } { table := t', nextId := n } acc
    ⟨rfl, rfl, rfl, hk⟩ hs
  intro P hP b b' r hsim hf
  refine foldlM'_sim PatSim _ P.patterns ?_ b b' r hsim hf
  intro p hp b1 b1' r1 hsim1 hf1
  exact checkPattern_sim c e P.name b1 b1' r1 p (hns P.name p.name p (hcw P hP p hp)) hsim1 hf1

/-- **`update()` respects key-wise equality of tables** (non-singleton rules with unique names, same event,
same identifier source and counter): the step exists on the other table too, the tables agree key by key
afterwards, the counters agree, and for every key the same completed / halted / updated records are announced.
The finished-run memory is not read by `update()`, so nothing is assumed about it. -/
theorem local_sim (c : Cfg ε) (hns : NoSing c) (hcw : CfgWF c) (a s a' : DState ε) (e : ε) (nt : Notif ε) (ch : Bool)
    (hwfA : TableWF a.table) (hwfS : TableWF s.table) (hk : KeyEq a.table s.table) (hn : a.nextId = s.nextId)
    (hA : localStep c a e = some (a', nt, ch)) :
    ∃ s' ntS chS, localStep c s e = some (s', ntS, chS) ∧ KeyEq a'.table s'.table ∧ a'.nextId = s'.nextId ∧
      ∀ ph pa id,
        nt.completed.filter (keyMatch ph pa id) = ntS.completed.filter (keyMatch ph pa id) ∧
        nt.halted.filter (keyMatch ph pa id) = ntS.halted.filter (keyMatch ph pa id) ∧
        nt.updated.filter (keyMatch ph pa id) = ntS.updated.filter (keyMatch ph pa id) := by
  unfold localStep at hA ⊢
  obtain ⟨hk1, hlists⟩ := checkAgainstRuns_sim e a.table s.table hwfA hwfS hk
  generalize hcarA : checkAgainstRuns e a.table = carA at hA hk1 hlists
  generalize hcarS : checkAgainstRuns e s.table = carS at hk1 hlists
  obtain ⟨t1, rhc, rhi, rupd⟩ := carA
  obtain ⟨t1', rhc', rhi', rupd'⟩ := carS
  simp only at hA hk1 hlists ⊢
  cases hcp : checkAgainstPatterns c e t1 a.nextId with
  | none => simp [hcp] at hA
  | some acc =>
    simp only [hcp, Option.some.injEq, Prod.mk.injEq] at hA
    obtain ⟨hs', hnt, _⟩ := hA
    obtain ⟨acc', hcp', hsim⟩ := checkAgainstPatterns_sim c hns hcw e t1 t1' a.nextId acc hk1 hcp
    rw [← hn]
    simp only [hcp']
    refine ⟨_, _, _, rfl, ?_, ?_, ?_⟩
    · subst hs'
      simp only [maybeCache_table]
      exact hsim.tbl
    · subst hs'
      simp only [maybeCache_nextId]
      exact hsim.next
    · intro ph pa id
      subst hnt
      obtain ⟨l1, l2, l3⟩ := hlists ph pa id
      simp only [List.filter_append, l1, l2, l3, hsim.hc, hsim.upd]
      exact ⟨trivial, trivial, trivial⟩

end Bobo.Decider
