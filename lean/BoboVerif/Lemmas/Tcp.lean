import BoboVerif.Model.Tcp
/-!
Helper lemmas about one pass of the outgoing loop (`Bobo.Tcp.outIter`): a
per-peer characterisation (`outIter_peer`, `outIter_wire`) that the property
theorems of C15 (and C06/C07) build on.
-/
namespace Bobo.Tcp
variable {Rec : Type}

/-! ### decision phase -/

theorem lookup_shift_zero (l : List (Nat × MsgType)) :
    (l.map (fun it => (it.1 + 1, it.2))).lookup 0 = none := by
  induction l with
  | nil => rfl
  | cons a l ih => simp [List.lookup, ih]

theorem lookup_shift_succ (l : List (Nat × MsgType)) (j : Nat) :
    (l.map (fun it => (it.1 + 1, it.2))).lookup (j + 1) = l.lookup j := by
  induction l with
  | nil => rfl
  | cons a l ih =>
    obtain ⟨i, t⟩ := a
    simp only [List.map_cons, List.lookup_cons]
    by_cases h : j = i
    · subst h; simp
    · have h1 : (j + 1 == i + 1) = false := by simp [h]
      have h2 : (j == i) = false := by simp [h]
      simp only [h1, h2, ih]

/-- the decision phase selects for device index `j` exactly what the tree says for that device. -/
theorem decidePhase_lookup (cfg : Periods) (self : String) (now : Int) (qE : Bool)
    (peers : List (String × Peer Rec)) (j : Nat) :
    (decidePhase cfg self now qE peers).lookup j = (peers[j]?).bind (decideEntry cfg self now qE) := by
  induction peers generalizing j with
  | nil => simp [decidePhase]
  | cons e rest ih =>
    unfold decidePhase
    cases j with
    | zero =>
      cases h : decideEntry cfg self now qE e with
      | none => simp [h, lookup_shift_zero]
      | some t => simp [h, List.lookup]
    | succ j =>
      cases h : decideEntry cfg self now qE e with
      | none => simp [lookup_shift_succ, ih]
      | some t =>
        have : (j + 1 == 0) = false := by simp
        simp [List.lookup_cons, lookup_shift_succ, ih]

/-- every device appears at most once in `outlist` (indices strictly increase). -/
theorem decidePhase_sorted (cfg : Periods) (self : String) (now : Int) (qE : Bool)
    (peers : List (String × Peer Rec)) :
    (decidePhase cfg self now qE peers).Pairwise (fun a b => a.1 < b.1) := by
  induction peers with
  | nil => simp [decidePhase]
  | cons e rest ih =>
    unfold decidePhase
    have hm : ((decidePhase cfg self now qE rest).map (fun it => (it.1 + 1, it.2))).Pairwise (fun a b => a.1 < b.1) := by
      rw [List.pairwise_map]
      exact ih.imp (by intro a b h; simpa using h)
    cases decideEntry cfg self now qE e with
    | none => simpa using hm
    | some t =>
      simp only [List.pairwise_cons]
      refine ⟨?_, hm⟩
      intro b hb
      simp only [List.mem_map] at hb
      obtain ⟨a, _, rfl⟩ := hb
      simp

theorem filterMap_congr' {α β : Type} (f g : α → Option β) :
    ∀ (l : List α), (∀ x ∈ l, f x = g x) → l.filterMap f = l.filterMap g := by
  intro l
  induction l with
  | nil => intro _; rfl
  | cons a l ih =>
    intro h
    simp only [List.filterMap_cons, h a (by simp), ih (fun x hx => h x (by simp [hx]))]

/-! ### send phase -/

/-- the `cache_sync` of a pass that sends at least one SYNC: the queue head, or the empty message. -/
def cacheOf (q : List (Msg Rec)) : Msg Rec :=
  match q with
  | m :: _ => m
  | [] => Msg.empty

/-- `cache_sync` is either still unset (queue untouched) or the head of the pass's queue (popped once). -/
def CacheInv (q0 : List (Msg Rec)) (cache : Option (Msg Rec)) (queue : List (Msg Rec)) : Prop :=
  (cache = none ∧ queue = q0) ∨ (cache = some (cacheOf q0) ∧ queue = q0.tail)

theorem fetch_inv {q0 : List (Msg Rec)} {c : Option (Msg Rec)} {q : List (Msg Rec)} (t : MsgType)
    (h : CacheInv q0 c q) :
    CacheInv q0 (fetch t c q).1 (fetch t c q).2 ∧ (t = .sync → (fetch t c q).1 = some (cacheOf q0)) := by
  rcases h with ⟨rfl, rfl⟩ | ⟨rfl, rfl⟩
  · cases t <;> cases q <;> simp [fetch, CacheInv, cacheOf]
  · cases t <;> simp [fetch, CacheInv]

theorem sendPeer_cache_irrel (t : MsgType) (ht : t ≠ .sync) (snap c1 c2 : Msg Rec) (err : Nat) (clock : Int)
    (p : Peer Rec) : sendPeer t snap c1 err clock p = sendPeer t snap c2 err clock p := by
  cases t <;> simp_all [sendPeer, book, payload]

/-- the device entry after its send-loop body. -/
def entryAfter (snap : Msg Rec) (q0 : List (Msg Rec)) (outcome : Nat → Nat × Int) (j : Nat) (t : MsgType)
    (e : String × Peer Rec) : String × Peer Rec :=
  (e.1, (sendPeer t snap (cacheOf q0) (outcome j).1 (outcome j).2 e.2).1)

/-- what the send-loop body hands to `_tcp_send` for device `j`. -/
def wireOf (snap : Msg Rec) (q0 : List (Msg Rec)) (j : Nat) (t : MsgType) (e : String × Peer Rec) : Wire Rec :=
  ⟨j, t, flagsOf e.2, payload t snap (cacheOf q0) (prep t e.2)⟩

theorem sendOne_none (snap : Msg Rec) (outcome : Nat → Nat × Int) (st : SendSt Rec) (it : Nat × MsgType)
    (h : st.peers[it.1]? = none) : sendOne snap outcome st it = st := by
  simp [sendOne, h]

theorem sendOne_some (snap : Msg Rec) (outcome : Nat → Nat × Int) (q0 : List (Msg Rec)) (st : SendSt Rec)
    (it : Nat × MsgType) (e : String × Peer Rec) (h : st.peers[it.1]? = some e)
    (hc : CacheInv q0 st.cache st.queue) :
    (sendOne snap outcome st it).peers = st.peers.set it.1 (entryAfter snap q0 outcome it.1 it.2 e) ∧
    (sendOne snap outcome st it).wires = st.wires ++ [wireOf snap q0 it.1 it.2 e] ∧
    CacheInv q0 (sendOne snap outcome st it).cache (sendOne snap outcome st it).queue := by
  obtain ⟨hinv, hsync⟩ := fetch_inv it.2 hc
  have hp : ∀ err clock, sendPeer it.2 snap ((fetch it.2 st.cache st.queue).1.getD Msg.empty) err clock e.2
      = sendPeer it.2 snap (cacheOf q0) err clock e.2 := by
    intro err clock
    by_cases ht : it.2 = .sync
    · rw [hsync ht]; rfl
    · exact sendPeer_cache_irrel _ ht _ _ _ _ _ _
  simp only [sendOne, h, hp]
  refine ⟨rfl, ?_, hinv⟩
  simp [wireOf, sendPeer]

theorem sendOne_cacheInv (snap : Msg Rec) (outcome : Nat → Nat × Int) (q0 : List (Msg Rec)) (st : SendSt Rec)
    (it : Nat × MsgType) (hc : CacheInv q0 st.cache st.queue) :
    CacheInv q0 (sendOne snap outcome st it).cache (sendOne snap outcome st it).queue := by
  cases h : st.peers[it.1]? with
  | none => rw [sendOne_none _ _ _ _ h]; exact hc
  | some e => exact (sendOne_some snap outcome q0 st it e h hc).2.2

theorem sendOne_peers_ne (snap : Msg Rec) (outcome : Nat → Nat × Int) (st : SendSt Rec)
    (it : Nat × MsgType) (j : Nat) (hj : it.1 ≠ j) :
    (sendOne snap outcome st it).peers[j]? = st.peers[j]? := by
  cases h : st.peers[it.1]? with
  | none => rw [sendOne_none _ _ _ _ h]
  | some e => simp [sendOne, h, List.getElem?_set_ne hj]

/-- per device: the entry after the send phase. -/
theorem sendPhase_peers (snap : Msg Rec) (outcome : Nat → Nat × Int) (q0 : List (Msg Rec)) (j : Nat) :
    ∀ (ol : List (Nat × MsgType)) (st : SendSt Rec), ol.Pairwise (fun a b => a.1 < b.1) →
      CacheInv q0 st.cache st.queue →
      (sendPhase snap outcome st ol).peers[j]? =
        match ol.lookup j with
        | none => st.peers[j]?
        | some t => (st.peers[j]?).map (entryAfter snap q0 outcome j t) := by
  intro ol
  induction ol with
  | nil => intro st _ _; simp [sendPhase, List.lookup]
  | cons it rest ih =>
    intro st hs hc
    obtain ⟨hhead, hrest⟩ := List.pairwise_cons.mp hs
    have hc' := sendOne_cacheInv snap outcome q0 st it hc
    have := ih (sendOne snap outcome st it) hrest hc'
    simp only [sendPhase, List.foldl_cons] at this ⊢
    rw [this]
    obtain ⟨i, t⟩ := it
    by_cases hij : j = i
    · subst hij
      have hl : rest.lookup j = none := by
        rw [List.lookup_eq_none_iff]
        intro b hb
        have := hhead b hb
        simp at this ⊢
        omega
      simp only [hl, List.lookup_cons, beq_self_eq_true]
      cases h : st.peers[j]? with
      | none => rw [sendOne_none _ _ _ _ (by simpa using h)]; simp [h]
      | some e =>
        have hlt : j < st.peers.length := by
          rcases List.getElem?_eq_some_iff.mp h with ⟨hlt, _⟩; exact hlt
        rw [(sendOne_some snap outcome q0 st (j, t) e (by simpa using h) hc).1]
        simp [List.getElem?_set_self hlt]
    · have hb : (j == i) = false := by simp [hij]
      simp only [List.lookup_cons, hb]
      rw [sendOne_peers_ne snap outcome st (i, t) j (by simpa using Ne.symm hij)]

/-- the wire log of the send phase. -/
theorem sendPhase_wires (snap : Msg Rec) (outcome : Nat → Nat × Int) (q0 : List (Msg Rec)) :
    ∀ (ol : List (Nat × MsgType)) (st : SendSt Rec), ol.Pairwise (fun a b => a.1 < b.1) →
      CacheInv q0 st.cache st.queue →
      (sendPhase snap outcome st ol).wires =
        st.wires ++ ol.filterMap (fun it => (st.peers[it.1]?).map (wireOf snap q0 it.1 it.2)) := by
  intro ol
  induction ol with
  | nil => intro st _ _; simp [sendPhase]
  | cons it rest ih =>
    intro st hs hc
    obtain ⟨hhead, hrest⟩ := List.pairwise_cons.mp hs
    have hc' := sendOne_cacheInv snap outcome q0 st it hc
    have := ih (sendOne snap outcome st it) hrest hc'
    simp only [sendPhase, List.foldl_cons] at this ⊢
    rw [this]
    have hcongr : rest.filterMap (fun b => ((sendOne snap outcome st it).peers[b.1]?).map (wireOf snap q0 b.1 b.2))
        = rest.filterMap (fun b => (st.peers[b.1]?).map (wireOf snap q0 b.1 b.2)) := by
      apply filterMap_congr'
      intro b hb
      rw [sendOne_peers_ne snap outcome st it b.1 (by have := hhead b hb; omega)]
    rw [hcongr]
    cases h : st.peers[it.1]? with
    | none => rw [sendOne_none _ _ _ _ h]; simp [h]
    | some e =>
      rw [(sendOne_some snap outcome q0 st it e h hc).2.1]
      simp [h]

theorem find_wire (F : Nat × MsgType → Option (Wire Rec)) (hF : ∀ it w, F it = some w → w.peer = it.1) (j : Nat) :
    ∀ (ol : List (Nat × MsgType)), ol.Pairwise (fun a b => a.1 < b.1) →
      (ol.filterMap F).find? (fun w => w.peer == j) = (ol.lookup j).bind (fun t => F (j, t)) := by
  intro ol
  induction ol with
  | nil => intro _; simp [List.lookup]
  | cons it rest ih =>
    intro hs
    obtain ⟨hhead, hrest⟩ := List.pairwise_cons.mp hs
    obtain ⟨i, t⟩ := it
    by_cases hij : j = i
    · subst hij
      simp only [List.lookup_cons, beq_self_eq_true, Option.bind_some, List.filterMap_cons]
      cases h : F (j, t) with
      | some w =>
        have := hF _ _ h
        simp [this]
      | none =>
        simp only
        have hl : rest.lookup j = none := by
          rw [List.lookup_eq_none_iff]
          intro b hb
          have := hhead b hb
          simp at this ⊢
          omega
        rw [ih hrest, hl]; rfl
    · have hb : (j == i) = false := by simp [hij]
      simp only [List.lookup_cons, hb, List.filterMap_cons]
      cases h : F (i, t) with
      | some w =>
        have := hF _ _ h
        have hw : (w.peer == j) = false := by simp at this; simp [this]; omega
        simp only [List.find?_cons, hw]
        exact ih hrest
      | none => exact ih hrest

theorem sendPhase_queue (snap : Msg Rec) (outcome : Nat → Nat × Int) (q0 : List (Msg Rec)) :
    ∀ (ol : List (Nat × MsgType)) (st : SendSt Rec), CacheInv q0 st.cache st.queue →
      CacheInv q0 (sendPhase snap outcome st ol).cache (sendPhase snap outcome st ol).queue := by
  intro ol
  induction ol with
  | nil => intro st h; exact h
  | cons it rest ih =>
    intro st hc
    simp only [sendPhase, List.foldl_cons]
    exact ih _ (sendOne_cacheInv snap outcome q0 st it hc)

/-! ### one pass, per device -/

/-- what one pass does to the device at dict index `j`. -/
theorem outIter_peer (s : TState Rec) (now : Int) (snap : Msg Rec) (outcome : Nat → Nat × Int) (j : Nat) :
    (outIter s now snap outcome).1.peers[j]? =
      (s.peers[j]?).map (fun e =>
        match decideEntry s.cfg s.self now s.queue.isEmpty e with
        | none => e
        | some t => entryAfter snap s.queue outcome j t e) := by
  simp only [outIter]
  rw [sendPhase_peers snap outcome s.queue j _ _ (decidePhase_sorted ..) (Or.inl ⟨rfl, rfl⟩),
    decidePhase_lookup]
  cases h : s.peers[j]? with
  | none => simp
  | some e =>
    simp only [Option.bind_some, Option.map_some]
    cases decideEntry s.cfg s.self now s.queue.isEmpty e with
    | none => simp
    | some t => simp

/-- the message (if any) handed to the wire for the device at dict index `j` in one pass. -/
theorem outIter_wire (s : TState Rec) (now : Int) (snap : Msg Rec) (outcome : Nat → Nat × Int) (j : Nat) :
    (outIter s now snap outcome).2.find? (fun w => w.peer == j) =
      (s.peers[j]?).bind (fun e =>
        (decideEntry s.cfg s.self now s.queue.isEmpty e).map (fun t => wireOf snap s.queue j t e)) := by
  simp only [outIter]
  rw [sendPhase_wires snap outcome s.queue _ _ (decidePhase_sorted ..) (Or.inl ⟨rfl, rfl⟩)]
  simp only [List.nil_append]
  rw [find_wire _ _ j _ (decidePhase_sorted ..), decidePhase_lookup]
  · cases h : s.peers[j]? with
    | none => simp
    | some e =>
      simp only [Option.bind_some]
      cases decideEntry s.cfg s.self now s.queue.isEmpty e <;> simp [h]
  · intro it w hw
    cases h : s.peers[it.1]? with
    | none => simp [h] at hw
    | some e => simp [h] at hw; subst hw; rfl

/-- the outgoing queue after one pass: untouched, or its head popped exactly once. -/
theorem outIter_queue (s : TState Rec) (now : Int) (snap : Msg Rec) (outcome : Nat → Nat × Int) :
    (outIter s now snap outcome).1.queue = s.queue ∨ (outIter s now snap outcome).1.queue = s.queue.tail := by
  have := sendPhase_queue snap outcome s.queue (decidePhase s.cfg s.self now s.queue.isEmpty s.peers)
    ⟨s.peers, s.queue, none, []⟩ (Or.inl ⟨rfl, rfl⟩)
  rcases this with ⟨_, h⟩ | ⟨_, h⟩
  · exact Or.inl h
  · exact Or.inr h

theorem outIter_cfg (s : TState Rec) (now : Int) (snap : Msg Rec) (outcome : Nat → Nat × Int) :
    (outIter s now snap outcome).1.cfg = s.cfg ∧ (outIter s now snap outcome).1.self = s.self := ⟨rfl, rfl⟩

/-! ### what one device sees of a sequence of steps -/

/-- one message to the device: decision clock, queue-empty flag at the decision, type, flags on the
wire, result of `_tcp_send`, clock read after the send. -/
structure Att where
  now    : Int
  qEmpty : Bool
  typ    : MsgType
  flags  : Nat
  err    : Nat
  clock  : Int
deriving Repr, DecidableEq

/-- events concerning one device: a message sent to it, or a RESET-flagged message received from it. -/
inductive JEv where
  | att (a : Att)
  | reset
deriving Repr, DecidableEq

def jev (j : Nat) : Obs Rec → List JEv
  | .pass now qE outcome wires =>
    match wires.find? (fun w => w.peer == j) with
    | some w => [.att ⟨now, qE, w.typ, w.flags, (outcome j).1, (outcome j).2⟩]
    | none => []
  | .push => []
  | .incoming i flags => if i = j ∧ flags &&& FLAG_RESET = FLAG_RESET then [.reset] else []

def jlog (j : Nat) : List (Obs Rec) → List JEv
  | [] => []
  | o :: os => jev j o ++ jlog j os

theorem step_cfg (s : TState Rec) (x : Step Rec) : (step s x).1.cfg = s.cfg := by
  cases x <;> simp [step, outIter, push, incoming]
  split <;> rfl

/-- the three ways one step can concern device `j`. -/
theorem step_j (s : TState Rec) (x : Step Rec) (j : Nat) :
    (jev j (step s x).2 = [] ∧ (step s x).1.peers[j]? = s.peers[j]?) ∨
    (jev j (step s x).2 = [.reset] ∧
      (step s x).1.peers[j]? = (s.peers[j]?).map (fun e => (e.1, e.2.clearLast))) ∨
    (∃ now snap outcome e t, x = .pass now snap outcome ∧ s.peers[j]? = some e ∧
      decideOne s.cfg now s.queue.isEmpty e.2 = some t ∧
      jev j (step s x).2 = [.att ⟨now, s.queue.isEmpty, t, flagsOf e.2, (outcome j).1, (outcome j).2⟩] ∧
      (step s x).1.peers[j]? = some (entryAfter snap s.queue outcome j t e)) := by
  cases x with
  | push m => left; simp [step, jev, push]
  | incoming i flags =>
    by_cases h : i = j ∧ flags &&& FLAG_RESET = FLAG_RESET
    · right; left
      obtain ⟨rfl, hf⟩ := h
      simp only [step, jev, hf, and_self, if_true, incoming, true_and]
      cases he : s.peers[i]? with
      | none => simp [he]
      | some e =>
        have hlt : i < s.peers.length := (List.getElem?_eq_some_iff.mp he).1
        simp [List.getElem?_set_self hlt, onIncomingFlags, hf]
    · left
      simp only [step, jev, h, if_false, incoming, true_and]
      cases he : s.peers[i]? with
      | none => simp
      | some e =>
        by_cases hij : i = j
        · subst hij
          have hf : ¬ (flags &&& FLAG_RESET = FLAG_RESET) := fun hf => h ⟨rfl, hf⟩
          have hlt : i < s.peers.length := (List.getElem?_eq_some_iff.mp he).1
          simp [he, List.getElem?_set_self hlt, onIncomingFlags, hf]
        · simp [List.getElem?_set_ne hij]
  | pass now snap outcome =>
    have hw := outIter_wire s now snap outcome j
    have hp := outIter_peer s now snap outcome j
    cases he : s.peers[j]? with
    | none =>
      left
      rw [he] at hw hp
      simp only [Option.bind_none, Option.map_none] at hw hp
      simp [step, jev, hw, hp]
    | some e =>
      rw [he] at hw hp
      simp only [Option.bind_some, Option.map_some] at hw hp
      cases hd : decideEntry s.cfg s.self now s.queue.isEmpty e with
      | none =>
        left
        rw [hd] at hw hp
        simp only [Option.map_none] at hw
        simp [step, jev, hw, hp]
      | some t =>
        right; right
        rw [hd] at hw hp
        simp only [Option.map_some] at hw
        refine ⟨now, snap, outcome, e, t, rfl, rfl, ?_, ?_, ?_⟩
        · unfold decideEntry at hd
          split at hd
          · cases hd
          · exact hd
        · simp [step, jev, hw, wireOf]
        · simp [step, hp]

end Bobo.Tcp
