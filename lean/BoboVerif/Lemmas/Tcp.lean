import BoboVerif.Model.Tcp
/-!
Helper lemmas about one pass of the outgoing loop (`Bobo.Tcp.outIter`): a
per-peer characterisation (`outIter_peer`, `outIter_wire`) that the property
theorems of C15 (and C06/C07) build on.
-/
namespace Bobo.Tcp
variable {Rec : Type}

/-! ### decision phase -/

theorem lookup_shift_zero {β : Type} (l : List (Nat × β)) :
    (l.map (fun it => (it.1 + 1, it.2))).lookup 0 = none := by
  induction l with
  | nil => rfl
  | cons a l ih => simp [List.lookup, ih]

theorem lookup_shift_succ {β : Type} (l : List (Nat × β)) (j : Nat) :
    (l.map (fun it => (it.1 + 1, it.2))).lookup (j + 1) = l.lookup j := by
  induction l with
  | nil => rfl
  | cons a l ih =>
    obtain ⟨i, t⟩ := a
    simp only [List.map_cons, List.lookup_cons]
    by_cases h : j = i
    · subst h; simp
    · have h1 : (j + 1 == i + 1) = false := by simp [h]
      have h2 : (j == i) = false := by simp [h]
      simp only [h1, h2, ih]

/-- the decision phase selects for device index `j` exactly what the tree says for that device. -/
theorem decidePhase_lookup (cfg : Periods) (self : String) (now : Int) (qE : Bool)
    (peers : List (String × Peer Rec)) (j : Nat) :
    (decidePhase cfg self now qE peers).lookup j = (peers[j]?).bind (decideEntry cfg self now qE) := by
  induction peers generalizing j with
  | nil => simp [decidePhase]
  | cons e rest ih =>
    unfold decidePhase
    cases j with
    | zero =>
      cases h : decideEntry cfg self now qE e with
      | none => simp [h, lookup_shift_zero]
      | some t => simp [h, List.lookup]
    | succ j =>
      cases h : decideEntry cfg self now qE e with
      | none => simp [lookup_shift_succ, ih]
      | some t =>
        have : (j + 1 == 0) = false := by simp
        simp [List.lookup_cons, lookup_shift_succ, ih]

/-- every device appears at most once in `outlist` (indices strictly increase). -/
theorem decidePhase_sorted (cfg : Periods) (self : String) (now : Int) (qE : Bool)
    (peers : List (String × Peer Rec)) :
    (decidePhase cfg self now qE peers).Pairwise (fun a b => a.1 < b.1) := by
  induction peers with
  | nil => simp [decidePhase]
  | cons e rest ih =>
    unfold decidePhase
    have hm : ((decidePhase cfg self now qE rest).map (fun it => (it.1 + 1, it.2))).Pairwise (fun a b => a.1 < b.1) := by
      rw [List.pairwise_map]
      exact ih.imp (by intro a b h; simpa using h)
    cases decideEntry cfg self now qE e with
    | none => simpa using hm
    | some t =>
      simp only [List.pairwise_cons]
      refine ⟨?_, hm⟩
      intro b hb
      simp only [List.mem_map] at hb
      obtain ⟨a, _, rfl⟩ := hb
      simp

theorem filterMap_congr' {α β : Type} (f g : α → Option β) :
    ∀ (l : List α), (∀ x ∈ l, f x = g x) → l.filterMap f = l.filterMap g := by
  intro l
  induction l with
  | nil => intro _; rfl
  | cons a l ih =>
    intro h
    simp only [List.filterMap_cons, h a (by simp), ih (fun x hx => h x (by simp [hx]))]

/-! ### send phase -/

/-- the `cache_sync` of a pass that sends at least one SYNC: the queue head, or the empty message. -/
def cacheOf (q : List (Msg Rec)) : Msg Rec :=
  match q with
  | m :: _ => m
  | [] => Msg.empty

/-- `cache_sync` is either still unset (queue untouched) or the head of the pass's queue (popped once). -/
def CacheInv (q0 : List (Msg Rec)) (cache : Option (Msg Rec)) (queue : List (Msg Rec)) : Prop :=
  (cache = none ∧ queue = q0) ∨ (cache = some (cacheOf q0) ∧ queue = q0.tail)

theorem fetch_inv {q0 : List (Msg Rec)} {c : Option (Msg Rec)} {q : List (Msg Rec)} (t : MsgType)
    (h : CacheInv q0 c q) :
    CacheInv q0 (fetch t c q).1 (fetch t c q).2 ∧ (t = .sync → (fetch t c q).1 = some (cacheOf q0)) := by
  rcases h with ⟨rfl, rfl⟩ | ⟨rfl, rfl⟩
  · cases t <;> cases q <;> simp [fetch, CacheInv, cacheOf]
  · cases t <;> simp [fetch, CacheInv]

theorem sendPeer_cache_irrel (t : MsgType) (ht : t ≠ .sync) (seen : Nat) (snap c1 c2 : Msg Rec) (err : Nat) (clock : Int)
    (p : Peer Rec) : sendPeer t seen snap c1 err clock p = sendPeer t seen snap c2 err clock p := by
  cases t <;> simp_all [sendPeer, book, bookContact, payload]

/-- the device entry after its send-loop body. -/
def entryAfter (snap : Msg Rec) (q0 : List (Msg Rec)) (outcome : Nat → Nat × Int) (j : Nat) (t : MsgType × Nat)
    (e : String × Peer Rec) : String × Peer Rec :=
  (e.1, (sendPeer t.1 t.2 snap (cacheOf q0) (outcome j).1 (outcome j).2 e.2).1)

/-- what the send-loop body hands to `_tcp_send` for device `j`. -/
def wireOf (snap : Msg Rec) (q0 : List (Msg Rec)) (j : Nat) (t : MsgType × Nat) (e : String × Peer Rec) : Wire Rec :=
  ⟨j, t.1, flagsOf e.2, payload t.1 snap (cacheOf q0) (prep t.1 e.2)⟩

theorem sendOne_none (snap : Msg Rec) (outcome : Nat → Nat × Int) (st : SendSt Rec) (it : Nat × MsgType × Nat)
    (h : st.peers[it.1]? = none) : sendOne snap outcome st it = st := by
  simp [sendOne, h]

theorem sendOne_some (snap : Msg Rec) (outcome : Nat → Nat × Int) (q0 : List (Msg Rec)) (st : SendSt Rec)
    (it : Nat × MsgType × Nat) (e : String × Peer Rec) (h : st.peers[it.1]? = some e)
    (hc : CacheInv q0 st.cache st.queue) :
    (sendOne snap outcome st it).peers = st.peers.set it.1 (entryAfter snap q0 outcome it.1 it.2 e) ∧
    (sendOne snap outcome st it).wires = st.wires ++ [wireOf snap q0 it.1 it.2 e] ∧
    CacheInv q0 (sendOne snap outcome st it).cache (sendOne snap outcome st it).queue := by
  obtain ⟨hinv, hsync⟩ := fetch_inv it.2.1 hc
  have hp : ∀ err clock, sendPeer it.2.1 it.2.2 snap ((fetch it.2.1 st.cache st.queue).1.getD Msg.empty) err clock e.2
      = sendPeer it.2.1 it.2.2 snap (cacheOf q0) err clock e.2 := by
    intro err clock
    by_cases ht : it.2.1 = .sync
    · rw [hsync ht]; rfl
    · exact sendPeer_cache_irrel _ ht _ _ _ _ _ _ _
  simp only [sendOne, h, hp]
  refine ⟨rfl, ?_, hinv⟩
  simp [wireOf, sendPeer]

theorem sendOne_cacheInv (snap : Msg Rec) (outcome : Nat → Nat × Int) (q0 : List (Msg Rec)) (st : SendSt Rec)
    (it : Nat × MsgType × Nat) (hc : CacheInv q0 st.cache st.queue) :
    CacheInv q0 (sendOne snap outcome st it).cache (sendOne snap outcome st it).queue := by
  cases h : st.peers[it.1]? with
  | none => rw [sendOne_none _ _ _ _ h]; exact hc
  | some e => exact (sendOne_some snap outcome q0 st it e h hc).2.2

theorem sendOne_peers_ne (snap : Msg Rec) (outcome : Nat → Nat × Int) (st : SendSt Rec)
    (it : Nat × MsgType × Nat) (j : Nat) (hj : it.1 ≠ j) :
    (sendOne snap outcome st it).peers[j]? = st.peers[j]? := by
  cases h : st.peers[it.1]? with
  | none => rw [sendOne_none _ _ _ _ h]
  | some e => simp [sendOne, h, List.getElem?_set_ne hj]

/-- per device: the entry after the send phase. -/
theorem sendPhase_peers (snap : Msg Rec) (outcome : Nat → Nat × Int) (q0 : List (Msg Rec)) (j : Nat) :
    ∀ (ol : List (Nat × MsgType × Nat)) (st : SendSt Rec), ol.Pairwise (fun a b => a.1 < b.1) →
      CacheInv q0 st.cache st.queue →
      (sendPhase snap outcome st ol).peers[j]? =
        match ol.lookup j with
        | none => st.peers[j]?
        | some t => (st.peers[j]?).map (entryAfter snap q0 outcome j t) := by
  intro ol
  induction ol with
  | nil => intro st _ _; simp [sendPhase, List.lookup]
  | cons it rest ih =>
    intro st hs hc
    obtain ⟨hhead, hrest⟩ := List.pairwise_cons.mp hs
    have hc' := sendOne_cacheInv snap outcome q0 st it hc
    have := ih (sendOne snap outcome st it) hrest hc'
    simp only [sendPhase, List.foldl_cons] at this ⊢
    rw [this]
    obtain ⟨i, t⟩ := it
    by_cases hij : j = i
    · subst hij
      have hl : rest.lookup j = none := by
        rw [List.lookup_eq_none_iff]
        intro b hb
        have := hhead b hb
        simp at this ⊢
        omega
      simp only [hl, List.lookup_cons, beq_self_eq_true]
      cases h : st.peers[j]? with
      | none => rw [sendOne_none _ _ _ _ (by simpa using h)]; simp [h]
      | some e =>
        have hlt : j < st.peers.length := by
          rcases List.getElem?_eq_some_iff.mp h with ⟨hlt, _⟩; exact hlt
        rw [(sendOne_some snap outcome q0 st (j, t) e (by simpa using h) hc).1]
        simp [List.getElem?_set_self hlt]
    · have hb : (j == i) = false := by simp [hij]
      simp only [List.lookup_cons, hb]
      rw [sendOne_peers_ne snap outcome st (i, t) j (by simpa using Ne.symm hij)]

/-- the wire log of the send phase. -/
theorem sendPhase_wires (snap : Msg Rec) (outcome : Nat → Nat × Int) (q0 : List (Msg Rec)) :
    ∀ (ol : List (Nat × MsgType × Nat)) (st : SendSt Rec), ol.Pairwise (fun a b => a.1 < b.1) →
      CacheInv q0 st.cache st.queue →
      (sendPhase snap outcome st ol).wires =
        st.wires ++ ol.filterMap (fun it => (st.peers[it.1]?).map (wireOf snap q0 it.1 it.2)) := by
  intro ol
  induction ol with
  | nil => intro st _ _; simp [sendPhase]
  | cons it rest ih =>
    intro st hs hc
    obtain ⟨hhead, hrest⟩ := List.pairwise_cons.mp hs
    have hc' := sendOne_cacheInv snap outcome q0 st it hc
    have := ih (sendOne snap outcome st it) hrest hc'
    simp only [sendPhase, List.foldl_cons] at this ⊢
    rw [this]
    have hcongr : rest.filterMap (fun b => ((sendOne snap outcome st it).peers[b.1]?).map (wireOf snap q0 b.1 b.2))
        = rest.filterMap (fun b => (st.peers[b.1]?).map (wireOf snap q0 b.1 b.2)) := by
      apply filterMap_congr'
      intro b hb
      rw [sendOne_peers_ne snap outcome st it b.1 (by have := hhead b hb; omega)]
    rw [hcongr]
    cases h : st.peers[it.1]? with
    | none => rw [sendOne_none _ _ _ _ h]; simp [h]
    | some e =>
      rw [(sendOne_some snap outcome q0 st it e h hc).2.1]
      simp [h]

theorem find_wire (F : Nat × MsgType × Nat → Option (Wire Rec)) (hF : ∀ it w, F it = some w → w.peer = it.1) (j : Nat) :
    ∀ (ol : List (Nat × MsgType × Nat)), ol.Pairwise (fun a b => a.1 < b.1) →
      (ol.filterMap F).find? (fun w => w.peer == j) = (ol.lookup j).bind (fun t => F (j, t)) := by
  intro ol
  induction ol with
  | nil => intro _; simp [List.lookup]
  | cons it rest ih =>
    intro hs
    obtain ⟨hhead, hrest⟩ := List.pairwise_cons.mp hs
    obtain ⟨i, t⟩ := it
    by_cases hij : j = i
    · subst hij
      simp only [List.lookup_cons, beq_self_eq_true, Option.bind_some, List.filterMap_cons]
      cases h : F (j, t) with
      | some w =>
        have := hF _ _ h
        simp [this]
      | none =>
        simp only
        have hl : rest.lookup j = none := by
          rw [List.lookup_eq_none_iff]
          intro b hb
          have := hhead b hb
          simp at this ⊢
          omega
        rw [ih hrest, hl]; rfl
    · have hb : (j == i) = false := by simp [hij]
      simp only [List.lookup_cons, hb, List.filterMap_cons]
      cases h : F (i, t) with
      | some w =>
        have := hF _ _ h
        have hw : (w.peer == j) = false := by simp at this; simp [this]; omega
        simp only [List.find?_cons, hw]
        exact ih hrest
      | none => exact ih hrest

theorem sendPhase_queue (snap : Msg Rec) (outcome : Nat → Nat × Int) (q0 : List (Msg Rec)) :
    ∀ (ol : List (Nat × MsgType × Nat)) (st : SendSt Rec), CacheInv q0 st.cache st.queue →
      CacheInv q0 (sendPhase snap outcome st ol).cache (sendPhase snap outcome st ol).queue := by
  intro ol
  induction ol with
  | nil => intro st h; exact h
  | cons it rest ih =>
    intro st hc
    simp only [sendPhase, List.foldl_cons]
    exact ih _ (sendOne_cacheInv snap outcome q0 st it hc)

/-! ### one pass, per device -/

/-- what one pass does to the device at dict index `j`. -/
theorem outIter_peer (s : TState Rec) (now : Int) (snap : Msg Rec) (outcome : Nat → Nat × Int) (j : Nat) :
    (outIter s now snap outcome).1.peers[j]? =
      (s.peers[j]?).map (fun e =>
        match decideEntry s.cfg s.self now s.queue.isEmpty e with
        | none => e
        | some t => entryAfter snap s.queue outcome j t e) := by
  simp only [outIter]
  rw [sendPhase_peers snap outcome s.queue j _ _ (decidePhase_sorted ..) (Or.inl ⟨rfl, rfl⟩),
    decidePhase_lookup]
  cases h : s.peers[j]? with
  | none => simp
  | some e =>
    simp only [Option.bind_some, Option.map_some]
    cases decideEntry s.cfg s.self now s.queue.isEmpty e with
    | none => simp
    | some t => simp

/-- the message (if any) handed to the wire for the device at dict index `j` in one pass. -/
theorem outIter_wire (s : TState Rec) (now : Int) (snap : Msg Rec) (outcome : Nat → Nat × Int) (j : Nat) :
    (outIter s now snap outcome).2.find? (fun w => w.peer == j) =
      (s.peers[j]?).bind (fun e =>
        (decideEntry s.cfg s.self now s.queue.isEmpty e).map (fun t => wireOf snap s.queue j t e)) := by
  simp only [outIter]
  rw [sendPhase_wires snap outcome s.queue _ _ (decidePhase_sorted ..) (Or.inl ⟨rfl, rfl⟩)]
  simp only [List.nil_append]
  rw [find_wire _ _ j _ (decidePhase_sorted ..), decidePhase_lookup]
  · cases h : s.peers[j]? with
    | none => simp
    | some e =>
      simp only [Option.bind_some]
      cases decideEntry s.cfg s.self now s.queue.isEmpty e <;> simp [h]
  · intro it w hw
    cases h : s.peers[it.1]? with
    | none => simp [h] at hw
    | some e => simp [h] at hw; subst hw; rfl

/-- the outgoing queue after one pass: untouched, or its head popped exactly once. -/
theorem outIter_queue (s : TState Rec) (now : Int) (snap : Msg Rec) (outcome : Nat → Nat × Int) :
    (outIter s now snap outcome).1.queue = s.queue ∨ (outIter s now snap outcome).1.queue = s.queue.tail := by
  have := sendPhase_queue snap outcome s.queue (decidePhase s.cfg s.self now s.queue.isEmpty s.peers)
    ⟨s.peers, s.queue, none, []⟩ (Or.inl ⟨rfl, rfl⟩)
  rcases this with ⟨_, h⟩ | ⟨_, h⟩
  · exact Or.inl h
  · exact Or.inr h

theorem outIter_cfg (s : TState Rec) (now : Int) (snap : Msg Rec) (outcome : Nat → Nat × Int) :
    (outIter s now snap outcome).1.cfg = s.cfg ∧ (outIter s now snap outcome).1.self = s.self := ⟨rfl, rfl⟩

/-! ### what one device sees of a sequence of steps -/

/-- one message to the device: decision clock, queue-empty flag at the decision, type, flags on the
wire, result of `_tcp_send`, clock read after the send. -/
structure Att where
  now    : Int
  qEmpty : Bool
  typ    : MsgType
  flags  : Nat
  err    : Nat
  clock  : Int
deriving Repr, DecidableEq

/-- events concerning one device: a message sent to it, or a RESET-flagged message received from it. -/
inductive JEv where
  | att (a : Att)
  | reset
deriving Repr, DecidableEq

def jev (j : Nat) : Obs Rec → List JEv
  | .pass now qE outcome wires =>
    match wires.find? (fun w => w.peer == j) with
    | some w => [.att ⟨now, qE, w.typ, w.flags, (outcome j).1, (outcome j).2⟩]
    | none => []
  | .push => []
  | .incoming i flags => if i = j ∧ flags &&& FLAG_RESET = FLAG_RESET then [.reset] else []

def jlog (j : Nat) : List (Obs Rec) → List JEv
  | [] => []
  | o :: os => jev j o ++ jlog j os

theorem step_cfg (s : TState Rec) (x : Step Rec) : (step s x).1.cfg = s.cfg := by
  cases x <;> simp [step, outIter, push, incoming]

theorem incomingPeers_ne (peers : List (String × Peer Rec)) (i flags j : Nat) (h : i ≠ j) :
    (incomingPeers peers i flags)[j]? = peers[j]? := by
  unfold incomingPeers
  split
  · rfl
  · simp [List.getElem?_set_ne h]

theorem incomingPeers_self (peers : List (String × Peer Rec)) (i flags : Nat) :
    (incomingPeers peers i flags)[i]? = (peers[i]?).map (fun e => (e.1, onIncomingFlags flags e.2)) := by
  unfold incomingPeers
  cases he : peers[i]? with
  | none => simp [he]
  | some e =>
    have hlt : i < peers.length := (List.getElem?_eq_some_iff.mp he).1
    simp [List.getElem?_set_self hlt]

/-- the three ways one step can concern device `j`. -/
theorem step_j (s : TState Rec) (x : Step Rec) (j : Nat) :
    (jev j (step s x).2 = [] ∧ (step s x).1.peers[j]? = s.peers[j]?) ∨
    (jev j (step s x).2 = [.reset] ∧
      (step s x).1.peers[j]? = (s.peers[j]?).map (fun e => (e.1, e.2.clearLast))) ∨
    (∃ now snap outcome e t, x = .pass now snap outcome ∧ s.peers[j]? = some e ∧
      decideOne s.cfg now s.queue.isEmpty e.2 = some t ∧
      jev j (step s x).2 = [.att ⟨now, s.queue.isEmpty, t, flagsOf e.2, (outcome j).1, (outcome j).2⟩] ∧
      (step s x).1.peers[j]? = some (entryAfter snap s.queue outcome j (t, e.2.resets) e)) := by
  cases x with
  | push m => left; simp [step, jev, push]
  | incoming i flags =>
    by_cases h : i = j ∧ flags &&& FLAG_RESET = FLAG_RESET
    · right; left
      obtain ⟨rfl, hf⟩ := h
      simp only [step, jev, hf, and_self, if_true, incoming, true_and]
      rw [incomingPeers_self]
      simp [onIncomingFlags, hf]
    · left
      simp only [step, jev, h, if_false, incoming, true_and]
      by_cases hij : i = j
      · subst hij
        have hf : ¬ (flags &&& FLAG_RESET = FLAG_RESET) := fun hf => h ⟨rfl, hf⟩
        rw [incomingPeers_self]
        cases s.peers[i]? <;> simp [onIncomingFlags, hf]
      · exact incomingPeers_ne _ _ _ _ hij
  | pass now snap outcome =>
    have hw := outIter_wire s now snap outcome j
    have hp := outIter_peer s now snap outcome j
    cases he : s.peers[j]? with
    | none =>
      left
      rw [he] at hw hp
      simp only [Option.bind_none, Option.map_none] at hw hp
      simp [step, jev, hw, hp]
    | some e =>
      rw [he] at hw hp
      simp only [Option.bind_some, Option.map_some] at hw hp
      cases hd : decideEntry s.cfg s.self now s.queue.isEmpty e with
      | none =>
        left
        rw [hd] at hw hp
        simp only [Option.map_none] at hw
        simp [step, jev, hw, hp]
      | some ts =>
        right; right
        rw [hd] at hw hp
        simp only [Option.map_some] at hw
        unfold decideEntry at hd
        split at hd
        · cases hd
        · cases hdo : decideOne s.cfg now s.queue.isEmpty e.2 with
          | none => rw [hdo] at hd; cases hd
          | some t =>
            rw [hdo] at hd
            simp only [Option.map_some, Option.some.injEq] at hd
            subst hd
            refine ⟨now, snap, outcome, e, t, rfl, rfl, hdo, ?_, ?_⟩
            · simp [step, jev, hw, wireOf]
            · simp [step, hp]

/-! ## the pass in small steps (`passSmall`): invariants under every interleaving (used by Props/C07) -/

/-! ### the two fields of device `j` that the two threads share -/

def lcOf (ps : List (String × Peer Rec)) (j : Nat) : Int :=
  match ps[j]? with
  | some e => e.2.lastComms
  | none => 0

def rsOf (ps : List (String × Peer Rec)) (j : Nat) : Nat :=
  match ps[j]? with
  | some e => e.2.resets
  | none => 0

/-- a property of (last_comms, resets) that a handled RESET cannot falsify. -/
def Stable (Q : Int → Nat → Prop) : Prop := ∀ lc rs, Q lc rs → Q 0 (rs + 1)

theorem incoming_fields (ps : List (String × Peer Rec)) (i fl j : Nat) :
    (rsOf (incomingPeers ps i fl) j = rsOf ps j ∧ lcOf (incomingPeers ps i fl) j = lcOf ps j) ∨
    (rsOf (incomingPeers ps i fl) j = rsOf ps j + 1 ∧ lcOf (incomingPeers ps i fl) j = 0) := by
  by_cases hij : i = j
  · subst hij
    unfold lcOf rsOf
    rw [incomingPeers_self]
    cases ps[i]? with
    | none => left; simp
    | some e =>
      by_cases hf : fl &&& FLAG_RESET = FLAG_RESET
      · right; simp [onIncomingFlags, hf, Peer.clearLast]
      · left; simp [onIncomingFlags, hf]
  · left
    unfold lcOf rsOf
    rw [incomingPeers_ne _ _ _ _ hij]
    exact ⟨rfl, rfl⟩

theorem applyInc_stable (Q : Int → Nat → Prop) (hS : Stable Q) (j : Nat) (evs : List (Nat × Nat)) :
    ∀ (ps : List (String × Peer Rec)), Q (lcOf ps j) (rsOf ps j) →
      Q (lcOf (applyInc ps evs) j) (rsOf (applyInc ps evs) j) := by
  induction evs with
  | nil => intro ps h; exact h
  | cons ev evs ih =>
    intro ps h
    simp only [applyInc, List.foldl_cons]
    apply ih
    rcases incoming_fields ps ev.1 ev.2 j with ⟨h1, h2⟩ | ⟨h1, h2⟩
    · rw [h1, h2]; exact h
    · rw [h1, h2]; exact hS _ _ h

/-- a write by the outgoing thread that leaves `last_comms` and `resets` of the written device alone. -/
theorem set_keep (ps : List (String × Peer Rec)) (i j : Nat) (e0 : String × Peer Rec) (u : String) (p' : Peer Rec)
    (h0 : ps[i]? = some e0) (hl : p'.lastComms = e0.2.lastComms) (hr : p'.resets = e0.2.resets) :
    lcOf (ps.set i (u, p')) j = lcOf ps j ∧ rsOf (ps.set i (u, p')) j = rsOf ps j := by
  have hlt : i < ps.length := (List.getElem?_eq_some_iff.mp h0).1
  by_cases hij : i = j
  · subst hij
    simp [lcOf, rsOf, List.getElem?_set_self hlt, h0, hl, hr]
  · simp [lcOf, rsOf, List.getElem?_set_ne hij]

theorem set_other (ps : List (String × Peer Rec)) (i j : Nat) (x : String × Peer Rec) (hij : i ≠ j) :
    lcOf (ps.set i x) j = lcOf ps j ∧ rsOf (ps.set i x) j = rsOf ps j := by
  simp [lcOf, rsOf, List.getElem?_set_ne hij]

theorem set_self (ps : List (String × Peer Rec)) (j : Nat) (e0 : String × Peer Rec) (u : String) (p' : Peer Rec)
    (h0 : ps[j]? = some e0) :
    lcOf (ps.set j (u, p')) j = p'.lastComms ∧ rsOf (ps.set j (u, p')) j = p'.resets := by
  have hlt : j < ps.length := (List.getElem?_eq_some_iff.mp h0).1
  simp [lcOf, rsOf, List.getElem?_set_self hlt]

/-- K(i): the only write of `last_comms` by the outgoing thread is `contacted`, on success, and only
if the reset counter still has the value seen at the decision. -/
theorem bookContact_fields (t : MsgType) (flags err : Nat) (clock : Int) (seen : Nat) (cache : Msg Rec) (p : Peer Rec) :
    (bookContact t flags err clock seen cache p).resets = p.resets ∧
    ((bookContact t flags err clock seen cache p).lastComms = p.lastComms ∨
     (err = 0 ∧ p.resets = seen ∧ (bookContact t flags err clock seen cache p).lastComms = max 0 clock)) := by
  cases t <;> by_cases he : err = 0 <;> by_cases hs : p.resets = seen <;>
    by_cases hf : flags &&& FLAG_RESET = FLAG_RESET <;>
    simp [bookContact, he, hs, hf, clearFlagIfSent, Peer.contacted, Peer.setFlagReset, Peer.clearStash, Peer.appendStash]

theorem prep_fields (t : MsgType) (p : Peer Rec) : (prep t p).lastComms = p.lastComms ∧ (prep t p).resets = p.resets := by
  cases t <;> simp [prep, Peer.clearStash]

theorem foldl_pres {α β : Type} (f : β → α → β) (Good : β → Prop) (l : List α)
    (hstep : ∀ b a, a ∈ l → Good b → Good (f b a)) : ∀ b, Good b → Good (l.foldl f b) := by
  induction l with
  | nil => intro b h; exact h
  | cons a l ih =>
    intro b h
    simp only [List.foldl_cons]
    exact ih (fun b a' ha' hb => hstep b a' (List.mem_cons_of_mem _ ha') hb) _ (hstep b a (List.mem_cons_self ..) h)

/-! ### send phase: one entry -/

/-- a stable property of device `j`'s (last_comms, resets) survives the whole body of one send-loop
iteration — with the listener's steps anywhere inside it — provided it survives the one write
`contacted` can make for this entry. -/
theorem sendSmall_pres (Q : Int → Nat → Prop) (hS : Stable Q) (j : Nat) (snap : Msg Rec) (outcome : Nat → Nat × Int)
    (sched : Point → List (Nat × Nat)) (st : SendSt Rec) (it : Nat × MsgType × Nat)
    (hK : it.1 = j → (outcome j).1 = 0 → ∀ lc, Q lc it.2.2 → Q (max 0 (outcome j).2) it.2.2)
    (h : Q (lcOf st.peers j) (rsOf st.peers j)) :
    Q (lcOf (sendSmall true snap outcome sched st it).peers j) (rsOf (sendSmall true snap outcome sched st it).peers j) := by
  unfold sendSmall
  have h0 := applyInc_stable Q hS j (sched (.beforePre it.1)) _ h
  cases he0 : (applyInc st.peers (sched (.beforePre it.1)))[it.1]? with
  | none => simpa [he0] using h0
  | some e0 =>
    simp only [he0]
    have hk1 := set_keep _ it.1 j e0 e0.1 (prep it.2.1 e0.2) he0 (prep_fields _ _).1 (prep_fields _ _).2
    have h1 : Q (lcOf ((applyInc st.peers (sched (.beforePre it.1))).set it.1 (e0.1, prep it.2.1 e0.2)) j)
        (rsOf ((applyInc st.peers (sched (.beforePre it.1))).set it.1 (e0.1, prep it.2.1 e0.2)) j) := by
      rw [hk1.1, hk1.2]; exact h0
    have h2 := applyInc_stable Q hS j (sched (.duringSend it.1)) _ h1
    generalize applyInc ((applyInc st.peers (sched (.beforePre it.1))).set it.1 (e0.1, prep it.2.1 e0.2))
      (sched (.duringSend it.1)) = ps1 at h2 ⊢
    cases he1 : ps1[it.1]? with
    | none => simpa [he1] using h2
    | some e1 =>
      simp only [if_true]
      generalize hpk : bookContact it.2.1 (flagsOf e0.2) (outcome it.1).1 (outcome it.1).2 it.2.2
        ((fetch it.2.1 st.cache st.queue).1.getD Msg.empty) e1.2 = pk
      have hbf := bookContact_fields it.2.1 (flagsOf e0.2) (outcome it.1).1 (outcome it.1).2 it.2.2
        ((fetch it.2.1 st.cache st.queue).1.getD Msg.empty) e1.2
      rw [hpk] at hbf
      have h3 : Q (lcOf (ps1.set it.1 (e1.1, pk)) j) (rsOf (ps1.set it.1 (e1.1, pk)) j) := by
        rcases hbf with ⟨hr, hl | ⟨herr, hseen, hl⟩⟩
        · have := set_keep ps1 it.1 j e1 e1.1 pk he1 hl hr
          rw [this.1, this.2]; exact h2
        · by_cases hij : it.1 = j
          · have hs := set_self ps1 j e1 e1.1 pk (by rw [← hij]; exact he1)
            rw [hij] at hl herr
            have hrs : rsOf ps1 j = it.2.2 := by
              unfold rsOf; rw [← hij, he1]; exact hseen
            rw [hij, hs.1, hs.2, hl, hr, hseen]
            rw [hrs] at h2
            exact hK hij herr _ h2
          · have := set_other ps1 it.1 j (e1.1, pk) hij
            rw [this.1, this.2]; exact h2
      have h4 := applyInc_stable Q hS j (sched (.beforeAttempt it.1)) _ h3
      generalize applyInc (ps1.set it.1 (e1.1, pk)) (sched (.beforeAttempt it.1)) = ps2 at h4 ⊢
      cases he2 : ps2[it.1]? with
      | none => simpa [he2] using h4
      | some e2 =>
        simp only
        have := set_keep ps2 it.1 j e2 e2.1 (e2.2.setLastAttempt (outcome it.1).2) he2 rfl rfl
        rw [this.1, this.2]; exact h4

/-! ### decision phase: one device -/

/-- what is known of an `outlist` entry for device `j`: it was chosen by the mode-selection tree from
a `last_comms` reading `lc` that satisfies `L lc seen`. -/
def AllD (cfg : Periods) (now : Int) (j : Nat) (L : Int → Nat → Prop) (ol : List (Nat × MsgType × Nat)) : Prop :=
  ∀ t seen, (j, t, seen) ∈ ol → ∃ lc a q st, selectMode cfg (now - lc) a q st = some t ∧ L lc seen

theorem decideSmall_pres (Q : Int → Nat → Prop) (hS : Stable Q) (L : Int → Nat → Prop) (j : Nat)
    (hL : ∀ lc1 seen lc rs, Q lc1 seen → Q lc rs → rs ≥ seen → L lc seen)
    (cfg : Periods) (self : String) (now : Int) (qE : Nat → Bool) (sched : Point → List (Nat × Nat))
    (acc : List (String × Peer Rec) × List (Nat × MsgType × Nat)) (i : Nat)
    (h : Q (lcOf acc.1 j) (rsOf acc.1 j) ∧ AllD cfg now j L acc.2) :
    Q (lcOf (decideSmall cfg self now qE sched acc i).1 j) (rsOf (decideSmall cfg self now qE sched acc i).1 j) ∧
    AllD cfg now j L (decideSmall cfg self now qE sched acc i).2 := by
  obtain ⟨hq, hd⟩ := h
  unfold decideSmall
  cases hacc : acc.1[i]? with
  | none => exact ⟨hq, hd⟩
  | some e =>
    simp only
    by_cases hself : e.1 = self
    · simp only [hself, if_true]; exact ⟨hq, hd⟩
    · simp only [hself, if_false]
      have h1 := applyInc_stable Q hS j (sched (.beforeResets i)) _ hq
      generalize applyInc acc.1 (sched (.beforeResets i)) = ps1 at h1 ⊢
      cases he1 : ps1[i]? with
      | none => exact ⟨h1, hd⟩
      | some e1 =>
        simp only
        have h2 := applyInc_stable Q hS j (sched (.beforeComms i)) _ h1
        have hm2 := applyInc_stable (fun _ rs => rs ≥ rsOf ps1 j) (by intro _ rs h; simp at h ⊢; omega) j
          (sched (.beforeComms i)) ps1 (by simp)
        generalize applyInc ps1 (sched (.beforeComms i)) = ps2 at h2 hm2 ⊢
        cases he2 : ps2[i]? with
        | none => exact ⟨h2, hd⟩
        | some e2 =>
          simp only
          have h3 := applyInc_stable Q hS j (sched (.beforeRest i)) _ h2
          generalize applyInc ps2 (sched (.beforeRest i)) = ps3 at h3 ⊢
          cases he3 : ps3[i]? with
          | none => exact ⟨h3, hd⟩
          | some e3 =>
            simp only
            cases hsel : selectMode cfg (now - e2.2.lastComms) (now - e3.2.lastAttempt) (qE i) e3.2.sizeStash with
            | none => exact ⟨h3, hd⟩
            | some t =>
              refine ⟨h3, ?_⟩
              intro t' seen' hmem
              simp only [List.mem_append, List.mem_singleton, Prod.mk.injEq] at hmem
              rcases hmem with hmem | ⟨hji, rfl, rfl⟩
              · exact hd t' seen' hmem
              · subst hji
                refine ⟨e2.2.lastComms, _, _, _, hsel, ?_⟩
                have e1rs : rsOf ps1 j = e1.2.resets := by simp [rsOf, he1]
                have e2lc : lcOf ps2 j = e2.2.lastComms := by simp [lcOf, he2]
                rw [e1rs] at h1 hm2
                rw [e2lc] at h2
                exact hL _ _ _ _ h1 h2 hm2

/-! ### the whole pass -/

theorem passSmall_pres (Q : Int → Nat → Prop) (hS : Stable Q) (L : Int → Nat → Prop) (j : Nat)
    (hL : ∀ lc1 seen lc rs, Q lc1 seen → Q lc rs → rs ≥ seen → L lc seen)
    (Q2 : List (Nat × MsgType × Nat) → Int → Nat → Prop) (hS2 : ∀ ol, Stable (Q2 ol))
    (s : TState Rec) (now : Int) (qE : Nat → Bool) (snap : Msg Rec) (outcome : Nat → Nat × Int)
    (sched : Point → List (Nat × Nat))
    (hQ2 : ∀ ol lc rs, Q lc rs → Q2 ol lc rs)
    (hK : ∀ ol, AllD s.cfg now j L ol → ∀ t seen, (j, t, seen) ∈ ol → (outcome j).1 = 0 →
      ∀ lc, Q2 ol lc seen → Q2 ol (max 0 (outcome j).2) seen)
    (h : Q (lcOf s.peers j) (rsOf s.peers j)) :
    let r := passSmall s now qE snap outcome sched
    AllD s.cfg now j L r.2.2 ∧ Q2 r.2.2 (lcOf r.1.peers j) (rsOf r.1.peers j) := by
  intro r
  have hdec := foldl_pres (decideSmall s.cfg s.self now qE sched)
    (fun acc => Q (lcOf acc.1 j) (rsOf acc.1 j) ∧ AllD s.cfg now j L acc.2) (List.range s.peers.length)
    (fun acc i _ hacc => decideSmall_pres Q hS L j hL s.cfg s.self now qE sched acc i hacc)
    (s.peers, []) ⟨h, by intro t seen hm; simp at hm⟩
  generalize hd : (List.range s.peers.length).foldl (decideSmall s.cfg s.self now qE sched) (s.peers, []) = d at hdec
  obtain ⟨hq, hall⟩ := hdec
  have hsend := foldl_pres (sendSmall true snap outcome sched)
    (fun st => Q2 d.2 (lcOf st.peers j) (rsOf st.peers j)) d.2
    (fun st it hit hst => sendSmall_pres (Q2 d.2) (hS2 d.2) j snap outcome sched st it
      (by
        intro hij herr lc hlc
        obtain ⟨i, t, seen⟩ := it
        simp only at hij; subst hij
        exact hK d.2 hall t seen hit herr lc hlc) hst)
    ⟨d.1, s.queue, none, []⟩ (hQ2 _ _ _ hq)
  have hend := applyInc_stable (Q2 d.2) (hS2 d.2) j (sched .atEnd) _ hsend
  have hr : r = passSmall s now qE snap outcome sched := rfl
  simp only [passSmall, passSmallG, hd] at hr
  rw [hr]
  exact ⟨hall, hend⟩

/-! ### without listener steps the small-step pass is the sequential pass -/

theorem sendSmall_nil (snap : Msg Rec) (outcome : Nat → Nat × Int) :
    sendSmall true snap outcome (fun _ => []) = sendOne snap outcome := by
  funext st it
  unfold sendSmall sendOne
  simp only [applyInc, List.foldl_nil]
  cases h : st.peers[it.1]? with
  | none => rfl
  | some e0 =>
    have hlt : it.1 < st.peers.length := (List.getElem?_eq_some_iff.mp h).1
    simp [List.getElem?_set_self hlt, List.set_set, sendPeer, book]

theorem decideSmall_nil (cfg : Periods) (self : String) (now : Int) (q : Bool)
    (ps : List (String × Peer Rec)) (ol : List (Nat × MsgType × Nat)) (i : Nat) (e : String × Peer Rec)
    (h : ps[i]? = some e) :
    decideSmall cfg self now (fun _ => q) (fun _ => []) (ps, ol) i =
      (ps, ol ++ (match decideEntry cfg self now q e with
                  | some ts => [(i, ts)]
                  | none => [])) := by
  unfold decideSmall decideEntry decideOne
  simp only [applyInc, List.foldl_nil, h]
  by_cases hs : e.1 = self
  · simp [hs]
  · simp only [hs, if_false]
    cases selectMode cfg (now - e.2.lastComms) (now - e.2.lastAttempt) q e.2.sizeStash <;> simp

theorem decidePhase_cons (cfg : Periods) (self : String) (now : Int) (q : Bool) (e : String × Peer Rec)
    (rest : List (String × Peer Rec)) :
    decidePhase cfg self now q (e :: rest) =
      match decideEntry cfg self now q e with
      | some t => (0, t) :: (decidePhase cfg self now q rest).map (fun it => (it.1 + 1, it.2))
      | none => (decidePhase cfg self now q rest).map (fun it => (it.1 + 1, it.2)) := rfl

theorem decideFold_nil (cfg : Periods) (self : String) (now : Int) (q : Bool) :
    ∀ (rest pre : List (String × Peer Rec)) (ol : List (Nat × MsgType × Nat)),
      (List.range' pre.length rest.length).foldl (decideSmall cfg self now (fun _ => q) (fun _ => [])) (pre ++ rest, ol) =
        (pre ++ rest, ol ++ (decidePhase cfg self now q rest).map (fun it => (it.1 + pre.length, it.2))) := by
  intro rest
  induction rest with
  | nil => intro pre ol; simp [decidePhase]
  | cons e rest ih =>
    intro pre ol
    have hget : (pre ++ e :: rest)[pre.length]? = some e := by simp
    simp only [List.length_cons, List.range'_succ, List.foldl_cons]
    rw [decideSmall_nil cfg self now q _ ol _ e hget]
    have := ih (pre ++ [e]) (ol ++ (match decideEntry cfg self now q e with
                  | some ts => [(pre.length, ts)]
                  | none => []))
    simp only [List.length_append, List.length_cons, List.length_nil, List.append_assoc, List.cons_append,
      List.nil_append] at this
    rw [this]
    congr 1
    rw [decidePhase_cons]
    cases decideEntry cfg self now q e with
    | none =>
      simp only [List.nil_append, List.map_map]
      congr 1
      apply List.map_congr_left
      intro a _
      simp; omega
    | some ts =>
      simp only [List.map_cons, List.map_map, List.cons_append, List.nil_append, Nat.zero_add]
      congr 2
      apply List.map_congr_left
      intro a _
      simp; omega

end Bobo.Tcp
