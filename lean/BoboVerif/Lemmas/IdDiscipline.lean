import BoboVerif.Lemmas.LocalExact
/-!
Where the records of a notification come from (provenance), and the identifier
discipline of `update()`: records of the runs phase name runs of the table,
records of the patterns phase carry fresh identifiers `idOf k`, `nextId ≤ k`,
pairwise different.  Used to DERIVE the identifier hygiene that
`replica_mirrors_runs` assumes.
-/
namespace Bobo.Decider
open Bobo.Run Bobo.Lattice
set_option linter.unusedSimpArgs false
set_option linter.unusedVariables false
variable {ε : Type}

/-- the same rules with another run-identifier source (each instance hands out its own identifiers). -/
def withIds (c : Cfg ε) (f : Nat → String) : Cfg ε := { c with idOf := f }

theorem remoteStep_ids (c : Cfg ε) (f g : Nat → String) :
    remoteStep (withIds c f) = (remoteStep (withIds c g) : DState ε → _) := rfl

/-! ### runs phase -/

/-- every record of one bucket's loop carries the identifier of a run of the bucket. -/
theorem procBucket_ids (e : ε) (ph : String) (rs : List (LRun ε)) :
    ∀ x ∈ (procBucket e ph rs).hc ++ (procBucket e ph rs).hi ++ (procBucket e ph rs).upd,
      ∃ r ∈ rs, r.run.id = x.id := by
  induction rs with
  | nil => simp [procBucket_nil]
  | cons r rest ih =>
    rw [procBucket_cons]
    have hs := contrib_shape e ph r
    generalize contrib e ph r = cr at hs
    have lift : ∀ x : Rec ε, (∃ r0 ∈ rest, r0.run.id = x.id) → ∃ r0 ∈ r :: rest, r0.run.id = x.id :=
      fun x ⟨r0, h0, h1⟩ => ⟨r0, List.mem_cons_of_mem _ h0, h1⟩
    have here : ∀ r' : LRun ε, r'.run.id = r.run.id → ∃ r0 ∈ r :: rest, r0.run.id = (r'.ser ph).id :=
      fun r' hid => ⟨r, List.mem_cons_self .., hid.symm⟩
    intro x hx
    cases hs with
    | completed r' hid hpat0 =>
      simp only [RunsAcc.append, List.singleton_append, List.nil_append, List.mem_append, List.mem_cons] at hx
      rcases hx with ((e1 | h1) | h1) | h1
      · subst e1; exact here r' hid
      · exact lift x (ih x (by simp [h1]))
      · exact lift x (ih x (by simp [h1]))
      · exact lift x (ih x (by simp [h1]))
    | halted r' hid hpat0 =>
      simp only [RunsAcc.append, List.singleton_append, List.nil_append, List.mem_append, List.mem_cons] at hx
      rcases hx with (h1 | (e1 | h1)) | h1
      · exact lift x (ih x (by simp [h1]))
      · subst e1; exact here r' hid
      · exact lift x (ih x (by simp [h1]))
      · exact lift x (ih x (by simp [h1]))
    | updated r' hid hpat hle hah hlv =>
      simp only [RunsAcc.append, List.singleton_append, List.nil_append, List.mem_append, List.mem_cons] at hx
      rcases hx with (h1 | h1) | (e1 | h1)
      · exact lift x (ih x (by simp [h1]))
      · exact lift x (ih x (by simp [h1]))
      · subst e1; exact here r' hid
      · exact lift x (ih x (by simp [h1]))
    | same =>
      simp only [RunsAcc.append, List.nil_append] at hx
      exact lift x (ih x hx)

theorem find_isSome_of_mem_id (rs : List (LRun ε)) (id : String) (h : ∃ r ∈ rs, r.run.id = id) :
    (rs.find? (fun r => r.run.id == id)).isSome = true := by
  obtain ⟨r, hr, hid⟩ := h
  rw [List.find?_isSome]
  exact ⟨r, hr, by simp [hid]⟩

/-- **provenance of the runs phase**: every completed / halted / updated record produced by
`_check_against_runs` names (by its full key) a run the table held. -/
theorem checkAgainstRuns_provenance (e : ε) (t : Table ε) (h : TableWF t) :
    ∀ x ∈ (checkAgainstRuns e t).2.1 ++ (checkAgainstRuns e t).2.2.1 ++ (checkAgainstRuns e t).2.2.2,
      (t.runAt x.phen x.pat x.id).isSome = true := by
  obtain ⟨hl1, hl2, hl3⟩ := checkAgainstRuns_lists e t
  intro x hx
  rw [hl1, hl2, hl3] at hx
  -- the bucket the record came from
  have hb : ∃ b ∈ t.buckets, x ∈ (procBucket e b.1 b.2.2).hc ++ (procBucket e b.1 b.2.2).hi ++ (procBucket e b.1 b.2.2).upd := by
    simp only [List.mem_append, List.mem_flatMap] at hx ⊢
    rcases hx with (⟨b, hb, hm⟩ | ⟨b, hb, hm⟩) | ⟨b, hb, hm⟩
    · exact ⟨b, hb, .inl (.inl hm)⟩
    · exact ⟨b, hb, .inl (.inr hm)⟩
    · exact ⟨b, hb, .inr hm⟩
  obtain ⟨⟨bph, bpa, brs⟩, hbm, hxm⟩ := hb
  have hrs := mem_buckets t h bph bpa brs hbm
  have hnames : ∀ r ∈ brs, r.pat.name = bpa := by rw [← hrs]; exact h.names bph bpa
  obtain ⟨k1, k2⟩ := hc_hi_keys e bph bpa brs hnames
  have k3 := upd_keys e bph bpa brs hnames
  have hkey : x.phen = bph ∧ x.pat = bpa := by
    simp only [List.mem_append] at hxm
    rcases hxm with (hm | hm) | hm
    · exact k1 x hm
    · exact k2 x hm
    · exact k3 x hm
  have hid := procBucket_ids e bph brs x hxm
  rw [runAt_def, hkey.1, hkey.2, hrs]
  exact find_isSome_of_mem_id brs x.id hid

/-- what `_check_against_runs` keeps under a key was stored under that key before. -/
theorem checkAgainstRuns_kept_old (e : ε) (t : Table ε) (h : TableWF t) (ph pa id : String) (r1 : LRun ε)
    (hk : (checkAgainstRuns e t).1.runAt ph pa id = some r1) : (t.runAt ph pa id).isSome = true := by
  obtain ⟨x1, _, _, _⟩ := procBucket_exact e ph pa id (t.runsFrom ph pa) (h.ids ph pa) (h.names ph pa)
  rw [runAt_def, runsFrom_checkAgainstRuns, x1] at hk
  rw [runAt_def]
  cases hf : (t.runsFrom ph pa).find? (fun r => r.run.id == id) with
  | none => rw [hf] at hk; simp [contribOf] at hk
  | some r0 => rfl

/-! ### patterns phase -/

/-- identifiers handed out by a stretch of `_check_against_patterns`: every appended record carries
`idOf k` for a counter value `k` of this stretch, a completed-at-once record and a stored run never share an
identifier, and no two stored runs do. -/
structure PatIds (c : Cfg ε) (a b : PatAcc ε) : Prop where
  next : a.nextId ≤ b.nextId
  lists : ∃ dh du, b.hc = a.hc ++ dh ∧ b.upd = a.upd ++ du ∧
    (∀ x ∈ dh ++ du, ∃ k, a.nextId ≤ k ∧ k < b.nextId ∧ x.id = c.idOf k) ∧
    (∀ x ∈ dh, ∀ y ∈ du, x.id ≠ y.id) ∧ (du.map (·.id)).Nodup ∧ (dh.map (·.id)).Nodup

theorem PatIds.refl (c : Cfg ε) (a : PatAcc ε) : PatIds c a a :=
  ⟨Nat.le_refl _, [], [], by simp, by simp, by simp, by simp, by simp, by simp⟩

theorem PatIds.trans {c : Cfg ε} (hinj : ∀ i j, c.idOf i = c.idOf j → i = j) {a b d : PatAcc ε}
    (h1 : PatIds c a b) (h2 : PatIds c b d) : PatIds c a d := by
  obtain ⟨dh1, du1, e1, f1, r1, s1, n1, m1⟩ := h1.lists
  obtain ⟨dh2, du2, e2, f2, r2, s2, n2, m2⟩ := h2.lists
  have hn1 := h1.next
  have hn2 := h2.next
  -- ranges: first stretch below b.nextId, second at or above
  have lo : ∀ x ∈ dh1 ++ du1, ∃ k, a.nextId ≤ k ∧ k < b.nextId ∧ x.id = c.idOf k := r1
  have hi : ∀ x ∈ dh2 ++ du2, ∃ k, b.nextId ≤ k ∧ k < d.nextId ∧ x.id = c.idOf k := r2
  have cross : ∀ x ∈ dh1 ++ du1, ∀ y ∈ dh2 ++ du2, x.id ≠ y.id := by
    intro x hx y hy hxy
    obtain ⟨k, _, hk, ek⟩ := lo x hx
    obtain ⟨k', hk', _, ek'⟩ := hi y hy
    have := hinj k k' (by rw [← ek, ← ek', hxy])
    omega
  refine ⟨Nat.le_trans hn1 hn2, dh1 ++ dh2, du1 ++ du2, by rw [e2, e1, List.append_assoc],
    by rw [f2, f1, List.append_assoc], ?_, ?_, ?_, ?_⟩
  · intro x hx
    have : x ∈ dh1 ++ du1 ∨ x ∈ dh2 ++ du2 := by
      simp only [List.mem_append] at hx ⊢
      rcases hx with (h | h) | (h | h)
      · exact .inl (.inl h)
      · exact .inr (.inl h)
      · exact .inl (.inr h)
      · exact .inr (.inr h)
    rcases this with h | h
    · obtain ⟨k, h1', h2', h3'⟩ := lo x h; exact ⟨k, h1', by omega, h3'⟩
    · obtain ⟨k, h1', h2', h3'⟩ := hi x h; exact ⟨k, by omega, h2', h3'⟩
  · intro x hx y hy
    rcases List.mem_append.mp hx with hx1 | hx2 <;> rcases List.mem_append.mp hy with hy1 | hy2
    · exact s1 x hx1 y hy1
    · exact cross x (List.mem_append.mpr (.inl hx1)) y (List.mem_append.mpr (.inr hy2))
    · exact fun e0 => cross y (List.mem_append.mpr (.inr hy1)) x (List.mem_append.mpr (.inl hx2)) e0.symm
    · exact s2 x hx2 y hy2
  · rw [List.map_append, List.nodup_append]
    refine ⟨n1, n2, ?_⟩
    intro i hi1 j hj2 hij
    obtain ⟨x, hx, ex⟩ := List.mem_map.mp hi1
    obtain ⟨y, hy, ey⟩ := List.mem_map.mp hj2
    exact cross x (List.mem_append.mpr (.inr hx)) y (List.mem_append.mpr (.inr hy)) (by rw [ex, ey, hij])
  · rw [List.map_append, List.nodup_append]
    refine ⟨m1, m2, ?_⟩
    intro i hi1 j hj2 hij
    obtain ⟨x, hx, ex⟩ := List.mem_map.mp hi1
    obtain ⟨y, hy, ey⟩ := List.mem_map.mp hj2
    exact cross x (List.mem_append.mpr (.inl hx)) y (List.mem_append.mpr (.inl hy)) (by rw [ex, ey, hij])

theorem checkPattern_ids (c : Cfg ε) (e : ε) (ph0 : String) (acc acc' : PatAcc ε) (p : Pattern ε)
    (hs : checkPattern c e ph0 acc p = some acc') : PatIds c acc acc' := by
  unfold checkPattern at hs
  cases hb : p.blocks with
  | nil => simp [hb] at hs
  | cons b0 rest =>
    simp only [hb] at hs
    by_cases hm : startMatch b0.preds e = true
    · simp only [hm, if_true] at hs
      split at hs
      · simp only [Option.some.injEq] at hs; subst hs
        refine ⟨Nat.le_succ _, [_], [], rfl, by simp, ?_, by simp, by simp, by simp⟩
        intro x hx
        simp only [List.append_nil, List.mem_singleton] at hx
        subst hx
        exact ⟨acc.nextId, Nat.le_refl _, Nat.lt_succ_self _, rfl⟩
      · split at hs
        · cases hadd : acc.table.add ph0 p.name { run := newRun (c.idOf acc.nextId) p b0.group e, pat := p } with
          | none => simp [hadd] at hs
          | some t' =>
            simp only [hadd, Option.some.injEq] at hs
            subst hs
            refine ⟨Nat.le_succ _, [], [_], by simp, rfl, ?_, by simp, by simp, by simp⟩
            intro x hx
            simp only [List.nil_append, List.mem_singleton] at hx
            subst hx
            exact ⟨acc.nextId, Nat.le_refl _, Nat.lt_succ_self _, rfl⟩
        · simp only [Option.some.injEq] at hs; subst hs
          exact ⟨Nat.le_succ _, [], [], by simp, by simp, by simp, by simp, by simp, by simp⟩
    · simp only [hm, Bool.false_eq_true, if_false, Option.some.injEq] at hs
      subst hs; exact PatIds.refl c _

theorem checkAgainstPatterns_ids (c : Cfg ε) (hinj : ∀ i j, c.idOf i = c.idOf j → i = j) (e : ε) (t : Table ε)
    (n : Nat) (acc : PatAcc ε) (hs : checkAgainstPatterns c e t n = some acc) :
    PatIds c { table := t, nextId := n } acc := by
  unfold checkAgainstPatterns at hs
  refine foldlM'_rel (PatIds c) (PatIds.refl c) (fun _ _ _ => PatIds.trans hinj) _ c.phenomena ?_ _ _ hs
  intro b P b' _ hf
  exact foldlM'_rel (PatIds c) (PatIds.refl c) (fun _ _ _ => PatIds.trans hinj) _ P.patterns
    (fun b1 p b1' _ hf1 => checkPattern_ids c e P.name b1 b1' p hf1) _ _ hf

/-- keys of unknown patterns are not touched by `_check_against_patterns`. -/
def PatFrame (c : Cfg ε) (a b : PatAcc ε) : Prop :=
  ∀ ph pa id, c.getPattern ph pa = none → b.table.runAt ph pa id = a.table.runAt ph pa id

theorem checkPattern_frame (c : Cfg ε) (e : ε) (ph0 : String) (acc acc' : PatAcc ε) (p : Pattern ε)
    (hres : c.getPattern ph0 p.name = some p)
    (hs : checkPattern c e ph0 acc p = some acc') : PatFrame c acc acc' := by
  unfold checkPattern at hs
  cases hb : p.blocks with
  | nil => simp [hb] at hs
  | cons b0 rest =>
    simp only [hb] at hs
    by_cases hm : startMatch b0.preds e = true
    · simp only [hm, if_true] at hs
      split at hs
      · simp only [Option.some.injEq] at hs; subst hs
        exact fun _ _ _ _ => rfl
      · split at hs
        · cases hadd : acc.table.add ph0 p.name { run := newRun (c.idOf acc.nextId) p b0.group e, pat := p } with
          | none => simp [hadd] at hs
          | some t' =>
            simp only [hadd, Option.some.injEq] at hs
            subst hs
            intro ph pa id hnone
            simp only
            rw [runAt_add _ _ _ _ _ hadd]
            have : ¬ (ph = ph0 ∧ pa = p.name ∧ id = (newRun (c.idOf acc.nextId) p b0.group e).id) := by
              intro ⟨e1, e2, _⟩
              rw [e1, e2, hres] at hnone
              exact absurd hnone (by simp)
            simp [this]
        · simp only [Option.some.injEq] at hs; subst hs
          exact fun _ _ _ _ => rfl
    · simp only [hm, Bool.false_eq_true, if_false, Option.some.injEq] at hs
      subst hs; exact fun _ _ _ _ => rfl

theorem checkAgainstPatterns_frame (c : Cfg ε) (hcw : CfgWF c) (e : ε) (t : Table ε) (n : Nat) (acc : PatAcc ε)
    (hs : checkAgainstPatterns c e t n = some acc) : PatFrame c { table := t, nextId := n } acc := by
  unfold checkAgainstPatterns at hs
  refine foldlM'_rel (PatFrame c) (fun _ _ _ _ _ => rfl)
    (fun _ _ _ h1 h2 ph pa id hn => (h2 ph pa id hn).trans (h1 ph pa id hn)) _ c.phenomena ?_ _ _ hs
  intro b P b' hP hf
  exact foldlM'_rel (PatFrame c) (fun _ _ _ _ _ => rfl)
    (fun _ _ _ h1 h2 ph pa id hn => (h2 ph pa id hn).trans (h1 ph pa id hn)) _ P.patterns
    (fun b1 p b1' hp hf1 => checkPattern_frame c e P.name b1 b1' p (hcw P hP p hp) hf1) _ _ hf

end Bobo.Decider
