import BoboVerif.Lemmas.Abs
import BoboVerif.Props.C13
/-!
Well-formedness of the run table — what a nest of Python dicts guarantees by
construction: keys are unique at both levels, run ids are unique inside a
bucket, and a run is stored under the name of the pattern it holds.  Preserved
by every table operation and by `_check_against_runs`.
-/
namespace Bobo.Decider
open Bobo.Run
set_option linter.unusedSimpArgs false
variable {ε : Type}

def KeysNodup {α} (l : List (String × α)) : Prop := (l.map (·.1)).Nodup

structure TableWF (t : Table ε) : Prop where
  k1 : KeysNodup t
  k2 : ∀ ph pats, (ph, pats) ∈ t → KeysNodup pats
  ids : ∀ ph pa, ((t.runsFrom ph pa).map (·.run.id)).Nodup
  names : ∀ ph pa, ∀ r ∈ t.runsFrom ph pa, r.pat.name = pa

theorem lookup_of_mem {α} (l : List (String × α)) (h : KeysNodup l) (k : String) (v : α) (hm : (k, v) ∈ l) :
    lookup k l = some v := by
  induction l with
  | nil => simp at hm
  | cons kv rest ih =>
    obtain ⟨a, w⟩ := kv
    simp only [KeysNodup, List.map_cons, List.nodup_cons] at h
    rcases List.mem_cons.mp hm with e | e
    · simp only [Prod.mk.injEq] at e
      obtain ⟨e1, e2⟩ := e; subst e1 e2
      simp [lookup_cons]
    · have hne : a ≠ k := by
        intro e2; subst e2
        exact h.1 (List.mem_map.mpr ⟨(a, v), e, rfl⟩)
      simp only [lookup_cons, hne, if_false]
      exact ih h.2 e

theorem mem_of_lookup {α} (l : List (String × α)) (k : String) (v : α) (h : lookup k l = some v) : (k, v) ∈ l := by
  induction l with
  | nil => simp [lookup] at h
  | cons kv rest ih =>
    obtain ⟨a, w⟩ := kv
    simp only [lookup_cons] at h
    by_cases e : a = k
    · subst e; simp at h; subst h; exact List.mem_cons_self ..
    · simp only [e, if_false] at h; exact List.mem_cons_of_mem _ (ih h)

theorem keys_amod {α} (k : String) (create : Bool) (f : α → α) (d : α) (l : List (String × α)) :
    (amod k create f d l).map (·.1) = l.map (·.1) ∨
    (l.any (·.1 == k) = false ∧ (amod k create f d l).map (·.1) = l.map (·.1) ++ [k]) := by
  unfold amod
  by_cases hany : l.any (·.1 == k) = true
  · left
    simp only [hany, if_true, List.map_map]
    apply List.map_congr_left
    intro x _
    simp only [Function.comp]
    split <;> rfl
  · have hany' : l.any (·.1 == k) = false := Bool.eq_false_iff.mpr hany
    cases create
    · left; simp only [hany', Bool.false_eq_true, if_false]
    · right
      refine ⟨hany', ?_⟩
      simp only [hany', Bool.false_eq_true, if_false, if_true, List.map_append, List.map_cons, List.map_nil]

theorem keysNodup_amod {α} (k : String) (create : Bool) (f : α → α) (d : α) (l : List (String × α))
    (h : KeysNodup l) : KeysNodup (amod k create f d l) := by
  unfold KeysNodup at *
  rcases keys_amod k create f d l with e | ⟨hany, e⟩
  · rw [e]; exact h
  · rw [e, List.nodup_append]
    refine ⟨h, by simp, ?_⟩
    intro a ha b hb
    simp only [List.mem_singleton] at hb
    subst hb
    intro e2; subst e2
    obtain ⟨x, hx, hxe⟩ := List.mem_map.mp ha
    have : l.any (·.1 == x.1) = true := List.any_eq_true.mpr ⟨x, hx, by simp⟩
    rw [hxe] at this
    rw [hany] at this
    exact absurd this (by decide)

theorem mem_amod {α} (k : String) (create : Bool) (f : α → α) (d : α) (l : List (String × α))
    (k' : String) (v : α) (hm : (k', v) ∈ amod k create f d l) :
    (k', v) ∈ l ∨ (k' = k ∧ ((∃ w, (k, w) ∈ l ∧ v = f w) ∨ v = f d)) := by
  unfold amod at hm
  split at hm
  · obtain ⟨x, hx, hxe⟩ := List.mem_map.mp hm
    split at hxe
    · rename_i hk
      simp only [Prod.mk.injEq] at hxe
      have : x.1 = k := by simpa using hk
      right
      refine ⟨hxe.1.symm.trans this, .inl ⟨x.2, ?_, hxe.2.symm⟩⟩
      rw [← this]; exact hx
    · left; rw [← hxe]; exact hx
  · split at hm
    · rcases List.mem_append.mp hm with e | e
      · exact .inl e
      · simp only [List.mem_singleton, Prod.mk.injEq] at e
        exact .inr ⟨e.1, .inr e.2⟩
    · exact .inl hm

/-- `modify` keeps the key structure well-formed. -/
theorem wf_keys_modify (t : Table ε) (h : TableWF t) (ph pa : String) (create : Bool)
    (f : List (LRun ε) → List (LRun ε)) :
    KeysNodup (t.modify ph pa create f) ∧ ∀ ph' pats, (ph', pats) ∈ t.modify ph pa create f → KeysNodup pats := by
  unfold Table.modify
  refine ⟨keysNodup_amod _ _ _ _ _ h.k1, ?_⟩
  intro ph' pats hm
  rcases mem_amod _ _ _ _ _ _ _ hm with e | ⟨_, ⟨w, hw, e⟩ | e⟩
  · exact h.k2 ph' pats e
  · rw [e]; exact keysNodup_amod _ _ _ _ _ (h.k2 ph w hw)
  · rw [e]; exact keysNodup_amod _ _ _ _ _ (by simp [KeysNodup])

/-- `modify` with a function that keeps ids unique and names right keeps the table well-formed. -/
theorem wf_modify (t : Table ε) (h : TableWF t) (ph pa : String) (create : Bool)
    (f : List (LRun ε) → List (LRun ε)) (hf : create = true ∨ f [] = [])
    (hids : ((f (t.runsFrom ph pa)).map (·.run.id)).Nodup)
    (hnames : ∀ r ∈ f (t.runsFrom ph pa), r.pat.name = pa) : TableWF (t.modify ph pa create f) := by
  obtain ⟨h1, h2⟩ := wf_keys_modify t h ph pa create f
  refine ⟨h1, h2, ?_, ?_⟩
  · intro ph' pa'
    rw [runsFrom_modify _ _ _ _ _ _ _ hf]
    split
    · exact hids
    · exact h.ids ph' pa'
  · intro ph' pa' r hr
    rw [runsFrom_modify _ _ _ _ _ _ _ hf] at hr
    split at hr
    · rename_i e; rw [e.2]; exact hnames r hr
    · exact h.names ph' pa' r hr

theorem wf_empty : TableWF ([] : Table ε) :=
  ⟨by simp [KeysNodup], by simp, by simp [Table.runsFrom, lookup], by simp [Table.runsFrom, lookup]⟩

theorem wf_remove (t : Table ε) (h : TableWF t) (ph pa id : String) : TableWF (t.remove ph pa id) := by
  unfold Table.remove
  apply wf_modify t h ph pa false _ (.inr (by simp))
  · exact ((List.filter_sublist (l := t.runsFrom ph pa)).map _).nodup (h.ids ph pa)
  · intro r hr; exact h.names ph pa r (List.mem_filter.mp hr).1

theorem wf_setBlock (t : Table ε) (h : TableWF t) (ph pa id : String) (i : Nat) (hh : Hist ε) :
    TableWF (t.setBlock ph pa id i hh) := by
  unfold Table.setBlock
  apply wf_modify t h ph pa false _ (.inr (by simp))
  · have : ((t.runsFrom ph pa).map (fun r => if r.run.id == id then { r with run := { r.run with idx := i, hist := hh } } else r)).map (·.run.id)
        = (t.runsFrom ph pa).map (·.run.id) := by
      rw [List.map_map]; apply List.map_congr_left; intro r _; simp only [Function.comp]; split <;> rfl
    rw [this]; exact h.ids ph pa
  · intro r hr
    obtain ⟨x, hx, hxe⟩ := List.mem_map.mp hr
    rw [← hxe]
    split <;> exact h.names ph pa x hx

theorem wf_add (t t' : Table ε) (h : TableWF t) (ph pa : String) (r : LRun ε) (hn : r.pat.name = pa)
    (hadd : t.add ph pa r = some t') : TableWF t' := by
  have hids := add_keeps_unique t t' ph pa r hadd (h.ids ph pa)
  unfold Table.add at hadd
  split at hadd
  · simp at hadd
  · simp only [Option.some.injEq] at hadd
    subst hadd
    apply wf_modify t h ph pa true _ (.inl rfl)
    · rw [runsFrom_modify _ _ _ _ _ true _ (.inl rfl)] at hids; simpa using hids
    · intro x hx
      rcases List.mem_append.mp hx with e | e
      · exact h.names ph pa x e
      · simp only [List.mem_singleton] at e; subst e; exact hn

end Bobo.Decider
