import BoboVerif.Drivers.Util
import BoboVerif.Drivers.IdGen
open Bobo.Drv

def main (args : List String) : IO UInt32 := do
  let stdin ← IO.getStdin
  let stdout ← IO.getStdout
  match args with
  | ["idgen"] => loop Bobo.Drv.IdGen.step stdin stdout {}; return 0
  | _ => IO.eprintln "usage: bobodrv <model>"; return 2
