import BoboVerif.Drivers.Util
import BoboVerif.Drivers.IdGen
import BoboVerif.Drivers.Modes
import BoboVerif.Drivers.Frame
import BoboVerif.Drivers.Crypto
import BoboVerif.Drivers.Json
import BoboVerif.Drivers.Validator
import BoboVerif.Drivers.Actions
import BoboVerif.Drivers.Engine
import BoboVerif.Drivers.EngineAsync
import BoboVerif.Drivers.Locks
import BoboVerif.Drivers.Builder
import BoboVerif.Drivers.Run
import BoboVerif.Drivers.Decider
import BoboVerif.Drivers.Cluster
open Bobo.Drv

/-- `bobodrv <model>`: reads one operation per line on stdin, prints one line per operation. -/
def main (args : List String) : IO UInt32 := do
  let i ← IO.getStdin
  let o ← IO.getStdout
  match args with
  | ["idgen"]     => loop Bobo.Drv.IdGen.step i o {}; return 0
  | ["modes"]     => loop Bobo.Drv.Modes.step i o {}; return 0
  | ["frame"]     => loop Bobo.Drv.Frame.step i o {}; return 0
  | ["crypto"]    => loop Bobo.Drv.Crypto.step i o {}; return 0
  | ["json"]      => loop Bobo.Drv.Json.step i o {}; return 0
  | ["validator"] => loop Bobo.Drv.Validator.step i o {}; return 0
  | ["actions"]   => loop Bobo.Drv.Actions.step i o {}; return 0
  | ["engine"]    => loop Bobo.Drv.Engine.step i o {}; return 0
  | ["engineA"]   => loop Bobo.Drv.EngineAsync.step i o {}; return 0
  | ["locks"]     => loop Bobo.Drv.Locks.step i o {}; return 0
  | ["builder"]   => loop Bobo.Drv.Builder.step i o {}; return 0
  | ["run"]       => loop Bobo.Drv.Run.step i o {}; return 0
  | ["decider"]   => loop Bobo.Drv.Decider.step i o {}; return 0
  | ["cluster"]   => loop Bobo.Drv.Cluster.step i o {}; return 0
  | _ => IO.eprintln "usage: bobodrv <model>"; return 2
